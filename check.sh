#!/usr/bin/env bash
# ./check.sh <Cxx> <quick|thorough>      (cwd = /verif)
# Static analysis of /repo's current working tree; nothing from /repo is run.
set -u
cd "$(dirname "$0")"
export GOFLAGS=-mod=mod GOPROXY=off GOSUMDB=off GOTOOLCHAIN=local GOWORK=off
prop="${1:?property id}"; tier="${2:-${VERIF_TIER:-quick}}"
need_build=0
if [ ! -x bin/neatcheck ]; then need_build=1
elif [ -n "$(find checker -name '*.go' -newer bin/neatcheck -print -quit 2>/dev/null)" ]; then need_build=1
fi
if [ "$need_build" = 1 ]; then
  mkdir -p bin
  if ! (cd checker && go build -o ../bin/neatcheck.tmp.$$ ./cmd/neatcheck) ; then
    echo "VIOLATION property=$prop replay=/verif/replay/build-failed"
    echo "  the checker itself does not build"; rm -f bin/neatcheck.tmp.$$; exit 1
  fi
  mv -f bin/neatcheck.tmp.$$ bin/neatcheck
fi
exec ./bin/neatcheck check "$prop" "$tier"
