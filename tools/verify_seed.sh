#!/usr/bin/env bash
# tools/verify_seed.sh <Cxx> <mK> [nosuite]: confirm a seeded mutation in a scratch worktree of /repo:
# demo fails with the patch, passes without; existing suite green with the patch. Removes the worktree.
set -u
id="$1"; m="$2"; nosuite="${3:-}"
src=/tmp/seed/$id/$m
wt=/tmp/sv_${id}_${m}
log=/tmp/seedverify/${id}_${m}.log
mkdir -p /tmp/seedverify
export GOFLAGS=-mod=mod GOPROXY=off GOSUMDB=off GOTOOLCHAIN=local
{
git -C /repo worktree add -q --detach "$wt" HEAD || exit 2
cd "$wt"
demo=$(ls $src/*_test.go 2>/dev/null | head -1)
place=$(grep -oE '(neat|experiment)[A-Za-z0-9_/]*/zz_[A-Za-z0-9_]*_test\.go' $src/notes.md | head -1)
[ -z "$place" ] && place="neat/genetics/zz_demo_test.go"
pkgdir=$(dirname "$place")
echo "demo=$demo place=$place"
cp "$demo" "$place"
echo "== demo WITHOUT patch"; go test -vet=off -count=1 -run 'Demo|C0|ZZ' ./$pkgdir/ 2>&1 | tail -3; r0=${PIPESTATUS[0]}
git apply $src/patch.diff || { echo "PATCH DOES NOT APPLY"; }
echo "== demo WITH patch"; go test -vet=off -count=1 -run 'Demo|C0|ZZ' ./$pkgdir/ 2>&1 | tail -5; r1=${PIPESTATUS[0]}
rm -f "$place"
if [ -z "$nosuite" ]; then
echo "== suite WITH patch"; go test -vet=off -count=1 -timeout 25m ./... 2>&1 | grep -v "no test files" | tail -12; r2=${PIPESTATUS[0]}
else r2=skipped; fi
echo "RESULT $id $m demo_clean=$r0 demo_patched=$r1 suite=$r2"
cd /; git -C /repo worktree remove --force "$wt"
} > "$log" 2>&1
tail -1 "$log"
