#!/usr/bin/env bash
# tools/verify_seed.sh <seed-dir> [suite]  — confirm one seeded change in a scratch worktree of /repo:
# demo passes on HEAD, fails with the patch; with "suite" the full existing suite is run with the patch too.
# Prints one RESULT line; removes the worktree. Logs under /tmp/seedverify/.
set -u
src="$1"; suite="${2:-}"
name=$(echo "$src" | sed 's#/$##; s#.*/\([^/]*\)/\([^/]*\)$#\1_\2#')
name="${NAMEPREFIX:-}$name"
wt=/tmp/sv_$name
log=/tmp/seedverify/$name.log
mkdir -p /tmp/seedverify
export GOFLAGS=-mod=mod GOPROXY=off GOSUMDB=off GOTOOLCHAIN=local
{
git -C /repo worktree add -q --detach "$wt" HEAD || exit 2
cd "$wt"
pkgdir=$(python3 -c "import json;print(json.load(open('$src/meta.json'))['package_dir'])")
demo=$(python3 -c "import json;print(json.load(open('$src/meta.json'))['demo_file'])")
run=$(python3 -c "import json;print(json.load(open('$src/meta.json'))['run'])")
cp "$src/$demo" "$pkgdir/$demo"
echo "== demo WITHOUT patch: $run"; timeout 1200 bash -c "$run" 2>&1 | tail -4; r0=${PIPESTATUS[0]}
git apply "$src/patch.diff" || echo "PATCH DOES NOT APPLY"
go build ./... 2>&1 | tail -3
echo "== demo WITH patch"; timeout 1200 bash -c "$run" 2>&1 | tail -12; r1=${PIPESTATUS[0]}
rm -f "$pkgdir/$demo"
r2=skipped
if [ -n "$suite" ]; then
echo "== suite WITH patch"; go test -vet=off -count=1 -timeout 60m ./... 2>&1 | grep -v "no test files" | tail -16; r2=${PIPESTATUS[0]}
fi
echo "RESULT $name demo_clean=$r0 demo_patched=$r1 suite=$r2"
cd /; git -C /repo worktree remove --force "$wt"
} > "$log" 2>&1
tail -1 "$log"
