#!/usr/bin/env bash
# tools/try_patch.sh <patch.diff> <Cxx> [Cyy ...]  — apply a patch to a scratch copy of /repo
# (outside /repo and /verif), run the named checks against the copy, remove the copy.
set -u
patch="$1"; shift
scratch=$(mktemp -d /tmp/neat_try_XXXXXX)
trap 'rm -rf "$scratch"' EXIT
rsync -a --exclude .git --exclude out /repo/ "$scratch/repo/"
mkdir -p "$scratch/verif"; cp /verif/KNOWN_FINDINGS.txt "$scratch/verif/"; ln -s /verif/checker "$scratch/verif/checker"
(cd "$scratch/repo" && patch -p1 -s < "$patch") || { echo "patch does not apply"; exit 2; }
export GOFLAGS=-mod=mod GOPROXY=off GOSUMDB=off GOTOOLCHAIN=local
(cd "$scratch/repo" && go build ./...) || { echo "does not build"; exit 2; }
rc=0
for p in "$@"; do
  NEAT_REPO="$scratch/repo" NEAT_VERIF="$scratch/verif" /verif/bin/neatcheck check "$p" quick 2>&1 | grep -v "WARNING conda" | grep -v "^    path:" | cut -c1-400
  [ "${PIPESTATUS[0]}" = 1 ] && rc=1
done
exit $rc
