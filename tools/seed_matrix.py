#!/usr/bin/env python3
"""tools/seed_matrix.py [seed-root] [ids...] — run every claimed check against every seeded change.
Each patch is applied to a scratch copy of /repo (outside /repo and /verif); the copy is removed afterwards.
Prints one line per seed: which checks fire (VIOLATION) and which stay silent."""
import os, sys, json, subprocess, shutil, tempfile, glob, concurrent.futures as cf
VERIF = os.path.dirname(os.path.dirname(os.path.abspath(__file__)))
root = os.path.abspath(sys.argv[1]) if len(sys.argv) > 1 else os.path.join(VERIF, "seeded")
sel = sys.argv[2:]
props = [c["property_id"] for c in json.load(open(os.path.join(VERIF, "MANIFEST.json")))["checks"]]
if os.environ.get("NEAT_PROPS"):
    props = os.environ["NEAT_PROPS"].split(",")
env = dict(os.environ, GOFLAGS="-mod=mod", GOPROXY="off", GOSUMDB="off", GOTOOLCHAIN="local", GOWORK="off")
def sh(cmd, **kw):
    return subprocess.run(cmd, shell=True, stdout=subprocess.PIPE, stderr=subprocess.STDOUT, text=True, **kw)
seeds = sorted(glob.glob(os.path.join(root, "*", "[mb]*", "patch.diff")) + glob.glob(os.path.join(root, "*", "patch.diff")))
def one(patch):
    sid = os.path.relpath(os.path.dirname(patch), root)
    if sel and not any(sid.startswith(s) for s in sel):
        return None
    scratch = tempfile.mkdtemp(prefix="neat_seed_")
    try:
        repo = os.path.join(scratch, "repo"); vd = os.path.join(scratch, "verif")
        sh(f"rsync -a --exclude .git --exclude out /repo/ {repo}/")
        os.makedirs(vd); shutil.copy(os.path.join(VERIF, "KNOWN_FINDINGS.txt"), vd)
        os.symlink(os.path.join(VERIF, "checker"), os.path.join(vd, "checker"))
        a = sh(f"cd {repo} && patch -p1 -s < {patch}")
        if a.returncode != 0:
            return sid, "PATCH-FAILED", a.stdout[-200:]
        b = sh(f"cd {repo} && go build ./...", env=env)
        if b.returncode != 0:
            return sid, "NOBUILD", b.stdout[-300:]
        fired, detail = [], {}
        e2 = dict(env, NEAT_REPO=repo, NEAT_VERIF=vd)
        c = sh(f"{VERIF}/bin/neatcheck sweep " + " ".join(props), env=e2)
        if c.returncode not in (0, 1):
            return sid, "SWEEP-FAILED", c.stdout[-300:]
        cur = None
        for l in c.stdout.splitlines():
            if l.startswith("FIRED "):
                cur = l.split()[1]; fired.append(cur); detail[cur] = []
            elif l.startswith("SILENT "):
                cur = None
            elif cur and l.startswith("  ") and len(detail[cur]) < 4:
                detail[cur].append(l.strip())
        return sid, fired, detail
    finally:
        shutil.rmtree(scratch, ignore_errors=True)
with cf.ThreadPoolExecutor(max_workers=6) as ex:
    for res in ex.map(one, seeds):
        if res is None: continue
        sid, fired, detail = res
        own = sid[:3]
        if isinstance(fired, str):
            print(f"{sid}: {fired} {detail}"); continue
        status = "CAUGHT" if own in fired else ("MISSED" if own in props else "unclaimed")
        others = [p for p in fired if p != own]
        print(f"{sid}: {status} own={own in fired} others={others}")
        for p, d in detail.items():
            for l in d: print(f"      {p}: {l[:220]}")
