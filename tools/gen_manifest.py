#!/usr/bin/env python3
"""Generates /verif/MANIFEST.json from tools/claims.json (one entry per property)
and validates it against the schema. Run after changing a claim."""
import json, os, sys
HERE = os.path.dirname(os.path.abspath(__file__))
VERIF = os.path.dirname(HERE)
claims = json.load(open(os.path.join(HERE, "claims.json")))
props = [json.loads(l)["id"] for l in open(os.path.join(VERIF, "properties.jsonl"))]
BASE = json.load(open("/root/.vp/BASELINE.json"))["cmd"] if os.path.exists("/root/.vp/BASELINE.json") else ""
checks, na = [], []
for pid in props:
    c = claims.get(pid)
    if not c or not c.get("claimed"):
        na.append({"property_id": pid, "reason": (c or {}).get("reason", "no static check built yet")})
        continue
    checks.append({
        "property_id": pid,
        "quick_cmd": f"./check.sh {pid} quick",
        "thorough_cmd": f"./check.sh {pid} thorough",
        "evidence_file": f"evidence/{pid}.json",
        "replay_cmd_template": "./bin/neatcheck replay {path}",
        "engine": "neatcheck",
        "level_claimed": {"category": "other", "text": c["text"], "design_ref": c.get("design_ref", f"DESIGN.md section 5, {pid}")},
        "level_note": c["note"],
        "technique": c["technique"],
    })
m = {
    "version": 1,
    "setup_cmd": "cd checker && GOFLAGS=-mod=mod GOPROXY=off GOSUMDB=off GOTOOLCHAIN=local GOWORK=off go build -o ../bin/neatcheck ./cmd/neatcheck",
    "hooks": {
        "guard": "verif",
        "enable": "none: static analysis reads /repo's sources with go/packages; no instrumentation or build tag is needed",
        "baseline_off_cmd": BASE,
        "source_commits": [],
        "add_only": True,
    },
    "engines": [{
        "name": "neatcheck",
        "path": "checker/cmd/neatcheck",
        "serves_properties": [c["property_id"] for c in checks],
        "kind_free_text": "custom static analyser over go/packages + go/ssa + VTA call graph (golang.org/x/tools v0.29.0): origin terms and constructor summaries, dominator guards, flag-sensitive CFG path search, effect sets over the call graph, abstract interpretation of the activation closures, wire-format slot maps; nothing from /repo is executed",
    }],
    "checks": checks,
    "not_applicable": na,
    "notes": "All claims are at level 'other': each check decides named structural necessary conditions of its property on every path / field / call site of the current tree and says so; see DESIGN.md section 5 for what is and is not decided per property. Genuine defects found and repaired are listed as 'fixed:' lines in KNOWN_FINDINGS.txt; recorded ones as 'finding:' lines.",
}
json.dump(m, open(os.path.join(VERIF, "MANIFEST.json"), "w"), indent=1)
try:
    import jsonschema
    jsonschema.validate(m, json.load(open("/root/.vp/MANIFEST.schema.json")))
    print("MANIFEST.json valid:", len(checks), "checks,", len(na), "not_applicable")
except ImportError:
    print("jsonschema not available; wrote MANIFEST.json unvalidated")
