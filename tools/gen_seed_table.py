#!/usr/bin/env python3
"""tools/gen_seed_table.py — print the markdown catch table of /verif/seeded (used for DESIGN.md section 12)."""
import json, glob, os, re
V = os.path.dirname(os.path.dirname(os.path.abspath(__file__)))
rows = []
for d in sorted(glob.glob(os.path.join(V, "seeded", "*", "meta.json"))):
    m = json.load(open(d))
    sid = os.path.basename(os.path.dirname(d))
    what = re.sub(r"\s+", " ", m.get("what_changed") or "")[:150].replace("|", "/")
    own = "yes" if m.get("caught_by_own_property_check") else "**no**"
    others = ", ".join(c for c in m.get("checks_that_report_it", []) if c != m["property"])
    first = m.get("caught_when_first_run")
    first = "n/a (round 1: the rules were built on it)" if first is None else ("yes" if first else "**no** - became a rule")
    rows.append(f"| {sid} | {what} | {own} | {first} | {others} |")
print("| seeded change | what it changes (abridged) | reported by its own property's check | when first run | also reported by |")
print("|---|---|---|---|---|")
print("\n".join(rows))
