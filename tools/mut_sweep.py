#!/usr/bin/env python3
"""tools/mut_sweep.py benign|break [-j N] [--only substr] [--sample K] [--tests] [--out file]

Mechanical sweep: `mutgen` lists single-site source rewrites of /repo (behaviour-preserving ones in
mode `benign`, classic mutation operators in mode `break`); each is applied to a scratch copy of /repo
(under $TMPDIR, removed at the end), and `neatcheck sweep` (one load, all claimed properties) is run on it.

  benign: every FIRED line is a false alarm of the named check (the rewrite does not change behaviour).
  break : SILENT mutants are the interesting ones; with --tests the repository's own unit tests of the
          library packages are then run on them, and those that also pass are listed as SURVIVOR -
          candidates for a property violation that neither the tests nor the checks see (to be triaged
          by reading: many are equivalent or irrelevant to the twenty properties).

Nothing here is registered in MANIFEST.json; it is a development aid for measuring the checks.
"""
import os, sys, json, subprocess, shutil, tempfile, random, argparse, threading, queue
VERIF = os.path.dirname(os.path.dirname(os.path.abspath(__file__)))
ap = argparse.ArgumentParser()
ap.add_argument("mode", choices=["benign", "break"])
ap.add_argument("-j", type=int, default=6)
ap.add_argument("--only", default="")
ap.add_argument("--ops", default="")
ap.add_argument("--sample", type=int, default=0)
ap.add_argument("--tests", action="store_true")
ap.add_argument("--out", default="")
ap.add_argument("--seed", type=int, default=1)
ap.add_argument("--repo", default="/repo")
a = ap.parse_args()
env = dict(os.environ, GOFLAGS="-mod=mod", GOPROXY="off", GOSUMDB="off", GOTOOLCHAIN="local", GOWORK="off")
if os.environ.get("MUT_PRIVATE_GOCACHE"):
    # thousands of mutated packages otherwise pile up in the shared build cache; a private cache (filled once,
    # ~1 min) is removed together with the work directory
    env["GOCACHE"] = "__WORK__/gocache"
def sh(cmd, **kw):
    return subprocess.run(cmd, shell=True, stdout=subprocess.PIPE, stderr=subprocess.STDOUT, text=True, **kw)
work = tempfile.mkdtemp(prefix="neat_mut_")
if env.get("GOCACHE") == "__WORK__/gocache":
    env["GOCACHE"] = os.path.join(work, "gocache")
try:
    b = sh(f"cd {VERIF}/checker && go build -o {work}/mutgen ./cmd/mutgen && go build -o {work}/neatcheck ./cmd/neatcheck", env=env)
    if b.returncode != 0:
        print(b.stdout); sys.exit(2)
    g = sh(f"{work}/mutgen {a.repo} {a.mode}", env=env)
    muts = [json.loads(l) for l in g.stdout.splitlines() if l.startswith("{")]
    if a.only:
        muts = [m for m in muts if a.only in m["file"] or a.only in m["func"]]
    if a.ops:
        ops = a.ops.split(",")
        muts = [m for m in muts if m["op"] in ops]
    if a.sample and a.sample < len(muts):
        random.Random(a.seed).shuffle(muts)
        muts = sorted(muts[:a.sample], key=lambda m: m["id"])
    print(f"# {len(muts)} rewrites ({a.mode})", flush=True)
    q = queue.Queue()
    for m in muts: q.put(m)
    lock = threading.Lock()
    outf = open(a.out, "w") if a.out else None
    stats = {"nobuild": 0, "silent": 0, "fired": 0, "survivor": 0, "killed-by-tests": 0}
    def worker(k):
        repo = os.path.join(work, f"repo{k}"); vd = os.path.join(work, f"verif{k}")
        sh(f"rsync -a --exclude .git --exclude out {a.repo}/ {repo}/")
        os.makedirs(vd, exist_ok=True); shutil.copy(os.path.join(VERIF, "KNOWN_FINDINGS.txt"), vd)
        if not os.path.exists(os.path.join(vd, "checker")):
            os.symlink(os.path.join(VERIF, "checker"), os.path.join(vd, "checker"))
        e2 = dict(env, NEAT_REPO=repo, NEAT_VERIF=vd, TMPDIR=work)
        while True:
            try: m = q.get_nowait()
            except queue.Empty: return
            path = os.path.join(repo, m["file"])
            orig = open(path, "rb").read()
            try:
                open(path, "wb").write(orig[:m["start"]] + m["text"].encode() + orig[m["end"]:])
                c = sh(f"{work}/neatcheck sweep", env=e2)
                lines = c.stdout.splitlines()
                if c.returncode == 3 or any(l.startswith("LOAD-FAILED") for l in lines):
                    status, fired = "nobuild", []
                elif c.returncode not in (0, 1):
                    status, fired = "crash", [c.stdout[-300:]]
                else:
                    fired = [l.split()[1] for l in lines if l.startswith("FIRED")]
                    status = "fired" if fired else "silent"
                    verdicts = [l for l in lines if l.startswith("FIRED ") or l.startswith("SILENT ")]
                    if len(verdicts) < 20:
                        # a run that did not give a verdict for every property is not a result
                        status, fired = "crash", [c.stdout[-300:]]
                detail = [l.strip()[:260] for l in lines if l.startswith("  ")][:3]
                if status == "silent" and a.mode == "break" and a.tests:
                    t = sh(f"cd {repo} && go test -vet=off -count=1 -timeout 10m ./neat/... ./experiment/...", env=env)
                    status = "survivor" if t.returncode == 0 else "killed-by-tests"
                rec = dict(m, status=status, fired=fired, detail=detail)
                with lock:
                    stats[status] = stats.get(status, 0) + 1
                    if status in ("fired", "crash") and a.mode == "benign" or status in ("survivor",) or (status == "silent" and a.mode == "break" and not a.tests):
                        print(f"{status.upper()} {m['id']} {m['file']}:{m['line']} {m['func']} [{m['op']}] {m['desc'][:140]} {fired if status=='fired' else ''}", flush=True)
                        if status == "fired":
                            for d in detail: print("      " + d, flush=True)
                    if outf:
                        outf.write(json.dumps(rec) + "\n"); outf.flush()
            finally:
                open(path, "wb").write(orig)
    ts = [threading.Thread(target=worker, args=(k,)) for k in range(a.j)]
    for t in ts: t.start()
    for t in ts: t.join()
    print("# " + json.dumps(stats))
finally:
    shutil.rmtree(work, ignore_errors=True)
