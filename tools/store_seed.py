#!/usr/bin/env python3
"""tools/store_seed.py <seed-root> <round-tag> <matrix-file> <verify-result-files...> — copy the seeded changes that were fully confirmed
(RESULT lines of tools/verify_seed.sh in /tmp/seedverify*.txt: demo passes on HEAD, fails with the patch,
suite green with the patch) into /verif/seeded/<Cxx>-<tag>mK/ with patch.diff, the demonstration and meta.json."""
import sys, os, json, glob, re, shutil
root, tag, matrix = sys.argv[1], sys.argv[2], sys.argv[3]
verify_files = sys.argv[4:]
VERIF = os.path.dirname(os.path.dirname(os.path.abspath(__file__)))
res = {}
for f in verify_files:
    for l in open(f):
        m = re.match(r'RESULT (\S+) demo_clean=(\S+) demo_patched=(\S+) suite=(\S+)', l)
        if m:
            cur = res.get(m.group(1), {})
            d = dict(demo_clean=m.group(2), demo_patched=m.group(3), suite=m.group(4))
            if d['suite'] == 'skipped' and cur.get('suite', 'skipped') != 'skipped':
                d['suite'] = cur['suite']
            res[m.group(1)] = d
caught = {}
for f in [matrix]:
    for l in open(f):
        m = re.match(r'(C\d\d/m\d): (\S+) own=(\S+) others=(.*)', l)
        if m:
            caught[m.group(1)] = dict(status=m.group(2), others=eval(m.group(4)))
n = 0
for d in sorted(glob.glob(os.path.join(root, 'C*', 'm*', 'meta.json'))):
    sd = os.path.dirname(d); pid = sd.split('/')[-2]; mk = sd.split('/')[-1]
    key = os.environ.get('KEYPREFIX', '') + '%s_%s' % (pid, mk)
    r = res.get(key)
    if not r or r['demo_clean'] != '0' or r['demo_patched'] == '0' or r['suite'] != '0':
        print('skip', pid, mk, r); continue
    meta = json.load(open(d))
    out = os.path.join(VERIF, 'seeded', '%s-%s%s' % (pid, tag, mk))
    os.makedirs(out, exist_ok=True)
    shutil.copy(os.path.join(sd, 'patch.diff'), out)
    shutil.copy(os.path.join(sd, meta['demo_file']), out)
    c = caught.get('%s/%s' % (pid, mk), {})
    json.dump({
        'property': pid,
        'origin': 'written by an independent sub-agent that saw only the property text and a scratch worktree of /repo (%s)' % ({'r1': 'first round', 'r2': 'second round, told to avoid the first round\'s changes', 'r3': 'third round, told to avoid the changes of rounds one and two', 'r6': 'sixth round: asked for changes that need something specific to manifest, told what round one had produced'}.get(tag, tag)),
        'what_changed': meta.get('what_changed'),
        'needs_to_manifest': meta.get('needs_to_manifest'),
        'why_suite_misses_it': meta.get('why_suite_misses_it'),
        'demo': {'file': meta['demo_file'], 'package_dir': meta['package_dir'], 'run': meta['run']},
        'confirmed_by_me': {
            'how': 'tools/verify_seed.sh in a scratch git worktree of /repo: demo on HEAD, demo with the patch, then `go test -vet=off -count=1 -timeout 60m ./...` with the patch',
            'demo_on_head': 'pass', 'demo_with_patch': 'fail (exit %s)' % r['demo_patched'], 'existing_suite_with_patch': 'pass'},
        'checks_that_report_it': sorted(set(([pid] if c.get('status') == 'CAUGHT' else []) + c.get('others', []))),
        'caught_by_own_property_check': c.get('status') == 'CAUGHT',
        'clause': meta.get('clause'),
    }, open(os.path.join(out, 'meta.json'), 'w'), indent=1)
    n += 1
print('stored', n)
