// neatcheck decides the goNEAT properties C01..C20 by static analysis of /repo.
package main

import (
	"encoding/json"
	"fmt"
	"os"
	"path/filepath"
	"sort"
	"strconv"
	"time"

	"neatcheck/internal/nc"
)

func usage() {
	fmt.Println("usage: neatcheck check <Cxx> <quick|thorough> | replay <file> | list | debug ...")
	os.Exit(2)
}

func envOr(k, d string) string {
	if v := os.Getenv(k); v != "" {
		return v
	}
	return d
}

func main() {
	if len(os.Args) < 2 {
		usage()
	}
	repo := envOr("NEAT_REPO", "/repo")
	verif := envOr("NEAT_VERIF", "/verif")
	switch os.Args[1] {
	case "list":
		var ids []string
		for id := range nc.Registry {
			ids = append(ids, id)
		}
		sort.Strings(ids)
		for _, id := range ids {
			fmt.Println(id)
		}
	case "check":
		if len(os.Args) < 4 {
			usage()
		}
		os.Exit(runCheck(repo, verif, os.Args[2], os.Args[3]))
	case "replay":
		if len(os.Args) < 3 {
			usage()
		}
		os.Exit(replay(repo, verif, os.Args[2]))
	case "pinned":
		// prints the function list of the tree under analysis (to regenerate internal/nc/pinned_funcs.txt)
		for _, n := range nc.ListFuncs(repo) {
			fmt.Println(n)
		}
	case "pinned-state":
		// prints the struct fields and package-level variables of the tree (to regenerate internal/nc/pinned_state.txt)
		for _, n := range nc.ListState(repo) {
			fmt.Println(n)
		}
	case "sweep":
		// one load, every property, one line per property (used by tools/seed_matrix.py and the
		// mutation sweep; evidence files are not written)
		os.Exit(sweep(repo, verif, os.Args[2:]))
	case "normalize":
		// [std] debugging aid: neatcheck normalize <module dir> <out dir> [pin-all] writes the normalised module
		if len(os.Args) < 4 {
			usage()
		}
		lg, err := nc.NormalizeDir(os.Args[2], os.Args[3], len(os.Args) > 4 && os.Args[4] == "pin-all")
		for _, l := range lg {
			fmt.Println(l)
		}
		if err != nil {
			fmt.Println(err)
			os.Exit(1)
		}
	case "debug":
		nc.Debug(repo, os.Args[2:])
	default:
		usage()
	}
}

func runCheck(repo, verif, prop, tier string) int {
	start := time.Now()
	seed, _ := strconv.Atoi(os.Getenv("VERIF_SEED"))
	fn, ok := nc.Registry[prop]
	if !ok {
		fmt.Printf("unknown property %s\n", prop)
		return 2
	}
	if tier != "quick" && tier != "thorough" {
		fmt.Printf("unknown tier %s\n", tier)
		return 2
	}
	p, err := nc.Load(repo, tier)
	r := nc.NewRun(p, prop, tier)
	loadInfo := map[string]interface{}{"repo": repo}
	if err != nil {
		// fail closed: a tree that does not load cannot be shown to hold the property
		r.Rule("load", "the repository loads and type-checks", func() {
			r.Undecided("load", "-", err.Error())
		})
		return r.Finish(verif, start, seed, loadInfo)
	}
	loadInfo["packages"] = len(p.Pkgs)
	loadInfo["source_functions"] = len(p.SrcFuncs())
	loadInfo["load_s"] = time.Since(start).Seconds()
	if err := p.LoadFixtures(filepath.Join(verif, "checker", "testdata", "fixtures")); err != nil {
		r.Rule("fixtures", "the positive fixtures load", func() {
			r.Undecided("fixtures", "-", err.Error())
		})
		return r.Finish(verif, start, seed, loadInfo)
	}
	r.Guarded(func() { fn(p, r); nc.NewStateRule(p, r) })
	if tier == "thorough" {
		expl := r.Explanation
		for _, dep := range nc.ThoroughDeps[prop] {
			if df, ok := nc.Registry[dep]; ok {
				r.Rule("dep:"+dep, "obligations of "+dep+", on which "+prop+" relies (thorough tier)", func() { df(p, r) })
			}
		}
		r.Explanation = expl + " Thorough tier: additionally all obligations of the properties this one relies on (" + fmt.Sprint(nc.ThoroughDeps[prop]) + ") are re-evaluated, with the full syntax of all dependencies loaded."
	}
	return r.Finish(verif, start, seed, loadInfo)
}

func sweep(repo, verif string, props []string) int {
	if len(props) == 0 {
		for id := range nc.Registry {
			props = append(props, id)
		}
		sort.Strings(props)
	}
	p, err := nc.Load(repo, "quick")
	if err != nil {
		fmt.Printf("LOAD-FAILED %v\n", err)
		return 3
	}
	if err := p.LoadFixtures(filepath.Join(verif, "checker", "testdata", "fixtures")); err != nil {
		fmt.Printf("LOAD-FAILED fixtures: %v\n", err)
		return 3
	}
	known, _ := nc.LoadKnownFindings(filepath.Join(verif, "KNOWN_FINDINGS.txt"))
	rc := 0
	for _, prop := range props {
		fn, ok := nc.Registry[prop]
		if !ok {
			continue
		}
		r := nc.NewRun(p, prop, "quick")
		r.Guarded(func() { fn(p, r); nc.NewStateRule(p, r) })
		n := 0
		var lines []string
		for _, o := range r.Obs {
			if o.Status == "discharged" {
				continue
			}
			isKnown := false
			for _, k := range known {
				if k.Property == o.Property && k.Key == o.ID && o.Status == "violated" {
					isKnown = true
				}
			}
			if isKnown {
				continue
			}
			n++
			if len(lines) < 4 {
				d := o.Detail
				if len(d) > 200 {
					d = d[:200]
				}
				lines = append(lines, fmt.Sprintf("  %s %s [%s] %s", o.Status, o.ID, o.Pos, d))
			}
		}
		if n > 0 {
			rc = 1
			fmt.Printf("FIRED %s %d\n", prop, n)
			for _, l := range lines {
				fmt.Println(l)
			}
		} else {
			fmt.Printf("SILENT %s\n", prop)
		}
	}
	return rc
}

// replay re-analyses the current tree and prints the obligation named in the record.
func replay(repo, verif, path string) int {
	b, err := os.ReadFile(path)
	if err != nil {
		fmt.Println(err)
		return 2
	}
	var o nc.Ob
	if err := json.Unmarshal(b, &o); err != nil {
		fmt.Println(err)
		return 2
	}
	fn, ok := nc.Registry[o.Property]
	if !ok {
		fmt.Printf("unknown property %s\n", o.Property)
		return 2
	}
	p, err := nc.Load(repo, "quick")
	if err != nil {
		fmt.Printf("recorded: %s [%s] %s\n  %s\nthe current tree does not load: %v\n", o.ID, o.Status, o.Pos, o.Detail, err)
		return 1
	}
	_ = p.LoadFixtures(filepath.Join(verif, "checker", "testdata", "fixtures"))
	r := nc.NewRun(p, o.Property, "quick")
	r.Guarded(func() { fn(p, r); nc.NewStateRule(p, r) })
	fmt.Printf("recorded obligation: %s\n  rule: %s — %s\n  status then: %s at %s\n  %s\n", o.ID, o.Rule, o.RuleText, o.Status, o.Pos, o.Detail)
	for _, x := range o.Path {
		fmt.Printf("    path: %s\n", x)
	}
	for _, c := range r.Obs {
		if c.ID == o.ID {
			fmt.Printf("on the current tree: %s at %s\n  %s\n", c.Status, c.Pos, c.Detail)
			for _, x := range c.Path {
				fmt.Printf("    path: %s\n", x)
			}
			if c.Status == "discharged" {
				return 0
			}
			return 1
		}
	}
	fmt.Println("on the current tree: the obligation is no longer produced (construct gone)")
	return 1
}
