// mutgen lists mechanical source changes of the repository under analysis as text splices.
//
//	mutgen <repo> benign   behaviour-preserving rewrites (operand swaps, if/else inversion, range->index
//	                       loops, nested ifs for &&, early continue, x++ <-> x += 1, ...): every check must
//	                       stay silent on each of them
//	mutgen <repo> break    classic mutation operators (boundary, negation, operator, constant, statement
//	                       deletion, break<->continue, sibling field): candidates for property violations
//
// One JSON object per line: {"id","file","line","op","desc","start","end","text"}; the driver
// (tools/mut_sweep.py) applies one splice to a scratch copy, builds, and runs `neatcheck sweep`.
// The generator only reads the sources; it never runs them.
package main

import (
	"encoding/json"
	"fmt"
	"go/ast"
	"go/token"
	"go/types"
	"os"
	"path/filepath"
	"sort"
	"strings"

	"golang.org/x/tools/go/packages"
)

type mut struct {
	ID    string `json:"id"`
	File  string `json:"file"`
	Line  int    `json:"line"`
	Func  string `json:"func"`
	Op    string `json:"op"`
	Desc  string `json:"desc"`
	Start int    `json:"start"`
	End   int    `json:"end"`
	Text  string `json:"text"`
}

type gen struct {
	fset *token.FileSet
	info *types.Info
	src  []byte
	file string
	rel  string
	fn   string
	out  []mut
	mode string
}

func (g *gen) off(p token.Pos) int { return g.fset.Position(p).Offset }
func (g *gen) text(n ast.Node) string {
	return string(g.src[g.off(n.Pos()):g.off(n.End())])
}
func (g *gen) add(n ast.Node, op, desc, text string) {
	g.addRange(n.Pos(), n.End(), op, desc, text)
}
func (g *gen) addRange(from, to token.Pos, op, desc, text string) {
	g.out = append(g.out, mut{File: g.rel, Line: g.fset.Position(from).Line, Func: g.fn, Op: op, Desc: desc,
		Start: g.off(from), End: g.off(to), Text: text})
}

func hasCall(info *types.Info, e ast.Node) bool {
	found := false
	ast.Inspect(e, func(n ast.Node) bool {
		c, ok := n.(*ast.CallExpr)
		if !ok {
			return true
		}
		if tv, ok := info.Types[c.Fun]; ok && tv.IsType() {
			return true // conversion
		}
		if id, ok := c.Fun.(*ast.Ident); ok {
			if _, isB := info.Uses[id].(*types.Builtin); isB && (id.Name == "len" || id.Name == "cap") {
				return true
			}
		}
		found = true
		return false
	})
	return found
}

func isNumeric(t types.Type) bool {
	b, ok := t.Underlying().(*types.Basic)
	return ok && b.Info()&types.IsNumeric != 0
}
func isInteger(t types.Type) bool {
	b, ok := t.Underlying().(*types.Basic)
	return ok && b.Info()&types.IsInteger != 0
}

var flip = map[token.Token]token.Token{token.LSS: token.GTR, token.GTR: token.LSS, token.LEQ: token.GEQ, token.GEQ: token.LEQ, token.EQL: token.EQL, token.NEQ: token.NEQ}
var negate = map[token.Token]token.Token{token.LSS: token.GEQ, token.GTR: token.LEQ, token.LEQ: token.GTR, token.GEQ: token.LSS, token.EQL: token.NEQ, token.NEQ: token.EQL}

func paren(s string, e ast.Expr) string {
	switch e.(type) {
	case *ast.BinaryExpr:
		return "(" + s + ")"
	}
	return s
}

func isLenCall(e ast.Expr) bool {
	c, ok := e.(*ast.CallExpr)
	if !ok {
		return false
	}
	id, ok := c.Fun.(*ast.Ident)
	return ok && id.Name == "len"
}
func isLit(e ast.Expr, v string) bool {
	l, ok := e.(*ast.BasicLit)
	return ok && l.Value == v
}

// containsLabelOrDefer: rewrites that move statements into new blocks keep clear of these
func simpleBody(b *ast.BlockStmt) bool {
	ok := true
	ast.Inspect(b, func(n ast.Node) bool {
		switch n.(type) {
		case *ast.LabeledStmt, *ast.DeferStmt:
			ok = false
		}
		return ok
	})
	return ok
}

func (g *gen) benignExpr(n ast.Node) {
	switch e := n.(type) {
	case *ast.BinaryExpr:
		tx, ty := g.info.TypeOf(e.X), g.info.TypeOf(e.Y)
		if tx == nil || ty == nil {
			return
		}
		bothCalls := hasCall(g.info, e.X) && hasCall(g.info, e.Y)
		if f, ok := flip[e.Op]; ok && !bothCalls {
			g.add(e, "swap-compare", fmt.Sprintf("%s -> operands swapped", g.text(e)), g.text(e.Y)+" "+f.String()+" "+g.text(e.X))
		}
		if (e.Op == token.ADD || e.Op == token.MUL) && isNumeric(tx) && isNumeric(ty) && !bothCalls {
			g.add(e, "commute", fmt.Sprintf("%s -> commuted", g.text(e)), paren(g.text(e.Y), e.Y)+" "+e.Op.String()+" "+paren(g.text(e.X), e.X))
		}
		if e.Op == token.EQL || e.Op == token.NEQ {
			g.add(e, "not-compare", fmt.Sprintf("%s -> negated complement", g.text(e)), "!("+g.text(e.X)+" "+negate[e.Op].String()+" "+g.text(e.Y)+")")
		} else if _, ok := negate[e.Op]; ok && isInteger(tx) && isInteger(ty) {
			g.add(e, "not-compare", fmt.Sprintf("%s -> negated complement", g.text(e)), "!("+g.text(e.X)+" "+negate[e.Op].String()+" "+g.text(e.Y)+")")
		}
		if isLenCall(e.X) {
			var nt string
			switch {
			case e.Op == token.EQL && isLit(e.Y, "0"):
				nt = g.text(e.X) + " < 1"
			case e.Op == token.GTR && isLit(e.Y, "0"):
				nt = g.text(e.X) + " != 0"
			case e.Op == token.NEQ && isLit(e.Y, "0"):
				nt = g.text(e.X) + " >= 1"
			case e.Op == token.LSS && isLit(e.Y, "1"):
				nt = g.text(e.X) + " == 0"
			}
			if nt != "" {
				g.add(e, "len-form", fmt.Sprintf("%s -> %s", g.text(e), nt), nt)
			}
		}
	}
}

func (g *gen) benignStmt(n ast.Node, parentLoopBody *ast.BlockStmt) {
	switch s := n.(type) {
	case *ast.IfStmt:
		if blk, ok := s.Else.(*ast.BlockStmt); ok {
			init := ""
			if s.Init != nil {
				init = g.text(s.Init) + "; "
			}
			g.add(s, "invert-if", "if/else branches exchanged under the negated condition",
				"if "+init+"!("+g.text(s.Cond)+") "+g.text(blk)+" else "+g.text(s.Body))
		}
		if s.Else == nil && s.Init == nil {
			if be, ok := s.Cond.(*ast.BinaryExpr); ok && be.Op == token.LAND {
				g.add(s, "nest-and", "if a && b {..} -> if a { if b {..} }",
					"if "+g.text(be.X)+" { if "+g.text(be.Y)+" "+g.text(s.Body)+" }")
			}
		}
	case *ast.IncDecStmt:
		op := "+="
		if s.Tok == token.DEC {
			op = "-="
		}
		g.add(s, "incdec", g.text(s)+" -> compound assignment", g.text(s.X)+" "+op+" 1")
	case *ast.AssignStmt:
		if len(s.Lhs) == 1 && len(s.Rhs) == 1 && !hasCall(g.info, s.Lhs[0]) {
			switch s.Tok {
			case token.ADD_ASSIGN, token.SUB_ASSIGN, token.MUL_ASSIGN, token.QUO_ASSIGN:
				if t := g.info.TypeOf(s.Lhs[0]); t != nil && isNumeric(t) {
					op := strings.TrimSuffix(s.Tok.String(), "=")
					g.add(s, "expand-assign", g.text(s)+" -> x = x op e", g.text(s.Lhs[0])+" = "+g.text(s.Lhs[0])+" "+op+" "+paren(g.text(s.Rhs[0]), s.Rhs[0]))
				}
			case token.ASSIGN:
				if be, ok := s.Rhs[0].(*ast.BinaryExpr); ok && (be.Op == token.ADD || be.Op == token.SUB) && g.text(be.X) == g.text(s.Lhs[0]) {
					if t := g.info.TypeOf(s.Lhs[0]); t != nil && isNumeric(t) {
						if _, nested := be.Y.(*ast.BinaryExpr); !nested {
							g.add(s, "compound-assign", g.text(s)+" -> x op= e", g.text(s.Lhs[0])+" "+be.Op.String()+"= "+g.text(be.Y))
						}
					}
				}
			}
		}
	case *ast.RangeStmt:
		g.rangeToIndex(s)
	case *ast.ForStmt:
		g.lastIfToContinue(s.Body)
	}
	if rs, ok := n.(*ast.RangeStmt); ok {
		g.lastIfToContinue(rs.Body)
	}
}

func (g *gen) lastIfToContinue(body *ast.BlockStmt) {
	if body == nil || len(body.List) == 0 {
		return
	}
	last, ok := body.List[len(body.List)-1].(*ast.IfStmt)
	if !ok || last.Else != nil || last.Init != nil || len(last.Body.List) == 0 {
		return
	}
	inner := string(g.src[g.off(last.Body.Lbrace)+1 : g.off(last.Body.Rbrace)])
	g.add(last, "early-continue", "trailing `if c {..}` of a loop body -> `if !c {continue}; ..`",
		"if !("+g.text(last.Cond)+") { continue }\n"+inner)
}

func (g *gen) rangeToIndex(s *ast.RangeStmt) {
	if s.Tok != token.DEFINE || s.Value == nil {
		return
	}
	t := g.info.TypeOf(s.X)
	if t == nil {
		return
	}
	if _, isSlice := t.Underlying().(*types.Slice); !isSlice {
		return
	}
	if hasCall(g.info, s.X) || !simpleBody(s.Body) {
		return
	}
	xs := g.text(s.X)
	// the list must not be reassigned or grown inside the loop
	safe := true
	ast.Inspect(s.Body, func(n ast.Node) bool {
		switch a := n.(type) {
		case *ast.AssignStmt:
			for _, l := range a.Lhs {
				if g.text(l) == xs {
					safe = false
				}
			}
		case *ast.CallExpr:
			if hasCall(g.info, a) {
				// a method or function that receives the owner of the list could change it
				root := xs
				if i := strings.Index(root, "."); i > 0 {
					root = root[:i]
				}
				for _, arg := range a.Args {
					if g.text(arg) == root || g.text(arg) == "&"+root {
						safe = false
					}
				}
				if sel, ok := a.Fun.(*ast.SelectorExpr); ok && g.text(sel.X) == root && strings.Contains(xs, ".") {
					safe = false
				}
			}
		case *ast.FuncLit:
			safe = false
		}
		return safe
	})
	if !safe {
		return
	}
	val, ok := s.Value.(*ast.Ident)
	if !ok {
		return
	}
	idx := "mutIdx"
	if k, ok := s.Key.(*ast.Ident); ok && k.Name != "_" {
		idx = k.Name
	}
	head := "for " + idx + " := range " + xs + " {"
	if val.Name != "_" {
		head += " " + val.Name + " := " + xs + "[" + idx + "];"
		// a value the body never reads would not compile
		used := false
		ast.Inspect(s.Body, func(n ast.Node) bool {
			if id, ok := n.(*ast.Ident); ok && g.info.Uses[id] == g.info.Defs[val] {
				used = true
			}
			return !used
		})
		if !used {
			return
		}
	}
	g.addRange(s.Pos(), s.Body.Lbrace+1, "range-index", "for _, v := range xs -> for i := range xs { v := xs[i]", head)
}

// ---- break operators

var boundary = map[token.Token]token.Token{token.LSS: token.LEQ, token.LEQ: token.LSS, token.GTR: token.GEQ, token.GEQ: token.GTR}
var arith = map[token.Token]token.Token{token.ADD: token.SUB, token.SUB: token.ADD, token.MUL: token.QUO, token.QUO: token.MUL}

func (g *gen) breakNode(n ast.Node, inLoop bool) {
	switch e := n.(type) {
	case *ast.BinaryExpr:
		tx := g.info.TypeOf(e.X)
		opRange := func(t token.Token) (token.Pos, token.Pos) { return e.OpPos, e.OpPos + token.Pos(len(e.Op.String())) }
		if b, ok := boundary[e.Op]; ok {
			f, t := opRange(e.Op)
			g.addRange(f, t, "boundary", g.text(e)+" : "+e.Op.String()+" -> "+b.String(), b.String())
			f, t = opRange(e.Op)
			g.addRange(f, t, "rel-flip", g.text(e)+" : "+e.Op.String()+" -> "+negate[e.Op].String(), negate[e.Op].String())
		}
		if e.Op == token.EQL || e.Op == token.NEQ {
			f, t := opRange(e.Op)
			g.addRange(f, t, "eq-flip", g.text(e)+" : "+e.Op.String()+" -> "+negate[e.Op].String(), negate[e.Op].String())
		}
		if e.Op == token.LAND || e.Op == token.LOR {
			o := token.LOR
			if e.Op == token.LOR {
				o = token.LAND
			}
			f, t := opRange(e.Op)
			g.addRange(f, t, "logic", g.text(e)+" : "+e.Op.String()+" -> "+o.String(), o.String())
			g.add(e, "drop-left", g.text(e)+" -> "+g.text(e.Y), g.text(e.Y))
			g.add(e, "drop-right", g.text(e)+" -> "+g.text(e.X), g.text(e.X))
		}
		if a, ok := arith[e.Op]; ok && tx != nil && isNumeric(tx) {
			f, t := opRange(e.Op)
			g.addRange(f, t, "arith", g.text(e)+" : "+e.Op.String()+" -> "+a.String(), a.String())
		}
	case *ast.UnaryExpr:
		if e.Op == token.NOT {
			g.add(e, "drop-not", g.text(e)+" -> "+g.text(e.X), g.text(e.X))
		}
		if e.Op == token.SUB {
			g.add(e, "drop-neg", g.text(e)+" -> "+g.text(e.X), g.text(e.X))
		}
	case *ast.BasicLit:
		switch e.Kind {
		case token.INT:
			switch e.Value {
			case "0":
				g.add(e, "const", "0 -> 1", "1")
			case "1":
				g.add(e, "const", "1 -> 0", "0")
				g.add(e, "const", "1 -> 2", "2")
			default:
				g.add(e, "const", e.Value+" -> "+e.Value+"+1", "("+e.Value+" + 1)")
			}
		case token.FLOAT:
			g.add(e, "const", e.Value+" -> doubled", "("+e.Value+" * 2)")
		}
	case *ast.Ident:
		if e.Name == "true" || e.Name == "false" {
			if _, isConst := g.info.Uses[e].(*types.Const); isConst {
				o := "true"
				if e.Name == "true" {
					o = "false"
				}
				g.add(e, "bool", e.Name+" -> "+o, o)
			}
		}
	case *ast.IfStmt:
		g.add(e.Cond, "negate-if", "if "+g.text(e.Cond)+" -> negated", "!("+g.text(e.Cond)+")")
	case *ast.ExprStmt:
		if _, ok := e.X.(*ast.CallExpr); ok {
			g.add(e, "del-call", "deleted: "+firstLine(g.text(e)), "")
		}
	case *ast.AssignStmt:
		if e.Tok != token.DEFINE {
			g.add(e, "del-assign", "deleted: "+firstLine(g.text(e)), "")
		}
	case *ast.IncDecStmt:
		g.add(e, "del-incdec", "deleted: "+g.text(e), "")
		o := "--"
		if e.Tok == token.DEC {
			o = "++"
		}
		g.add(e, "incdec-flip", g.text(e)+" -> "+g.text(e.X)+o, g.text(e.X)+o)
	case *ast.BranchStmt:
		if e.Label == nil && inLoop {
			switch e.Tok {
			case token.BREAK:
				g.add(e, "break-continue", "break -> continue", "continue")
			case token.CONTINUE:
				g.add(e, "break-continue", "continue -> break", "break")
			}
		}
	case *ast.SelectorExpr:
		// sibling field of the same type (In <-> Out, ...), reads only
		sel, ok := g.info.Selections[e]
		if !ok || sel.Kind() != types.FieldVal {
			return
		}
		st, ok := derefStruct(sel.Recv())
		if !ok {
			return
		}
		ft := sel.Obj().Type()
		for i := 0; i < st.NumFields(); i++ {
			f := st.Field(i)
			if f.Name() != e.Sel.Name && types.Identical(f.Type(), ft) && !f.Embedded() && (f.Exported() || f.Pkg() == sel.Obj().Pkg()) {
				g.add(e.Sel, "sibling-field", g.text(e)+" -> ."+f.Name(), f.Name())
			}
		}
	case *ast.CallExpr:
		// exchange two adjacent arguments of identical type
		for i := 0; i+1 < len(e.Args); i++ {
			a, b := g.info.TypeOf(e.Args[i]), g.info.TypeOf(e.Args[i+1])
			if a != nil && b != nil && types.Identical(a, b) && g.text(e.Args[i]) != g.text(e.Args[i+1]) {
				g.addRange(e.Args[i].Pos(), e.Args[i+1].End(), "swap-args", firstLine(g.text(e))+" : arguments "+fmt.Sprint(i, i+1)+" exchanged", g.text(e.Args[i+1])+", "+g.text(e.Args[i]))
			}
		}
	case *ast.ReturnStmt:
		_ = e
	}
}

func derefStruct(t types.Type) (*types.Struct, bool) {
	if p, ok := t.Underlying().(*types.Pointer); ok {
		t = p.Elem()
	}
	s, ok := t.Underlying().(*types.Struct)
	return s, ok
}

func firstLine(s string) string {
	if i := strings.Index(s, "\n"); i >= 0 {
		s = s[:i] + " ..."
	}
	if len(s) > 100 {
		s = s[:100] + "..."
	}
	return s
}

func main() {
	if len(os.Args) < 3 {
		fmt.Fprintln(os.Stderr, "usage: mutgen <repo> benign|break [path-prefix...]")
		os.Exit(2)
	}
	repo, mode := os.Args[1], os.Args[2]
	prefixes := os.Args[3:]
	if len(prefixes) == 0 {
		prefixes = []string{"neat/", "experiment/"}
	}
	env := append(os.Environ(), "GOFLAGS=-mod=mod", "GOPROXY=off", "GOSUMDB=off", "GOWORK=off", "GOTOOLCHAIN=local")
	cfg := &packages.Config{Mode: packages.LoadSyntax, Dir: repo, Env: env}
	pkgs, err := packages.Load(cfg, "./...")
	if err != nil {
		fmt.Fprintln(os.Stderr, err)
		os.Exit(2)
	}
	var all []mut
	for _, pk := range pkgs {
		for i, f := range pk.Syntax {
			path := pk.CompiledGoFiles[i]
			rel, _ := filepath.Rel(repo, path)
			keep := false
			for _, p := range prefixes {
				if strings.HasPrefix(rel, p) {
					keep = true
				}
			}
			if !keep || strings.HasSuffix(rel, "_test.go") {
				continue
			}
			src, err := os.ReadFile(path)
			if err != nil {
				continue
			}
			g := &gen{fset: pk.Fset, info: pk.TypesInfo, src: src, file: path, rel: rel, mode: mode}
			for _, d := range f.Decls {
				fd, ok := d.(*ast.FuncDecl)
				if !ok || fd.Body == nil {
					continue
				}
				g.fn = fd.Name.Name
				if fd.Recv != nil && len(fd.Recv.List) == 1 {
					t := fd.Recv.List[0].Type
					if s, ok := t.(*ast.StarExpr); ok {
						t = s.X
					}
					if id, ok := t.(*ast.Ident); ok {
						g.fn = id.Name + "." + fd.Name.Name
					}
				}
				loopDepth := 0
				var stack []ast.Node
				ast.Inspect(fd.Body, func(n ast.Node) bool {
					if n == nil {
						top := stack[len(stack)-1]
						stack = stack[:len(stack)-1]
						switch top.(type) {
						case *ast.ForStmt, *ast.RangeStmt:
							loopDepth--
						case *ast.SwitchStmt, *ast.TypeSwitchStmt, *ast.SelectStmt:
							loopDepth += 100 // leaving a switch: restore
						}
						return true
					}
					stack = append(stack, n)
					switch n.(type) {
					case *ast.ForStmt, *ast.RangeStmt:
						loopDepth++
					case *ast.SwitchStmt, *ast.TypeSwitchStmt, *ast.SelectStmt:
						loopDepth -= 100 // break inside a switch leaves the switch: not exchanged
					case *ast.FuncLit:
					}
					if mode == "benign" {
						g.benignExpr(n)
						g.benignStmt(n, nil)
					} else {
						g.breakNode(n, loopDepth > 0)
					}
					return true
				})
			}
			all = append(all, g.out...)
		}
	}
	sort.SliceStable(all, func(i, j int) bool {
		if all[i].File != all[j].File {
			return all[i].File < all[j].File
		}
		return all[i].Start < all[j].Start
	})
	enc := json.NewEncoder(os.Stdout)
	for i := range all {
		all[i].ID = fmt.Sprintf("%s%05d", mode[:2], i)
		_ = enc.Encode(all[i])
	}
}
