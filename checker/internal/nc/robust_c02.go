package nc

import (
	"go/token"
	"strings"

	"golang.org/x/tools/go/ssa"
)

// Helpers that let the C02/C09 rules recognise equivalent shapes of
//   (a) a check whose verdict travels through an error result (`if err := check(list, n); err != nil { return err }`,
//       the helper inlined by the normaliser): what is known behind `err == nil` is what is known on every edge
//       on which the error can have become nil;
//   (b) "every element of the list from position k on" written as an index loop from k, as a range loop over
//       list[k:], or as a loop over the whole list with the action under `i >= k`.
// Both derive facts from the code; nothing is assumed.

// c02EffGuards: the branch outcomes known when block b executes: Guards(b), looked through boolean flags
// (effGuards) and through values that are known to be nil at b.
//
// When b is guarded by `x == nil` and x is a phi, x can be nil only because control entered the phi's block over
// an edge that does not carry a definitely non-nil value (fresh fmt.Errorf / errors.New results, allocations ...).
// The outcomes known on all of those edges are then known at b as well.
//
// anchors are the values the caller relates the derived outcomes to. A phi is looked through only when the
// definition of every anchor strictly dominates the phi's block: then the anchor cannot have been redefined
// between the moment the derived outcome was evaluated and the moment b runs (see effGuards in robust_c05.go).
func c02EffGuards(b *ssa.BasicBlock, anchors ...ssa.Value) []Guard {
	return c02ExpandNil(effGuards(b, anchors...), anchors, 0, map[*ssa.Phi]bool{})
}

func c02ExpandNil(gs []Guard, anchors []ssa.Value, depth int, busy map[*ssa.Phi]bool) []Guard {
	out := append([]Guard{}, gs...)
	if depth > 3 {
		return out
	}
	for _, g := range gs {
		bo, isB := g.Cond.(*ssa.BinOp)
		if !isB {
			continue
		}
		var ph *ssa.Phi
		if q, ok := bo.X.(*ssa.Phi); ok {
			ph = q
		} else if q, ok := bo.Y.(*ssa.Phi); ok {
			ph = q
		}
		if ph == nil || busy[ph] {
			continue
		}
		isNil, kind := guardOn(g, ph)
		if kind != "nil" || !isNil {
			continue
		}
		stable := true
		for _, a := range anchors {
			if in, ok := a.(ssa.Instruction); ok && in.Block() != nil {
				if in.Block() == ph.Block() || !in.Block().Dominates(ph.Block()) {
					stable = false
				}
			}
		}
		if !stable {
			continue
		}
		feas := FeasibleEdges(ph, []Guard{g})
		var common []Guard
		first := true
		busy[ph] = true
		for i := range ph.Edges {
			if !feas[i] {
				continue
			}
			cs := expandFlagGuards(condsAt(ph.Block().Preds[i], ph.Block()), anchors, depth+1, map[*ssa.Phi]bool{})
			cs = c02ExpandNil(cs, anchors, depth+1, busy)
			if first {
				common, first = cs, false
			} else {
				common = intersectGuards(common, cs)
			}
		}
		delete(busy, ph)
		for _, c := range common {
			dup := false
			for _, o := range out {
				if sameGuard(o, c) {
					dup = true
				}
			}
			if !dup {
				out = append(out, c)
			}
		}
	}
	return out
}

// c02LenOf: v is len(x) of a slice; returns x.
func c02LenOf(v ssa.Value) ssa.Value {
	c, ok := v.(*ssa.Call)
	if !ok || len(c.Call.Args) != 1 {
		return nil
	}
	if b, isB := c.Call.Value.(*ssa.Builtin); isB && b.Name() == "len" {
		return c.Call.Args[0]
	}
	return nil
}

// c02CounterPlus: v is the header phi ph itself (0), or ph+1 (1); -1 otherwise.
func c02CounterPlus(v ssa.Value, ph *ssa.Phi) int64 {
	if v == ssa.Value(ph) {
		return 0
	}
	if c13IsPlusOne(v, ph) {
		return 1
	}
	return -1
}

// c02AtLeast decomposes cond (with the given outcome) into "x >= k" for a constant k.
func c02AtLeast(cond ssa.Value, outcome bool) (x ssa.Value, k int64, ok bool) {
	c, neg := c13StripNot(cond)
	if neg {
		outcome = !outcome
	}
	bin, isBin := c.(*ssa.BinOp)
	if !isBin {
		return nil, 0, false
	}
	op, l, r := bin.Op, bin.X, bin.Y
	if _, isK := constInt(l); isK {
		// k OP x  ->  x OP' k
		l, r = r, l
		switch op {
		case token.LSS:
			op = token.GTR
		case token.GTR:
			op = token.LSS
		case token.LEQ:
			op = token.GEQ
		case token.GEQ:
			op = token.LEQ
		}
	}
	kv, isK := constInt(r)
	if !isK {
		return nil, 0, false
	}
	switch {
	case op == token.GEQ && outcome: // x >= k
		return l, kv, true
	case op == token.GTR && outcome: // x > k
		return l, kv + 1, true
	case op == token.LSS && !outcome: // !(x < k)
		return l, kv, true
	case op == token.LEQ && !outcome: // !(x <= k)
		return l, kv + 1, true
	}
	return nil, 0, false
}

// c02TailCover: the store z, which lies in a loop, writes a field of *base[k] for EVERY k in [from, len(base)) -
// once per k - where base is the slice parameter `param` of the function. What is established when ok:
//   - the innermost loop l of z has a single exiting block; its test keeps the iteration inside the loop precisely
//     when c+d < len(S) for a header phi c that starts at a constant and advances by exactly one on every back
//     edge (d is 0 for an index loop, 1 for the pre-incremented counter of a range loop); the test is passed in
//     every iteration before the back edge;
//   - z stores to (*S[c+d]).field, with the same S whose length bounds the loop and the same offset d;
//   - every path of an iteration from the test to a back edge passes z, except over the failing outcomes of
//     guards `c+d >= K` (the first K positions are skipped);
//   - S is the parameter itself, or parameter[K':] (no upper bound, or len(parameter)), made outside the loop.
//
// Hence the positions written, in terms of the parameter, are exactly from = K' + max(init+d, K), ..., len-1.
func c02TailCover(fn *ssa.Function, loops []*Loop, z *ssa.Store, param int) (from int64, l *Loop, ok bool) {
	if param >= len(fn.Params) {
		return 0, nil, false
	}
	fa, isFA := z.Addr.(*ssa.FieldAddr)
	if !isFA {
		return 0, nil, false
	}
	load, isLoad := fa.X.(*ssa.UnOp)
	if !isLoad || load.Op != token.MUL {
		return 0, nil, false
	}
	ia, isIA := load.X.(*ssa.IndexAddr)
	if !isIA {
		return 0, nil, false
	}
	S, idx := ia.X, ia.Index
	l = InnermostLoop(loops, z.Block())
	if l == nil {
		return 0, nil, false
	}
	// the single exiting block and its test
	var test *ssa.BasicBlock
	for b := range l.Blocks {
		for _, s := range b.Succs {
			if !l.Blocks[s] {
				if test != nil && test != b {
					return 0, nil, false
				}
				test = b
			}
		}
	}
	if test == nil || len(test.Succs) != 2 {
		return 0, nil, false
	}
	iff, isIf := test.Instrs[len(test.Instrs)-1].(*ssa.If)
	if !isIf {
		return 0, nil, false
	}
	var stay *ssa.BasicBlock
	var stayOutcome bool
	switch {
	case l.Blocks[test.Succs[0]] && !l.Blocks[test.Succs[1]]:
		stay, stayOutcome = test.Succs[0], true
	case !l.Blocks[test.Succs[0]] && l.Blocks[test.Succs[1]]:
		stay, stayOutcome = test.Succs[1], false
	default:
		return 0, nil, false
	}
	for _, lt := range l.Latch {
		if !(test == lt || test.Dominates(lt)) {
			return 0, nil, false
		}
	}
	x, y, isLess := c13LessThan(iff.Cond, stayOutcome)
	if !isLess {
		return 0, nil, false
	}
	// the counter
	var ph *ssa.Phi
	for _, c := range HeaderPhis(l) {
		if c02CounterPlus(x, c) >= 0 {
			ph = c
		}
	}
	if ph == nil {
		return 0, nil, false
	}
	d := c02CounterPlus(x, ph)
	if c02CounterPlus(idx, ph) != d {
		return 0, nil, false
	}
	var init int64
	nInit, nStep := 0, 0
	for i, e := range ph.Edges {
		if l.Blocks[l.Header.Preds[i]] {
			if !c13IsPlusOne(e, ph) {
				return 0, nil, false
			}
			nStep++
		} else {
			k, isK := constInt(e)
			if !isK || (nInit > 0 && k != init) {
				return 0, nil, false
			}
			init = k
			nInit++
		}
	}
	if nInit == 0 || nStep == 0 {
		return 0, nil, false
	}
	// the bound is the length of the very slice that is indexed, and that slice is made outside the loop
	if c02LenOf(y) != S {
		return 0, nil, false
	}
	if in, isIn := S.(ssa.Instruction); isIn && in.Block() != nil && l.Blocks[in.Block()] {
		return 0, nil, false
	}
	// the store is passed in every iteration, except behind `counter >= K`
	first := init + d
	blocked := map[[2]*ssa.BasicBlock]bool{}
	for _, g := range Guards(z.Block()) {
		if !l.Blocks[g.At] || g.At == test {
			continue
		}
		gx, k, isGE := c02AtLeast(g.Cond, g.True)
		if !isGE || c02CounterPlus(gx, ph) != d {
			continue
		}
		fail := g.At.Succs[1]
		if !g.True {
			fail = g.At.Succs[0]
		}
		blocked[[2]*ssa.BasicBlock{g.At, fail}] = true
		if k > first {
			first = k
		}
	}
	seen := map[*ssa.BasicBlock]bool{}
	var escapes func(b *ssa.BasicBlock) bool
	escapes = func(b *ssa.BasicBlock) bool {
		if b == l.Header {
			return true
		}
		if b == z.Block() || seen[b] || !l.Blocks[b] {
			return false
		}
		seen[b] = true
		for _, s := range b.Succs {
			if blocked[[2]*ssa.BasicBlock{b, s}] {
				continue
			}
			if escapes(s) {
				return true
			}
		}
		return false
	}
	if stay != z.Block() && escapes(stay) {
		return 0, nil, false
	}
	// S in terms of the parameter
	par := ssa.Value(fn.Params[param])
	switch s := S.(type) {
	case *ssa.Parameter:
		if ssa.Value(s) != par {
			return 0, nil, false
		}
		return first, l, true
	case *ssa.Slice:
		if s.X != par || s.Max != nil {
			return 0, nil, false
		}
		if s.High != nil && c02LenOf(s.High) != par {
			return 0, nil, false
		}
		var off int64
		if s.Low != nil {
			k, isK := constInt(s.Low)
			if !isK || k < 0 {
				return 0, nil, false
			}
			off = k
		}
		return off + first, l, true
	}
	return 0, nil, false
}

// c02LenAtMost: the guards imply len(list) <= n, list given by its origin term (any spelling of the comparison
// with a constant: <=, <, ==, negated >, >=, !=, mirrored operands).
func c02LenAtMost(tm *Termer, gs []Guard, list string, n int64) bool {
	for _, g := range gs {
		c, neg := c13StripNot(g.Cond)
		outcome := g.True != neg
		bin, isBin := c.(*ssa.BinOp)
		if !isBin {
			continue
		}
		op, l, r := bin.Op, bin.X, bin.Y
		if _, isK := constInt(l); isK {
			l, r = r, l
			switch op {
			case token.LSS:
				op = token.GTR
			case token.GTR:
				op = token.LSS
			case token.LEQ:
				op = token.GEQ
			case token.GEQ:
				op = token.LEQ
			}
		}
		k, isK := constInt(r)
		if !isK || tm.Of(l).String() != "len("+list+")" {
			continue
		}
		ub, has := int64(0), false
		switch {
		case op == token.LEQ && outcome, op == token.EQL && outcome, op == token.GTR && !outcome, op == token.NEQ && !outcome:
			ub, has = k, true
		case op == token.LSS && outcome, op == token.GEQ && !outcome:
			ub, has = k-1, true
		}
		if has && ub <= n {
			return true
		}
	}
	return false
}

// c02AlwaysReaches: every path from the end of block a to a return passes block h.
func c02AlwaysReaches(a, h *ssa.BasicBlock) bool {
	seen := map[*ssa.BasicBlock]bool{}
	var bad func(b *ssa.BasicBlock) bool
	bad = func(b *ssa.BasicBlock) bool {
		if b == h || seen[b] {
			return false
		}
		seen[b] = true
		if len(b.Instrs) > 0 {
			if _, isRet := b.Instrs[len(b.Instrs)-1].(*ssa.Return); isRet {
				return true
			}
		}
		for _, s := range b.Succs {
			if bad(s) {
				return true
			}
		}
		return false
	}
	for _, s := range a.Succs {
		if bad(s) {
			return false
		}
	}
	return len(a.Succs) > 0
}

// c02ResultOwned (C02.8): the hand-over fact of C16.4 ("what a species goroutine sends on the result channel is
// memory allocated by that goroutine itself - not a parameter, a package-level object or a pooled buffer") is the
// fact the parallel executor needs for population-size conservation as well: the collector decodes the babies only
// after wg.Wait(), so a payload that aliases storage which is given back or reused when the goroutine ends
// (sync.Pool Put, a shared buffer) is overwritten by a later goroutine, decoding fails (or yields another species'
// babies) and NextEpoch returns an error instead of PopSize new organisms. The rule is C16's; it is run here and
// its result.owned obligations are taken over unchanged (as C16.6 takes over C06/C04 obligations).
func (r *Run) c02ResultOwned() {
	sub := NewRun(r.P, "C16", r.Tier)
	sub.Guarded(func() { C16(r.P, sub) })
	n := 0
	for _, o := range sub.Obs {
		switch {
		case o.Rule == "C16.4" && strings.HasPrefix(o.Construct, "result.owned"):
			n++
			r.add(o.Status, "parallel."+o.Construct, o.Pos, o.Detail, o.Path)
		case o.Rule == "C16.0" || o.Rule == "setup":
			// the goroutine root was not found: the ownership rule could not run
			r.add(o.Status, "parallel."+o.Construct, o.Pos, o.Detail, o.Path)
		}
	}
	r.PathsExplored += sub.PathsExplored
	r.Floor("pointer-like fields of the result message whose ownership was decided", n, 1)
}
