package nc

import (
	"go/token"
	"go/types"
	"strings"

	"golang.org/x/tools/go/ssa"
)

// Helpers that let the C02/C09 rules recognise equivalent shapes of
//   (a) a check whose verdict travels through an error result (`if err := check(list, n); err != nil { return err }`,
//       the helper inlined by the normaliser): what is known behind `err == nil` is what is known on every edge
//       on which the error can have become nil;
//   (b) "every element of the list from position k on" written as an index loop from k, as a range loop over
//       list[k:], or as a loop over the whole list with the action under `i >= k`.
// Both derive facts from the code; nothing is assumed.

// c02EffGuards: the branch outcomes known when block b executes: Guards(b), looked through boolean flags
// (effGuards) and through values that are known to be nil at b.
//
// When b is guarded by `x == nil` and x is a phi, x can be nil only because control entered the phi's block over
// an edge that does not carry a definitely non-nil value (fresh fmt.Errorf / errors.New results, allocations ...).
// The outcomes known on all of those edges are then known at b as well.
//
// anchors are the values the caller relates the derived outcomes to. A phi is looked through only when the
// definition of every anchor strictly dominates the phi's block: then the anchor cannot have been redefined
// between the moment the derived outcome was evaluated and the moment b runs (see effGuards in robust_c05.go).
func c02EffGuards(b *ssa.BasicBlock, anchors ...ssa.Value) []Guard {
	return c02ExpandNil(effGuards(b, anchors...), anchors, 0, map[*ssa.Phi]bool{})
}

func c02ExpandNil(gs []Guard, anchors []ssa.Value, depth int, busy map[*ssa.Phi]bool) []Guard {
	out := append([]Guard{}, gs...)
	if depth > 3 {
		return out
	}
	for _, g := range gs {
		bo, isB := g.Cond.(*ssa.BinOp)
		if !isB {
			continue
		}
		var ph *ssa.Phi
		if q, ok := bo.X.(*ssa.Phi); ok {
			ph = q
		} else if q, ok := bo.Y.(*ssa.Phi); ok {
			ph = q
		}
		if ph == nil || busy[ph] {
			continue
		}
		isNil, kind := guardOn(g, ph)
		if kind != "nil" || !isNil {
			continue
		}
		stable := true
		for _, a := range anchors {
			if in, ok := a.(ssa.Instruction); ok && in.Block() != nil {
				if in.Block() == ph.Block() || !in.Block().Dominates(ph.Block()) {
					stable = false
				}
			}
		}
		if !stable {
			continue
		}
		feas := FeasibleEdges(ph, []Guard{g})
		var common []Guard
		first := true
		busy[ph] = true
		for i := range ph.Edges {
			if !feas[i] {
				continue
			}
			cs := expandFlagGuards(condsAt(ph.Block().Preds[i], ph.Block()), anchors, depth+1, map[*ssa.Phi]bool{})
			cs = c02ExpandNil(cs, anchors, depth+1, busy)
			if first {
				common, first = cs, false
			} else {
				common = intersectGuards(common, cs)
			}
		}
		delete(busy, ph)
		for _, c := range common {
			dup := false
			for _, o := range out {
				if sameGuard(o, c) {
					dup = true
				}
			}
			if !dup {
				out = append(out, c)
			}
		}
	}
	return out
}

// c02LenOf: v is len(x) of a slice; returns x.
func c02LenOf(v ssa.Value) ssa.Value {
	c, ok := v.(*ssa.Call)
	if !ok || len(c.Call.Args) != 1 {
		return nil
	}
	if b, isB := c.Call.Value.(*ssa.Builtin); isB && b.Name() == "len" {
		return c.Call.Args[0]
	}
	return nil
}

// c02CounterPlus: v is the header phi ph itself (0), or ph+1 (1); -1 otherwise.
func c02CounterPlus(v ssa.Value, ph *ssa.Phi) int64 {
	if v == ssa.Value(ph) {
		return 0
	}
	if c13IsPlusOne(v, ph) {
		return 1
	}
	return -1
}

// c02AtLeast decomposes cond (with the given outcome) into "x >= k" for a constant k.
func c02AtLeast(cond ssa.Value, outcome bool) (x ssa.Value, k int64, ok bool) {
	c, neg := c13StripNot(cond)
	if neg {
		outcome = !outcome
	}
	bin, isBin := c.(*ssa.BinOp)
	if !isBin {
		return nil, 0, false
	}
	op, l, r := bin.Op, bin.X, bin.Y
	if _, isK := constInt(l); isK {
		// k OP x  ->  x OP' k
		l, r = r, l
		switch op {
		case token.LSS:
			op = token.GTR
		case token.GTR:
			op = token.LSS
		case token.LEQ:
			op = token.GEQ
		case token.GEQ:
			op = token.LEQ
		}
	}
	kv, isK := constInt(r)
	if !isK {
		return nil, 0, false
	}
	switch {
	case op == token.GEQ && outcome: // x >= k
		return l, kv, true
	case op == token.GTR && outcome: // x > k
		return l, kv + 1, true
	case op == token.LSS && !outcome: // !(x < k)
		return l, kv, true
	case op == token.LEQ && !outcome: // !(x <= k)
		return l, kv + 1, true
	}
	return nil, 0, false
}

// c02TailCover: the store z, which lies in a loop, writes a field of *base[k] for EVERY k in [from, len(base)) -
// once per k - where base is the slice parameter `param` of the function. What is established when ok:
//   - the innermost loop l of z has a single exiting block; its test keeps the iteration inside the loop precisely
//     when c+d < len(S) for a header phi c that starts at a constant and advances by exactly one on every back
//     edge (d is 0 for an index loop, 1 for the pre-incremented counter of a range loop); the test is passed in
//     every iteration before the back edge;
//   - z stores to (*S[c+d]).field, with the same S whose length bounds the loop and the same offset d;
//   - every path of an iteration from the test to a back edge passes z, except over the failing outcomes of
//     guards `c+d >= K` (the first K positions are skipped);
//   - S is the parameter itself, or parameter[K':] (no upper bound, or len(parameter)), made outside the loop.
//
// Hence the positions written, in terms of the parameter, are exactly from = K' + max(init+d, K), ..., len-1.
func c02TailCover(fn *ssa.Function, loops []*Loop, z *ssa.Store, param int) (from int64, l *Loop, ok bool) {
	if param >= len(fn.Params) {
		return 0, nil, false
	}
	fa, isFA := z.Addr.(*ssa.FieldAddr)
	if !isFA {
		return 0, nil, false
	}
	load, isLoad := fa.X.(*ssa.UnOp)
	if !isLoad || load.Op != token.MUL {
		return 0, nil, false
	}
	ia, isIA := load.X.(*ssa.IndexAddr)
	if !isIA {
		return 0, nil, false
	}
	S, idx := ia.X, ia.Index
	l = InnermostLoop(loops, z.Block())
	if l == nil {
		return 0, nil, false
	}
	// the single exiting block and its test
	var test *ssa.BasicBlock
	for b := range l.Blocks {
		for _, s := range b.Succs {
			if !l.Blocks[s] {
				if test != nil && test != b {
					return 0, nil, false
				}
				test = b
			}
		}
	}
	if test == nil || len(test.Succs) != 2 {
		return 0, nil, false
	}
	iff, isIf := test.Instrs[len(test.Instrs)-1].(*ssa.If)
	if !isIf {
		return 0, nil, false
	}
	var stay *ssa.BasicBlock
	var stayOutcome bool
	switch {
	case l.Blocks[test.Succs[0]] && !l.Blocks[test.Succs[1]]:
		stay, stayOutcome = test.Succs[0], true
	case !l.Blocks[test.Succs[0]] && l.Blocks[test.Succs[1]]:
		stay, stayOutcome = test.Succs[1], false
	default:
		return 0, nil, false
	}
	for _, lt := range l.Latch {
		if !(test == lt || test.Dominates(lt)) {
			return 0, nil, false
		}
	}
	x, y, isLess := c13LessThan(iff.Cond, stayOutcome)
	if !isLess {
		return 0, nil, false
	}
	// the counter
	var ph *ssa.Phi
	for _, c := range HeaderPhis(l) {
		if c02CounterPlus(x, c) >= 0 {
			ph = c
		}
	}
	if ph == nil {
		return 0, nil, false
	}
	d := c02CounterPlus(x, ph)
	if c02CounterPlus(idx, ph) != d {
		return 0, nil, false
	}
	var init int64
	nInit, nStep := 0, 0
	for i, e := range ph.Edges {
		if l.Blocks[l.Header.Preds[i]] {
			if !c13IsPlusOne(e, ph) {
				return 0, nil, false
			}
			nStep++
		} else {
			k, isK := constInt(e)
			if !isK || (nInit > 0 && k != init) {
				return 0, nil, false
			}
			init = k
			nInit++
		}
	}
	if nInit == 0 || nStep == 0 {
		return 0, nil, false
	}
	// the bound is the length of the very slice that is indexed, and that slice is made outside the loop
	if c02LenOf(y) != S {
		return 0, nil, false
	}
	if in, isIn := S.(ssa.Instruction); isIn && in.Block() != nil && l.Blocks[in.Block()] {
		return 0, nil, false
	}
	// the store is passed in every iteration, except behind `counter >= K`
	first := init + d
	blocked := map[[2]*ssa.BasicBlock]bool{}
	for _, g := range Guards(z.Block()) {
		if !l.Blocks[g.At] || g.At == test {
			continue
		}
		gx, k, isGE := c02AtLeast(g.Cond, g.True)
		if !isGE || c02CounterPlus(gx, ph) != d {
			continue
		}
		fail := g.At.Succs[1]
		if !g.True {
			fail = g.At.Succs[0]
		}
		blocked[[2]*ssa.BasicBlock{g.At, fail}] = true
		if k > first {
			first = k
		}
	}
	seen := map[*ssa.BasicBlock]bool{}
	var escapes func(b *ssa.BasicBlock) bool
	escapes = func(b *ssa.BasicBlock) bool {
		if b == l.Header {
			return true
		}
		if b == z.Block() || seen[b] || !l.Blocks[b] {
			return false
		}
		seen[b] = true
		for _, s := range b.Succs {
			if blocked[[2]*ssa.BasicBlock{b, s}] {
				continue
			}
			if escapes(s) {
				return true
			}
		}
		return false
	}
	if stay != z.Block() && escapes(stay) {
		return 0, nil, false
	}
	// S in terms of the parameter
	par := ssa.Value(fn.Params[param])
	switch s := S.(type) {
	case *ssa.Parameter:
		if ssa.Value(s) != par {
			return 0, nil, false
		}
		return first, l, true
	case *ssa.Slice:
		if s.X != par || s.Max != nil {
			return 0, nil, false
		}
		if s.High != nil && c02LenOf(s.High) != par {
			return 0, nil, false
		}
		var off int64
		if s.Low != nil {
			k, isK := constInt(s.Low)
			if !isK || k < 0 {
				return 0, nil, false
			}
			off = k
		}
		return off + first, l, true
	}
	return 0, nil, false
}

// c02LenAtMost: the guards imply len(list) <= n, list given by its origin term (any spelling of the comparison
// with a constant: <=, <, ==, negated >, >=, !=, mirrored operands).
func c02LenAtMost(tm *Termer, gs []Guard, list string, n int64) bool {
	for _, g := range gs {
		c, neg := c13StripNot(g.Cond)
		outcome := g.True != neg
		bin, isBin := c.(*ssa.BinOp)
		if !isBin {
			continue
		}
		op, l, r := bin.Op, bin.X, bin.Y
		if _, isK := constInt(l); isK {
			l, r = r, l
			switch op {
			case token.LSS:
				op = token.GTR
			case token.GTR:
				op = token.LSS
			case token.LEQ:
				op = token.GEQ
			case token.GEQ:
				op = token.LEQ
			}
		}
		k, isK := constInt(r)
		if !isK || tm.Of(l).String() != "len("+list+")" {
			continue
		}
		ub, has := int64(0), false
		switch {
		case op == token.LEQ && outcome, op == token.EQL && outcome, op == token.GTR && !outcome, op == token.NEQ && !outcome:
			ub, has = k, true
		case op == token.LSS && outcome, op == token.GEQ && !outcome:
			ub, has = k-1, true
		}
		if has && ub <= n {
			return true
		}
	}
	return false
}

// c02AlwaysReaches: every path from the end of block a to a return passes block h.
func c02AlwaysReaches(a, h *ssa.BasicBlock) bool {
	seen := map[*ssa.BasicBlock]bool{}
	var bad func(b *ssa.BasicBlock) bool
	bad = func(b *ssa.BasicBlock) bool {
		if b == h || seen[b] {
			return false
		}
		seen[b] = true
		if len(b.Instrs) > 0 {
			if _, isRet := b.Instrs[len(b.Instrs)-1].(*ssa.Return); isRet {
				return true
			}
		}
		for _, s := range b.Succs {
			if bad(s) {
				return true
			}
		}
		return false
	}
	for _, s := range a.Succs {
		if bad(s) {
			return false
		}
	}
	return len(a.Succs) > 0
}

// c02ResultOwned (C02.8): the hand-over fact of C16.4 ("what a species goroutine sends on the result channel is
// memory allocated by that goroutine itself - not a parameter, a package-level object or a pooled buffer") is the
// fact the parallel executor needs for population-size conservation as well: the collector decodes the babies only
// after wg.Wait(), so a payload that aliases storage which is given back or reused when the goroutine ends
// (sync.Pool Put, a shared buffer) is overwritten by a later goroutine, decoding fails (or yields another species'
// babies) and NextEpoch returns an error instead of PopSize new organisms. The rule is C16's; it is run here and
// its result.owned obligations are taken over unchanged (as C16.6 takes over C06/C04 obligations).
func (r *Run) c02ResultOwned() {
	sub := NewRun(r.P, "C16", r.Tier)
	sub.Guarded(func() { C16(r.P, sub) })
	n := 0
	for _, o := range sub.Obs {
		switch {
		case o.Rule == "C16.4" && strings.HasPrefix(o.Construct, "result.owned"):
			n++
			r.add(o.Status, "parallel."+o.Construct, o.Pos, o.Detail, o.Path)
		case o.Rule == "C16.0" || o.Rule == "setup":
			// the goroutine root was not found: the ownership rule could not run
			r.add(o.Status, "parallel."+o.Construct, o.Pos, o.Detail, o.Path)
		}
	}
	r.PathsExplored += sub.PathsExplored
	r.Floor("pointer-like fields of the result message whose ownership was decided", n, 1)
}

// ---------------------------------------------------------------------------
// Calls a function performs, directly or through a local table of forwarding closures

// c02Event is one call that a function performs when it runs: the instruction at which it happens, the declared
// function that runs, and - when the instruction is the call of a table loop - the position of the table entry.
type c02Event struct {
	at     ssa.CallInstruction
	callee *ssa.Function
	sub    int                      // index of the table entry (0 for a direct call)
	loop   *Loop                    // the table loop, nil for a direct call
	errOut map[*ssa.BasicBlock]bool // blocks reachable from the exits the table loop takes on an entry's error
}

// c02CallEvents lists the calls fn performs:
//
//   - every static call of a declared function or method (go statements excluded), as itself;
//   - for the ladder `if err := a(..); err != nil { return err }; if err := b(..); err != nil { return err }` written as
//     a table, `steps := []func() error{func() error { return a(..) }, func() error { return b(..) }}` run by
//     `for _, st := range steps { if err := st(); err != nil { return err } }`: one event per table entry, in index
//     order, at the instruction `st()`. c15TableLoop establishes that the table is a literal with exactly one store per
//     index made before the loop, that the loop calls entry 0, 1, .., N-1 in this order, every iteration, that it is left
//     early only on a non-nil error result of the entry just called, and that nothing else happens in it; c02Forwarded
//     establishes that calling entry k unconditionally calls the declared function and hands back its result. The
//     table loop must not lie inside another loop (otherwise entry 0 would run again after entry N-1).
//
// An entry that is not such a forwarding closure makes the whole table unusable (no events for it): the order of the
// other entries relative to what that entry does would not be known.
func c02CallEvents(fn *ssa.Function, loops []*Loop) []c02Event {
	var out []c02Event
	Instrs(fn, func(b *ssa.BasicBlock, _ int, in ssa.Instruction) {
		ci, ok := in.(ssa.CallInstruction)
		if !ok {
			return
		}
		if _, isGo := in.(*ssa.Go); isGo {
			return
		}
		if c := ci.Common().StaticCallee(); c != nil {
			if _, isClosure := ci.Common().Value.(*ssa.MakeClosure); !isClosure {
				out = append(out, c02Event{at: ci, callee: c})
				return
			}
		}
		call, isCall := in.(*ssa.Call)
		if !isCall || call.Call.IsInvoke() || len(call.Call.Args) != 0 {
			return
		}
		l := InnermostLoop(loops, b)
		if l == nil || len(OuterLoops(loops, l.Header)) != 1 {
			return
		}
		vals, errExits, isTab := c15TableLoop(l, call, call.Call.Value)
		if !isTab {
			return
		}
		var evs []c02Event
		errOut := c15ReachableFrom(errExits)
		for k, v := range vals {
			callee := c02Forwarded(v, fn)
			if callee == nil {
				return
			}
			evs = append(evs, c02Event{at: ci, callee: callee, sub: k, loop: l, errOut: errOut})
		}
		out = append(out, evs...)
	})
	return out
}

// c02Forwarded: v is a closure made in fn, without parameters, whose body is one basic block that only reads
// captured variables (loads, field addresses), makes exactly one call - a static call of a declared function or
// method - and returns the results of that call unchanged. Calling v therefore calls that function exactly once,
// unconditionally, and yields its result (the same notion as c15EffectiveCall's thin wrapper, for a closure that is
// stored in a table instead of being called by name). Returns the function called, nil if v is anything else.
func c02Forwarded(v ssa.Value, fn *ssa.Function) *ssa.Function {
	mc, ok := v.(*ssa.MakeClosure)
	if !ok || mc.Parent() != fn {
		return nil
	}
	body, _ := mc.Fn.(*ssa.Function)
	if body == nil || len(body.Blocks) != 1 || len(body.Params) != 0 || body.Recover != nil {
		return nil
	}
	var inner *ssa.Call
	var ret *ssa.Return
	for _, in := range body.Blocks[0].Instrs {
		switch x := in.(type) {
		case *ssa.DebugRef, *ssa.FieldAddr, *ssa.Field, *ssa.Extract:
		case *ssa.UnOp:
			if x.Op != token.MUL {
				return nil
			}
		case *ssa.Call:
			if inner != nil {
				return nil
			}
			inner = x
		case *ssa.Return:
			ret = x
		default:
			return nil
		}
	}
	if inner == nil || ret == nil || inner.Call.IsInvoke() {
		return nil
	}
	callee, _ := inner.Call.Value.(*ssa.Function)
	if callee == nil || callee.Parent() != nil {
		return nil
	}
	if tup, isTup := inner.Type().(*types.Tuple); isTup {
		if len(ret.Results) != tup.Len() {
			return nil
		}
		for i, rv := range ret.Results {
			ex, isEx := rv.(*ssa.Extract)
			if !isEx || ex.Tuple != ssa.Value(inner) || ex.Index != i {
				return nil
			}
		}
	} else if len(ret.Results) != 1 || ret.Results[0] != ssa.Value(inner) {
		return nil
	}
	return callee
}

// ---------------------------------------------------------------------------
// All-to-one redistribution written as one loop

// allToOneLoop recognises the redistribution "every quota becomes 0, then the recipient R gets v" written as a single
// loop over the species list,
//
//	for _, sp := range p.Species { if sp == R { sp.ExpectedOffspring = v } else { sp.ExpectedOffspring = 0 } }
//
// and returns v: after the loop the quotas of the listed species total v, exactly as after the zeroing loop followed by
// `R.ExpectedOffspring = v` (both under the walker's standing reading that the entries of the species list are
// distinct species). What is established:
//   - l runs its body once for every position of recv.Species and is left only by exhaustion (fullCover; covered, ph
//     and d are its results), it contains no inner loop, and every quota store in it addresses the quota of the species
//     of the current position;
//   - on EVERY path of one iteration (EnumIterPaths) a quota store is passed, and the last one passed decides the quota
//     the species is left with: it is the constant 0 and the path has taken an outcome that says `species != R`, or it
//     is v and the path has taken an outcome that says `species == R` (CmpFact: any spelling, either branch order;
//     `sp.q = 0; if sp == R { sp.q = v }` is covered as well). So the species identical to R ends with v and every
//     other one with 0 - no species keeps an old quota and none but R receives v;
//   - R and v are the same values on all paths and are computed outside the loop;
//   - R is a species of the very list the loop runs over, and is not nil whenever the list has an entry
//     (c02RecipientExists - the fact apportion.recipient records for the recipient of the make-up offspring): exactly
//     one position holds R, so v is handed out once;
//   - the list field is not assigned on any way to the loop (the list R was chosen from is the list processed).
func (w *c02QWalk) allToOneLoop(l *Loop, ph *ssa.Phi, d int64, covered bool, list string, stores []*ssa.Store) (ssa.Value, bool) {
	if !covered || ph == nil || len(stores) == 0 {
		return nil, false
	}
	loops := Loops(w.fn)
	for _, o := range loops {
		if o.Header != l.Header && l.Blocks[o.Header] {
			return nil, false
		}
	}
	inLoop := map[*ssa.Store]bool{}
	for _, s := range stores {
		if !w.elemQuotaAddr(s.Addr, ph, d, list) {
			return nil, false
		}
		inLoop[s] = true
	}
	outside := func(v ssa.Value) bool {
		if in, isIn := v.(ssa.Instruction); isIn && in.Block() != nil {
			return !l.Blocks[in.Block()]
		}
		return true
	}
	// the species of the current position: *(&S[c+d])
	isElem := func(v ssa.Value) bool {
		ld, ok := v.(*ssa.UnOp)
		if !ok || ld.Op != token.MUL {
			return false
		}
		ia, isIA := ld.X.(*ssa.IndexAddr)
		return isIA && c02CounterPlus(ia.Index, ph) == d && w.tm.Of(ia.X).String() == list
	}
	paths, complete := EnumIterPaths(w.fn, l, 500)
	if !complete {
		return nil, false
	}
	var R, V ssa.Value
	nBack := 0
	for _, ip := range paths {
		if ip.End != "back" {
			if ip.End == "exit" && len(ip.Blocks) == 2 && ip.Blocks[0] == l.Header {
				continue // exhaustion
			}
			return nil, false
		}
		nBack++
		var last *ssa.Store
		for _, b := range ip.Blocks[:len(ip.Blocks)-1] {
			for _, in := range b.Instrs {
				if s, ok := in.(*ssa.Store); ok && inLoop[s] {
					last = s
				}
			}
		}
		if last == nil {
			return nil, false // the species of this iteration keeps its old quota
		}
		isZero := IsConstIntValue(last.Val, 0)
		if !isZero {
			if !outside(last.Val) || (V != nil && V != last.Val) {
				return nil, false
			}
			V = last.Val
		}
		okPath := false
		for _, g := range ip.Conds {
			x, y, op, isCmp := CmpFact(g.Cond, g.True)
			if !isCmp || !l.Blocks[g.At] {
				continue
			}
			if (isZero && op != token.NEQ) || (!isZero && op != token.EQL) {
				continue
			}
			if isElem(y) && !isElem(x) {
				x, y = y, x
			}
			if !isElem(x) || isElem(y) || !outside(y) {
				continue
			}
			if R != nil && R != y {
				continue
			}
			R, okPath = y, true
		}
		if !okPath {
			return nil, false
		}
	}
	if R == nil || V == nil || nBack == 0 {
		return nil, false
	}
	if ok, _ := c02RecipientExists(w.fn, w.tm, loops, R); !ok {
		return nil, false
	}
	// the list is not replaced on a way to the loop
	for _, s := range FieldStores(w.fn, w.listFld) {
		if s.Block() == l.Header || c15ReachableFrom(s.Block().Succs)[l.Header] {
			return nil, false
		}
	}
	return V, true
}

// ---------------------------------------------------------------------------
// "every element different from x, in order" written with slices.DeleteFunc

// c02FilteredByIdentity: v is the list `what` (given by its origin term, e.g. recv.Organisms) without the elements
// identical to parameter number param of fn, the others in their order - written with the standard library:
//
//	slices.DeleteFunc(<what, or a private plain copy of it>, func(o *T) bool { return o == x })
//
// That is the same list as the one built by `for _, o := range what { if o != x { out = append(out, o) } }`.
// Established:
//   - v is the result of slices.DeleteFunc (documented: removes the elements for which the predicate holds, keeps the
//     others in their order), applied to `what` or a copy that nothing else sees, and the result is only measured and
//     stored (c10OrderKeepingDelete - the order fact C10.4 uses for the same function);
//   - the predicate is a function literal made in fn whose every return yields `element == x`: the comparison itself
//     (any spelling, CmpFact), or the constant true behind an outcome that says element == x / the constant false
//     behind an outcome that says element != x; the element is the literal's parameter and x is the content of a
//     captured variable that fn assigns exactly once, before the literal is made, with its parameter (c15CapturedValue),
//     and the literal does nothing else (no calls, no stores).
func c02FilteredByIdentity(tm *Termer, fn *ssa.Function, v ssa.Value, what string, param int) bool {
	call, ok := v.(*ssa.Call)
	if !ok || call.Call.IsInvoke() || len(call.Call.Args) != 2 || param >= len(fn.Params) {
		return false
	}
	if name, _ := calleeName(&call.Call); !strings.HasPrefix(name, "slices.DeleteFunc[") {
		return false
	}
	if !c10OrderKeepingDelete(tm, v, what) {
		return false
	}
	mc, isMC := call.Call.Args[1].(*ssa.MakeClosure)
	if !isMC || mc.Parent() != fn {
		return false
	}
	pred, _ := mc.Fn.(*ssa.Function)
	if pred == nil || len(pred.Params) != 1 || pred.Recover != nil || len(pred.Blocks) == 0 {
		return false
	}
	elem := ssa.Value(pred.Params[0])
	target := ssa.Value(fn.Params[param])
	// the fact `element op x`
	isFact := func(x, y ssa.Value, op, want token.Token) bool {
		if op != want {
			return false
		}
		if y == elem {
			x, y = y, x
		}
		return x == elem && c15CapturedValue(mc, pred, y) == target
	}
	nRet := 0
	for _, b := range pred.Blocks {
		for _, in := range b.Instrs {
			switch x := in.(type) {
			case *ssa.Store, *ssa.MapUpdate, *ssa.Send, *ssa.Go, *ssa.Defer, *ssa.Call, *ssa.Panic:
				return false
			case *ssa.Return:
				if len(x.Results) != 1 {
					return false
				}
				nRet++
				res := x.Results[0]
				okRet := false
				switch {
				case IsConstBool(res, true), IsConstBool(res, false):
					want := token.EQL
					if IsConstBool(res, false) {
						want = token.NEQ
					}
					for _, g := range Guards(b) {
						if cx, cy, op, isCmp := CmpFact(g.Cond, g.True); isCmp && isFact(cx, cy, op, want) {
							okRet = true
						}
					}
				default:
					if cx, cy, op, isCmp := CmpFact(res, true); isCmp && isFact(cx, cy, op, token.EQL) {
						okRet = true
					}
				}
				if !okRet {
					return false
				}
			}
		}
	}
	return nRet > 0
}
