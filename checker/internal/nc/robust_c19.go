package nc

import (
	"fmt"
	"go/constant"
	"go/token"
	"go/types"
	"strings"

	"golang.org/x/tools/go/ssa"
)

// Helpers of the C19 rules that make them independent of the syntactic shape
// of a function (early return vs. a single return of a merged value, a level
// passed through an unexported helper's parameter).

// retLeaf is one way a function produces result idx: a value that is not a phi
// together with the branch outcomes known when this value (and not another
// one) is what gets returned - the outcomes dominating the return itself plus,
// for a value merged by phi nodes, the outcomes known on the CFG edge over
// which it enters each phi. The conditions are SSA values, so an outcome
// established on the edge is still a fact about the same value at the return.
type retLeaf struct {
	Val    ssa.Value
	Ret    *ssa.Return
	Guards []Guard
	// Block is where the value is fixed: the predecessor block of the innermost
	// phi edge, or the block of the return for a value that is returned directly.
	Block *ssa.BasicBlock
	// Phi is the innermost phi node the value enters (nil for a value returned directly).
	Phi *ssa.Phi
	// Els, when set by c19PairLeaves, are the elements of the returned fresh slice on this way of returning.
	Els []ssa.Value
}

func retLeaves(fn *ssa.Function, idx int) []retLeaf {
	var out []retLeaf
	for _, b := range fn.Blocks {
		ret, ok := b.Instrs[len(b.Instrs)-1].(*ssa.Return)
		if !ok || idx >= len(ret.Results) {
			continue
		}
		seen := map[*ssa.Phi]bool{}
		var visit func(v ssa.Value, gs []Guard, at *ssa.BasicBlock, via *ssa.Phi)
		visit = func(v ssa.Value, gs []Guard, at *ssa.BasicBlock, via *ssa.Phi) {
			if ph, isPhi := v.(*ssa.Phi); isPhi {
				if seen[ph] {
					return // loop-carried: the other edges of the cycle are visited on their own
				}
				seen[ph] = true
				for i, e := range ph.Edges {
					pred := ph.Block().Preds[i]
					g2 := append(append([]Guard{}, gs...), condsAt(pred, ph.Block())...)
					visit(e, g2, pred, ph)
				}
				delete(seen, ph)
				return
			}
			out = append(out, retLeaf{Val: v, Ret: ret, Guards: gs, Block: at, Phi: via})
		}
		visit(ret.Results[idx], append([]Guard{}, Guards(b)...), b, nil)
	}
	return out
}

// constFloatsOf resolves v to the set of constants it can be: a constant, a phi
// of such values, or a parameter of a function that only the repository can
// call (not exported, never used as a value, not reachable through an
// interface), in which case every call site's argument is resolved in turn. A
// function without any call site contributes no value (it is dead code, e.g.
// the remainder of a helper whose calls were all inlined by the normalisation).
func constFloatsOf(p *Prog, fn *ssa.Function, v ssa.Value, depth int) (vals []float64, ok bool) {
	switch x := v.(type) {
	case *ssa.Const:
		if x.Value == nil || (x.Value.Kind() != constant.Float && x.Value.Kind() != constant.Int) {
			return nil, false
		}
		f, _ := constant.Float64Val(x.Value)
		return []float64{f}, true
	case *ssa.Phi:
		if depth > 6 {
			return nil, false
		}
		for _, e := range x.Edges {
			if e == v {
				continue
			}
			vs, okE := constFloatsOf(p, fn, e, depth+1)
			if !okE {
				return nil, false
			}
			vals = append(vals, vs...)
		}
		return vals, true
	case *ssa.Parameter:
		if depth > 6 || fn.Parent() != nil {
			return nil, false
		}
		pi := -1
		for i, q := range fn.Params {
			if q == x {
				pi = i
			}
		}
		obj, _ := fn.Object().(*types.Func)
		if pi < 0 || obj == nil || obj.Exported() {
			return nil, false // callers outside the repository choose the value
		}
		sites, closed := repoCallSites(p, fn)
		if !closed {
			return nil, false
		}
		for _, s := range sites {
			args := s.Common().Args
			if pi >= len(args) {
				return nil, false
			}
			vs, okA := constFloatsOf(p, s.Parent(), args[pi], depth+1)
			if !okA {
				return nil, false
			}
			vals = append(vals, vs...)
		}
		return vals, true
	}
	return nil, false
}

// repoCallSites lists the static calls of fn in the repository. closed=false when fn
// can also be entered in a way that is not such a call: it is used as a value
// (closure, method value, method expression, go/defer are calls and are listed),
// or a dynamic call through an interface names a method with its identity.
func repoCallSites(p *Prog, fn *ssa.Function) (sites []ssa.CallInstruction, closed bool) {
	closed = true
	obj := fn.Object()
	same := func(g *ssa.Function) bool {
		return g == fn || (g != nil && g.Synthetic != "" && obj != nil && g.Object() == obj)
	}
	for _, f := range p.SrcFuncs() {
		Instrs(f, func(_ *ssa.BasicBlock, _ int, in ssa.Instruction) {
			var callee ssa.Value
			if c, ok := in.(ssa.CallInstruction); ok {
				cc := c.Common()
				if cc.IsInvoke() {
					if obj != nil && cc.Method.Id() == obj.Id() {
						closed = false
					}
				} else {
					callee = cc.Value
					if g, isF := callee.(*ssa.Function); isF && g == fn {
						sites = append(sites, c)
					} else if isF && same(g) {
						closed = false // called through a wrapper: arguments are not those of fn
					}
				}
			}
			for _, op := range in.Operands(nil) {
				if op == nil || *op == nil {
					continue
				}
				if g, isF := (*op).(*ssa.Function); isF && same(g) {
					if c, isCall := in.(ssa.CallInstruction); isCall && c.Common().Value == *op && g == fn {
						// the callee position of a static call; an additional occurrence among the arguments is a value use
						n := 0
						for _, a := range c.Common().Args {
							if a == *op {
								n++
							}
						}
						if n == 0 {
							continue
						}
					}
					closed = false
				}
			}
		})
	}
	return sites, closed
}

// sliceLitAll: v is a fresh slice of exactly n elements, each written exactly once (see
// c19FreshElems), and every element satisfies pred.
func sliceLitAll(fn *ssa.Function, v ssa.Value, n int, pred func(ssa.Value) bool) bool {
	els, ok := c19FreshElems(v, n, nil)
	if !ok {
		return false
	}
	for _, e := range els {
		if !pred(e) {
			return false
		}
	}
	return true
}

// c19FreshElems: v is a slice of exactly n elements that the function created itself and
// filled element by element - a composite literal (a slice of a fresh array) or
// make([]T, n) with a constant n (which the SSA builder turns into a slice [:n] of a fresh
// [n]T as well) - where each index 0..n-1 is stored exactly once through
// a constant index, nothing else can write the storage (it is not passed on or stored
// anywhere before it is returned) and, when `at` is given, every store is executed before
// control reaches `at` (its block dominates `at`). Returns the stored values by index.
func c19FreshElems(v ssa.Value, n int, at *ssa.BasicBlock) ([]ssa.Value, bool) {
	for {
		if ct, ok := v.(*ssa.ChangeType); ok {
			v = ct.X
			continue
		}
		break
	}
	// the storage and every name under which the function handles it
	alias := map[ssa.Value]bool{}
	var work []ssa.Value
	add := func(x ssa.Value) {
		if !alias[x] {
			alias[x] = true
			work = append(work, x)
		}
	}
	// whole: the slice expression covers the whole underlying storage of n elements (a[:], a[0:], a[:n])
	isConst := func(v ssa.Value, k int64) bool {
		c, ok := v.(*ssa.Const)
		return ok && c.Value != nil && c.Value.Kind() == constant.Int && c.Int64() == k
	}
	whole := func(x *ssa.Slice) bool {
		return (x.Low == nil || isConst(x.Low, 0)) && (x.High == nil || isConst(x.High, int64(n))) && (x.Max == nil || isConst(x.Max, int64(n)))
	}
	switch x := v.(type) {
	case *ssa.Slice:
		if !whole(x) {
			return nil, false
		}
		al, ok := x.X.(*ssa.Alloc)
		if !ok {
			return nil, false
		}
		arr, ok := deref(al.Type()).Underlying().(*types.Array)
		if !ok || arr.Len() != int64(n) {
			return nil, false
		}
		add(al)
		add(x)
	case *ssa.MakeSlice:
		k, ok := x.Len.(*ssa.Const)
		if !ok || k.Value == nil || k.Value.Kind() != constant.Int || k.Int64() != int64(n) {
			return nil, false
		}
		add(x)
	default:
		return nil, false
	}
	els := make([]ssa.Value, n)
	cnt := make([]int, n)
	for len(work) > 0 {
		a := work[0]
		work = work[1:]
		refs := a.Referrers()
		if refs == nil {
			return nil, false
		}
		for _, ref := range *refs {
			switch x := ref.(type) {
			case *ssa.Return, *ssa.DebugRef:
			case *ssa.ChangeType:
				add(x)
			case *ssa.Phi:
				add(x)
			case *ssa.Slice:
				if x.X != a || !whole(x) {
					return nil, false
				}
				add(x)
			case *ssa.IndexAddr:
				k, isC := x.Index.(*ssa.Const)
				if x.X != a || !isC || k.Value == nil || k.Value.Kind() != constant.Int || k.Int64() < 0 || k.Int64() >= int64(n) {
					return nil, false
				}
				for _, r2 := range *x.Referrers() {
					switch y := r2.(type) {
					case *ssa.Store:
						if y.Addr != x {
							return nil, false // the element address itself is stored somewhere
						}
						if at != nil && y.Block() != at && !y.Block().Dominates(at) {
							return nil, false
						}
						els[k.Int64()] = y.Val
						cnt[k.Int64()]++
					case *ssa.UnOp, *ssa.DebugRef:
						// a read of the element
					default:
						return nil, false
					}
				}
			default:
				return nil, false // passed to a call, stored, appended to, re-sliced with bounds ...
			}
		}
	}
	for i := 0; i < n; i++ {
		if cnt[i] != 1 {
			return nil, false
		}
	}
	return els, true
}

// c19PhenotypeResult: t is result #idx of Organism.Phenotype() called on an organism accepted by isOrg.
func c19PhenotypeResult(t *Term, idx int, isOrg func(*Term) bool) bool {
	if t == nil || t.Op != "extract" || t.Idx != idx || len(t.Args) == 0 {
		return false
	}
	c := t.Args[0]
	if c.Op != "call" || c.Name != "Organism.Phenotype" || len(c.Args) != 1 {
		return false
	}
	call, ok := c.V.(*ssa.Call)
	if !ok || call.Call.StaticCallee() == nil || call.Call.StaticCallee().Pkg == nil || call.Call.StaticCallee().Pkg.Pkg.Path() != PkgG {
		return false
	}
	return isOrg(c.Args[0])
}

// c19IsPhenotypeComplexity: t is (*network.Network).Complexity() applied to the network returned by
// Phenotype() of an organism accepted by isOrg.
func c19IsPhenotypeComplexity(t *Term, isOrg func(*Term) bool) bool {
	if t == nil || t.Op != "call" || t.Name != "Network.Complexity" || len(t.Args) != 1 {
		return false
	}
	call, ok := t.V.(*ssa.Call)
	if !ok || call.Call.StaticCallee() == nil || call.Call.StaticCallee().Pkg == nil || call.Call.StaticCallee().Pkg.Pkg.Path() != PkgN {
		return false
	}
	return c19PhenotypeResult(t.Args[0], 0, isOrg)
}

// c19CounterReturns: every way result 0 of fn is produced is the loop counter - an increment
// `c + 1` of a phi web that starts at 0, or that web's initial 0 - or the constant 0 under
// len(list)==0. Returns "" when that holds, otherwise what else is returned.
func c19CounterReturns(fn *ssa.Function, tm *Termer, list string) string {
	for _, lf := range retLeaves(fn, 0) {
		switch x := lf.Val.(type) {
		case *ssa.BinOp:
			if x.Op.String() == "+" && tm.Of(x.Y).String() == "1" {
				if ph, isPhi := x.X.(*ssa.Phi); isPhi && lf.Phi != nil && phiWeb(ph).Phis[lf.Phi] {
					continue
				}
			}
		case *ssa.Const:
			if x.Value != nil && x.Value.ExactString() == "0" {
				if lf.Phi != nil {
					// the start value of a counter: the web it enters is incremented by one somewhere
					isCounter := false
					web := phiWeb(lf.Phi)
					for _, f := range web.Feeders {
						if b, isB := f.(*ssa.BinOp); isB && b.Op.String() == "+" && tm.Of(b.Y).String() == "1" {
							if ph, isPhi := b.X.(*ssa.Phi); isPhi && web.Phis[ph] {
								isCounter = true
							}
						}
					}
					if isCounter {
						continue
					}
				}
				empty := false
				for _, g := range lf.Guards {
					if e, ok := lenGuard(tm, g, list); ok && e {
						empty = true
					}
				}
				if empty {
					continue
				}
			}
		}
		return "a return yields " + tm.Of(lf.Val).String() + ", which is not the count of solved trials found by scanning " + list
	}
	return ""
}

// c19PhenotypeOK: the leaf is produced only where the error result of Phenotype() of the organism is nil.
func c19PhenotypeOK(tm *Termer, lf retLeaf, isOrg func(*Term) bool) bool {
	gs := append([]Guard{}, lf.Guards...)
	if in, ok := lf.Val.(ssa.Instruction); ok && in.Block() != nil {
		gs = append(gs, Guards(in.Block())...)
	}
	for _, g := range gs {
		if a, b, ok := eqCond(tm, g); ok {
			if b.Op != "nil" {
				a, b = b, a
			}
			if b.Op == "nil" && c19PhenotypeResult(a, 1, isOrg) {
				return true
			}
		}
	}
	return false
}

// ---- the quantities of the Floats accessors and the expressions that are defined to be them ----
//
// A Floats accessor is "the right statistic" when what it returns on a non-empty series is an
// expression of the table below over the series itself (the receiver, unweighted: the weights
// argument is nil). Every line is an identity of definitions in the pinned gonum v0.14.0
// (stat/stat.go, floats/floats.go), not a numerical approximation: the accepted expression
// performs the same floating-point operations in the same order as the canonical one.
//
//	quantity  accepted expression                     reason
//	--------  --------------------------------------  ------------------------------------------------------------
//	Sum       floats.Sum(x)                           canonical
//	Min       floats.Min(x)                           canonical
//	Min       x[floats.MinIdx(x)]                     floats.Min is `return s[MinIdx(s)]`
//	Max       floats.Max(x)                           canonical
//	Max       x[floats.MaxIdx(x)]                     floats.Max is `return s[MaxIdx(s)]`
//	Mean      stat.Mean(x, nil)                       canonical
//	Mean      <Sum> / float64(len(x))                 stat.Mean with nil weights is `return floats.Sum(x) / float64(len(x))`
//	Mean      stat.MeanVariance(x, nil) #0            its mean is `mean = Mean(x, weights)` (meanUnnormalisedVarianceSumWeights), returned unchanged
//	Mean      stat.MeanStdDev(x, nil) #0              MeanStdDev returns the mean of MeanVariance unchanged
//	Variance  stat.Variance(x, nil)                   canonical
//	Variance  stat.MeanVariance(x, nil) #1            stat.Variance is `_, variance := MeanVariance(x, weights); return variance`
//	StdDev    stat.StdDev(x, nil)                     canonical
//	StdDev    stat.MeanStdDev(x, nil) #1              stat.StdDev is `_, std := MeanStdDev(x, weights); return std`
//	StdDev    math.Sqrt(<Variance>)                   stat.MeanStdDev is `mean, variance := MeanVariance(x, weights); return mean, math.Sqrt(variance)`
//	<Q>       x.Q()  (another accessor of Floats)     that accessor is held to the same table by its own obligation; on a non-empty series it is <Q>
//	pair      fresh 2-element slice {<Mean>, <Variance>}   Floats.MeanVariance returns the two results of stat.MeanVariance, which are <Mean> and <Variance> by the lines above
//	quantile  stat.Quantile(level, ...)               canonical (kind, sorted input and weights are the obligations of C19.2)
//
// Deliberately NOT in the table: stat.PopVariance/PopStdDev/PopMeanVariance (divide by n, not n-1), a
// hand-written loop (a different summation order or formula is a different floating-point result, see the
// single-pass variance), min/max through sorting or the slices package (different NaN behaviour).
// The accessor line cannot be circular: an accessor may not stand for its own quantity, and the table has no
// way back from Sum, Min, Max or Variance to an accessor that depends on them.

const (
	c19PkgStat   = "gonum.org/v1/gonum/stat"
	c19PkgFloats = "gonum.org/v1/gonum/floats"
)

type c19Quant struct {
	p    *Prog
	self string // the accessor being examined: it cannot stand for its own quantity
}

// lib: t is a call of the package-level function pkg.name; returns its argument terms.
func (q c19Quant) lib(t *Term, pkg, name string) ([]*Term, bool) {
	if t == nil || t.Op != "call" {
		return nil, false
	}
	c, ok := t.V.(*ssa.Call)
	if !ok {
		return nil, false
	}
	f := c.Call.StaticCallee()
	if f == nil || f.Signature.Recv() != nil || f.Name() != name {
		return nil, false
	}
	path := ""
	if f.Pkg != nil {
		path = f.Pkg.Pkg.Path()
	} else if f.Object() != nil && f.Object().Pkg() != nil {
		path = f.Object().Pkg().Path()
	}
	if path != pkg {
		return nil, false
	}
	return t.Args, true
}

func c19IsSeries(t *Term) bool { return t != nil && t.Op == "recv" }

// unweighted: pkg.name(x, nil)
func (q c19Quant) unweighted(t *Term, name string) bool {
	a, ok := q.lib(t, c19PkgStat, name)
	return ok && len(a) == 2 && c19IsSeries(a[0]) && a[1].Op == "nil"
}

// ofSeries: pkg.name(x)
func (q c19Quant) ofSeries(t *Term, name string) bool {
	a, ok := q.lib(t, c19PkgFloats, name)
	return ok && len(a) == 1 && c19IsSeries(a[0])
}

// result: t is result #idx of the unweighted stat.name(x, nil)
func (q c19Quant) result(t *Term, name string, idx int) bool {
	return t != nil && t.Op == "extract" && t.Idx == idx && len(t.Args) == 1 && q.unweighted(t.Args[0], name)
}

// accessor: t is x.name() for another accessor of the table
func (q c19Quant) accessor(t *Term, name string) bool {
	if name == q.self || t == nil || t.Op != "call" || len(t.Args) != 1 || !c19IsSeries(t.Args[0]) {
		return false
	}
	f := q.p.FuncOpt(PkgE, "Floats."+name)
	return f != nil && isCallTo(t, f)
}

// Is decides whether t is the named quantity of the series by the table above.
func (q c19Quant) Is(quantity string, t *Term) bool {
	if t == nil {
		return false
	}
	if q.accessor(t, quantity) {
		return true
	}
	switch quantity {
	case "Sum":
		return q.ofSeries(t, "Sum")
	case "Min", "Max":
		if q.ofSeries(t, quantity) {
			return true
		}
		return t.Op == "elem" && len(t.Args) == 2 && c19IsSeries(t.Args[0]) && q.ofSeries(t.Args[1], quantity+"Idx")
	case "Mean":
		if q.unweighted(t, "Mean") || q.result(t, "MeanVariance", 0) || q.result(t, "MeanStdDev", 0) {
			return true
		}
		if t.Op == "bin" && t.Name == "/" && q.Is("Sum", t.Args[0]) {
			d := t.Args[1]
			return d.Op == "conv" && d.Name == "float64" && d.Args[0].Op == "len" && c19IsSeries(d.Args[0].Args[0])
		}
		return false
	case "Variance":
		return q.unweighted(t, "Variance") || q.result(t, "MeanVariance", 1)
	case "StdDev":
		if q.unweighted(t, "StdDev") || q.result(t, "MeanStdDev", 1) {
			return true
		}
		if a, ok := q.lib(t, "math", "Sqrt"); ok && len(a) == 1 {
			return q.Is("Variance", a[0])
		}
		return false
	}
	return false
}

// nanOnEmpty: t is NaN for the empty series without a test of its own, because it is an accessor that is
// itself obliged to return NaN there (C19.1 of that accessor), or the square root of such a value
// (math.Sqrt(NaN) is NaN).
func (q c19Quant) nanOnEmpty(t *Term) bool {
	for _, sp := range floatsTable {
		if sp.guard && sp.method != "MeanVariance" && q.accessor(t, sp.method) {
			return true
		}
	}
	if a, ok := q.lib(t, "math", "Sqrt"); ok && len(a) == 1 {
		return q.nanOnEmpty(a[0])
	}
	return false
}

// c19GonumCalls lists the calls in fn of functions of the gonum module: those have preconditions on
// the series (floats.Min/Max and stat.Quantile panic on an empty one, the moments are 0/0).
func c19GonumCalls(fn *ssa.Function) []ssa.CallInstruction {
	var out []ssa.CallInstruction
	Instrs(fn, func(_ *ssa.BasicBlock, _ int, in ssa.Instruction) {
		c, ok := in.(ssa.CallInstruction)
		if !ok {
			return
		}
		f := c.Common().StaticCallee()
		if f == nil {
			return
		}
		path := ""
		if f.Pkg != nil {
			path = f.Pkg.Pkg.Path()
		} else if f.Object() != nil && f.Object().Pkg() != nil {
			path = f.Object().Pkg().Path()
		}
		if strings.HasPrefix(path, "gonum.org/v1/gonum/") {
			out = append(out, c)
		}
	})
	return out
}

// c19OnEmpty: the leaf is produced on a path on which len(x)==0 is established.
func c19OnEmpty(tm *Termer, lf retLeaf, of string) bool {
	for _, g := range lf.Guards {
		if empty, ok := lenGuard(tm, g, of); ok && empty {
			return true
		}
	}
	return false
}

// ---- third round: a slice filled branch by branch, values produced by a function literal ----

// c19FreshStores: v is a slice of exactly n elements that the function created itself (as for
// c19FreshElems) and nothing but this function's own constant-index element stores can write its
// storage (it is not passed on, stored anywhere or re-sliced with bounds before it is returned).
// Returns the index each such store writes. Unlike c19FreshElems it says nothing about how often
// or where an element is stored: that is decided per path by c19PairLeaves.
func c19FreshStores(v ssa.Value, n int) (map[*ssa.Store]int, bool) {
	for {
		if ct, ok := v.(*ssa.ChangeType); ok {
			v = ct.X
			continue
		}
		break
	}
	alias := map[ssa.Value]bool{}
	var work []ssa.Value
	add := func(x ssa.Value) {
		if !alias[x] {
			alias[x] = true
			work = append(work, x)
		}
	}
	isConst := func(v ssa.Value, k int64) bool {
		c, ok := v.(*ssa.Const)
		return ok && c.Value != nil && c.Value.Kind() == constant.Int && c.Int64() == k
	}
	whole := func(x *ssa.Slice) bool {
		return (x.Low == nil || isConst(x.Low, 0)) && (x.High == nil || isConst(x.High, int64(n))) && (x.Max == nil || isConst(x.Max, int64(n)))
	}
	switch x := v.(type) {
	case *ssa.Slice:
		if !whole(x) {
			return nil, false
		}
		al, ok := x.X.(*ssa.Alloc)
		if !ok {
			return nil, false
		}
		arr, ok := deref(al.Type()).Underlying().(*types.Array)
		if !ok || arr.Len() != int64(n) {
			return nil, false
		}
		add(al)
		add(x)
	case *ssa.MakeSlice:
		k, ok := x.Len.(*ssa.Const)
		if !ok || k.Value == nil || k.Value.Kind() != constant.Int || k.Int64() != int64(n) {
			return nil, false
		}
		add(x)
	default:
		return nil, false
	}
	stores := map[*ssa.Store]int{}
	for len(work) > 0 {
		a := work[0]
		work = work[1:]
		refs := a.Referrers()
		if refs == nil {
			return nil, false
		}
		for _, ref := range *refs {
			switch x := ref.(type) {
			case *ssa.Return, *ssa.DebugRef:
			case *ssa.ChangeType:
				add(x)
			case *ssa.Phi:
				add(x)
			case *ssa.Slice:
				if x.X != a || !whole(x) {
					return nil, false
				}
				add(x)
			case *ssa.IndexAddr:
				k, isC := x.Index.(*ssa.Const)
				if x.X != a || !isC || k.Value == nil || k.Value.Kind() != constant.Int || k.Int64() < 0 || k.Int64() >= int64(n) {
					return nil, false
				}
				for _, r2 := range *x.Referrers() {
					switch y := r2.(type) {
					case *ssa.Store:
						if y.Addr != x {
							return nil, false // the element address itself is stored somewhere
						}
						stores[y] = int(k.Int64())
					case *ssa.UnOp, *ssa.DebugRef:
					default:
						return nil, false
					}
				}
			default:
				return nil, false
			}
		}
	}
	return stores, true
}

// c19PairLeaves turns one way a function returns a fresh n-element slice into the list of ways
// the CONTENTS of that slice are produced. When the elements are written once, before control
// reaches the leaf (a literal, or make + stores in a dominating block), that is the leaf itself
// with its elements. When they are written branch by branch (`res := make([]T, n); if c { res[0],
// res[1] = a, b } else { res[0], res[1] = c, d }; return res`) every acyclic path from the
// function's entry to the return is one way: its elements are the last values stored on that path
// (each index must be stored on it) and its guards are the branch outcomes taken on the path. A
// function with a cycle on the way, or a slice that is merged by a phi, is not split (ok=false).
func c19PairLeaves(fn *ssa.Function, lf retLeaf, n int) ([]retLeaf, bool) {
	if els, ok := c19FreshElems(lf.Val, n, lf.Block); ok {
		lf.Els = els
		return []retLeaf{lf}, true
	}
	if lf.Phi != nil || len(fn.Blocks) == 0 {
		return nil, false
	}
	stores, ok := c19FreshStores(lf.Val, n)
	if !ok {
		return nil, false
	}
	paths, complete := EnumRegionPaths(fn, fn.Blocks[0], func(*ssa.BasicBlock) bool { return false }, 64)
	if !complete {
		return nil, false
	}
	var out []retLeaf
	for _, ip := range paths {
		if ip.End != "return" {
			return nil, false // a loop on the way: the stores of a path are not a fixed sequence
		}
		if ip.Blocks[len(ip.Blocks)-1] != lf.Ret.Block() {
			continue // another return: its own leaf
		}
		els := make([]ssa.Value, n)
		for _, b := range ip.Blocks {
			for _, in := range b.Instrs {
				if st, isSt := in.(*ssa.Store); isSt {
					if k, mine := stores[st]; mine {
						els[k] = st.Val
					}
				}
			}
		}
		for _, e := range els {
			if e == nil {
				return nil, false // an element keeps its zero value on this path
			}
		}
		v := lf
		v.Els = els
		v.Guards = append(append([]Guard{}, lf.Guards...), ip.Conds...)
		out = append(out, v)
	}
	return out, len(out) > 0
}

// c19LitCall: t is a call of a function literal of the function under analysis that captures
// nothing - the callee is fixed (the SSA call is static: the variable or parameter the literal was
// bound to at an inlined call site has this literal as its only value) and what it returns is a
// function of its arguments and the heap alone.
func c19LitCall(tm *Termer, t *Term) (*ssa.Function, bool) {
	if t == nil || t.Op != "call" {
		return nil, false
	}
	c, ok := t.V.(*ssa.Call)
	if !ok || c.Call.IsInvoke() {
		return nil, false
	}
	f, ok := c.Call.Value.(*ssa.Function)
	if !ok || f.Parent() != tm.Fn || len(f.FreeVars) != 0 || f.Blocks == nil || f.Signature.Recv() != nil {
		return nil, false
	}
	if f.Signature.Results().Len() != 1 || len(f.Params) != len(t.Args) || f.Recover != nil {
		return nil, false
	}
	return f, true
}

// substParams: a copy of t (a term over the parameters of a literal) with parameter i replaced by args[i].
func substParams(t *Term, args []*Term) *Term {
	if t == nil {
		return nil
	}
	if t.Op == "param" && t.Idx >= 0 && t.Idx < len(args) {
		return args[t.Idx]
	}
	c := *t
	c.Args = make([]*Term, len(t.Args))
	for i, a := range t.Args {
		c.Args[i] = substParams(a, args)
	}
	return &c
}

// c19Alt is one value a stored expression can be.
type c19Alt struct {
	T *Term
	// ZeroLeaf: the constant 0 returned by a function literal on one of its paths (the other
	// paths return the other alternatives).
	ZeroLeaf bool
}

// c19ValueAlts: the origin terms of v with calls of capture-free function literals of the
// function replaced by what the literal returns, expressed over the call's arguments: a literal
// with a single way of returning is substituted wherever it occurs in the term, a literal with
// several (`if o.S == nil { return 0 }; return float64(o.S.Age)`) at the top gives one alternative
// per way. The result of such a call IS that value, so a rule that holds for every alternative
// holds for the call.
func c19ValueAlts(tm *Termer, v ssa.Value) []c19Alt {
	var inline func(t *Term, depth int) *Term
	leavesOf := func(t *Term, depth int) ([]*Term, []bool, bool) {
		f, ok := c19LitCall(tm, t)
		if !ok || depth > 3 {
			return nil, nil, false
		}
		ftm := NewTermer(f)
		var out []*Term
		var zero []bool
		for _, lf := range retLeaves(f, 0) {
			lt := ftm.Of(lf.Val)
			if lt.Has(func(x *Term) bool { return x.Op == "free" || x.Op == "loop" || x.Op == "unknown" }) {
				return nil, nil, false
			}
			c, isC := lf.Val.(*ssa.Const)
			z := isC && c.Value != nil && (c.Value.Kind() == constant.Int || c.Value.Kind() == constant.Float) && constant.Sign(c.Value) == 0
			out = append(out, substParams(lt, t.Args))
			zero = append(zero, z)
		}
		return out, zero, len(out) > 0
	}
	inline = func(t *Term, depth int) *Term {
		if t == nil {
			return nil
		}
		if ls, _, ok := leavesOf(t, depth); ok && len(ls) == 1 {
			return inline(ls[0], depth+1)
		}
		c := *t
		c.Args = make([]*Term, len(t.Args))
		for i, a := range t.Args {
			c.Args[i] = inline(a, depth)
		}
		return &c
	}
	t := tm.Of(v)
	if ls, zero, ok := leavesOf(t, 0); ok && len(ls) > 1 {
		var out []c19Alt
		for i, l := range ls {
			out = append(out, c19Alt{T: inline(l, 1), ZeroLeaf: zero[i]})
		}
		return out
	}
	return []c19Alt{{T: inline(t, 0)}}
}

// c19OncePerElement: the store writes each element of its slice at most once during the whole
// call - its index is the counter of the only loop around it (the header phi, or that phi plus a
// constant), the counter only ever grows (every value it receives from inside the loop is itself
// plus a positive constant), and the loop is not nested in another one. Storing the zero value
// through such a store into a slice that make() just zeroed and that no other instruction writes
// leaves the element as it was: it is the same as not storing.
func c19OncePerElement(fn *ssa.Function, st *ssa.Store) bool {
	ia, ok := st.Addr.(*ssa.IndexAddr)
	if !ok {
		return false
	}
	loops := Loops(fn)
	l := InnermostLoop(loops, st.Block())
	if l == nil {
		return false
	}
	for _, o := range loops {
		if o != l && o.Blocks[l.Header] {
			return false
		}
	}
	posConst := func(v ssa.Value) bool {
		c, ok := v.(*ssa.Const)
		return ok && c.Value != nil && c.Value.Kind() == constant.Int && constant.Sign(c.Value) > 0
	}
	step := func(v ssa.Value, ph *ssa.Phi) bool {
		b, ok := v.(*ssa.BinOp)
		return ok && b.Op == token.ADD && b.X == ssa.Value(ph) && posConst(b.Y)
	}
	var ph *ssa.Phi
	switch x := ia.Index.(type) {
	case *ssa.Phi:
		ph = x
	case *ssa.BinOp:
		p, isPhi := x.X.(*ssa.Phi)
		if !isPhi || !step(x, p) {
			return false
		}
		ph = p
	default:
		return false
	}
	if ph.Block() != l.Header {
		return false
	}
	inside := 0
	for i, e := range ph.Edges {
		if l.Blocks[ph.Block().Preds[i]] {
			inside++
			if !step(e, ph) {
				return false
			}
		}
	}
	return inside > 0
}

// c19OnlyWriter: the storage of the freshly made slice ms is written by the store st and by nothing
// else - under every name the function has for it (type changes) it is only indexed (element loads,
// and the one store), returned, or inspected by len/cap; it is not passed to a call, appended to,
// re-sliced, copied into or stored anywhere.
func c19OnlyWriter(ms *ssa.MakeSlice, st *ssa.Store) bool {
	seen := map[ssa.Value]bool{}
	work := []ssa.Value{ms}
	for len(work) > 0 {
		a := work[0]
		work = work[1:]
		if seen[a] {
			continue
		}
		seen[a] = true
		refs := a.Referrers()
		if refs == nil {
			return false
		}
		for _, ref := range *refs {
			switch x := ref.(type) {
			case *ssa.Return, *ssa.DebugRef:
			case *ssa.ChangeType:
				work = append(work, x)
			case *ssa.Call:
				if b, isB := x.Call.Value.(*ssa.Builtin); !isB || (b.Name() != "len" && b.Name() != "cap") {
					return false
				}
			case *ssa.IndexAddr:
				if x.X != a || x.Referrers() == nil {
					return false
				}
				for _, r2 := range *x.Referrers() {
					switch y := r2.(type) {
					case *ssa.Store:
						if y != st || y.Addr != ssa.Value(x) {
							return false
						}
					case *ssa.UnOp, *ssa.DebugRef:
					default:
						return false
					}
				}
			default:
				return false
			}
		}
	}
	return true
}

// c19ExpandPairs replaces every leaf that returns a fresh n-element slice by the ways its contents
// are produced (c19PairLeaves); a leaf that is not such a slice is kept as it is, without elements.
func c19ExpandPairs(fn *ssa.Function, leaves []retLeaf, n int) []retLeaf {
	var out []retLeaf
	for _, lf := range leaves {
		if sub, ok := c19PairLeaves(fn, lf, n); ok {
			out = append(out, sub...)
		} else {
			lf.Els = nil
			out = append(out, lf)
		}
	}
	return out
}

// ---- fourth round: emptiness in every spelling, exact counts, "empty value exactly when empty" ----

// c19NumConst: v is a numeric constant; returns it.
func c19NumConst(v ssa.Value) (constant.Value, bool) {
	c, ok := v.(*ssa.Const)
	if !ok || c.Value == nil || (c.Value.Kind() != constant.Int && c.Value.Kind() != constant.Float) {
		return nil, false
	}
	return c.Value, true
}

// c19ConstIs: v is the numeric constant k (an integer or a floating-point constant of that value).
func c19ConstIs(v ssa.Value, k int64) bool {
	c, ok := c19NumConst(v)
	return ok && constant.Compare(c, token.EQL, constant.MakeInt64(k))
}

// c19NatFact: what the branch outcome g says about a quantity q that is a natural number (a length, a
// counter that starts at 0 and is only incremented): zero (q == 0 holds) or nonZero (q != 0 holds).
// The outcome is first turned into a comparison that holds (CmpFact removes negations, complements the
// operator of a branch not taken and moves a constant to the right), then decided with q >= 0:
//
//	q == 0, q <= 0, q < 1            -> zero          q != 0, q > 0, q >= 1, q > k (k >= 0), q >= k, q == k (k >= 1) -> nonZero
//
// Anything that only bounds q (q <= 1, q < 2, q != 3) says neither.
func c19NatFact(g Guard, is func(ssa.Value) bool) (zero, nonZero bool) {
	x, y, op, ok := CmpFact(g.Cond, g.True)
	if !ok {
		return false, false
	}
	if !is(x) {
		// both operands non-constant is not a fact about q and a constant; a constant on the left was moved by CmpFact
		return false, false
	}
	k, isC := c19NumConst(y)
	if !isC {
		return false, false
	}
	cmp := func(o token.Token, n int64) bool { return constant.Compare(k, o, constant.MakeInt64(n)) }
	switch op {
	case token.EQL:
		return cmp(token.EQL, 0), cmp(token.GTR, 0)
	case token.NEQ:
		return false, cmp(token.EQL, 0)
	case token.LEQ:
		return cmp(token.LSS, 1), false
	case token.LSS:
		return cmp(token.LEQ, 1), false
	case token.GTR:
		return false, cmp(token.GEQ, 0)
	case token.GEQ:
		return false, cmp(token.GTR, 0)
	}
	return false, false
}

// c19LenFact: what g says about len(of): empty (len == 0 holds) or nonEmpty (len != 0 holds).
func c19LenFact(tm *Termer, g Guard, of string) (empty, nonEmpty bool) {
	return c19NatFact(g, func(v ssa.Value) bool {
		t := tm.Of(v)
		return t != nil && t.Op == "len" && len(t.Args) == 1 && t.Args[0].String() == of
	})
}

// c19AnyEmpty / c19AnyNonEmpty: some outcome of gs establishes len(of) == 0 / len(of) != 0.
func c19AnyEmpty(tm *Termer, gs []Guard, of string) bool {
	for _, g := range gs {
		if e, _ := c19LenFact(tm, g, of); e {
			return true
		}
	}
	return false
}

func c19AnyNonEmpty(tm *Termer, gs []Guard, of string) bool {
	for _, g := range gs {
		if _, ne := c19LenFact(tm, g, of); ne {
			return true
		}
	}
	return false
}

// c19FullRange: the loop l visits the elements of `list` one by one from the first to the last: it
// stays in the loop exactly while iv < len(list) (either operand order, either branch polarity), where
// iv - the value the elements are indexed with - runs 0, 1, 2, ...: a header phi that starts at 0 and
// receives itself plus one over every back edge (`for i := 0; i < n; i++`), or such a phi starting at -1
// plus one (the form `range` compiles to). Returns iv.
func c19FullRange(tm *Termer, l *Loop, list string) (ssa.Value, bool) {
	if l == nil {
		return nil, false
	}
	iff, ok := l.Header.Instrs[len(l.Header.Instrs)-1].(*ssa.If)
	if !ok || len(l.Header.Succs) != 2 {
		return nil, false
	}
	inT, inF := l.Blocks[l.Header.Succs[0]], l.Blocks[l.Header.Succs[1]]
	if inT == inF {
		return nil, false
	}
	x, y, op, ok := CmpFact(iff.Cond, inT)
	if !ok {
		return nil, false
	}
	var iv, n ssa.Value
	switch op {
	case token.LSS:
		iv, n = x, y
	case token.GTR:
		iv, n = y, x
	default:
		return nil, false
	}
	if nt := tm.Of(n); nt == nil || nt.Op != "len" || len(nt.Args) != 1 || nt.Args[0].String() != list {
		return nil, false
	}
	stepOf := func(v ssa.Value) *ssa.Phi {
		b, ok := v.(*ssa.BinOp)
		if !ok || b.Op != token.ADD {
			return nil
		}
		if ph, isPhi := b.X.(*ssa.Phi); isPhi && c19ConstIs(b.Y, 1) {
			return ph
		}
		if ph, isPhi := b.Y.(*ssa.Phi); isPhi && c19ConstIs(b.X, 1) {
			return ph
		}
		return nil
	}
	var ph *ssa.Phi
	first := int64(0)
	switch v := iv.(type) {
	case *ssa.Phi:
		ph = v
	case *ssa.BinOp:
		ph, first = stepOf(v), -1
	}
	if ph == nil || ph.Block() != l.Header {
		return nil, false
	}
	inside := 0
	for i, e := range ph.Edges {
		if l.Blocks[ph.Block().Preds[i]] {
			inside++
			if first == 0 {
				if stepOf(e) != ph {
					return nil, false
				}
			} else if e != iv {
				return nil, false
			}
		} else if !c19ConstIs(e, first) {
			return nil, false
		}
	}
	return iv, inside > 0
}

// c19ElemOf: t mentions the element of `list` at index iv (the element the current iteration looks at);
// with iv == nil, any element of the list.
func c19ElemOf(t *Term, list string, iv ssa.Value) bool {
	return t.Has(func(x *Term) bool {
		return x.Op == "elem" && len(x.Args) > 1 && x.Args[0].String() == list && (iv == nil || x.Args[1].V == iv)
	})
}

// c19CallOutcome: the outcome, on a path with branch outcomes gs, of a call of fn whose first argument
// mentions the current element of list: +1 it returned true, -1 false, 0 not asked on this path.
func c19CallOutcome(tm *Termer, gs []Guard, fn *ssa.Function, list string, iv ssa.Value) int {
	res := 0
	for _, g := range gs {
		cond, out := g.Cond, g.True
		for {
			if u, isU := cond.(*ssa.UnOp); isU && u.Op == token.NOT {
				cond, out = u.X, !out
				continue
			}
			break
		}
		c, ok := cond.(*ssa.Call)
		if !ok || fn == nil || c.Call.StaticCallee() != fn || len(c.Call.Args) == 0 {
			continue
		}
		if !c19ElemOf(tm.Of(c.Call.Args[0]), list, iv) {
			continue
		}
		if out {
			res = 1
		} else {
			res = -1
		}
	}
	return res
}

// c19Sum states how an accumulator is obliged to grow: in an iteration of a loop over `list` with
// element index iv, on the path ip, Want says how many values are to be added (0 or 1; -1 = this path
// must not exist, with the reason) and Add decides whether the value added is the right one.
type c19Sum struct {
	List string
	Want func(tm *Termer, ip *IterPath, iv ssa.Value) (int, string)
	Add  func(tm *Termer, add ssa.Value, iv ssa.Value) bool
}

// c19SumOver proves that the value v a function uses after a loop is the sum, over EVERY element of
// spec.List, of what spec says the element contributes:
//
//   - v belongs to a web of phi nodes whose only constants are 0 and whose other inputs are all computed
//     inside one loop (nothing adds to it before or after the scan), and exactly one phi of the web is a
//     header phi of that loop;
//   - the loop visits every element of the list, first to last (c19FullRange);
//   - every acyclic path through one iteration either returns to the header - then the accumulator grew
//     by exactly what spec wants for this path (path-resolved difference between the header phi and the
//     value it receives over the back edge) - or is the header's own exit; a path that leaves the loop
//     from the body (break, return) would leave the remaining elements out.
//
// Returns the loop and "" when that is proved, otherwise what is wrong.
func c19SumOver(fn *ssa.Function, tm *Termer, v ssa.Value, spec c19Sum) (*Loop, string) {
	for {
		if cv, ok := v.(*ssa.Convert); ok {
			v = cv.X
			continue
		}
		break
	}
	if _, isPhi := v.(*ssa.Phi); !isPhi {
		return nil, tm.Of(v).String() + " is not accumulated by a loop over " + spec.List
	}
	w := phiWeb(v)
	if w.HasNil {
		return nil, "not a number"
	}
	for _, c := range w.Consts {
		if !c19ConstIs(c, 0) {
			return nil, "the accumulator starts at " + tm.Of(c).String() + ", not at 0"
		}
	}
	loops := Loops(fn)
	var l *Loop
	var hp *ssa.Phi
	for ph := range w.Phis {
		for _, cand := range loops {
			if cand.Header != ph.Block() {
				continue
			}
			if hp != nil && hp != ph {
				return nil, "the accumulator is carried by more than one loop"
			}
			hp, l = ph, cand
		}
	}
	if hp == nil {
		return nil, "the accumulator is not carried by a loop"
	}
	for _, f := range w.Feeders {
		in, ok := f.(ssa.Instruction)
		if !ok || in.Block() == nil || !l.Blocks[in.Block()] {
			return nil, "the accumulator also receives " + tm.Of(f).String() + " outside the scan of " + spec.List
		}
	}
	iv, ok := c19FullRange(tm, l, spec.List)
	if !ok {
		return nil, "the loop that accumulates does not visit every element of " + spec.List + " (index from 0, step 1, while index < len(" + spec.List + "))"
	}
	paths, complete := EnumIterPaths(fn, l, 512)
	if !complete {
		return nil, "too many paths through one iteration"
	}
	nBack := 0
	for _, ip := range paths {
		// the header's own exit (a block that only returns is folded into the path and reported as "return")
		if (ip.End == "exit" || ip.End == "return") && len(ip.Blocks) == 2 && ip.Blocks[0] == l.Header {
			continue
		}
		switch ip.End {
		case "return":
			return nil, "an iteration returns from the function: the elements after it are not visited"
		case "exit":
			return nil, "an iteration leaves the loop from its body (break): the elements after it are not visited"
		case "back":
		default:
			continue
		}
		nBack++
		want, why := spec.Want(tm, ip, iv)
		if want < 0 {
			return nil, why
		}
		next := ip.NextValue(hp)
		if next == nil {
			return nil, "the value carried into the next iteration is not known"
		}
		adds, subs, okD := ip.Delta(next, hp)
		if !okD || len(subs) > 0 {
			return nil, "an iteration changes the accumulator by something other than additions (" + tm.Of(next).String() + ")"
		}
		if len(adds) != want {
			if want == 0 {
				return nil, "an iteration that must not contribute adds " + tm.Of(adds[0]).String()
			}
			return nil, fmt.Sprintf("an iteration that must contribute once adds %d values", len(adds))
		}
		for _, a := range adds {
			if !spec.Add(tm, a, iv) {
				return nil, "an iteration adds " + tm.Of(a).String() + ", which is not the contribution of the element visited"
			}
		}
	}
	if nBack == 0 {
		return nil, "no iteration returns to the loop header"
	}
	return l, ""
}

// c19ReachedUnless: every acyclic path from the entry of fn to a return that does not pass the header
// of l carries branch outcomes accepted by `excused` (e.g. "the list is empty"). Then for every input
// that is not excused the loop is executed before anything is returned. Returns "" or the offending path.
func c19ReachedUnless(p *Prog, fn *ssa.Function, tm *Termer, l *Loop, excused func([]Guard) bool) string {
	if len(fn.Blocks) == 0 || l == nil {
		return "no loop"
	}
	if fn.Blocks[0] == l.Header {
		return ""
	}
	paths, complete := EnumRegionPaths(fn, fn.Blocks[0], func(b *ssa.BasicBlock) bool { return b == l.Header }, 512)
	if !complete {
		return "too many paths to the loop"
	}
	for _, ip := range paths {
		if ip.End != "return" || excused(ip.Conds) {
			continue
		}
		var cs []string
		for _, g := range ip.Conds {
			s := tm.Of(g.Cond).String()
			if !g.True {
				s = "!(" + s + ")"
			}
			cs = append(cs, s)
		}
		if len(cs) == 0 {
			cs = []string{"unconditionally"}
		}
		return "a result is returned without the scan when " + strings.Join(cs, " && ")
	}
	return ""
}

// c19IsGlobalLoad: v reads a package-level variable (EmptyDuration).
func c19IsGlobalLoad(v ssa.Value) bool {
	u, ok := v.(*ssa.UnOp)
	if !ok || u.Op != token.MUL {
		return false
	}
	_, isG := u.X.(*ssa.Global)
	return isG
}

// c19LeafGuards: the branch outcomes known where the leaf's value is computed and where it is returned.
func c19LeafGuards(lf retLeaf) []Guard {
	gs := append([]Guard{}, lf.Guards...)
	if in, ok := lf.Val.(ssa.Instruction); ok && in.Block() != nil {
		gs = append(gs, Guards(in.Block())...)
	}
	return gs
}

// c19StripConv removes numeric conversions.
func c19StripConv(v ssa.Value) ssa.Value {
	for {
		if cv, ok := v.(*ssa.Convert); ok {
			v = cv.X
			continue
		}
		return v
	}
}

// c19FieldOutcome: the outcome, among the branch outcomes gs, of a test of the boolean field `name` of
// the current element of list: +1 the field is true, -1 false, 0 not tested.
func c19FieldOutcome(tm *Termer, gs []Guard, name, list string, iv ssa.Value) int {
	res := 0
	for _, g := range gs {
		cond, out := g.Cond, g.True
		for {
			if u, isU := cond.(*ssa.UnOp); isU && u.Op == token.NOT {
				cond, out = u.X, !out
				continue
			}
			break
		}
		t := tm.Of(cond)
		if t == nil || t.Op != "field" || t.Name != name || !c19ElemOf(t, list, iv) {
			continue
		}
		if out {
			res = 1
		} else {
			res = -1
		}
	}
	return res
}

// c19PathResult: the value result idx has when the path ends in a return (nil otherwise): the operand of
// the return instruction the path's last block ends in or jumps to, with the phis resolved along the path.
func c19PathResult(ip *IterPath, idx int) ssa.Value {
	if len(ip.Blocks) == 0 {
		return nil
	}
	// a `break` block lies outside the natural loop and jumps on: follow unconditional jumps to the return - and
	// a branch on a search result (`i := find(); if i < 0 { return false }`) whose outcome is fixed by the value the
	// result received on this very path
	blocks := append([]*ssa.BasicBlock{}, ip.Blocks...)
	last := blocks[len(blocks)-1]
	for steps := 0; steps < 8; steps++ {
		if iff, isIf := last.Instrs[len(last.Instrs)-1].(*ssa.If); isIf && len(last.Succs) == 2 && (len(blocks) > len(ip.Blocks) || ip.End == "exit") {
			x, y, op, isCmp := CmpFact(iff.Cond, true)
			if !isCmp {
				break
			}
			if _, isPhi := x.(*ssa.Phi); !isPhi {
				break
			}
			holds, known := c19CmpDecide((&IterPath{Blocks: blocks, End: "partial"}).Resolve(x), op, y)
			if !known {
				break
			}
			next := last.Succs[1]
			if holds {
				next = last.Succs[0]
			}
			onPath := false
			for _, b := range blocks {
				if b == next {
					onPath = true
				}
			}
			if onPath {
				break
			}
			last = next
			blocks = append(blocks, last)
			continue
		}
		if _, isJ := last.Instrs[len(last.Instrs)-1].(*ssa.Jump); !isJ || len(last.Succs) != 1 {
			break
		}
		last = last.Succs[0]
		blocks = append(blocks, last)
	}
	ret, ok := last.Instrs[len(last.Instrs)-1].(*ssa.Return)
	if !ok || idx >= len(ret.Results) {
		return nil
	}
	sub := &IterPath{Blocks: blocks, End: "partial"}
	v := sub.Resolve(ret.Results[idx])
	// `return i >= 0` with i the result of a search: on this path i is the value it received on the path
	if x, y, op, isCmp := CmpFact(v, true); isCmp {
		if _, isPhi := x.(*ssa.Phi); isPhi {
			if holds, known := c19CmpDecide(sub.Resolve(x), op, y); known {
				return ssa.NewConst(constant.MakeBool(holds), types.Typ[types.Bool])
			}
		}
	}
	return v
}

// c19Exists proves that the boolean function fn returns true exactly when some element of list satisfies
// pred (pred reports the outcome of the element test among the branch outcomes of a path: +1/-1/0):
//
//   - one loop visits the elements of the list from the first on (c19FullRange), and every path from the
//     entry to a return that does not run it is one on which the list is empty;
//   - in an iteration: where the test is true the function returns true at once; where it is false the
//     iteration goes on to the next element; when the elements are exhausted (the header's exit) the
//     function returns false; there is no other way through an iteration;
//   - outside an element test that came out true, true is not returned anywhere.
func c19Exists(p *Prog, fn *ssa.Function, tm *Termer, list string, pred func(gs []Guard, iv ssa.Value) int) string {
	var l *Loop
	var iv ssa.Value
	for _, cand := range Loops(fn) {
		if v, ok := c19FullRange(tm, cand, list); ok {
			if l != nil {
				return "more than one loop over " + list
			}
			l, iv = cand, v
		}
	}
	if l == nil {
		return "no loop visits every element of " + list
	}
	if w := c19ReachedUnless(p, fn, tm, l, func(gs []Guard) bool { return c19AnyEmpty(tm, gs, list) }); w != "" {
		return w
	}
	paths, complete := EnumIterPaths(fn, l, 256)
	if !complete {
		return "too many paths through one iteration"
	}
	for _, ip := range paths {
		res := c19PathResult(ip, 0)
		if ip.End != "back" && len(ip.Blocks) == 2 && ip.Blocks[0] == l.Header {
			if res == nil || !IsConstBool(res, false) {
				return "when no element is left the function does not return false"
			}
			continue
		}
		switch pred(ip.Conds, iv) {
		case 1:
			if ip.End == "back" || res == nil || !IsConstBool(res, true) {
				return "an element that satisfies the test does not make the function return true"
			}
		case -1:
			if ip.End != "back" {
				return "an element that fails the test ends the scan: the elements after it are not looked at"
			}
		default:
			return "an iteration does not test the element it visits"
		}
	}
	for _, lf := range c19BoolLeaves(fn, 0) {
		if IsConstBool(lf.Val, false) {
			continue
		}
		if !IsConstBool(lf.Val, true) {
			return "returns " + tm.Of(lf.Val).String()
		}
		if pred(lf.Guards, nil) != 1 {
			return "true is returned where no element was found to satisfy the test"
		}
	}
	return ""
}

// ---- series elements: stored exactly when the statistic is defined ----

func c19Strip(t *Term) string { return strings.NewReplacer(" ", "", "&", "").Replace(t.String()) }

// c19Undefined: the branch outcomes gs say that the value whose origin term is vt cannot be computed for
// the current element - a pointer on the way to it is nil (`e.Champion == nil` for e.Champion.Fitness),
// the lookup that yields it reported "not found" (the boolean result of the call whose first result the
// term starts from is false), or it equals the math.MaxInt "no value" sentinel. The facts are read
// from the outcomes in whatever spelling (CmpFact / GuardNilness); which pointers matter is read from the
// term itself, not from names.
func c19Undefined(tm *Termer, gs []Guard, vt *Term) (bool, string) {
	sub := map[string]bool{}
	vt.Walk(func(x *Term) bool {
		sub[c19Strip(x)] = true
		return true
	})
	maxInt := constant.MakeInt64(int64(^uint(0) >> 1))
	for _, g := range gs {
		if GuardNilness(g, func(v ssa.Value) bool {
			if _, isPtr := v.Type().Underlying().(*types.Pointer); !isPtr {
				return false
			}
			return sub[c19Strip(tm.Of(v))]
		}) == 1 {
			return true, "a pointer it is read through is nil"
		}
		cond, out := g.Cond, g.True
		for {
			if u, isU := cond.(*ssa.UnOp); isU && u.Op == token.NOT {
				cond, out = u.X, !out
				continue
			}
			break
		}
		if ex, isEx := cond.(*ssa.Extract); isEx && !out && ex.Index > 0 {
			if vt.Has(func(x *Term) bool {
				return x.Op == "extract" && x.Idx == 0 && len(x.Args) == 1 && x.Args[0].V == ex.Tuple
			}) {
				return true, "the lookup reported that there is none"
			}
		}
		if x, y, op, ok := CmpFact(g.Cond, g.True); ok && op == token.EQL {
			if c, isC := c19NumConst(y); isC && constant.Compare(c, token.EQL, maxInt) && sub[c19Strip(tm.Of(x))] {
				return true, "it is the math.MaxInt sentinel"
			}
		}
	}
	return false, ""
}

// c19StoredWhenDefined: the element store st (series[i] = v inside a loop over list) is executed in
// exactly those iterations in which v is defined for the element visited: on every path through one
// iteration the store is on the path if and only if no branch outcome of the path says the value is
// undefined (c19Undefined); the index stored is the index of the element visited; the loop visits every
// element and is not left from its body. An element that is skipped although its statistic is defined
// stays 0; a store on a path on which a pointer of the value is nil panics.
func c19StoredWhenDefined(fn *ssa.Function, tm *Termer, st *ssa.Store, list string, nillable map[types.Object]bool) string {
	ia, ok := st.Addr.(*ssa.IndexAddr)
	if !ok {
		return "not an element store"
	}
	l := InnermostLoop(Loops(fn), st.Block())
	if l == nil {
		return "the element store is not in a loop"
	}
	iv, ok := c19FullRange(tm, l, list)
	if !ok {
		return "the loop around the element store does not visit every element of " + list
	}
	if ia.Index != iv {
		return "the index stored is not the index of the element visited"
	}
	paths, complete := EnumIterPaths(fn, l, 512)
	if !complete {
		return "too many paths through one iteration"
	}
	vt := tm.Of(st.Val)
	for _, ip := range paths {
		if ip.End != "back" {
			if len(ip.Blocks) == 2 && ip.Blocks[0] == l.Header {
				continue
			}
			return "an iteration leaves the loop from its body: the elements after it stay 0"
		}
		if w := c19ElemPathOK(tm, ip, vt, ip.OnPath(st), nillable); w != "" {
			return w
		}
	}
	return ""
}

// c19ElemPathOK judges one path through an iteration of a series loop: `on` says whether the path gives the
// element its value vt (a store on the path; for a series built by append: the value appended is not the
// constant 0). The element gets the value exactly when nothing on the path says it is undefined, and then
// every pointer field the value is read through that the package itself treats as possibly nil is known to be
// non-nil on the path.
func c19ElemPathOK(tm *Termer, ip *IterPath, vt *Term, on bool, nillable map[types.Object]bool) string {
	undef, why := c19Undefined(tm, ip.Conds, vt)
	if on && undef {
		return "the element is stored on a path on which " + why
	}
	if on {
		for _, pt := range c19DerefdNillable(vt, nillable) {
			known := false
			for _, g := range ip.Conds {
				if GuardNilness(g, func(v ssa.Value) bool { return c19Strip(tm.Of(v)) == c19Strip(pt) }) == -1 {
					known = true
				}
			}
			if !known {
				return "the element is computed through " + pt.String() + ", which may be nil (the package tests it elsewhere), on a path on which it is not known to be non-nil: the accessor panics for such a record"
			}
		}
		// a value taken from the first result of a lookup `v, ok := f(..)` is there only where ok is: the path
		// must have seen the boolean result come out true (with `v, _ := f(..)` a trial without a best organism
		// makes the accessor dereference nil)
		for _, tuple := range c19LookupsOf(vt) {
			known := false
			for _, g := range ip.Conds {
				cond, out := g.Cond, g.True
				for {
					if u, isU := cond.(*ssa.UnOp); isU && u.Op == token.NOT {
						cond, out = u.X, !out
						continue
					}
					break
				}
				if ex, isEx := cond.(*ssa.Extract); isEx && out && ex.Tuple == tuple && ex.Index > 0 {
					known = true
				}
				// ... or the first result itself was seen to be non-nil
				if GuardNilness(g, func(v ssa.Value) bool {
					ex, isEx := v.(*ssa.Extract)
					return isEx && ex.Tuple == tuple && ex.Index == 0
				}) == -1 {
					known = true
				}
			}
			if !known {
				return "the element is read from the first result of the lookup " + tm.Of(tuple).String() + " on a path on which neither its found-flag was seen to be true nor the result to be non-nil: where the lookup finds nothing the accessor dereferences nil"
			}
		}
	}
	if !on && !undef {
		var cs []string
		for _, g := range ip.Conds {
			c := tm.Of(g.Cond).String()
			if !g.True {
				c = "!(" + c + ")"
			}
			cs = append(cs, c)
		}
		return "the element is left at 0 on a path on which nothing says its statistic is undefined (" + strings.Join(cs, " && ") + ")"
	}
	return ""
}

// ---- a slice collected by append in a loop ----

// c19VarargElems: v is the implicit slice of a variadic call (`append(s, a, b)` passes t[:] of a fresh
// [n]T whose elements were stored one by one through constant indices just before); returns the n values.
// The array is used for nothing else: each element address only by its store, the slice only by the call.
func c19VarargElems(v ssa.Value) ([]ssa.Value, bool) {
	sl, ok := v.(*ssa.Slice)
	if !ok || sl.Low != nil || sl.High != nil || sl.Max != nil {
		return nil, false
	}
	al, ok := sl.X.(*ssa.Alloc)
	if !ok || al.Referrers() == nil {
		return nil, false
	}
	arr, ok := deref(al.Type()).Underlying().(*types.Array)
	if !ok {
		return nil, false
	}
	n := int(arr.Len())
	els := make([]ssa.Value, n)
	for _, ref := range *al.Referrers() {
		switch x := ref.(type) {
		case *ssa.DebugRef:
		case *ssa.Slice:
			if x != sl {
				return nil, false
			}
		case *ssa.IndexAddr:
			k, isC := x.Index.(*ssa.Const)
			if !isC || k.Value == nil || k.Value.Kind() != constant.Int || k.Int64() < 0 || k.Int64() >= int64(n) || x.Referrers() == nil {
				return nil, false
			}
			for _, r2 := range *x.Referrers() {
				st, isSt := r2.(*ssa.Store)
				if !isSt || st.Addr != ssa.Value(x) || els[k.Int64()] != nil {
					return nil, false
				}
				els[k.Int64()] = st.Val
			}
		default:
			return nil, false
		}
	}
	for _, e := range els {
		if e == nil {
			return nil, false
		}
	}
	return els, true
}

func c19IsBuiltinCall(v ssa.Value, name string) (*ssa.Call, bool) {
	c, ok := v.(*ssa.Call)
	if !ok {
		return nil, false
	}
	b, ok := c.Call.Value.(*ssa.Builtin)
	if !ok || b.Name() != name {
		return nil, false
	}
	return c, true
}

// c19AppendsOnPath: the values appended, in order, to the slice carried by the header phi hp on the
// iteration path ip (which ends on the back edge): the value hp receives for the next iteration is hp
// itself or a chain append(append(hp, a), b) resolved along the path. ok=false when the slice is changed in
// any other way.
func c19AppendsOnPath(ip *IterPath, hp *ssa.Phi) ([]ssa.Value, bool) {
	next := ip.NextValue(hp)
	if next == nil || len(ip.Blocks) < 2 {
		return nil, false
	}
	sub := &IterPath{Blocks: ip.Blocks[:len(ip.Blocks)-1], End: "partial"}
	var out []ssa.Value
	v := next
	for depth := 0; depth < 32; depth++ {
		v = sub.Resolve(v)
		if v == ssa.Value(hp) {
			return out, true
		}
		c, ok := c19IsBuiltinCall(v, "append")
		if !ok || len(c.Call.Args) != 2 {
			return nil, false
		}
		els, ok := c19VarargElems(c.Call.Args[1])
		if !ok {
			return nil, false
		}
		out = append(append([]ssa.Value{}, els...), out...)
		v = c.Call.Args[0]
	}
	return nil, false
}

// ---- the data a quantile is taken of ----

func c19StripCT(v ssa.Value) ssa.Value {
	for {
		if ct, ok := v.(*ssa.ChangeType); ok {
			v = ct.X
			continue
		}
		return v
	}
}

// c19HoldsSeries: at `use`, the slice v holds exactly the elements of the series fn was called on (its
// first parameter): it is that series, a slice made with its length into which the whole series was
// copied (a `copy(v, series)` dominates the use), `append` of the whole series to nothing, slices.Clone of
// it, or what a repository function returns for it that is such a slice on every return. Sorting
// rearranges the elements but neither adds nor removes one, so a sort in between does not matter here
// (that it happens is the obligation ".sorted").
func c19HoldsSeries(fn *ssa.Function, v ssa.Value, use ssa.Instruction, depth int) (bool, string) {
	if len(fn.Params) == 0 {
		return false, "the function has no series"
	}
	series := ssa.Value(fn.Params[0])
	isSeries := func(x ssa.Value) bool { return c19StripCT(x) == series }
	dominatesUse := func(in ssa.Instruction) bool {
		b, ub := in.Block(), use.Block()
		return (b == ub && instrIndex(in) < instrIndex(use)) || (b != ub && b.Dominates(ub))
	}
	v = c19StripCT(v)
	if v == series {
		return true, "the series itself"
	}
	switch x := v.(type) {
	case *ssa.MakeSlice:
		ln, ok := c19IsBuiltinCall(x.Len, "len")
		if !ok || len(ln.Call.Args) != 1 || !isSeries(ln.Call.Args[0]) {
			return false, "a slice whose length is not len(series)"
		}
		// the copy comes before the use and before every sort of the slice (copying into a sorted slice
		// would bring back the order of the series)
		var copies, sorts []ssa.Instruction
		Instrs(fn, func(_ *ssa.BasicBlock, _ int, in ssa.Instruction) {
			c, ok := in.(*ssa.Call)
			if !ok {
				return
			}
			if cc, isCopy := c19IsBuiltinCall(c, "copy"); isCopy && len(cc.Call.Args) == 2 {
				if c19StripCT(cc.Call.Args[0]) == v && isSeries(cc.Call.Args[1]) && dominatesUse(c) {
					copies = append(copies, c)
				}
				return
			}
			switch n, _ := calleeName(c.Common()); n {
			case "sort.Float64s", "slices.Sort", "sort.Sort", "sort.Stable":
				for _, a := range c.Call.Args {
					if c19StripCT(stripPtr(a)) == v {
						sorts = append(sorts, c)
					}
				}
			}
		})
		before := func(a, b ssa.Instruction) bool {
			return (a.Block() == b.Block() && instrIndex(a) < instrIndex(b)) || (a.Block() != b.Block() && a.Block().Dominates(b.Block()))
		}
		for _, c := range copies {
			first := true
			for _, s := range sorts {
				if !before(c, s) {
					first = false
				}
			}
			if first {
				return true, "a copy of the series"
			}
		}
		if len(copies) > 0 {
			return false, "a fresh slice into which the series is copied after it was sorted (the order of the series is back)"
		}
		return false, "a fresh slice of the series' length into which the series is not copied before the use (it holds zeros)"
	case *ssa.Call:
		if ap, ok := c19IsBuiltinCall(x, "append"); ok {
			if len(ap.Call.Args) != 2 {
				return false, "an append without elements"
			}
			base := c19StripCT(ap.Call.Args[0])
			empty := false
			if c, isC := base.(*ssa.Const); isC && c.Value == nil {
				empty = true
			}
			if mk, isMk := base.(*ssa.MakeSlice); isMk && c19ConstIs(mk.Len, 0) {
				empty = true
			}
			if empty && isSeries(ap.Call.Args[1]) {
				return true, "the series appended to an empty slice"
			}
			return false, "an append that is not the whole series appended to an empty slice"
		}
		if n, _ := calleeName(x.Common()); n == "slices.Clone" && len(x.Call.Args) == 1 && isSeries(x.Call.Args[0]) {
			return true, "a clone of the series"
		}
		callee := x.Call.StaticCallee()
		if callee == nil || callee.Blocks == nil || !InRepo(callee) || depth > 3 || len(x.Call.Args) == 0 || !isSeries(x.Call.Args[0]) || len(callee.Params) == 0 {
			return false, "the result of a call that is not known to return the series"
		}
		nret := 0
		for _, b := range callee.Blocks {
			ret, ok := b.Instrs[len(b.Instrs)-1].(*ssa.Return)
			if !ok || len(ret.Results) == 0 {
				continue
			}
			nret++
			if ok, why := c19HoldsSeries(callee, ret.Results[0], ret, depth+1); !ok {
				return false, callee.Name() + " returns " + why
			}
		}
		if nret == 0 {
			return false, callee.Name() + " does not return"
		}
		return true, "what " + callee.Name() + " returns: a slice holding the elements of the series"
	}
	return false, "a value that is not known to hold the elements of the series"
}

// c19LookupsOf: the calls `v, ok := f(..)` (a tuple whose last result is a boolean) of which vt reads through the
// first result.
func c19LookupsOf(vt *Term) []ssa.Value {
	var out []ssa.Value
	seen := map[ssa.Value]bool{}
	vt.Walk(func(x *Term) bool {
		if x.Op == "extract" && x.Idx == 0 && len(x.Args) == 1 && x.Args[0].V != nil {
			if tup, ok := x.Args[0].V.Type().(*types.Tuple); ok && tup.Len() >= 2 {
				if b, isB := tup.At(tup.Len() - 1).Type().Underlying().(*types.Basic); isB && b.Kind() == types.Bool && !seen[x.Args[0].V] {
					seen[x.Args[0].V] = true
					out = append(out, x.Args[0].V)
				}
			}
		}
		return true
	})
	return out
}

// c19NillableFields: the pointer fields that some function of the experiment package compares with nil -
// the package's own statement that a record may lack them (Generation.Champion, Organism.Species,
// Trial.WinnerGeneration).
func c19NillableFields(p *Prog) map[types.Object]bool {
	out := map[types.Object]bool{}
	for _, fn := range p.SrcFuncs() {
		if fn.Pkg == nil || fn.Pkg.Pkg.Path() != PkgE {
			continue
		}
		Instrs(fn, func(_ *ssa.BasicBlock, _ int, in ssa.Instruction) {
			b, ok := in.(*ssa.BinOp)
			if !ok || (b.Op != token.EQL && b.Op != token.NEQ) {
				return
			}
			for _, pr := range [][2]ssa.Value{{b.X, b.Y}, {b.Y, b.X}} {
				c, isC := pr[1].(*ssa.Const)
				if !isC || c.Value != nil {
					continue
				}
				ld, isLd := pr[0].(*ssa.UnOp)
				if !isLd || ld.Op != token.MUL {
					continue
				}
				if fa, isFA := ld.X.(*ssa.FieldAddr); isFA {
					if st, isSt := deref(fa.X.Type()).Underlying().(*types.Struct); isSt {
						if _, isPtr := st.Field(fa.Field).Type().Underlying().(*types.Pointer); isPtr {
							out[st.Field(fa.Field)] = true
						}
					}
				}
			}
		})
	}
	return out
}

// c19DerefdNillable: the sub-terms of vt that are loads of a nillable pointer field through which a further
// field is read (x.Champion in x.Champion.Fitness).
func c19DerefdNillable(vt *Term, nillable map[types.Object]bool) []*Term {
	var out []*Term
	seen := map[string]bool{}
	vt.Walk(func(x *Term) bool {
		if x.Op == "field" && len(x.Args) == 1 {
			b := x.Args[0]
			for b.Op == "un" && b.Name == "&" && len(b.Args) == 1 {
				b = b.Args[0]
			}
			if b.Op == "field" && b.Obj != nil && nillable[b.Obj] && !seen[c19Strip(b)] {
				seen[c19Strip(b)] = true
				out = append(out, b)
			}
		}
		return true
	})
	return out
}

// ---- rb7: a series built by appending one value per element ----
//
// `x := make(T, len(list)); for i, e := range list { x[i] = f(e) }` and
// `x := make(T, 0, len(list)); for _, e := range list { x = append(x, f(e)) }` build the same series: the slice
// starts empty, every iteration of a loop that visits every element of the list from the first on appends
// exactly one value, so the value appended in the iteration for element i IS element i of the result and the
// result has one entry per element. Where the first form leaves an element untouched (it keeps the 0 of make),
// the second has to append the constant 0 - appending nothing would shift every later element.

// c19AppendedElem is what one path through an iteration appends.
type c19AppendedElem struct {
	Path *IterPath
	Val  ssa.Value
	Zero bool // the constant 0: the element is left at its zero value
}

type c19AppendedSeries struct {
	Loop  *Loop
	HP    *ssa.Phi  // the header phi that carries the slice round the loop
	IV    ssa.Value // the index of the element an iteration visits
	Elems []c19AppendedElem
}

// c19AppendSeries proves that result idx of fn is such a series over `list`:
//
//   - every return yields a value of one web of phi nodes; the web starts as an empty slice made before the loop
//     (make with length 0, or nil) and otherwise receives only `append(<the web>, v)` executed inside one loop, which
//     carries it in one header phi;
//   - the slice has no other name and no other writer: the values of the web are used for nothing but those appends,
//     the phis, len/cap and the returns (no element store, no re-slicing, not handed to a call, not stored anywhere);
//   - the loop visits every element of the list from the first to the last (c19FullRange) and is left only by
//     exhaustion: every acyclic path through an iteration returns to the header, having appended exactly one value.
//
// Returns the per-path elements, or nil and what is wrong.
func c19AppendSeries(fn *ssa.Function, tm *Termer, idx int, list string) (*c19AppendedSeries, string) {
	var web *phiWebT
	inWeb := func(v ssa.Value) bool {
		ph, ok := c19StripCT(v).(*ssa.Phi)
		return ok && web != nil && web.Phis[ph]
	}
	nRet := 0
	for _, b := range fn.Blocks {
		ret, ok := b.Instrs[len(b.Instrs)-1].(*ssa.Return)
		if !ok || idx >= len(ret.Results) {
			continue
		}
		nRet++
		if web == nil {
			if _, isPhi := c19StripCT(ret.Results[idx]).(*ssa.Phi); !isPhi {
				return nil, "the series returned is not built by a loop"
			}
			web = phiWeb(ret.Results[idx])
		}
		if !inWeb(ret.Results[idx]) {
			return nil, "a return yields a value that is not the series built by the loop"
		}
	}
	if web == nil || nRet == 0 {
		return nil, "no series is returned"
	}
	if len(web.Consts) > 0 {
		return nil, "the series is not a slice"
	}
	var l *Loop
	var hp *ssa.Phi
	for ph := range web.Phis {
		for _, cand := range Loops(fn) {
			if cand.Header == ph.Block() {
				if hp != nil && hp != ph {
					return nil, "the series is carried by more than one loop"
				}
				hp, l = ph, cand
			}
		}
	}
	if hp == nil {
		return nil, "the series is not built by a loop"
	}
	members := []ssa.Value{}
	for ph := range web.Phis {
		members = append(members, ph)
	}
	for _, f := range web.Feeders {
		members = append(members, f)
		if mk, isMk := f.(*ssa.MakeSlice); isMk {
			if !c19ConstIs(mk.Len, 0) || l.Blocks[mk.Block()] {
				return nil, "the series does not start as an empty slice made before the loop"
			}
			continue
		}
		// an empty composite literal `T{}`: a slice of a fresh array of length 0
		if sl, isSl := f.(*ssa.Slice); isSl && !l.Blocks[sl.Block()] {
			if al, isAl := sl.X.(*ssa.Alloc); isAl {
				if arr, isArr := deref(al.Type()).Underlying().(*types.Array); isArr && arr.Len() == 0 {
					continue
				}
			}
		}
		ap, isApp := c19IsBuiltinCall(f, "append")
		if !isApp || !l.Blocks[ap.Block()] || len(ap.Call.Args) != 2 || !(inWeb(ap.Call.Args[0]) || c19StripCT(ap.Call.Args[0]) == ssa.Value(hp)) {
			return nil, "the series also receives " + tm.Of(f).String()
		}
	}
	// no other name, no other writer
	seen := map[ssa.Value]bool{}
	for len(members) > 0 {
		m := members[0]
		members = members[1:]
		if seen[m] {
			continue
		}
		seen[m] = true
		refs := m.Referrers()
		if refs == nil {
			return nil, "the series is used in a way that is not followed"
		}
		for _, ref := range *refs {
			switch x := ref.(type) {
			case *ssa.Return, *ssa.DebugRef:
			case *ssa.ChangeType:
				members = append(members, x)
			case *ssa.Phi:
				if !web.Phis[x] {
					return nil, "the series is merged into another value"
				}
			case *ssa.Call:
				if b, isB := x.Call.Value.(*ssa.Builtin); isB && (b.Name() == "len" || b.Name() == "cap") {
					continue
				}
				if ap, isApp := c19IsBuiltinCall(x, "append"); isApp && len(ap.Call.Args) == 2 && ap.Call.Args[0] == m && ap.Call.Args[1] != m {
					isFeeder := false
					for _, f := range web.Feeders {
						if f == ssa.Value(ap) {
							isFeeder = true
						}
					}
					if isFeeder {
						continue
					}
				}
				return nil, "the series is handed to " + tm.Of(x).String()
			default:
				return nil, "the series is written or re-sliced otherwise than by append"
			}
		}
	}
	iv, ok := c19FullRange(tm, l, list)
	if !ok {
		return nil, "the loop that appends does not visit every element of " + list
	}
	paths, complete := EnumIterPaths(fn, l, 512)
	if !complete {
		return nil, "too many paths through one iteration"
	}
	out := &c19AppendedSeries{Loop: l, HP: hp, IV: iv}
	for _, ip := range paths {
		if ip.End != "back" {
			if len(ip.Blocks) == 2 && ip.Blocks[0] == l.Header {
				continue
			}
			return nil, "an iteration leaves the loop from its body: the elements after it are missing from the series"
		}
		added, okA := c19AppendsOnPath(ip, hp)
		if !okA {
			return nil, "an iteration changes the series otherwise than by append"
		}
		if len(added) != 1 {
			return nil, fmt.Sprintf("an iteration appends %d values: the entries after it are not those of their elements", len(added))
		}
		out.Elems = append(out.Elems, c19AppendedElem{Path: ip, Val: added[0], Zero: c19ConstIs(added[0], 0)})
	}
	if len(out.Elems) == 0 {
		return nil, "no iteration returns to the loop header"
	}
	return out, ""
}

// c19AppendedWhenDefined is c19StoredWhenDefined for a series built by append: on every path through an
// iteration the value appended is the statistic of the element visited exactly when nothing on the path says it
// is undefined, and the constant 0 otherwise. The statistic is what the paths that append a value append (one
// expression; several different ones are not judged).
func c19AppendedWhenDefined(tm *Termer, as *c19AppendedSeries, nillable map[types.Object]bool) string {
	var vt *Term
	for _, e := range as.Elems {
		if e.Zero {
			continue
		}
		t := tm.Of(e.Val)
		if vt != nil && c19Strip(vt) != c19Strip(t) {
			return "the iterations append different expressions (" + vt.String() + ", " + t.String() + ")"
		}
		vt = t
	}
	if vt == nil {
		return "every iteration appends 0"
	}
	for _, e := range as.Elems {
		if w := c19ElemPathOK(tm, e.Path, vt, !e.Zero, nillable); w != "" {
			return w
		}
	}
	return ""
}

// ---- rb7: an index handed out of a search, with a negative "none" value ----
//
// `i := firstSolved(); if i >= 0 { use(list[i]) }` - after the search was inlined, i is a phi that receives the
// index of the loop on the edge that leaves the scan where the element test came out true, and the constant -1
// on the edge of exhaustion. A comparison of such a phi with a constant is decided alternative by alternative: a
// constant alternative by arithmetic, a loop index by its lower bound (it starts at 0 and only grows). Where the
// comparison holds only for some alternatives, control came over one of THEIR edges: what was known on all of
// those edges is known where the comparison's outcome is, and if they all carry the same value the phi IS that
// value there. The same reading turns `return i >= 0` into "true on the edge of the hit, false on exhaustion".

// c19LowerBound: an integer constant c with v >= c (ignoring overflow): a constant itself, len/cap, a counter
// (a loop-header phi whose incoming values are constants and itself plus a positive constant), or such a value
// plus a constant.
func c19LowerBound(v ssa.Value, depth int) (int64, bool) {
	if depth > 4 {
		return 0, false
	}
	switch x := v.(type) {
	case *ssa.Const:
		if x.Value != nil && x.Value.Kind() == constant.Int {
			if k, exact := constant.Int64Val(x.Value); exact {
				return k, true
			}
		}
	case *ssa.Call:
		if b, ok := x.Call.Value.(*ssa.Builtin); ok && (b.Name() == "len" || b.Name() == "cap") {
			return 0, true
		}
	case *ssa.Phi:
		lb, have := int64(0), false
		for _, e := range x.Edges {
			if c, isC := e.(*ssa.Const); isC {
				k, ok := c19LowerBound(c, depth+1)
				if !ok {
					return 0, false
				}
				if !have || k < lb {
					lb, have = k, true
				}
				continue
			}
			b, isB := e.(*ssa.BinOp)
			if !isB || b.Op != token.ADD {
				return 0, false
			}
			var step ssa.Value
			switch {
			case b.X == ssa.Value(x):
				step = b.Y
			case b.Y == ssa.Value(x):
				step = b.X
			default:
				return 0, false
			}
			if k, ok := c19LowerBound(step, depth+1); !ok || k < 0 {
				return 0, false
			} else if _, isC := step.(*ssa.Const); !isC {
				return 0, false
			}
		}
		return lb, have
	case *ssa.BinOp:
		if x.Op != token.ADD {
			return 0, false
		}
		a, b := x.X, x.Y
		if _, isC := a.(*ssa.Const); isC {
			a, b = b, a
		}
		c, isC := b.(*ssa.Const)
		if !isC {
			return 0, false
		}
		k, ok1 := c19LowerBound(c, depth+1)
		l, ok2 := c19LowerBound(a, depth+1)
		if ok1 && ok2 {
			return l + k, true
		}
	}
	return 0, false
}

// c19CmpDecide: does `a op k` hold for the integer value a and the integer constant k? known=false when neither
// the value (a constant) nor its lower bound decides it.
func c19CmpDecide(a ssa.Value, op token.Token, k ssa.Value) (holds, known bool) {
	kc, ok := k.(*ssa.Const)
	if !ok || kc.Value == nil || kc.Value.Kind() != constant.Int {
		return false, false
	}
	if ac, isC := a.(*ssa.Const); isC {
		if ac.Value == nil || ac.Value.Kind() != constant.Int {
			return false, false
		}
		return constant.Compare(ac.Value, op, kc.Value), true
	}
	lb, have := c19LowerBound(a, 0)
	kv, exact := constant.Int64Val(kc.Value)
	if !have || !exact {
		return false, false
	}
	switch op {
	case token.GEQ:
		if lb >= kv {
			return true, true
		}
	case token.GTR, token.NEQ:
		if lb > kv {
			return true, true
		}
	case token.LSS:
		if lb >= kv {
			return false, true
		}
	case token.LEQ, token.EQL:
		if lb > kv {
			return false, true
		}
	}
	return false, false
}

// c19IndexSite is a CFG edge on which a phi of an integer web receives a value that is not a phi.
type c19IndexSite struct {
	From, To *ssa.BasicBlock
	Val      ssa.Value
}

// c19IndexSites lists the edges over which the integer phi ph (and the phis it merges) receives its values.
// ok=false when the web is carried round a loop (a phi of it sits in a loop header): then a value may have
// entered it in an earlier iteration and what was known on its edge says nothing about the current one.
func c19IndexSites(ph *ssa.Phi) (sites []c19IndexSite, ok bool) {
	if bt, isB := ph.Type().Underlying().(*types.Basic); !isB || bt.Info()&types.IsInteger == 0 {
		return nil, false
	}
	fn := ph.Parent()
	headers := map[*ssa.BasicBlock]bool{}
	for _, l := range Loops(fn) {
		headers[l.Header] = true
	}
	seen := map[*ssa.Phi]bool{}
	ok = true
	var visit func(q *ssa.Phi)
	visit = func(q *ssa.Phi) {
		if seen[q] || !ok {
			return
		}
		seen[q] = true
		if headers[q.Block()] || len(seen) > 16 {
			ok = false
			return
		}
		for i, e := range q.Edges {
			if in, isPhi := e.(*ssa.Phi); isPhi {
				visit(in)
				continue
			}
			sites = append(sites, c19IndexSite{q.Block().Preds[i], q.Block(), e})
		}
	}
	visit(ph)
	if !ok || len(sites) < 2 {
		return nil, false
	}
	return sites, true
}

// c19Sentinel reads the comparison that holds by the branch outcome g as a selection among the alternatives of an
// integer phi: the phi, and the sites for which the comparison holds. ok=false when g is not such a comparison,
// when an alternative is not decided, or when the comparison does not exclude any alternative.
func c19Sentinel(g Guard) (ph *ssa.Phi, selected []c19IndexSite, ok bool) {
	x, y, op, isCmp := CmpFact(g.Cond, g.True)
	if !isCmp {
		return nil, nil, false
	}
	ph, isPhi := x.(*ssa.Phi)
	if !isPhi {
		return nil, nil, false
	}
	sites, okS := c19IndexSites(ph)
	if !okS {
		return nil, nil, false
	}
	for _, s := range sites {
		holds, known := c19CmpDecide(s.Val, op, y)
		if !known {
			return nil, nil, false
		}
		if holds {
			selected = append(selected, s)
		}
	}
	if len(selected) == 0 || len(selected) == len(sites) {
		return nil, nil, false
	}
	return ph, selected, true
}

// c19SentinelGuards adds to gs what follows from outcomes that select among the alternatives of a search result:
// the branch outcomes known on every edge over which a selected alternative arrives.
func c19SentinelGuards(gs []Guard) []Guard {
	out := append([]Guard{}, gs...)
	for _, g := range gs {
		_, sel, ok := c19Sentinel(g)
		if !ok {
			continue
		}
		var common []Guard
		for i, s := range sel {
			cs := condsAt(s.From, s.To)
			if i == 0 {
				common = cs
			} else {
				common = intersectGuards(common, cs)
			}
		}
		for _, c := range common {
			dup := false
			for _, o := range out {
				if sameGuard(o, c) {
					dup = true
				}
			}
			if !dup {
				out = append(out, c)
			}
		}
	}
	return out
}

// c19NarrowIndex: the value v is known to be under the outcomes gs: v itself, or - for a search result of which
// gs select alternatives that all carry one value - that value.
func c19NarrowIndex(v ssa.Value, gs []Guard) ssa.Value {
	for _, g := range gs {
		ph, sel, ok := c19Sentinel(g)
		if !ok || ssa.Value(ph) != v {
			continue
		}
		same := true
		for _, s := range sel {
			if s.Val != sel[0].Val {
				same = false
			}
		}
		if same {
			return sel[0].Val
		}
	}
	return v
}

// c19BoolLeaves is retLeaves for a boolean result, with a comparison of a search result against a constant
// (`return i >= 0`) split into the ways the search ends: one leaf per alternative of the phi, whose value is the
// constant the comparison has for that alternative and whose outcomes include those of the alternative's edge.
func c19BoolLeaves(fn *ssa.Function, idx int) []retLeaf {
	var out []retLeaf
	for _, lf := range retLeaves(fn, idx) {
		// (a constant returned under a test of a search result - `if i < 0 { return false }; return true` - is
		// returned where the selected alternatives' edges were taken)
		lf.Guards = c19SentinelGuards(lf.Guards)
		x, y, op, isCmp := CmpFact(lf.Val, true)
		ph, isPhi := x.(*ssa.Phi)
		if !isCmp || !isPhi {
			out = append(out, lf)
			continue
		}
		sites, ok := c19IndexSites(ph)
		var sub []retLeaf
		for _, s := range sites {
			holds, known := c19CmpDecide(s.Val, op, y)
			if !known {
				ok = false
				break
			}
			l := lf
			l.Val = ssa.NewConst(constant.MakeBool(holds), types.Typ[types.Bool])
			l.Guards = append(append([]Guard{}, lf.Guards...), condsAt(s.From, s.To)...)
			l.Block = s.From
			sub = append(sub, l)
		}
		if !ok {
			out = append(out, lf)
			continue
		}
		out = append(out, sub...)
	}
	return out
}
