package nc

import (
	"go/constant"
	"go/types"

	"golang.org/x/tools/go/ssa"
)

// Helpers of the C19 rules that make them independent of the syntactic shape
// of a function (early return vs. a single return of a merged value, a level
// passed through an unexported helper's parameter).

// retLeaf is one way a function produces result idx: a value that is not a phi
// together with the branch outcomes known when this value (and not another
// one) is what gets returned - the outcomes dominating the return itself plus,
// for a value merged by phi nodes, the outcomes known on the CFG edge over
// which it enters each phi. The conditions are SSA values, so an outcome
// established on the edge is still a fact about the same value at the return.
type retLeaf struct {
	Val    ssa.Value
	Ret    *ssa.Return
	Guards []Guard
	// Block is where the value is fixed: the predecessor block of the innermost
	// phi edge, or the block of the return for a value that is returned directly.
	Block *ssa.BasicBlock
	// Phi is the innermost phi node the value enters (nil for a value returned directly).
	Phi *ssa.Phi
}

func retLeaves(fn *ssa.Function, idx int) []retLeaf {
	var out []retLeaf
	for _, b := range fn.Blocks {
		ret, ok := b.Instrs[len(b.Instrs)-1].(*ssa.Return)
		if !ok || idx >= len(ret.Results) {
			continue
		}
		seen := map[*ssa.Phi]bool{}
		var visit func(v ssa.Value, gs []Guard, at *ssa.BasicBlock, via *ssa.Phi)
		visit = func(v ssa.Value, gs []Guard, at *ssa.BasicBlock, via *ssa.Phi) {
			if ph, isPhi := v.(*ssa.Phi); isPhi {
				if seen[ph] {
					return // loop-carried: the other edges of the cycle are visited on their own
				}
				seen[ph] = true
				for i, e := range ph.Edges {
					pred := ph.Block().Preds[i]
					g2 := append(append([]Guard{}, gs...), condsAt(pred, ph.Block())...)
					visit(e, g2, pred, ph)
				}
				delete(seen, ph)
				return
			}
			out = append(out, retLeaf{Val: v, Ret: ret, Guards: gs, Block: at, Phi: via})
		}
		visit(ret.Results[idx], append([]Guard{}, Guards(b)...), b, nil)
	}
	return out
}

// constFloatsOf resolves v to the set of constants it can be: a constant, a phi
// of such values, or a parameter of a function that only the repository can
// call (not exported, never used as a value, not reachable through an
// interface), in which case every call site's argument is resolved in turn. A
// function without any call site contributes no value (it is dead code, e.g.
// the remainder of a helper whose calls were all inlined by the normalisation).
func constFloatsOf(p *Prog, fn *ssa.Function, v ssa.Value, depth int) (vals []float64, ok bool) {
	switch x := v.(type) {
	case *ssa.Const:
		if x.Value == nil || (x.Value.Kind() != constant.Float && x.Value.Kind() != constant.Int) {
			return nil, false
		}
		f, _ := constant.Float64Val(x.Value)
		return []float64{f}, true
	case *ssa.Phi:
		if depth > 6 {
			return nil, false
		}
		for _, e := range x.Edges {
			if e == v {
				continue
			}
			vs, okE := constFloatsOf(p, fn, e, depth+1)
			if !okE {
				return nil, false
			}
			vals = append(vals, vs...)
		}
		return vals, true
	case *ssa.Parameter:
		if depth > 6 || fn.Parent() != nil {
			return nil, false
		}
		pi := -1
		for i, q := range fn.Params {
			if q == x {
				pi = i
			}
		}
		obj, _ := fn.Object().(*types.Func)
		if pi < 0 || obj == nil || obj.Exported() {
			return nil, false // callers outside the repository choose the value
		}
		sites, closed := repoCallSites(p, fn)
		if !closed {
			return nil, false
		}
		for _, s := range sites {
			args := s.Common().Args
			if pi >= len(args) {
				return nil, false
			}
			vs, okA := constFloatsOf(p, s.Parent(), args[pi], depth+1)
			if !okA {
				return nil, false
			}
			vals = append(vals, vs...)
		}
		return vals, true
	}
	return nil, false
}

// repoCallSites lists the static calls of fn in the repository. closed=false when fn
// can also be entered in a way that is not such a call: it is used as a value
// (closure, method value, method expression, go/defer are calls and are listed),
// or a dynamic call through an interface names a method with its identity.
func repoCallSites(p *Prog, fn *ssa.Function) (sites []ssa.CallInstruction, closed bool) {
	closed = true
	obj := fn.Object()
	same := func(g *ssa.Function) bool {
		return g == fn || (g != nil && g.Synthetic != "" && obj != nil && g.Object() == obj)
	}
	for _, f := range p.SrcFuncs() {
		Instrs(f, func(_ *ssa.BasicBlock, _ int, in ssa.Instruction) {
			var callee ssa.Value
			if c, ok := in.(ssa.CallInstruction); ok {
				cc := c.Common()
				if cc.IsInvoke() {
					if obj != nil && cc.Method.Id() == obj.Id() {
						closed = false
					}
				} else {
					callee = cc.Value
					if g, isF := callee.(*ssa.Function); isF && g == fn {
						sites = append(sites, c)
					} else if isF && same(g) {
						closed = false // called through a wrapper: arguments are not those of fn
					}
				}
			}
			for _, op := range in.Operands(nil) {
				if op == nil || *op == nil {
					continue
				}
				if g, isF := (*op).(*ssa.Function); isF && same(g) {
					if c, isCall := in.(ssa.CallInstruction); isCall && c.Common().Value == *op && g == fn {
						// the callee position of a static call; an additional occurrence among the arguments is a value use
						n := 0
						for _, a := range c.Common().Args {
							if a == *op {
								n++
							}
						}
						if n == 0 {
							continue
						}
					}
					closed = false
				}
			}
		})
	}
	return sites, closed
}

// sliceLitAll: v is a slice literal of exactly n elements (a slice of a fresh array whose
// elements 0..n-1 are each stored exactly once, with constant indexes) and every stored
// element satisfies pred.
func sliceLitAll(fn *ssa.Function, v ssa.Value, n int, pred func(ssa.Value) bool) bool {
	for {
		if ct, ok := v.(*ssa.ChangeType); ok {
			v = ct.X
			continue
		}
		break
	}
	sl, ok := v.(*ssa.Slice)
	if !ok || sl.Low != nil || sl.High != nil {
		return false
	}
	al, ok := sl.X.(*ssa.Alloc)
	if !ok {
		return false
	}
	at, ok := deref(al.Type()).Underlying().(*types.Array)
	if !ok || at.Len() != int64(n) {
		return false
	}
	seen := map[int64]int{}
	good := true
	for _, ref := range *al.Referrers() {
		switch x := ref.(type) {
		case *ssa.Slice:
			if x != sl {
				good = false
			}
		case *ssa.IndexAddr:
			k, isC := x.Index.(*ssa.Const)
			if !isC || k.Value == nil {
				good = false
				continue
			}
			for _, r2 := range *x.Referrers() {
				st, isSt := r2.(*ssa.Store)
				if !isSt || st.Addr != x {
					good = false
					continue
				}
				seen[k.Int64()]++
				if !pred(st.Val) {
					good = false
				}
			}
		default:
			good = false
		}
	}
	if !good || len(seen) != n {
		return false
	}
	for i := 0; i < n; i++ {
		if seen[int64(i)] != 1 {
			return false
		}
	}
	return true
}

// c19PhenotypeResult: t is result #idx of Organism.Phenotype() called on an organism accepted by isOrg.
func c19PhenotypeResult(t *Term, idx int, isOrg func(*Term) bool) bool {
	if t == nil || t.Op != "extract" || t.Idx != idx || len(t.Args) == 0 {
		return false
	}
	c := t.Args[0]
	if c.Op != "call" || c.Name != "Organism.Phenotype" || len(c.Args) != 1 {
		return false
	}
	call, ok := c.V.(*ssa.Call)
	if !ok || call.Call.StaticCallee() == nil || call.Call.StaticCallee().Pkg == nil || call.Call.StaticCallee().Pkg.Pkg.Path() != PkgG {
		return false
	}
	return isOrg(c.Args[0])
}

// c19IsPhenotypeComplexity: t is (*network.Network).Complexity() applied to the network returned by
// Phenotype() of an organism accepted by isOrg.
func c19IsPhenotypeComplexity(t *Term, isOrg func(*Term) bool) bool {
	if t == nil || t.Op != "call" || t.Name != "Network.Complexity" || len(t.Args) != 1 {
		return false
	}
	call, ok := t.V.(*ssa.Call)
	if !ok || call.Call.StaticCallee() == nil || call.Call.StaticCallee().Pkg == nil || call.Call.StaticCallee().Pkg.Pkg.Path() != PkgN {
		return false
	}
	return c19PhenotypeResult(t.Args[0], 0, isOrg)
}

// c19CounterReturns: every way result 0 of fn is produced is the loop counter - an increment
// `c + 1` of a phi web that starts at 0, or that web's initial 0 - or the constant 0 under
// len(list)==0. Returns "" when that holds, otherwise what else is returned.
func c19CounterReturns(fn *ssa.Function, tm *Termer, list string) string {
	for _, lf := range retLeaves(fn, 0) {
		switch x := lf.Val.(type) {
		case *ssa.BinOp:
			if x.Op.String() == "+" && tm.Of(x.Y).String() == "1" {
				if ph, isPhi := x.X.(*ssa.Phi); isPhi && lf.Phi != nil && phiWeb(ph).Phis[lf.Phi] {
					continue
				}
			}
		case *ssa.Const:
			if x.Value != nil && x.Value.ExactString() == "0" {
				if lf.Phi != nil {
					// the start value of a counter: the web it enters is incremented by one somewhere
					isCounter := false
					web := phiWeb(lf.Phi)
					for _, f := range web.Feeders {
						if b, isB := f.(*ssa.BinOp); isB && b.Op.String() == "+" && tm.Of(b.Y).String() == "1" {
							if ph, isPhi := b.X.(*ssa.Phi); isPhi && web.Phis[ph] {
								isCounter = true
							}
						}
					}
					if isCounter {
						continue
					}
				}
				empty := false
				for _, g := range lf.Guards {
					if e, ok := lenGuard(tm, g, list); ok && e {
						empty = true
					}
				}
				if empty {
					continue
				}
			}
		}
		return "a return yields " + tm.Of(lf.Val).String() + ", which is not the count of solved trials found by scanning " + list
	}
	return ""
}

// c19PhenotypeOK: the leaf is produced only where the error result of Phenotype() of the organism is nil.
func c19PhenotypeOK(tm *Termer, lf retLeaf, isOrg func(*Term) bool) bool {
	gs := append([]Guard{}, lf.Guards...)
	if in, ok := lf.Val.(ssa.Instruction); ok && in.Block() != nil {
		gs = append(gs, Guards(in.Block())...)
	}
	for _, g := range gs {
		if a, b, ok := eqCond(tm, g); ok {
			if b.Op != "nil" {
				a, b = b, a
			}
			if b.Op == "nil" && c19PhenotypeResult(a, 1, isOrg) {
				return true
			}
		}
	}
	return false
}
