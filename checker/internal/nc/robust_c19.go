package nc

import (
	"go/constant"
	"go/token"
	"go/types"
	"strings"

	"golang.org/x/tools/go/ssa"
)

// Helpers of the C19 rules that make them independent of the syntactic shape
// of a function (early return vs. a single return of a merged value, a level
// passed through an unexported helper's parameter).

// retLeaf is one way a function produces result idx: a value that is not a phi
// together with the branch outcomes known when this value (and not another
// one) is what gets returned - the outcomes dominating the return itself plus,
// for a value merged by phi nodes, the outcomes known on the CFG edge over
// which it enters each phi. The conditions are SSA values, so an outcome
// established on the edge is still a fact about the same value at the return.
type retLeaf struct {
	Val    ssa.Value
	Ret    *ssa.Return
	Guards []Guard
	// Block is where the value is fixed: the predecessor block of the innermost
	// phi edge, or the block of the return for a value that is returned directly.
	Block *ssa.BasicBlock
	// Phi is the innermost phi node the value enters (nil for a value returned directly).
	Phi *ssa.Phi
	// Els, when set by c19PairLeaves, are the elements of the returned fresh slice on this way of returning.
	Els []ssa.Value
}

func retLeaves(fn *ssa.Function, idx int) []retLeaf {
	var out []retLeaf
	for _, b := range fn.Blocks {
		ret, ok := b.Instrs[len(b.Instrs)-1].(*ssa.Return)
		if !ok || idx >= len(ret.Results) {
			continue
		}
		seen := map[*ssa.Phi]bool{}
		var visit func(v ssa.Value, gs []Guard, at *ssa.BasicBlock, via *ssa.Phi)
		visit = func(v ssa.Value, gs []Guard, at *ssa.BasicBlock, via *ssa.Phi) {
			if ph, isPhi := v.(*ssa.Phi); isPhi {
				if seen[ph] {
					return // loop-carried: the other edges of the cycle are visited on their own
				}
				seen[ph] = true
				for i, e := range ph.Edges {
					pred := ph.Block().Preds[i]
					g2 := append(append([]Guard{}, gs...), condsAt(pred, ph.Block())...)
					visit(e, g2, pred, ph)
				}
				delete(seen, ph)
				return
			}
			out = append(out, retLeaf{Val: v, Ret: ret, Guards: gs, Block: at, Phi: via})
		}
		visit(ret.Results[idx], append([]Guard{}, Guards(b)...), b, nil)
	}
	return out
}

// constFloatsOf resolves v to the set of constants it can be: a constant, a phi
// of such values, or a parameter of a function that only the repository can
// call (not exported, never used as a value, not reachable through an
// interface), in which case every call site's argument is resolved in turn. A
// function without any call site contributes no value (it is dead code, e.g.
// the remainder of a helper whose calls were all inlined by the normalisation).
func constFloatsOf(p *Prog, fn *ssa.Function, v ssa.Value, depth int) (vals []float64, ok bool) {
	switch x := v.(type) {
	case *ssa.Const:
		if x.Value == nil || (x.Value.Kind() != constant.Float && x.Value.Kind() != constant.Int) {
			return nil, false
		}
		f, _ := constant.Float64Val(x.Value)
		return []float64{f}, true
	case *ssa.Phi:
		if depth > 6 {
			return nil, false
		}
		for _, e := range x.Edges {
			if e == v {
				continue
			}
			vs, okE := constFloatsOf(p, fn, e, depth+1)
			if !okE {
				return nil, false
			}
			vals = append(vals, vs...)
		}
		return vals, true
	case *ssa.Parameter:
		if depth > 6 || fn.Parent() != nil {
			return nil, false
		}
		pi := -1
		for i, q := range fn.Params {
			if q == x {
				pi = i
			}
		}
		obj, _ := fn.Object().(*types.Func)
		if pi < 0 || obj == nil || obj.Exported() {
			return nil, false // callers outside the repository choose the value
		}
		sites, closed := repoCallSites(p, fn)
		if !closed {
			return nil, false
		}
		for _, s := range sites {
			args := s.Common().Args
			if pi >= len(args) {
				return nil, false
			}
			vs, okA := constFloatsOf(p, s.Parent(), args[pi], depth+1)
			if !okA {
				return nil, false
			}
			vals = append(vals, vs...)
		}
		return vals, true
	}
	return nil, false
}

// repoCallSites lists the static calls of fn in the repository. closed=false when fn
// can also be entered in a way that is not such a call: it is used as a value
// (closure, method value, method expression, go/defer are calls and are listed),
// or a dynamic call through an interface names a method with its identity.
func repoCallSites(p *Prog, fn *ssa.Function) (sites []ssa.CallInstruction, closed bool) {
	closed = true
	obj := fn.Object()
	same := func(g *ssa.Function) bool {
		return g == fn || (g != nil && g.Synthetic != "" && obj != nil && g.Object() == obj)
	}
	for _, f := range p.SrcFuncs() {
		Instrs(f, func(_ *ssa.BasicBlock, _ int, in ssa.Instruction) {
			var callee ssa.Value
			if c, ok := in.(ssa.CallInstruction); ok {
				cc := c.Common()
				if cc.IsInvoke() {
					if obj != nil && cc.Method.Id() == obj.Id() {
						closed = false
					}
				} else {
					callee = cc.Value
					if g, isF := callee.(*ssa.Function); isF && g == fn {
						sites = append(sites, c)
					} else if isF && same(g) {
						closed = false // called through a wrapper: arguments are not those of fn
					}
				}
			}
			for _, op := range in.Operands(nil) {
				if op == nil || *op == nil {
					continue
				}
				if g, isF := (*op).(*ssa.Function); isF && same(g) {
					if c, isCall := in.(ssa.CallInstruction); isCall && c.Common().Value == *op && g == fn {
						// the callee position of a static call; an additional occurrence among the arguments is a value use
						n := 0
						for _, a := range c.Common().Args {
							if a == *op {
								n++
							}
						}
						if n == 0 {
							continue
						}
					}
					closed = false
				}
			}
		})
	}
	return sites, closed
}

// sliceLitAll: v is a fresh slice of exactly n elements, each written exactly once (see
// c19FreshElems), and every element satisfies pred.
func sliceLitAll(fn *ssa.Function, v ssa.Value, n int, pred func(ssa.Value) bool) bool {
	els, ok := c19FreshElems(v, n, nil)
	if !ok {
		return false
	}
	for _, e := range els {
		if !pred(e) {
			return false
		}
	}
	return true
}

// c19FreshElems: v is a slice of exactly n elements that the function created itself and
// filled element by element - a composite literal (a slice of a fresh array) or
// make([]T, n) with a constant n (which the SSA builder turns into a slice [:n] of a fresh
// [n]T as well) - where each index 0..n-1 is stored exactly once through
// a constant index, nothing else can write the storage (it is not passed on or stored
// anywhere before it is returned) and, when `at` is given, every store is executed before
// control reaches `at` (its block dominates `at`). Returns the stored values by index.
func c19FreshElems(v ssa.Value, n int, at *ssa.BasicBlock) ([]ssa.Value, bool) {
	for {
		if ct, ok := v.(*ssa.ChangeType); ok {
			v = ct.X
			continue
		}
		break
	}
	// the storage and every name under which the function handles it
	alias := map[ssa.Value]bool{}
	var work []ssa.Value
	add := func(x ssa.Value) {
		if !alias[x] {
			alias[x] = true
			work = append(work, x)
		}
	}
	// whole: the slice expression covers the whole underlying storage of n elements (a[:], a[0:], a[:n])
	isConst := func(v ssa.Value, k int64) bool {
		c, ok := v.(*ssa.Const)
		return ok && c.Value != nil && c.Value.Kind() == constant.Int && c.Int64() == k
	}
	whole := func(x *ssa.Slice) bool {
		return (x.Low == nil || isConst(x.Low, 0)) && (x.High == nil || isConst(x.High, int64(n))) && (x.Max == nil || isConst(x.Max, int64(n)))
	}
	switch x := v.(type) {
	case *ssa.Slice:
		if !whole(x) {
			return nil, false
		}
		al, ok := x.X.(*ssa.Alloc)
		if !ok {
			return nil, false
		}
		arr, ok := deref(al.Type()).Underlying().(*types.Array)
		if !ok || arr.Len() != int64(n) {
			return nil, false
		}
		add(al)
		add(x)
	case *ssa.MakeSlice:
		k, ok := x.Len.(*ssa.Const)
		if !ok || k.Value == nil || k.Value.Kind() != constant.Int || k.Int64() != int64(n) {
			return nil, false
		}
		add(x)
	default:
		return nil, false
	}
	els := make([]ssa.Value, n)
	cnt := make([]int, n)
	for len(work) > 0 {
		a := work[0]
		work = work[1:]
		refs := a.Referrers()
		if refs == nil {
			return nil, false
		}
		for _, ref := range *refs {
			switch x := ref.(type) {
			case *ssa.Return, *ssa.DebugRef:
			case *ssa.ChangeType:
				add(x)
			case *ssa.Phi:
				add(x)
			case *ssa.Slice:
				if x.X != a || !whole(x) {
					return nil, false
				}
				add(x)
			case *ssa.IndexAddr:
				k, isC := x.Index.(*ssa.Const)
				if x.X != a || !isC || k.Value == nil || k.Value.Kind() != constant.Int || k.Int64() < 0 || k.Int64() >= int64(n) {
					return nil, false
				}
				for _, r2 := range *x.Referrers() {
					switch y := r2.(type) {
					case *ssa.Store:
						if y.Addr != x {
							return nil, false // the element address itself is stored somewhere
						}
						if at != nil && y.Block() != at && !y.Block().Dominates(at) {
							return nil, false
						}
						els[k.Int64()] = y.Val
						cnt[k.Int64()]++
					case *ssa.UnOp, *ssa.DebugRef:
						// a read of the element
					default:
						return nil, false
					}
				}
			default:
				return nil, false // passed to a call, stored, appended to, re-sliced with bounds ...
			}
		}
	}
	for i := 0; i < n; i++ {
		if cnt[i] != 1 {
			return nil, false
		}
	}
	return els, true
}

// c19PhenotypeResult: t is result #idx of Organism.Phenotype() called on an organism accepted by isOrg.
func c19PhenotypeResult(t *Term, idx int, isOrg func(*Term) bool) bool {
	if t == nil || t.Op != "extract" || t.Idx != idx || len(t.Args) == 0 {
		return false
	}
	c := t.Args[0]
	if c.Op != "call" || c.Name != "Organism.Phenotype" || len(c.Args) != 1 {
		return false
	}
	call, ok := c.V.(*ssa.Call)
	if !ok || call.Call.StaticCallee() == nil || call.Call.StaticCallee().Pkg == nil || call.Call.StaticCallee().Pkg.Pkg.Path() != PkgG {
		return false
	}
	return isOrg(c.Args[0])
}

// c19IsPhenotypeComplexity: t is (*network.Network).Complexity() applied to the network returned by
// Phenotype() of an organism accepted by isOrg.
func c19IsPhenotypeComplexity(t *Term, isOrg func(*Term) bool) bool {
	if t == nil || t.Op != "call" || t.Name != "Network.Complexity" || len(t.Args) != 1 {
		return false
	}
	call, ok := t.V.(*ssa.Call)
	if !ok || call.Call.StaticCallee() == nil || call.Call.StaticCallee().Pkg == nil || call.Call.StaticCallee().Pkg.Pkg.Path() != PkgN {
		return false
	}
	return c19PhenotypeResult(t.Args[0], 0, isOrg)
}

// c19CounterReturns: every way result 0 of fn is produced is the loop counter - an increment
// `c + 1` of a phi web that starts at 0, or that web's initial 0 - or the constant 0 under
// len(list)==0. Returns "" when that holds, otherwise what else is returned.
func c19CounterReturns(fn *ssa.Function, tm *Termer, list string) string {
	for _, lf := range retLeaves(fn, 0) {
		switch x := lf.Val.(type) {
		case *ssa.BinOp:
			if x.Op.String() == "+" && tm.Of(x.Y).String() == "1" {
				if ph, isPhi := x.X.(*ssa.Phi); isPhi && lf.Phi != nil && phiWeb(ph).Phis[lf.Phi] {
					continue
				}
			}
		case *ssa.Const:
			if x.Value != nil && x.Value.ExactString() == "0" {
				if lf.Phi != nil {
					// the start value of a counter: the web it enters is incremented by one somewhere
					isCounter := false
					web := phiWeb(lf.Phi)
					for _, f := range web.Feeders {
						if b, isB := f.(*ssa.BinOp); isB && b.Op.String() == "+" && tm.Of(b.Y).String() == "1" {
							if ph, isPhi := b.X.(*ssa.Phi); isPhi && web.Phis[ph] {
								isCounter = true
							}
						}
					}
					if isCounter {
						continue
					}
				}
				empty := false
				for _, g := range lf.Guards {
					if e, ok := lenGuard(tm, g, list); ok && e {
						empty = true
					}
				}
				if empty {
					continue
				}
			}
		}
		return "a return yields " + tm.Of(lf.Val).String() + ", which is not the count of solved trials found by scanning " + list
	}
	return ""
}

// c19PhenotypeOK: the leaf is produced only where the error result of Phenotype() of the organism is nil.
func c19PhenotypeOK(tm *Termer, lf retLeaf, isOrg func(*Term) bool) bool {
	gs := append([]Guard{}, lf.Guards...)
	if in, ok := lf.Val.(ssa.Instruction); ok && in.Block() != nil {
		gs = append(gs, Guards(in.Block())...)
	}
	for _, g := range gs {
		if a, b, ok := eqCond(tm, g); ok {
			if b.Op != "nil" {
				a, b = b, a
			}
			if b.Op == "nil" && c19PhenotypeResult(a, 1, isOrg) {
				return true
			}
		}
	}
	return false
}

// ---- the quantities of the Floats accessors and the expressions that are defined to be them ----
//
// A Floats accessor is "the right statistic" when what it returns on a non-empty series is an
// expression of the table below over the series itself (the receiver, unweighted: the weights
// argument is nil). Every line is an identity of definitions in the pinned gonum v0.14.0
// (stat/stat.go, floats/floats.go), not a numerical approximation: the accepted expression
// performs the same floating-point operations in the same order as the canonical one.
//
//	quantity  accepted expression                     reason
//	--------  --------------------------------------  ------------------------------------------------------------
//	Sum       floats.Sum(x)                           canonical
//	Min       floats.Min(x)                           canonical
//	Min       x[floats.MinIdx(x)]                     floats.Min is `return s[MinIdx(s)]`
//	Max       floats.Max(x)                           canonical
//	Max       x[floats.MaxIdx(x)]                     floats.Max is `return s[MaxIdx(s)]`
//	Mean      stat.Mean(x, nil)                       canonical
//	Mean      <Sum> / float64(len(x))                 stat.Mean with nil weights is `return floats.Sum(x) / float64(len(x))`
//	Mean      stat.MeanVariance(x, nil) #0            its mean is `mean = Mean(x, weights)` (meanUnnormalisedVarianceSumWeights), returned unchanged
//	Mean      stat.MeanStdDev(x, nil) #0              MeanStdDev returns the mean of MeanVariance unchanged
//	Variance  stat.Variance(x, nil)                   canonical
//	Variance  stat.MeanVariance(x, nil) #1            stat.Variance is `_, variance := MeanVariance(x, weights); return variance`
//	StdDev    stat.StdDev(x, nil)                     canonical
//	StdDev    stat.MeanStdDev(x, nil) #1              stat.StdDev is `_, std := MeanStdDev(x, weights); return std`
//	StdDev    math.Sqrt(<Variance>)                   stat.MeanStdDev is `mean, variance := MeanVariance(x, weights); return mean, math.Sqrt(variance)`
//	<Q>       x.Q()  (another accessor of Floats)     that accessor is held to the same table by its own obligation; on a non-empty series it is <Q>
//	pair      fresh 2-element slice {<Mean>, <Variance>}   Floats.MeanVariance returns the two results of stat.MeanVariance, which are <Mean> and <Variance> by the lines above
//	quantile  stat.Quantile(level, ...)               canonical (kind, sorted input and weights are the obligations of C19.2)
//
// Deliberately NOT in the table: stat.PopVariance/PopStdDev/PopMeanVariance (divide by n, not n-1), a
// hand-written loop (a different summation order or formula is a different floating-point result, see the
// single-pass variance), min/max through sorting or the slices package (different NaN behaviour).
// The accessor line cannot be circular: an accessor may not stand for its own quantity, and the table has no
// way back from Sum, Min, Max or Variance to an accessor that depends on them.

const (
	c19PkgStat   = "gonum.org/v1/gonum/stat"
	c19PkgFloats = "gonum.org/v1/gonum/floats"
)

type c19Quant struct {
	p    *Prog
	self string // the accessor being examined: it cannot stand for its own quantity
}

// lib: t is a call of the package-level function pkg.name; returns its argument terms.
func (q c19Quant) lib(t *Term, pkg, name string) ([]*Term, bool) {
	if t == nil || t.Op != "call" {
		return nil, false
	}
	c, ok := t.V.(*ssa.Call)
	if !ok {
		return nil, false
	}
	f := c.Call.StaticCallee()
	if f == nil || f.Signature.Recv() != nil || f.Name() != name {
		return nil, false
	}
	path := ""
	if f.Pkg != nil {
		path = f.Pkg.Pkg.Path()
	} else if f.Object() != nil && f.Object().Pkg() != nil {
		path = f.Object().Pkg().Path()
	}
	if path != pkg {
		return nil, false
	}
	return t.Args, true
}

func c19IsSeries(t *Term) bool { return t != nil && t.Op == "recv" }

// unweighted: pkg.name(x, nil)
func (q c19Quant) unweighted(t *Term, name string) bool {
	a, ok := q.lib(t, c19PkgStat, name)
	return ok && len(a) == 2 && c19IsSeries(a[0]) && a[1].Op == "nil"
}

// ofSeries: pkg.name(x)
func (q c19Quant) ofSeries(t *Term, name string) bool {
	a, ok := q.lib(t, c19PkgFloats, name)
	return ok && len(a) == 1 && c19IsSeries(a[0])
}

// result: t is result #idx of the unweighted stat.name(x, nil)
func (q c19Quant) result(t *Term, name string, idx int) bool {
	return t != nil && t.Op == "extract" && t.Idx == idx && len(t.Args) == 1 && q.unweighted(t.Args[0], name)
}

// accessor: t is x.name() for another accessor of the table
func (q c19Quant) accessor(t *Term, name string) bool {
	if name == q.self || t == nil || t.Op != "call" || len(t.Args) != 1 || !c19IsSeries(t.Args[0]) {
		return false
	}
	f := q.p.FuncOpt(PkgE, "Floats."+name)
	return f != nil && isCallTo(t, f)
}

// Is decides whether t is the named quantity of the series by the table above.
func (q c19Quant) Is(quantity string, t *Term) bool {
	if t == nil {
		return false
	}
	if q.accessor(t, quantity) {
		return true
	}
	switch quantity {
	case "Sum":
		return q.ofSeries(t, "Sum")
	case "Min", "Max":
		if q.ofSeries(t, quantity) {
			return true
		}
		return t.Op == "elem" && len(t.Args) == 2 && c19IsSeries(t.Args[0]) && q.ofSeries(t.Args[1], quantity+"Idx")
	case "Mean":
		if q.unweighted(t, "Mean") || q.result(t, "MeanVariance", 0) || q.result(t, "MeanStdDev", 0) {
			return true
		}
		if t.Op == "bin" && t.Name == "/" && q.Is("Sum", t.Args[0]) {
			d := t.Args[1]
			return d.Op == "conv" && d.Name == "float64" && d.Args[0].Op == "len" && c19IsSeries(d.Args[0].Args[0])
		}
		return false
	case "Variance":
		return q.unweighted(t, "Variance") || q.result(t, "MeanVariance", 1)
	case "StdDev":
		if q.unweighted(t, "StdDev") || q.result(t, "MeanStdDev", 1) {
			return true
		}
		if a, ok := q.lib(t, "math", "Sqrt"); ok && len(a) == 1 {
			return q.Is("Variance", a[0])
		}
		return false
	}
	return false
}

// nanOnEmpty: t is NaN for the empty series without a test of its own, because it is an accessor that is
// itself obliged to return NaN there (C19.1 of that accessor), or the square root of such a value
// (math.Sqrt(NaN) is NaN).
func (q c19Quant) nanOnEmpty(t *Term) bool {
	for _, sp := range floatsTable {
		if sp.guard && sp.method != "MeanVariance" && q.accessor(t, sp.method) {
			return true
		}
	}
	if a, ok := q.lib(t, "math", "Sqrt"); ok && len(a) == 1 {
		return q.nanOnEmpty(a[0])
	}
	return false
}

// c19GonumCalls lists the calls in fn of functions of the gonum module: those have preconditions on
// the series (floats.Min/Max and stat.Quantile panic on an empty one, the moments are 0/0).
func c19GonumCalls(fn *ssa.Function) []ssa.CallInstruction {
	var out []ssa.CallInstruction
	Instrs(fn, func(_ *ssa.BasicBlock, _ int, in ssa.Instruction) {
		c, ok := in.(ssa.CallInstruction)
		if !ok {
			return
		}
		f := c.Common().StaticCallee()
		if f == nil {
			return
		}
		path := ""
		if f.Pkg != nil {
			path = f.Pkg.Pkg.Path()
		} else if f.Object() != nil && f.Object().Pkg() != nil {
			path = f.Object().Pkg().Path()
		}
		if strings.HasPrefix(path, "gonum.org/v1/gonum/") {
			out = append(out, c)
		}
	})
	return out
}

// c19OnEmpty: the leaf is produced on a path on which len(x)==0 is established.
func c19OnEmpty(tm *Termer, lf retLeaf, of string) bool {
	for _, g := range lf.Guards {
		if empty, ok := lenGuard(tm, g, of); ok && empty {
			return true
		}
	}
	return false
}

// ---- third round: a slice filled branch by branch, values produced by a function literal ----

// c19FreshStores: v is a slice of exactly n elements that the function created itself (as for
// c19FreshElems) and nothing but this function's own constant-index element stores can write its
// storage (it is not passed on, stored anywhere or re-sliced with bounds before it is returned).
// Returns the index each such store writes. Unlike c19FreshElems it says nothing about how often
// or where an element is stored: that is decided per path by c19PairLeaves.
func c19FreshStores(v ssa.Value, n int) (map[*ssa.Store]int, bool) {
	for {
		if ct, ok := v.(*ssa.ChangeType); ok {
			v = ct.X
			continue
		}
		break
	}
	alias := map[ssa.Value]bool{}
	var work []ssa.Value
	add := func(x ssa.Value) {
		if !alias[x] {
			alias[x] = true
			work = append(work, x)
		}
	}
	isConst := func(v ssa.Value, k int64) bool {
		c, ok := v.(*ssa.Const)
		return ok && c.Value != nil && c.Value.Kind() == constant.Int && c.Int64() == k
	}
	whole := func(x *ssa.Slice) bool {
		return (x.Low == nil || isConst(x.Low, 0)) && (x.High == nil || isConst(x.High, int64(n))) && (x.Max == nil || isConst(x.Max, int64(n)))
	}
	switch x := v.(type) {
	case *ssa.Slice:
		if !whole(x) {
			return nil, false
		}
		al, ok := x.X.(*ssa.Alloc)
		if !ok {
			return nil, false
		}
		arr, ok := deref(al.Type()).Underlying().(*types.Array)
		if !ok || arr.Len() != int64(n) {
			return nil, false
		}
		add(al)
		add(x)
	case *ssa.MakeSlice:
		k, ok := x.Len.(*ssa.Const)
		if !ok || k.Value == nil || k.Value.Kind() != constant.Int || k.Int64() != int64(n) {
			return nil, false
		}
		add(x)
	default:
		return nil, false
	}
	stores := map[*ssa.Store]int{}
	for len(work) > 0 {
		a := work[0]
		work = work[1:]
		refs := a.Referrers()
		if refs == nil {
			return nil, false
		}
		for _, ref := range *refs {
			switch x := ref.(type) {
			case *ssa.Return, *ssa.DebugRef:
			case *ssa.ChangeType:
				add(x)
			case *ssa.Phi:
				add(x)
			case *ssa.Slice:
				if x.X != a || !whole(x) {
					return nil, false
				}
				add(x)
			case *ssa.IndexAddr:
				k, isC := x.Index.(*ssa.Const)
				if x.X != a || !isC || k.Value == nil || k.Value.Kind() != constant.Int || k.Int64() < 0 || k.Int64() >= int64(n) {
					return nil, false
				}
				for _, r2 := range *x.Referrers() {
					switch y := r2.(type) {
					case *ssa.Store:
						if y.Addr != x {
							return nil, false // the element address itself is stored somewhere
						}
						stores[y] = int(k.Int64())
					case *ssa.UnOp, *ssa.DebugRef:
					default:
						return nil, false
					}
				}
			default:
				return nil, false
			}
		}
	}
	return stores, true
}

// c19PairLeaves turns one way a function returns a fresh n-element slice into the list of ways
// the CONTENTS of that slice are produced. When the elements are written once, before control
// reaches the leaf (a literal, or make + stores in a dominating block), that is the leaf itself
// with its elements. When they are written branch by branch (`res := make([]T, n); if c { res[0],
// res[1] = a, b } else { res[0], res[1] = c, d }; return res`) every acyclic path from the
// function's entry to the return is one way: its elements are the last values stored on that path
// (each index must be stored on it) and its guards are the branch outcomes taken on the path. A
// function with a cycle on the way, or a slice that is merged by a phi, is not split (ok=false).
func c19PairLeaves(fn *ssa.Function, lf retLeaf, n int) ([]retLeaf, bool) {
	if els, ok := c19FreshElems(lf.Val, n, lf.Block); ok {
		lf.Els = els
		return []retLeaf{lf}, true
	}
	if lf.Phi != nil || len(fn.Blocks) == 0 {
		return nil, false
	}
	stores, ok := c19FreshStores(lf.Val, n)
	if !ok {
		return nil, false
	}
	paths, complete := EnumRegionPaths(fn, fn.Blocks[0], func(*ssa.BasicBlock) bool { return false }, 64)
	if !complete {
		return nil, false
	}
	var out []retLeaf
	for _, ip := range paths {
		if ip.End != "return" {
			return nil, false // a loop on the way: the stores of a path are not a fixed sequence
		}
		if ip.Blocks[len(ip.Blocks)-1] != lf.Ret.Block() {
			continue // another return: its own leaf
		}
		els := make([]ssa.Value, n)
		for _, b := range ip.Blocks {
			for _, in := range b.Instrs {
				if st, isSt := in.(*ssa.Store); isSt {
					if k, mine := stores[st]; mine {
						els[k] = st.Val
					}
				}
			}
		}
		for _, e := range els {
			if e == nil {
				return nil, false // an element keeps its zero value on this path
			}
		}
		v := lf
		v.Els = els
		v.Guards = append(append([]Guard{}, lf.Guards...), ip.Conds...)
		out = append(out, v)
	}
	return out, len(out) > 0
}

// c19LitCall: t is a call of a function literal of the function under analysis that captures
// nothing - the callee is fixed (the SSA call is static: the variable or parameter the literal was
// bound to at an inlined call site has this literal as its only value) and what it returns is a
// function of its arguments and the heap alone.
func c19LitCall(tm *Termer, t *Term) (*ssa.Function, bool) {
	if t == nil || t.Op != "call" {
		return nil, false
	}
	c, ok := t.V.(*ssa.Call)
	if !ok || c.Call.IsInvoke() {
		return nil, false
	}
	f, ok := c.Call.Value.(*ssa.Function)
	if !ok || f.Parent() != tm.Fn || len(f.FreeVars) != 0 || f.Blocks == nil || f.Signature.Recv() != nil {
		return nil, false
	}
	if f.Signature.Results().Len() != 1 || len(f.Params) != len(t.Args) || f.Recover != nil {
		return nil, false
	}
	return f, true
}

// substParams: a copy of t (a term over the parameters of a literal) with parameter i replaced by args[i].
func substParams(t *Term, args []*Term) *Term {
	if t == nil {
		return nil
	}
	if t.Op == "param" && t.Idx >= 0 && t.Idx < len(args) {
		return args[t.Idx]
	}
	c := *t
	c.Args = make([]*Term, len(t.Args))
	for i, a := range t.Args {
		c.Args[i] = substParams(a, args)
	}
	return &c
}

// c19Alt is one value a stored expression can be.
type c19Alt struct {
	T *Term
	// ZeroLeaf: the constant 0 returned by a function literal on one of its paths (the other
	// paths return the other alternatives).
	ZeroLeaf bool
}

// c19ValueAlts: the origin terms of v with calls of capture-free function literals of the
// function replaced by what the literal returns, expressed over the call's arguments: a literal
// with a single way of returning is substituted wherever it occurs in the term, a literal with
// several (`if o.S == nil { return 0 }; return float64(o.S.Age)`) at the top gives one alternative
// per way. The result of such a call IS that value, so a rule that holds for every alternative
// holds for the call.
func c19ValueAlts(tm *Termer, v ssa.Value) []c19Alt {
	var inline func(t *Term, depth int) *Term
	leavesOf := func(t *Term, depth int) ([]*Term, []bool, bool) {
		f, ok := c19LitCall(tm, t)
		if !ok || depth > 3 {
			return nil, nil, false
		}
		ftm := NewTermer(f)
		var out []*Term
		var zero []bool
		for _, lf := range retLeaves(f, 0) {
			lt := ftm.Of(lf.Val)
			if lt.Has(func(x *Term) bool { return x.Op == "free" || x.Op == "loop" || x.Op == "unknown" }) {
				return nil, nil, false
			}
			c, isC := lf.Val.(*ssa.Const)
			z := isC && c.Value != nil && (c.Value.Kind() == constant.Int || c.Value.Kind() == constant.Float) && constant.Sign(c.Value) == 0
			out = append(out, substParams(lt, t.Args))
			zero = append(zero, z)
		}
		return out, zero, len(out) > 0
	}
	inline = func(t *Term, depth int) *Term {
		if t == nil {
			return nil
		}
		if ls, _, ok := leavesOf(t, depth); ok && len(ls) == 1 {
			return inline(ls[0], depth+1)
		}
		c := *t
		c.Args = make([]*Term, len(t.Args))
		for i, a := range t.Args {
			c.Args[i] = inline(a, depth)
		}
		return &c
	}
	t := tm.Of(v)
	if ls, zero, ok := leavesOf(t, 0); ok && len(ls) > 1 {
		var out []c19Alt
		for i, l := range ls {
			out = append(out, c19Alt{T: inline(l, 1), ZeroLeaf: zero[i]})
		}
		return out
	}
	return []c19Alt{{T: inline(t, 0)}}
}

// c19OncePerElement: the store writes each element of its slice at most once during the whole
// call - its index is the counter of the only loop around it (the header phi, or that phi plus a
// constant), the counter only ever grows (every value it receives from inside the loop is itself
// plus a positive constant), and the loop is not nested in another one. Storing the zero value
// through such a store into a slice that make() just zeroed and that no other instruction writes
// leaves the element as it was: it is the same as not storing.
func c19OncePerElement(fn *ssa.Function, st *ssa.Store) bool {
	ia, ok := st.Addr.(*ssa.IndexAddr)
	if !ok {
		return false
	}
	loops := Loops(fn)
	l := InnermostLoop(loops, st.Block())
	if l == nil {
		return false
	}
	for _, o := range loops {
		if o != l && o.Blocks[l.Header] {
			return false
		}
	}
	posConst := func(v ssa.Value) bool {
		c, ok := v.(*ssa.Const)
		return ok && c.Value != nil && c.Value.Kind() == constant.Int && constant.Sign(c.Value) > 0
	}
	step := func(v ssa.Value, ph *ssa.Phi) bool {
		b, ok := v.(*ssa.BinOp)
		return ok && b.Op == token.ADD && b.X == ssa.Value(ph) && posConst(b.Y)
	}
	var ph *ssa.Phi
	switch x := ia.Index.(type) {
	case *ssa.Phi:
		ph = x
	case *ssa.BinOp:
		p, isPhi := x.X.(*ssa.Phi)
		if !isPhi || !step(x, p) {
			return false
		}
		ph = p
	default:
		return false
	}
	if ph.Block() != l.Header {
		return false
	}
	inside := 0
	for i, e := range ph.Edges {
		if l.Blocks[ph.Block().Preds[i]] {
			inside++
			if !step(e, ph) {
				return false
			}
		}
	}
	return inside > 0
}

// c19OnlyWriter: the storage of the freshly made slice ms is written by the store st and by nothing
// else - under every name the function has for it (type changes) it is only indexed (element loads,
// and the one store), returned, or inspected by len/cap; it is not passed to a call, appended to,
// re-sliced, copied into or stored anywhere.
func c19OnlyWriter(ms *ssa.MakeSlice, st *ssa.Store) bool {
	seen := map[ssa.Value]bool{}
	work := []ssa.Value{ms}
	for len(work) > 0 {
		a := work[0]
		work = work[1:]
		if seen[a] {
			continue
		}
		seen[a] = true
		refs := a.Referrers()
		if refs == nil {
			return false
		}
		for _, ref := range *refs {
			switch x := ref.(type) {
			case *ssa.Return, *ssa.DebugRef:
			case *ssa.ChangeType:
				work = append(work, x)
			case *ssa.Call:
				if b, isB := x.Call.Value.(*ssa.Builtin); !isB || (b.Name() != "len" && b.Name() != "cap") {
					return false
				}
			case *ssa.IndexAddr:
				if x.X != a || x.Referrers() == nil {
					return false
				}
				for _, r2 := range *x.Referrers() {
					switch y := r2.(type) {
					case *ssa.Store:
						if y != st || y.Addr != ssa.Value(x) {
							return false
						}
					case *ssa.UnOp, *ssa.DebugRef:
					default:
						return false
					}
				}
			default:
				return false
			}
		}
	}
	return true
}

// c19ExpandPairs replaces every leaf that returns a fresh n-element slice by the ways its contents
// are produced (c19PairLeaves); a leaf that is not such a slice is kept as it is, without elements.
func c19ExpandPairs(fn *ssa.Function, leaves []retLeaf, n int) []retLeaf {
	var out []retLeaf
	for _, lf := range leaves {
		if sub, ok := c19PairLeaves(fn, lf, n); ok {
			out = append(out, sub...)
		} else {
			lf.Els = nil
			out = append(out, lf)
		}
	}
	return out
}
