package nc

import (
	"fmt"
	"go/constant"
	"go/token"
	"go/types"
	"sort"
	"strings"

	"golang.org/x/tools/go/ssa"
)

// Fourth-round obligations of C01 (helpers used by c01.go only).

// c01Feeders: like c04Feeders (the non-phi values that can flow into v, a load of a local variable kept in a memory
// cell standing for the values the function stores into that cell), but a store is followed only when control can
// get from the store to the load: a store in a branch that returns (the modular branch of the crossovers appends the
// module nodes to the node list and returns NewModularGenome) does not feed a load it cannot reach.
func c01Feeders(v ssa.Value) []ssa.Value {
	var out []ssa.Value
	seen := map[ssa.Value]bool{}
	reach := map[[2]*ssa.BasicBlock]bool{}
	reaches := func(from, to *ssa.BasicBlock) bool {
		k := [2]*ssa.BasicBlock{from, to}
		if r, ok := reach[k]; ok {
			return r
		}
		vis := map[*ssa.BasicBlock]bool{}
		var dfs func(b *ssa.BasicBlock) bool
		dfs = func(b *ssa.BasicBlock) bool {
			if b == to {
				return true
			}
			if vis[b] {
				return false
			}
			vis[b] = true
			for _, sx := range b.Succs {
				if dfs(sx) {
					return true
				}
			}
			return false
		}
		res := false
		for _, sx := range from.Succs {
			if dfs(sx) {
				res = true
				break
			}
		}
		reach[k] = res
		return res
	}
	var visit func(v ssa.Value, depth int)
	visit = func(v ssa.Value, depth int) {
		if v == nil || seen[v] || depth > 12 {
			return
		}
		seen[v] = true
		for _, f := range phiWeb(v).Feeders {
			if u, ok := f.(*ssa.UnOp); ok && u.Op == token.MUL {
				if cell, ok := u.X.(*ssa.Alloc); ok && cell.Referrers() != nil {
					for _, ref := range *cell.Referrers() {
						st, ok := ref.(*ssa.Store)
						if !ok || st.Addr != ssa.Value(cell) {
							continue
						}
						if st.Block() == u.Block() {
							if instrIndex(st) < instrIndex(u) || reaches(st.Block(), u.Block()) {
								visit(st.Val, depth+1)
							}
						} else if reaches(st.Block(), u.Block()) {
							visit(st.Val, depth+1)
						}
					}
					continue
				}
			}
			out = append(out, f)
		}
	}
	visit(v, 0)
	return out
}

// c01ListMembers: the element values that can be in one of the given lists when it is handed to the genome
// constructor. A list is followed backwards through phis and memory cells to the operations that build it:
// nodeInsert/geneInsert(list, x), append(list, x, ...), a slice literal, a made slice filled by indexed stores.
// Everything else a list can be built on (a parameter, a field of a parent, the result of some other call, an
// append of a whole other slice) is reported in `foreign` - the caller decides what that means.
func c01ListMembers(fn *ssa.Function, tm *Termer, lists []ssa.Value) (elems []ssa.Value, foreign []string) {
	seen := map[ssa.Value]bool{}
	seenF := map[ssa.Value]bool{}
	seenE := map[ssa.Value]bool{}
	addE := func(v ssa.Value) {
		if !seenE[v] {
			seenE[v] = true
			elems = append(elems, v)
		}
	}
	arrayStores := func(al *ssa.Alloc) {
		if al.Referrers() == nil {
			return
		}
		for _, ref := range *al.Referrers() {
			if ia, ok := ref.(*ssa.IndexAddr); ok && ia.Referrers() != nil {
				for _, r2 := range *ia.Referrers() {
					if st, ok := r2.(*ssa.Store); ok && st.Addr == ssa.Value(ia) {
						addE(st.Val)
					}
				}
			}
		}
	}
	var visit func(l ssa.Value, depth int)
	visit = func(l ssa.Value, depth int) {
		if l == nil || seen[l] {
			return
		}
		seen[l] = true
		if depth > 40 {
			foreign = append(foreign, "a list built by more than 40 nested steps")
			return
		}
		for _, f := range c01Feeders(l) {
			if seenF[f] {
				continue
			}
			seenF[f] = true
			switch x := f.(type) {
			case *ssa.Call:
				if cal := x.Call.StaticCallee(); cal != nil && cal.Signature.Recv() == nil && len(x.Call.Args) == 2 &&
					(cal.Name() == "nodeInsert" || cal.Name() == "geneInsert") {
					addE(x.Call.Args[1])
					visit(x.Call.Args[0], depth+1)
					continue
				}
				if base, es, ok := appendCall(x); ok {
					if es == nil {
						foreign = append(foreign, "append(..., "+tm.Of(x.Call.Args[1]).String()+"...)")
					}
					for _, e := range es {
						addE(e)
					}
					visit(base, depth+1)
					continue
				}
				foreign = append(foreign, tm.Of(f).String())
			case *ssa.Slice:
				if al, ok := x.X.(*ssa.Alloc); ok {
					arrayStores(al) // []T{a, b} or make([]T, 0)
					continue
				}
				visit(x.X, depth+1) // list[:n] holds elements of list
			case *ssa.MakeSlice:
				for _, st := range elemStoresInto(fn, x) {
					addE(st.Val)
				}
			default:
				foreign = append(foreign, tm.Of(f).String())
			}
		}
	}
	for _, l := range lists {
		visit(l, 0)
	}
	return elems, foreign
}

// c01ChildTraits — every trait reference of a crossover child is one of the child's own traits.
//
// The child genome is NewGenome(id, T, N, G). The claim, for every object that can be an element of N (nodes) or G
// (connection genes) at that call: the object is created in this function by a constructor whose summary says
// where its Trait comes from, and that origin - followed through phis, over every alternative - is nil or an
// element of T (T[i], or TraitWithId(id, T), which selects an element of the list it is given: C01.7
// TraitWithId.selector); every later store into the Trait field of such an object stores the same kind of value.
// T is identified by value (the SSA value handed to NewGenome), not by name.
//
// Necessary: C01 demands that every trait reference of a produced genome is one of the genome's own traits. A
// child node or gene that keeps `parentNode.Trait` / `parentGene.Link.Trait` points to a trait object of the
// parent (same id, foreign object): the child is not well-formed as soon as a parent node carries a trait (after
// add-node, a node-trait mutation or an earlier crossover), and a later trait mutation of either genome shows
// through the other. Objects that do not enter the child's lists (the averaging scratch gene) are not judged:
// their trait is passed on explicitly as the trait argument of NewGeneCopy, which is judged.
// The modular branch (NewModularGenome) is outside the quantifier of C01.
func (r *Run) c01ChildTraits(s *mateShape, sums *Summaries) {
	p, tm, fn := r.P, s.tm, s.fn
	pos := p.Pos(fn.Pos())
	traitN := p.Field(PkgN, "NNode", "Trait")
	traitL := p.Field(PkgN, "Link", "Trait")
	linkG := p.Field(PkgG, "Gene", "Link")
	traitWithId := p.Func(PkgG, "TraitWithId")
	consN, consG := s.name+".own-traits.nodes", s.name+".own-traits.genes"

	asm := CallsTo(fn, p.Func(PkgG, "NewGenome"))
	if len(asm) == 0 {
		r.Bad(consN, pos, s.name+" does not assemble its child with NewGenome: the child's trait list cannot be identified")
		r.Bad(consG, pos, s.name+" does not assemble its child with NewGenome: the child's trait list cannot be identified")
		return
	}
	own := map[ssa.Value]bool{}
	var nodeLists, geneLists []ssa.Value
	for _, c := range asm {
		a := c.Common().Args
		for _, alt := range tm.Of(c04Unload(a[1])).Alternatives() {
			if alt.V != nil && alt.Op != "nil" && alt.Op != "loop" {
				own[stripPtr(alt.V)] = true
			}
		}
		nodeLists = append(nodeLists, a[2])
		geneLists = append(geneLists, a[3])
	}
	ownList := func(t *Term) bool {
		n := 0
		for _, a := range t.Alternatives() {
			if a.Op == "loop" {
				continue
			}
			if a.V == nil || !own[stripPtr(a.V)] {
				return false
			}
			n++
		}
		return n > 0
	}
	// classify: "" when every origin of the trait is nil or an element of the child's trait list
	classify := func(t *Term) string {
		if t == nil {
			return "" // the constructor leaves the field at its zero value
		}
		n := 0
		for _, a := range t.Alternatives() {
			switch {
			case a.Op == "nil":
				n++
			case a.Op == "loop":
				// a value carried around a loop: its sources are the other alternatives
			case a.Op == "elem" && len(a.Args) >= 1 && ownList(a.Args[0]):
				n++
			case isCallTo(a, traitWithId) && len(a.Args) == 2 && ownList(a.Args[1]):
				n++
			default:
				return a.String()
			}
		}
		if n == 0 {
			return t.String()
		}
		return ""
	}
	type kind struct {
		cons   string
		what   string
		lists  []ssa.Value
		isGene bool
	}
	memberFeeder := map[ssa.Value]bool{} // constructor calls whose result enters one of the child's lists
	for _, k := range []kind{{consN, "node", nodeLists, false}, {consG, "connection gene", geneLists, true}} {
		elems, foreign := c01ListMembers(fn, tm, k.lists)
		var bad []string
		sinks := 0
		for _, f := range foreign {
			bad = append(bad, "the child's "+k.what+" list is built on "+f+", whose elements are not created here")
		}
		for _, e := range elems {
			for _, f := range c01Feeders(e) {
				c, ok := f.(*ssa.Call)
				if !ok || c.Call.StaticCallee() == nil {
					bad = append(bad, "a "+k.what+" of the child can be "+tm.Of(f).String()+", which is not an object created for the child")
					continue
				}
				wantType := "NNode"
				if k.isGene {
					wantType = "Gene"
				}
				typ, traits, why := c01CtorTraits(p, sums, tm, c)
				if typ != wantType {
					bad = append(bad, "a "+k.what+" of the child can be "+tm.Of(f).String()+", which is not an object created for the child")
					continue
				}
				memberFeeder[f] = true
				if why != "" {
					bad = append(bad, why)
					continue
				}
				for _, t := range traits {
					sinks++
					if w := classify(t); w != "" {
						bad = append(bad, fmt.Sprintf("the %s created at %s gets the trait %s", k.what, p.Pos(c.Pos()), w))
					}
				}
			}
		}
		// later stores into the Trait field of such an object
		fld := traitN
		if k.isGene {
			fld = traitL
		}
		for _, st := range FieldStores(fn, fld) {
			base := st.Addr.(*ssa.FieldAddr).X
			if k.isGene {
				// gene.Link.Trait = x: the link is loaded from the gene
				bt := tm.Of(base)
				if bt.Op == "field" && bt.Obj == linkG && len(bt.Args) == 1 && bt.Args[0].V != nil {
					base = bt.Args[0].V
				}
			}
			member := false
			for _, f := range c01Feeders(base) {
				if memberFeeder[f] {
					member = true
				}
			}
			if !member {
				continue // an object that does not enter the child's lists (scratch gene)
			}
			sinks++
			if w := classify(tm.Of(st.Val)); w != "" {
				bad = append(bad, fmt.Sprintf("the store at %s sets the trait of a child %s to %s", p.Pos(st.Pos()), k.what, w))
			}
		}
		sort.Strings(bad)
		bad = uniq(bad)
		if sinks == 0 && len(bad) == 0 {
			bad = append(bad, "no "+k.what+" created for the child was found in the list handed to NewGenome")
		}
		r.Check(len(bad) == 0, k.cons, pos,
			fmt.Sprintf("%d trait origin(s) of the %ss that enter the child: each nil or an element of the trait list handed to NewGenome", sinks, k.what),
			"a "+k.what+" of the child can reference a trait that is not one of the child's own traits (an element of the trait list handed to NewGenome): "+strings.Join(bad, "; ")+
				" - the child references a trait object of a parent: it is not well-formed, and a trait mutation of the parent shows through the child")
	}
}

// c01CtorTraits: c is a call of a function that returns a freshly created NNode, Link or Gene (by its constructor
// summary); typ names which, traits are the origins of the Trait field of the created object (of its link, for a
// gene) expressed over the caller's values - a nil entry means the field is left at its zero value. typ is "" when
// the callee is not such a constructor; why is set when the origin cannot be determined.
func c01CtorTraits(p *Prog, sums *Summaries, tm *Termer, c *ssa.Call) (typ string, traits []*Term, why string) {
	cal := c.Call.StaticCallee()
	if cal == nil {
		return "", nil, ""
	}
	res := cal.Signature.Results()
	if res.Len() == 0 {
		return "", nil, ""
	}
	pt, ok := res.At(0).Type().Underlying().(*types.Pointer)
	if !ok {
		return "", nil, ""
	}
	named, ok := pt.Elem().(*types.Named)
	if !ok || named.Obj().Pkg() == nil {
		return "", nil, ""
	}
	name, pkg := named.Obj().Name(), named.Obj().Pkg().Path()
	if !((pkg == PkgN && (name == "NNode" || name == "Link")) || (pkg == PkgG && name == "Gene")) {
		return "", nil, ""
	}
	sm := sums.Ctor(cal)
	if sm.Why != "" || !sm.Fresh {
		return "", nil, ""
	}
	traitN := p.Field(PkgN, "NNode", "Trait")
	traitL := p.Field(PkgN, "Link", "Trait")
	linkG := p.Field(PkgG, "Gene", "Link")
	args := callArgTerms(tm, &c.Call)
	at := p.Pos(c.Pos())
	switch name {
	case "NNode":
		return name, []*Term{Subst(sm.Fields[traitN], args)}, ""
	case "Link":
		return name, []*Term{Subst(sm.Fields[traitL], args)}, ""
	}
	lt := sm.Fields[linkG]
	switch {
	case lt == nil:
		return name, nil, "the gene created at " + at + " has no link"
	case lt.Op == "param" || lt.Op == "recv":
		// the link is an argument of the gene constructor: it has to be created by a link constructor in the caller
		if lt.Idx < 0 || lt.Idx >= len(c.Call.Args) {
			return name, nil, "cannot tell which link the gene created at " + at + " receives"
		}
		for _, f := range c01Feeders(c.Call.Args[lt.Idx]) {
			lc, isCall := f.(*ssa.Call)
			if !isCall {
				return name, nil, "the link of the gene created at " + at + " is " + tm.Of(f).String() + ", not a link created here"
			}
			lty, lts, lwhy := c01CtorTraits(p, sums, tm, lc)
			if lty != "Link" || lwhy != "" {
				return name, nil, "the link of the gene created at " + at + " is " + tm.Of(f).String() + ", not a link created here"
			}
			traits = append(traits, lts...)
		}
		if len(traits) == 0 {
			return name, nil, "cannot tell which link the gene created at " + at + " receives"
		}
		return name, traits, ""
	}
	lc, isCall := lt.V.(*ssa.Call)
	if !isCall || lc.Call.StaticCallee() == nil {
		return name, nil, fmt.Sprintf("the link of the gene created at %s is %s", at, lt)
	}
	inner := sums.Ctor(lc.Call.StaticCallee())
	if inner.Why != "" {
		return name, nil, "cannot expand the link of the gene created at " + at + ": " + inner.Why
	}
	// the inner summary is over the link constructor's parameters, lt.Args over the gene constructor's
	return name, []*Term{Subst(Subst(inner.Fields[traitL], lt.Args), args)}, ""
}

// c01OperatorTraits — C01.10: who writes trait references, and what the in-place operators write.
//
// (a) The Trait field of a node or of a link is written only by the constructors of the network package, by the
// functions that build a new genome (the crossovers: judged by C01.4 own-traits; duplication: C01.7; the random
// constructor: judged here; the readers: they produce the start genomes C01 assumes well-formed) and by the
// mutators (judged here). A writer outside this set can plant a foreign trait object into a genome.
// (b) In every Genome.mutate* method, every value that becomes the Trait of a node or link - the trait origin of
// every node/link/gene constructor call (by constructor summary) and every store into a Trait field - is, over all
// phi alternatives, nil, an element of the receiver's own trait list (recv.Traits[i] or TraitWithId(id,
// recv.Traits)), or the Trait already held by an object of the receiver (recv.Genes[i].Link.Trait,
// recv.Nodes[i].Trait ...), which is one of the receiver's traits by the induction hypothesis. Anything else (a
// trait of another genome, of the innovation record, a fresh trait object) makes the mutated genome reference a
// trait that is not one of its own.
// (c) The random constructor gives its nodes only traits it also puts into the genome's trait list.
func (r *Run) c01OperatorTraits(sums *Summaries) {
	p := r.P
	traitN := p.Field(PkgN, "NNode", "Trait")
	traitL := p.Field(PkgN, "Link", "Trait")
	traitsF := p.Field(PkgG, "Genome", "Traits")
	traitWithId := p.Func(PkgG, "TraitWithId")
	isMutator := func(fn *ssa.Function) bool {
		if !strings.HasPrefix(fn.Name(), "mutate") || fn.Signature.Recv() == nil || fn.Pkg == nil || fn.Pkg.Pkg.Path() != PkgG {
			return false
		}
		n, _ := deref(fn.Signature.Recv().Type()).(*types.Named)
		return n != nil && n.Obj().Name() == "Genome"
	}
	// (a) writers
	allowed := func(fn *ssa.Function) string {
		pkg := ""
		if fn.Pkg != nil {
			pkg = fn.Pkg.Pkg.Path()
		}
		name := fn.Name()
		switch {
		case pkg == PkgN && sums.Ctor(fn).Why == "" && sums.Ctor(fn).Fresh:
			return "constructor"
		case isMutator(fn):
			return "mutator"
		case pkg == PkgG && (name == "mateMultipoint" || name == "mateMultipointAvg" || name == "mateSinglePoint"):
			return "crossover"
		case pkg == PkgG && strings.HasPrefix(name, "duplicate"):
			return "duplication"
		case pkg == PkgG && name == "newGenomeRand":
			return "random constructor"
		case pkg == PkgG && (strings.HasPrefix(name, "read") || name == "Read"):
			return "reader"
		}
		return ""
	}
	var foreign []string
	nw := 0
	pinned := PinnedFuncs()
	for _, fn := range p.SrcFuncs() {
		if p.expandedAway(fn, pinned) {
			continue // a helper of a refactoring whose calls were all expanded in place: judged inside its callers
		}
		for _, fld := range []*types.Var{traitN, traitL} {
			for _, st := range FieldStores(fn, fld) {
				nw++
				if allowed(fn) == "" {
					foreign = append(foreign, FuncName(fn)+" at "+p.Pos(st.Pos()))
				}
			}
		}
	}
	sort.Strings(foreign)
	r.Check(len(foreign) == 0 && nw > 0, "trait-ref.writers", "-", fmt.Sprintf("%d stores into NNode.Trait / Link.Trait, all in constructors, genome builders and mutators", nw),
		"the trait reference of a node or link is also written by "+strings.Join(foreign, "; ")+": a trait object that is not one of the genome's own traits can enter a genome there")

	// (b) mutators
	total := 0
	for _, fn := range p.SrcFuncs() {
		if !isMutator(fn) {
			continue
		}
		r.Fn(FuncName(fn))
		tm := NewTermer(fn)
		ownList := func(t *Term) bool {
			n := 0
			for _, a := range t.Alternatives() {
				if a.Op == "loop" {
					continue
				}
				if !(a.Op == "field" && a.Obj == traitsF && len(a.Args) == 1 && a.Args[0].Op == "recv") {
					return false
				}
				n++
			}
			return n > 0
		}
		var rooted func(t *Term, d int) bool
		rooted = func(t *Term, d int) bool {
			if t == nil || d > 12 {
				return false
			}
			switch t.Op {
			case "recv":
				return true
			case "phi", "iface":
				n := 0
				for _, a := range t.Alternatives() {
					if a.Op == "nil" || a.Op == "loop" {
						continue
					}
					if !rooted(a, d+1) {
						return false
					}
					n++
				}
				return n > 0
			case "field", "elem", "slice":
				return rooted(t.Args[0], d+1)
			case "un":
				return (t.Name == "&" || t.Name == "*") && rooted(t.Args[0], d+1)
			}
			return false
		}
		classify := func(t *Term) string {
			if t == nil {
				return ""
			}
			n := 0
			for _, a := range t.Alternatives() {
				switch {
				case a.Op == "nil":
					n++
				case a.Op == "loop":
				case a.Op == "elem" && len(a.Args) >= 1 && ownList(a.Args[0]):
					n++
				case isCallTo(a, traitWithId) && len(a.Args) == 2 && ownList(a.Args[1]):
					n++
				case a.Op == "field" && (a.Obj == traitN || a.Obj == traitL) && rooted(a.Args[0], 0):
					n++
				default:
					return a.String()
				}
			}
			if n == 0 {
				return t.String()
			}
			return ""
		}
		var bad []string
		sinks := 0
		Instrs(fn, func(_ *ssa.BasicBlock, _ int, in ssa.Instruction) {
			switch x := in.(type) {
			case *ssa.Call:
				typ, ts, why := c01CtorTraits(p, sums, tm, x)
				if typ == "" {
					return
				}
				if why != "" {
					sinks++
					bad = append(bad, why)
					return
				}
				for _, t := range ts {
					sinks++
					if w := classify(t); w != "" {
						bad = append(bad, fmt.Sprintf("the %s created at %s gets the trait %s", typ, p.Pos(x.Pos()), w))
					}
				}
			case *ssa.Store:
				if f := StoredField(x); f == traitN || f == traitL {
					sinks++
					if w := classify(tm.Of(x.Val)); w != "" {
						bad = append(bad, fmt.Sprintf("the store at %s sets a trait reference to %s", p.Pos(x.Pos()), w))
					}
				}
			}
		})
		total += sinks
		if sinks == 0 {
			continue
		}
		sort.Strings(bad)
		bad = uniq(bad)
		r.Check(len(bad) == 0, fn.Name()+".own-traits", p.Pos(fn.Pos()), fmt.Sprintf("%d trait origin(s): each nil, an element of the receiver's trait list or a trait already held by the receiver", sinks),
			fn.Name()+" can give a node or link of the genome a trait that is not one of the genome's own traits: "+strings.Join(bad, "; "))
	}
	r.Floor("trait origins in the mutators", total, 8)

	// (c) the random constructor
	rnd := p.Func(PkgG, "newGenomeRand")
	r.Fn(FuncName(rnd))
	tm := NewTermer(rnd)
	ownVals := map[ssa.Value]bool{}
	for _, st := range FieldStores(rnd, traitsF) {
		elems, _ := c01ListMembers(rnd, tm, []ssa.Value{st.Val})
		for _, e := range elems {
			for _, f := range c01Feeders(e) {
				ownVals[f] = true
			}
		}
	}
	var bad []string
	sinks := 0
	judge := func(v ssa.Value, what string) {
		sinks++
		w := phiWeb(v)
		for _, f := range c01Feeders(v) {
			if !ownVals[f] {
				bad = append(bad, what+" "+tm.Of(f).String())
			}
		}
		if len(w.Feeders) == 0 && !w.HasNil {
			bad = append(bad, what+" "+tm.Of(v).String())
		}
	}
	Instrs(rnd, func(_ *ssa.BasicBlock, _ int, in ssa.Instruction) {
		if st, ok := in.(*ssa.Store); ok {
			if f := StoredField(st); f == traitN || f == traitL {
				judge(st.Val, "the store at "+p.Pos(st.Pos())+" sets a trait reference to")
			}
		}
	})
	sort.Strings(bad)
	r.Check(len(bad) == 0 && len(ownVals) > 0, "newGenomeRand.own-traits", p.Pos(rnd.Pos()), fmt.Sprintf("%d trait reference(s) stored, each a trait that is put into the genome's trait list", sinks),
		"the random constructor gives a node a trait that is not in the trait list of the genome it builds: "+strings.Join(uniq(bad), "; "))
}

// c01NodeOnce — a node id enters the child once.
//
// In a walk step the child's copy of an endpoint node X of the chosen gene is created and inserted only when the child
// has no node with X's id yet. The absence must have been established on the very list the copy is inserted into:
// for every nodeInsert(L, NewNNodeCopy(chosen.Link.<end>, ..)) of the walk there is a comparison
// `L'[i].Id == chosen.Link.<end>.Id` whose list L' is the same value as L (the same SSA value, or two loads of one
// local variable with no assignment to it between them). A search that ran over an earlier state of the list (both
// ends looked up first, then both created) misses the node inserted in between: for a self-loop gene X->X whose node
// is not in the child yet, X is copied and inserted twice - two nodes with one id, the ends of the gene are different
// objects, NodeWithId answers with one of them only. That the comparison decides the creation is C04.1's endpoint rule.
func (r *Run) c01NodeOnce(s *mateShape) {
	p, tm, fn := r.P, s.tm, s.fn
	nnc := p.Func(PkgN, "NewNNodeCopy")
	ni := p.Func(PkgG, "nodeInsert")
	type scanT struct {
		list  ssa.Value
		other *Term
		at    ssa.Instruction
	}
	var scans []scanT
	Instrs(fn, func(b *ssa.BasicBlock, _ int, in ssa.Instruction) {
		bo, ok := in.(*ssa.BinOp)
		if !ok || (bo.Op != token.EQL && bo.Op != token.NEQ) || !s.walk.Blocks[b] {
			return
		}
		x, y := tm.Of(bo.X), tm.Of(bo.Y)
		for _, pr := range [][2]*Term{{x, y}, {y, x}} {
			a := pr[0]
			if a.Op == "field" && a.Name == "Id" && a.Args[0].Op == "elem" && a.Args[0].Args[0].V != nil {
				scans = append(scans, scanT{a.Args[0].Args[0].V, pr[1], in})
			}
		}
	})
	// is there an assignment to the cell on a way from instruction a to instruction b inside one walk step?
	reach := func(from, to *ssa.BasicBlock) map[*ssa.BasicBlock]bool {
		// blocks on paths from `from` to `to` that stay inside the walk and do not pass its header again
		fw := map[*ssa.BasicBlock]bool{}
		var f func(b *ssa.BasicBlock)
		f = func(b *ssa.BasicBlock) {
			if fw[b] || !s.walk.Blocks[b] {
				return
			}
			fw[b] = true
			for _, sx := range b.Succs {
				if sx != s.walk.Header {
					f(sx)
				}
			}
		}
		f(from)
		bw := map[*ssa.BasicBlock]bool{}
		var g func(b *ssa.BasicBlock)
		g = func(b *ssa.BasicBlock) {
			if bw[b] || !s.walk.Blocks[b] {
				return
			}
			bw[b] = true
			if b == s.walk.Header {
				return
			}
			for _, pr := range b.Preds {
				g(pr)
			}
		}
		g(to)
		out := map[*ssa.BasicBlock]bool{}
		for b := range fw {
			if bw[b] {
				out[b] = true
			}
		}
		return out
	}
	sameList := func(scanned, inserted ssa.Value) bool {
		a, b := stripPtr(scanned), stripPtr(inserted)
		if a == b {
			return true
		}
		la, ok1 := a.(*ssa.UnOp)
		lb, ok2 := b.(*ssa.UnOp)
		if !ok1 || !ok2 || la.Op != token.MUL || lb.Op != token.MUL || la.X != lb.X {
			return false
		}
		cell, ok := la.X.(*ssa.Alloc)
		if !ok || cell.Referrers() == nil {
			return false
		}
		between := reach(la.Block(), lb.Block())
		for _, ref := range *cell.Referrers() {
			switch x := ref.(type) {
			case *ssa.Store:
				if x.Addr != ssa.Value(cell) || !between[x.Block()] {
					continue
				}
				if x.Block() == lb.Block() && instrIndex(x) > instrIndex(lb) && x.Block() != la.Block() {
					continue // after the second load
				}
				if x.Block() == la.Block() && instrIndex(x) < instrIndex(la) && x.Block() != lb.Block() {
					continue // before the first load
				}
				if x.Block() == la.Block() && x.Block() == lb.Block() && !(instrIndex(la) < instrIndex(x) && instrIndex(x) < instrIndex(lb)) {
					continue
				}
				return false
			case *ssa.UnOp:
			default:
				if ci, isCall := ref.(ssa.CallInstruction); isCall && between[ci.Block()] {
					return false // the address is handed to a call in between
				}
			}
		}
		return true
	}
	n := 0
	for _, c := range CallsTo(fn, nnc) {
		if !s.walk.Blocks[c.Block()] {
			continue
		}
		src := tm.Of(c.Common().Args[0])
		end := ""
		for _, e := range []string{"InNode", "OutNode"} {
			if fieldChainOnWeb(src, s.chosen, "Link", e) {
				end = e
			}
		}
		if end == "" {
			continue // not a copy of an endpoint of the chosen gene: C04.1 endpoint rule speaks about it
		}
		for _, ic := range CallsTo(fn, ni) {
			if ic.Common().Args[1] != c.Value() {
				continue
			}
			n++
			l := ic.Common().Args[0]
			ok := false
			stale := ""
			for _, sc := range scans {
				if !fieldChainOnWeb(sc.other, s.chosen, "Link", end, "Id") {
					continue
				}
				if sameList(sc.list, l) {
					ok = true
				} else {
					stale = p.Pos(sc.at.Pos())
				}
			}
			why := "no search of the child's node list for the id of the chosen gene's " + end + " was found"
			if stale != "" {
				why = "the search for the id of the chosen gene's " + end + " (" + stale + ") ran over an earlier state of the node list than the one the copy is inserted into: a node inserted in between (the other end of a self-loop gene) is not seen and the same node is copied and inserted twice"
			}
			r.Check(ok, s.name+".node-once."+end, p.Pos(ic.Pos()), "the copy of the "+end+" is inserted into the list that was searched for its id", s.name+": "+why)
		}
	}
	if n == 0 {
		r.Bad(s.name+".node-once", p.Pos(fn.Pos()), "no insertion of a copied endpoint node was found in the gene walk")
	}
}

// c01IndexAnswer decides what Genome.NodeWithId ("lookup") and Genome.haveNode ("has") answer, result by result.
// Every returned value is taken with the branch outcomes known where it is returned (for a value joined in a phi:
// edge by edge). What those outcomes say about the presence of the id in the index - the comma-ok flag of the map
// access tested, or the value looked up compared with nil - gives three situations: present, absent, not known.
//
//	lookup: where the id is present or nothing is known the result is the value the index holds for the id
//	        (returning nil there means "looking a node up by id" does not return it); where it is absent any result.
//	has:    the result is the comma-ok flag itself or `value != nil`; a constant true only where present, a
//	        constant false only where absent.
//
// Returns "" when the function answers from the index in this sense.
func c01IndexAnswer(p *Prog, fn *ssa.Function, kind string) string {
	tm := NewTermer(fn)
	isIdx := func(t *Term) bool {
		return t != nil && len(t.Args) == 2 && t.Args[0].String() == "recv.nodeByIdMap" && isParamIdx(t.Args[1], 1)
	}
	isVal := func(t *Term) bool { return t.Op == "lookup" && isIdx(t) }
	isHas := func(t *Term) bool { return t.Op == "call" && t.Name == "has" && isIdx(t) }
	state := func(gs []Guard) int {
		st := 0
		for _, g := range gs {
			c, out := c04StripNot(g.Cond)
			outcome := g.True != out
			if isHas(tm.Of(c)) {
				if outcome {
					st = 1
				} else {
					st = -1
				}
			}
			switch GuardNilness(g, func(v ssa.Value) bool { return isVal(tm.Of(v)) }) {
			case 1:
				st = -1
			case -1:
				st = 1
			}
		}
		return st
	}
	type resT struct {
		v  ssa.Value
		gs []Guard
	}
	var results []resT
	var expand func(v ssa.Value, gs []Guard, depth int)
	expand = func(v ssa.Value, gs []Guard, depth int) {
		if ph, ok := v.(*ssa.Phi); ok && depth < 6 {
			for i, e := range ph.Edges {
				expand(e, condsAt(ph.Block().Preds[i], ph.Block()), depth+1)
			}
			return
		}
		results = append(results, resT{v, gs})
	}
	for _, b := range fn.Blocks {
		if ret, ok := b.Instrs[len(b.Instrs)-1].(*ssa.Return); ok && len(ret.Results) > 0 {
			expand(ret.Results[0], Guards(b), 0)
		}
	}
	answers := 0
	for _, x := range results {
		t := tm.Of(x.v)
		st := state(x.gs)
		switch kind {
		case "lookup":
			if isVal(t) {
				answers++
				continue
			}
			if st >= 0 {
				return "returns " + t.String() + " where the id may be present in the index"
			}
		case "has":
			base, neg := c04StripNot(x.v)
			bt := tm.Of(base)
			switch {
			case isHas(bt) && !neg:
				answers++
			case bt.Op == "bin" && (bt.Name == "!=" || bt.Name == "==") && ((isVal(bt.Args[0]) && bt.Args[1].Op == "nil") || (isVal(bt.Args[1]) && bt.Args[0].Op == "nil")):
				if (bt.Name == "!=") == neg {
					return "answers " + t.String()
				}
				answers++
			case IsConstBool(x.v, true):
				if st != 1 {
					return "answers true where the id is not known to be present"
				}
				answers++
			case IsConstBool(x.v, false):
				if st != -1 {
					return "answers false where the id is not known to be absent"
				}
			default:
				return "answers " + t.String()
			}
		}
	}
	if answers == 0 {
		return "never answers with what the index holds for the id"
	}
	return ""
}

// c01Expressible — C01.9: every well-formed genome can be expressed. Genome.Genesis may return an error only for a
// genome without connection genes or without output nodes - both are excluded for the genomes C01 quantifies over
// (at least one connection gene; output nodes of the ancestors are retained). Any other failing path (for instance
// one that depends on which genes are enabled) makes Organism.Phenotype and add-link fail on a well-formed genome.
// The fact is the one C11.7 decides: the rule function of C11 is called, not duplicated.
func (r *Run) c01Expressible() {
	p := r.P
	gen := p.Func(PkgG, "Genome.Genesis")
	r.Fn(FuncName(gen))
	nets := CallsTo(gen, p.Func(PkgN, "NewNetwork"))
	if len(nets) != 1 {
		r.Undecided("Genesis.failure", p.Pos(gen.Pos()), fmt.Sprintf("%d NewNetwork calls; the output list cannot be identified", len(nets)))
		return
	}
	r.c11GenesisFailures(gen, NewTermer(gen), nets[0].Common().Args[1])
}

var _ = types.Typ

// ---------------------------------------------------------------------------
// Fifth round: path search over functions that keep related locals in one struct-valued local.
//
// FindPath decides `no feasible path` claims by following, per path, what is known about SSA values: a variable
// go/ssa promotes to a register is one value (or a phi), so `if node != nil` tested twice is decided the second
// time by the outcome of the first. A by-value local struct (`var split nodeSplit` ... `split.node != nil`) is
// not promoted: every read of a field is a new load, and two tests of the same field look unrelated. For a local
// whose address is private (structLocals: nothing but field loads/stores and whole-struct copies) a field is an
// ordinary variable, and along ONE path its content is the value stored last. c01FindPath is FindPath with that
// fact added: per path it keeps, for every such field, the SSA value it holds (the value stored, the zero constant
// after the local came into being, the field of the struct copied in, or - when the path began later - the first
// load of it, which then stands for the content), identifies every load with the value it reads, and lets what a
// branch outcome says about one of them hold for the other. Nothing else changes: branches that are not decided
// are followed both ways, so the search still over-approximates the feasible paths; a value or field the path
// redefines (its block is entered again) is forgotten. Without struct-valued locals it IS FindPath.
type c01Cells struct {
	cells map[localCell]ssa.Value         // field -> the value it holds on this path
	alias map[ssa.Value]ssa.Value         // load of a field -> the value it read
	snaps map[ssa.Value]map[int]ssa.Value // load of a whole local -> what its fields held then
}

func (c *c01Cells) clone() *c01Cells {
	n := &c01Cells{map[localCell]ssa.Value{}, map[ssa.Value]ssa.Value{}, map[ssa.Value]map[int]ssa.Value{}}
	for k, v := range c.cells {
		n.cells[k] = v
	}
	for k, v := range c.alias {
		n.alias[k] = v
	}
	for k, v := range c.snaps {
		n.snaps[k] = v // never modified after creation
	}
	return n
}

func (c *c01Cells) key() string {
	var parts []string
	for k, v := range c.cells {
		parts = append(parts, fmt.Sprintf("%s.%d=%s", k.a.Name(), k.f, v.Name()))
	}
	for k, v := range c.alias {
		parts = append(parts, k.Name()+">"+v.Name())
	}
	for k, m := range c.snaps {
		for f, v := range m {
			parts = append(parts, fmt.Sprintf("%s#%d=%s", k.Name(), f, v.Name()))
		}
	}
	sort.Strings(parts)
	return strings.Join(parts, ",")
}

// forget: v is computed anew (its block is entered again); whatever stood for its previous instance is unknown now.
func (c *c01Cells) forget(v ssa.Value) {
	delete(c.alias, v)
	for l, x := range c.alias {
		if x == v {
			delete(c.alias, l)
		}
	}
	for k, x := range c.cells {
		if x == v {
			delete(c.cells, k)
		}
	}
	delete(c.snaps, v)
	for k, m := range c.snaps {
		for _, x := range m {
			if x == v {
				n := map[int]ssa.Value{}
				for f2, x2 := range m {
					if x2 != v {
						n[f2] = x2
					}
				}
				c.snaps[k] = n
				break
			}
		}
	}
}

func (c *c01Cells) rep(v ssa.Value) ssa.Value {
	if x, ok := c.alias[v]; ok {
		return x
	}
	return v
}

// sync: a load and the value it read are the same value; what the path knows of one it knows of the other.
func (c *c01Cells) sync(env pathEnv) {
	for i := 0; i < 2; i++ {
		for l, x := range c.alias {
			if l == x {
				continue
			}
			el, ex := env[l], env.eval(x)
			switch {
			case el.known && !ex.known:
				if _, isC := x.(*ssa.Const); !isC {
					env[x] = el
				}
			case !el.known && ex.known:
				env[l] = ex
			}
		}
	}
}

// exec: the effect of one instruction on the fields of the tracked locals.
func (c *c01Cells) exec(locals map[*ssa.Alloc]bool, env pathEnv, in ssa.Instruction) {
	fields := func(a *ssa.Alloc) *types.Struct {
		st, _ := deref(a.Type()).Underlying().(*types.Struct)
		return st
	}
	zero := func(a *ssa.Alloc) {
		st := fields(a)
		for f := 0; st != nil && f < st.NumFields(); f++ {
			if z := zeroScalarConst(st.Field(f).Type()); z != nil {
				c.cells[localCell{a, f}] = z
			} else {
				delete(c.cells, localCell{a, f})
			}
		}
	}
	switch x := in.(type) {
	case *ssa.Alloc:
		if locals[x] {
			zero(x)
		}
	case *ssa.Store:
		if cell, ok := cellOfAddr(locals, x.Addr); ok {
			c.cells[cell] = c.rep(x.Val)
			return
		}
		a, ok := x.Addr.(*ssa.Alloc)
		if !ok || !locals[a] {
			return
		}
		st := fields(a)
		if k, isK := x.Val.(*ssa.Const); isK && k.Value == nil {
			zero(a)
			return
		}
		snap, have := c.snaps[x.Val]
		for f := 0; st != nil && f < st.NumFields(); f++ {
			if v, ok := snap[f]; have && ok {
				c.cells[localCell{a, f}] = v
			} else {
				delete(c.cells, localCell{a, f})
			}
		}
	case *ssa.UnOp:
		if x.Op != token.MUL {
			return
		}
		if cell, ok := cellOfLoad(locals, x); ok {
			if v, known := c.cells[cell]; known {
				c.alias[x] = v
				if ev := env.eval(v); ev.known {
					env[x] = ev
				}
			} else {
				c.cells[cell] = x // the first read on the path stands for the content
			}
			return
		}
		if a, ok := x.X.(*ssa.Alloc); ok && locals[a] {
			snap := map[int]ssa.Value{}
			st := fields(a)
			for f := 0; st != nil && f < st.NumFields(); f++ {
				if v, ok := c.cells[localCell{a, f}]; ok {
					snap[f] = v
				}
			}
			c.snaps[x] = snap
		}
	}
}

func c01FindPath(p *Prog, q PathQuery) []string {
	locals := structLocals(q.Fn)
	// What holds where the search begins. A search that starts in the middle of the function (after an instruction,
	// or by taking an edge) starts on a path that came through every branch edge dominating that point; the outcome
	// of those branches is a fact about the CURRENT instance of their condition values (an instance is replaced only
	// when its defining block runs again, and then walkBlock forgets it like every other value). FindPath starts with
	// nothing known: a flag that is a phi of constants is rediscovered on the way (the break edge binds it), a flag
	// that is a computed value (`found := idx >= 0`, tested before the start and again after it) is not. The start
	// guards are assumed before the walk; nothing else changes.
	var startGuards []Guard
	if !q.FlagBlind {
		switch {
		case q.StartAfter != nil:
			startGuards = Guards(q.StartAfter.Block())
		case q.StartEdge[0] != nil:
			startGuards = Guards(q.StartEdge[0])
		}
	}
	if q.FlagBlind || (len(locals) == 0 && len(startGuards) == 0) {
		return FindPath(p, q)
	}
	seen := map[string]bool{}
	var found *stateNode
	var walkBlock func(b, from *ssa.BasicBlock, startIdx int, env pathEnv, cs *c01Cells, par *stateNode) bool
	walkBlock = func(b, from *ssa.BasicBlock, startIdx int, env pathEnv, cs *c01Cells, par *stateNode) bool {
		node := &stateNode{b: b, par: par}
		if startIdx == 0 {
			newVals := map[ssa.Value]envVal{}
			for _, in := range b.Instrs {
				phi, ok := in.(*ssa.Phi)
				if !ok {
					break
				}
				if from != nil {
					for i, pr := range b.Preds {
						if pr == from {
							newVals[phi] = env.eval(phi.Edges[i])
							break
						}
					}
				}
			}
			for _, in := range b.Instrs {
				if v, ok := in.(ssa.Value); ok {
					delete(env, v)
					cs.forget(v)
				}
			}
			for k, v := range newVals {
				if v.known {
					env[k] = v
				}
			}
			k := fmt.Sprintf("%d|%s|%s", b.Index, env.key(), cs.key())
			if seen[k] {
				return false
			}
			seen[k] = true
			if q.Explored != nil {
				*q.Explored++
			}
		}
		for i := startIdx; i < len(b.Instrs); i++ {
			in := b.Instrs[i]
			if q.Target != nil && q.Target(in) {
				node.hit = in
				found = node
				return true
			}
			if q.Avoid != nil && q.Avoid(in) {
				return false
			}
			cs.exec(locals, env, in)
		}
		last := b.Instrs[len(b.Instrs)-1]
		type nxt struct {
			s       *ssa.BasicBlock
			assume  bool
			outcome bool
		}
		var nexts []nxt
		if t, ok := last.(*ssa.If); ok {
			cs.sync(env)
			dec := env.eval(t.Cond)
			if dec.known && dec.c != nil && dec.c.Kind() == constant.Bool {
				if constant.BoolVal(dec.c) {
					nexts = append(nexts, nxt{b.Succs[0], true, true})
				} else {
					nexts = append(nexts, nxt{b.Succs[1], true, false})
				}
			} else {
				nexts = append(nexts, nxt{b.Succs[0], true, true}, nxt{b.Succs[1], true, false})
			}
		} else {
			for _, s := range b.Succs {
				nexts = append(nexts, nxt{s, false, false})
			}
		}
		for _, n := range nexts {
			if q.AvoidEdge != nil && q.AvoidEdge(b, n.s) {
				continue
			}
			if q.TargetEdge != nil && q.TargetEdge(b, n.s) {
				found = &stateNode{b: n.s, par: node}
				return true
			}
			e2, c2 := env.clone(), cs.clone()
			if n.assume {
				e2.assume(last.(*ssa.If).Cond, n.outcome)
				c2.sync(e2)
			}
			if walkBlock(n.s, b, 0, e2, c2, node) {
				return true
			}
		}
		return false
	}
	env := pathEnv{}
	for _, v := range q.NonNil {
		env[v] = envVal{known: true, nonNil: true}
	}
	for _, v := range q.IsNil {
		env[v] = envVal{known: true, isNil: true}
	}
	for i := len(startGuards) - 1; i >= 0; i-- { // outermost first: a nearer branch speaks last
		env.assume(startGuards[i].Cond, startGuards[i].True)
	}
	cs := (&c01Cells{}).clone()
	switch {
	case q.StartAfter != nil:
		walkBlock(q.StartAfter.Block(), nil, instrIndex(q.StartAfter)+1, env, cs, nil)
	case q.StartEdge[0] != nil:
		from, to := q.StartEdge[0], q.StartEdge[1]
		if iff, ok := from.Instrs[len(from.Instrs)-1].(*ssa.If); ok && from.Succs[0] != from.Succs[1] {
			env.assume(iff.Cond, from.Succs[0] == to)
		}
		walkBlock(to, from, 0, env, cs, &stateNode{b: from})
	default:
		walkBlock(q.Fn.Blocks[0], nil, 0, env, cs, nil)
	}
	if found == nil {
		return nil
	}
	var out []string
	for n := found; n != nil; n = n.par {
		out = append([]string{describeBlock(p, n.b, n.hit)}, out...)
	}
	return out
}

// ---- key functions of a shared ordered-insertion routine (C01.3, sibling agreement) ----

// fieldProjection: fn is a function of exactly one parameter, without free variables, whose whole body is
// `return p.f1.f2...fk` (k >= 1): one block, nothing but the field selections / loads of that chain and the return
// of the value loaded last. Such a function has no effect and its result IS that field of its argument, so a call
// of it with argument a stands for the term a.f1...fk. Anything else (a computation on the field, a test, a call, a
// captured variable, a second result) is not a projection and the call stays a call.
func fieldProjection(fn *ssa.Function) (path []*types.Var, ok bool) {
	if fn == nil || len(fn.Blocks) != 1 || len(fn.FreeVars) != 0 || len(fn.Params) != 1 || fn.Signature.Results().Len() != 1 {
		return nil, false
	}
	var cur ssa.Value = fn.Params[0]
	for _, in := range fn.Blocks[0].Instrs {
		switch x := in.(type) {
		case *ssa.DebugRef:
		case *ssa.FieldAddr:
			if x.X != cur {
				return nil, false
			}
			path = append(path, fieldOf(x.X.Type(), x.Field))
			cur = x
		case *ssa.Field:
			if x.X != cur {
				return nil, false
			}
			path = append(path, fieldOf(x.X.Type(), x.Field))
			cur = x
		case *ssa.UnOp:
			if _, isFA := x.X.(*ssa.FieldAddr); x.Op != token.MUL || x.X != cur || !isFA {
				return nil, false
			}
			cur = x
		case *ssa.Return:
			if _, isFA := cur.(*ssa.FieldAddr); isFA || len(path) == 0 || len(x.Results) != 1 || x.Results[0] != cur {
				return nil, false
			}
			return path, true
		default:
			return nil, false
		}
	}
	return nil, false
}

// projectionCall: c is a static call of a field projection; the fields selected from its only argument.
func projectionCall(c *ssa.CallCommon) ([]*types.Var, bool) {
	if c == nil || c.IsInvoke() || len(c.Args) != 1 {
		return nil, false
	}
	return fieldProjection(c.StaticCallee())
}

// resolveProjections rewrites every call of a field projection inside t into the field term it stands for
// (`key(x)` with `key = func(g *Gene) int64 { return g.InnovationNum }` becomes `x.InnovationNum`). The routine
// that two helpers share and parameterise by such a key function then reads, per helper, like the routine written
// out for that key.
func resolveProjections(t *Term) *Term {
	if t == nil {
		return nil
	}
	if t.Op == "call" && len(t.Args) == 1 {
		if c, isCall := t.V.(*ssa.Call); isCall {
			if path, ok := projectionCall(&c.Call); ok {
				cur := resolveProjections(t.Args[0])
				for _, f := range path {
					cur = &Term{Op: "field", Name: f.Name(), Obj: f, Args: []*Term{cur}}
				}
				return cur
			}
		}
	}
	if len(t.Args) == 0 {
		return t
	}
	cp := *t
	cp.Args = make([]*Term, len(t.Args))
	for i, a := range t.Args {
		cp.Args[i] = resolveProjections(a)
	}
	return &cp
}

// ---- the decision a descending split-index scan takes (C01.3) ----

// c01SplitDecision: the ordered-insertion helpers find the split index by walking a cursor i down the (ascending)
// list and comparing the new element's key k with the key of list[i]. Whatever the spelling (one routine per
// helper, or one routine shared by both and parameterised by a key function - where the sibling comparison says
// nothing, because both helpers are the same instructions), each way out of one step of that walk has to be
// justified by what the comparisons on that path established about k and key(list[i]):
//
//	going on to i-1              only if k <= key(list[i])   (everything from i upwards stays above the new element)
//	leaving with split = i+1     only if k >= key(list[i])   (the new element goes right behind list[i])
//	leaving with split = i       only if k == key(list[i])   (list[i-1] has not been looked at: only equality places it)
//	leaving with split = i+c, c other than 0 and 1: never
//
// Leaving because the cursor passed the beginning of the list is not a decision about keys and is not judged here
// (scan-bound is the rule for it). The facts are read per acyclic path of one iteration (so `a || b` conditions and
// switch spellings are the paths they compile to), as the comparison that HOLDS on the path (CmpFact), with the
// operands recognised as field chains on the new element resp. on list[cursor] (calls of pure key projections
// resolved). The rule makes no claim when the helper has no descending cursor, when the walk compares anything but
// list[cursor] (a cursor that runs one ahead, a binary search), or when the split index is not the cursor plus a
// constant at the loop's exit: those shapes are left to the other obligations of C01.3.
func (r *Run) c01SplitDecision() {
	p := r.P
	const lt, eq, gt = 1, 2, 4
	relOf := map[token.Token]int{token.EQL: eq, token.NEQ: lt | gt, token.LSS: lt, token.LEQ: lt | eq, token.GTR: gt, token.GEQ: gt | eq}
	relName := func(m int) string {
		switch m {
		case lt:
			return "k < key(list[i])"
		case eq:
			return "k == key(list[i])"
		case gt:
			return "k > key(list[i])"
		case lt | eq:
			return "k <= key(list[i])"
		case gt | eq:
			return "k >= key(list[i])"
		case lt | gt:
			return "k != key(list[i])"
		case 0:
			return "a contradiction"
		}
		return "nothing"
	}
	for _, name := range []string{"geneInsert", "nodeInsert"} {
		fn := p.Func(PkgG, name)
		tm := NewTermer(fn)
		judged, claims := 0, 0
		ok, why := true, ""
		var where []string
		// the split values: bounds of the slices taken of the list parameter
		var splits []ssa.Value
		Instrs(fn, func(_ *ssa.BasicBlock, _ int, in ssa.Instruction) {
			if sl, isSl := in.(*ssa.Slice); isSl && isParamIdx(tm.Of(sl.X), 0) {
				for _, b := range []ssa.Value{sl.Low, sl.High} {
					if b == nil {
						continue
					}
					if _, isK := b.(*ssa.Const); !isK {
						splits = append(splits, b)
					}
				}
			}
		})
		for _, l := range Loops(fn) {
			for _, cur := range HeaderPhis(l) {
				desc := false
				for i, e := range cur.Edges {
					if !l.Blocks[l.Header.Preds[i]] {
						continue
					}
					if off, isC := c01CursorOffset(e, cur); isC && off == -1 {
						desc = true
					}
				}
				if !desc {
					continue
				}
				// side of a comparison operand: 1 key of the new element, 2 the same key of list[cursor], 3 a key of another element
				side := func(v ssa.Value) (int, string) {
					base, path := resolveProjections(tm.Of(v)).FieldPath()
					if len(path) == 0 || base == nil {
						return 0, ""
					}
					k := strings.Join(path, ".")
					if isParamIdx(base, 1) {
						return 1, k
					}
					if base.Op == "elem" && len(base.Args) == 2 && isParamIdx(base.Args[0], 0) {
						if base.Args[1].V == ssa.Value(cur) {
							return 2, k
						}
						return 3, k
					}
					return 0, ""
				}
				// what a branch outcome says about (k, key(list[cursor])): mask of the orderings it leaves possible;
				// other reports a key comparison with a different element
				fact := func(g Guard) (mask int, isKey, other bool) {
					x, y, op, okF := CmpFact(g.Cond, g.True)
					if !okF {
						return 0, false, false
					}
					sx, kx := side(x)
					sy, ky := side(y)
					switch {
					case sx == 1 && sy == 2 && kx == ky:
						return relOf[op], true, false
					case sx == 2 && sy == 1 && kx == ky:
						m := relOf[op]
						return m&eq | (m&lt)<<2 | (m&gt)>>2, true, false
					case (sx == 1 && sy == 3) || (sx == 3 && sy == 1):
						return 0, false, true
					}
					return 0, false, false
				}
				paths, complete := EnumIterPaths(fn, l, 400)
				r.PathsExplored += len(paths)
				nKey, foreign := 0, false
				for _, ip := range paths {
					for _, g := range ip.Conds {
						if !l.Blocks[g.At] {
							continue
						}
						_, isKey, other := fact(g)
						if isKey {
							nKey++
						}
						foreign = foreign || other
					}
				}
				if nKey == 0 || foreign || !complete {
					continue // not a walk that compares the new key with list[cursor]: no claim
				}
				judged++
				for _, ip := range paths {
					rel := lt | eq | gt
					exhausted := false
					for _, g := range ip.Conds {
						if !l.Blocks[g.At] {
							continue
						}
						if m, isKey, _ := fact(g); isKey {
							rel &= m
						}
						if x, y, op, okF := CmpFact(g.Cond, g.True); okF && x == ssa.Value(cur) {
							if k, isK := y.(*ssa.Const); isK && k.Value != nil && k.Value.Kind() == constant.Int {
								c := k.Int64()
								if (op == token.LSS && c <= 0) || (op == token.LEQ && c < 0) || (op == token.EQL && c < 0) {
									exhausted = true
								}
							}
						}
					}
					if exhausted || rel == 0 {
						continue // the cursor passed the beginning of the list / the path is contradictory
					}
					end := ip.End
					if ip.ExitTo != nil {
						end = "exit" // an exit block that returns at once is folded into the path as "return"
					}
					switch end {
					case "back":
						nv := ip.NextValue(cur)
						if off, isC := c01CursorOffset(nv, cur); !isC || off != -1 {
							continue
						}
						claims++
						if rel&gt != 0 {
							ok = false
							why = "the walk goes on below position i although only " + relName(rel) + " is established (it must be k <= key(list[i])): the new element ends up below an element with a smaller key"
							where = ip.Describe(p)
						}
					case "exit":
						// the blocks a `break` leaves the loop through are not part of the natural loop: follow the
						// straight line behind the exit edge to where the split index is merged
						ext := &IterPath{Blocks: append([]*ssa.BasicBlock{}, ip.Blocks...), End: "exit"}
						for b, n := ip.ExitTo, 0; len(b.Succs) == 1 && !l.Blocks[b.Succs[0]] && n < 8; n++ {
							b = b.Succs[0]
							ext.Blocks = append(ext.Blocks, b)
						}
						for _, s := range splits {
							off, isC := c01CursorOffset(ext.Resolve(s), cur)
							if !isC {
								continue
							}
							claims++
							switch {
							case off == 1 && rel&lt != 0:
								ok = false
								why = "the split index becomes i+1 although only " + relName(rel) + " is established (it must be k >= key(list[i])): the new element is put behind an element with a greater key"
								where = ip.Describe(p)
							case off == 0 && rel != eq:
								ok = false
								why = "the split index becomes i although only " + relName(rel) + " is established (it must be k == key(list[i]); list[i-1] was not examined)"
								where = ip.Describe(p)
							case off != 0 && off != 1:
								ok = false
								why = fmt.Sprintf("the split index becomes i%+d, a position the comparison with list[i] says nothing about", off)
								where = ip.Describe(p)
							}
						}
					}
				}
			}
		}
		if judged == 0 || claims == 0 {
			r.OK(name+".split-decision", p.Pos(fn.Pos()), "no descending walk that compares the new key with list[cursor] in this helper (no claim)")
			continue
		}
		r.Check(ok, name+".split-decision", p.Pos(fn.Pos()), fmt.Sprintf("every way out of a step of the split-index walk is justified by the key comparison on its path (%d decisions)", claims),
			name+": "+why+"; the list is no longer ascending", where...)
	}
}

// c01CursorOffset: v is cur + c for an integer constant c (cur itself: 0), through chains of additions and
// subtractions of constants.
func c01CursorOffset(v ssa.Value, cur *ssa.Phi) (int64, bool) {
	var off int64
	for depth := 0; depth < 8 && v != nil; depth++ {
		if v == ssa.Value(cur) {
			return off, true
		}
		b, isB := v.(*ssa.BinOp)
		if !isB {
			return 0, false
		}
		kOf := func(x ssa.Value) (int64, bool) {
			k, isK := x.(*ssa.Const)
			if !isK || k.Value == nil || k.Value.Kind() != constant.Int {
				return 0, false
			}
			return k.Int64(), true
		}
		switch b.Op {
		case token.ADD:
			if k, isK := kOf(b.Y); isK {
				off += k
				v = b.X
			} else if k, isK := kOf(b.X); isK {
				off += k
				v = b.Y
			} else {
				return 0, false
			}
		case token.SUB:
			k, isK := kOf(b.Y)
			if !isK {
				return 0, false
			}
			off -= k
			v = b.X
		default:
			return 0, false
		}
	}
	return 0, false
}
