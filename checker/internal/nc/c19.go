package nc

import (
	"fmt"
	"go/constant"
	"go/token"
	"go/types"
	"strconv"
	"strings"

	"golang.org/x/tools/go/ssa"
)

func init() { register("C19", C19) }

type floatsSpec struct {
	method string
	callee string // external function rendered by calleeName
	level  string // quantile level, "" otherwise
	guard  bool   // must return NaN on the empty series
}

var floatsTable = []floatsSpec{
	{"Min", "floats.Min", "", true},
	{"Max", "floats.Max", "", true},
	{"Sum", "floats.Sum", "", false},
	{"Mean", "stat.Mean", "", true},
	{"MeanVariance", "stat.MeanVariance", "", true},
	{"Median", "stat.Quantile", "0.5", true},
	{"Q25", "stat.Quantile", "0.25", true},
	{"Q75", "stat.Quantile", "0.75", true},
	{"Variance", "stat.Variance", "", true},
	{"StdDev", "stat.StdDev", "", true},
}

// lenGuard: g establishes len(of)==0 (empty=true) or len(of)!=0 (empty=false), in whatever spelling the
// test is written (`len(x) == 0`, `len(x) < 1`, `0 == len(x)`, `!(len(x) > 0)`, `len(x) <= 0` ...): the
// branch outcome is read as a comparison that holds (CmpFact) and decided with len >= 0 (c19LenFact).
// A test that only bounds the length (`len(x) > 1` taken false, `len(x) <= 1`) establishes neither.
func lenGuard(tm *Termer, g Guard, of string) (empty bool, ok bool) {
	e, ne := c19LenFact(tm, g, of)
	if e == ne {
		return false, false
	}
	return e, true
}

// sortedOrigin decides whether the slice value v is sorted when used at `use`:
// a sort call on the same value dominates the use, or v is the result of a
// repository function that returns a slice it sorted.
func (r *Run) sortedOrigin(fn *ssa.Function, v ssa.Value, use ssa.Instruction, depth int) (bool, string) {
	v = stripPtr(v)
	if ct, ok := v.(*ssa.ChangeType); ok {
		v = ct.X
	}
	isSortCall := func(in ssa.Instruction, on ssa.Value) bool {
		c, ok := in.(ssa.CallInstruction)
		if !ok {
			return false
		}
		n, _ := calleeName(c.Common())
		switch n {
		case "sort.Float64s", "slices.Sort", "sort.Sort", "sort.Stable":
			for _, a := range c.Common().Args {
				a = stripPtr(a)
				if ct, ok := a.(*ssa.ChangeType); ok {
					a = ct.X
				}
				if a == on {
					return true
				}
			}
		}
		return false
	}
	// (a) sorted in this function before the use
	found := false
	Instrs(fn, func(b *ssa.BasicBlock, i int, in ssa.Instruction) {
		if isSortCall(in, v) {
			ub := use.Block()
			if (b == ub && i < instrIndex(use)) || (b != ub && b.Dominates(ub)) {
				found = true
			}
		}
	})
	if found {
		return true, "a sort call on the same slice dominates the use"
	}
	// (b) result of a repository function that sorts what it returns
	if c, ok := v.(*ssa.Call); ok && depth < 3 {
		callee := c.Call.StaticCallee()
		if callee != nil && callee.Blocks != nil && InRepo(callee) {
			all := true
			nret := 0
			for _, b := range callee.Blocks {
				if ret, ok := b.Instrs[len(b.Instrs)-1].(*ssa.Return); ok {
					nret++
					if s, _ := r.sortedOrigin(callee, ret.Results[0], ret, depth+1); !s {
						all = false
					}
				}
			}
			if all && nret > 0 {
				return true, "returned by " + callee.Name() + ", which sorts the slice it returns"
			}
		}
	}
	return false, "no sort call on this slice dominates the use"
}

// C19 — result statistics.
func C19(p *Prog, r *Run) {
	r.Explanation = "Decided: (1) every Floats method except Sum returns math.NaN() (both elements for MeanVariance) on the path where len(x)==0 and that test dominates every gonum call of the method (a method built only from other accessors of the type, which are NaN there themselves, needs no test of its own); (2) gonum preconditions, keyed by the library function: stat.Quantile gets a constant level in [0,1], the Empirical kind, nil weights and a slice on which a sort call dominates the use (a sorted copy), floats.Min/Max never see an empty slice; (3) on every path for a non-empty series each method returns the quantity of its definition (Mean→stat.Mean, …, Median/Q25/Q75→Quantile 0.5/0.25/0.75), applied to the series itself without weights, written either as the canonical gonum call or as an expression that gonum v0.14.0 defines to be the same value (stat.Variance = second result of stat.MeanVariance, stat.StdDev = second result of stat.MeanStdDev = math.Sqrt of the variance, stat.Mean = first result of MeanVariance/MeanStdDev = floats.Sum/float64(len), floats.Min = x[floats.MinIdx(x)], another accessor of the type for its own quantity; table with reasons in robust_c19.go), the population variants (divide by n) and hand-written loops are not accepted; (4) the experiment/trial aggregates are built from the recorded generations as their definitions say (success rate = solved/len, solved = any generation solved, epochs per trial = len(Generations), diversity, best organism chosen on a fresh slice; the solved count is the loop counter on every return, never a remembered value); (5) the complexity of an organism is Complexity() of the network returned by its Phenotype(), asked only when Phenotype() reported no error, with the math.MaxInt sentinel confined to a missing organism/champion or a failed phenotype. Results are followed through phi nodes edge by edge, so an early return and a single return of a merged value are the same to the rules; a quantile level may be a parameter of an unexported helper when every call in the repository passes a constant in [0,1]. A fixed-size result slice that is filled branch by branch and returned once is read path by path (the elements stored last on each acyclic path, under the branch outcomes of that path). A series element produced by a capture-free function literal that an inlined helper received as its function-valued argument is what the literal returns for these arguments; a path of the literal returning the constant 0 counts as leaving the freshly made element untouched when the store is the only writer of the slice and writes each element at most once. Fourth round: the emptiness test is read in any spelling (a branch outcome is turned into a comparison that holds and decided with len >= 0; a test that only bounds the length establishes neither emptiness nor its opposite); the data of a quantile hold the elements of the series (a copy made before the sort); (8) counts and empty values are exact: the number of solved trials is incremented once for every trial with Solved() by a loop that visits every trial and runs for every experiment with trials (path enumeration of one iteration, path-resolved increments), the winner averages sum WinnerStatistics()#k over exactly those trials, return the -1 sentinel only where that count is 0 and the quotients only where it is not, every mean over a list returns its empty value only where len==0 is established and divides only where len!=0 is, Experiment.Solved / Trial.Solved are existence statements over all records, Trial.WinnerStatistics yields the winner generation's fields where a winner is known, 0 only where the scan found none and -1 only without generations; (9) a series element is stored in exactly the iterations in which its statistic is defined; (10) Trial.BestOrganism collects the champion of every generation (or of exactly the solved ones) and returns the first element of the collection sorted in descending order exactly where it is non-empty. Seventh round: a series built by appending exactly one value per iteration of a loop over every element, onto a slice that starts empty and has no other writer, is read like make+index (the value appended for element i is entry i; an appended constant 0 is an element left at 0); an element read through the first result of a lookup needs the lookup's found-flag (or a non-nil result) on its path; an integer handed out of a search with a negative value for `none` (a phi that is not carried round a loop) is read alternative by alternative - `return i >= 0` is true on the edge of the hit and false on exhaustion, a use under `i >= 0` knows what held on the edge of the hit and reads the element found, and the winner generation read must be the one whose Solved was seen; local closures are inlined at every call of a statement (normaliser) and their definition is dropped when no call is left, so a captured counter is an ordinary value again. Not decided: gonum's numerics; full recomputation equalities; the recording itself (FillPopulationStatistics)."
	r.Rule("C19.1", "empty guard: each Floats method except Sum returns NaN when len(x)==0, and the emptiness test dominates the library call", func() {
		n := 0
		for _, sp := range floatsTable {
			fn := p.Func(PkgE, "Floats."+sp.method)
			r.Fn(FuncName(fn))
			tm := NewTermer(fn)
			q := c19Quant{p: p, self: sp.method}
			// the library calls of the method: whatever gonum function it uses (C19.3 decides whether it is the
			// right one), each has a precondition or an undefined result on the empty series
			calls := c19GonumCalls(fn)
			if !sp.guard {
				r.OK("Floats."+sp.method, p.Pos(fn.Pos()), "no guard required (the library returns 0 for an empty sum)")
				n++
				continue
			}
			for _, c := range calls {
				r.CallSites++
				guarded := false
				for _, g := range Guards(c.Block()) {
					if empty, ok := lenGuard(tm, g, "recv"); ok && !empty {
						guarded = true
					}
				}
				cn, _ := calleeName(c.Common())
				r.Check(guarded, "Floats."+sp.method+".guard", p.Pos(c.Pos()), "the library call is reached only when len(x) != 0",
					"the call of "+cn+" is not dominated by a len(x)==0 test: an empty series reaches the library (panic or undefined result instead of NaN)")
			}
			if len(calls) == 0 {
				r.OK("Floats."+sp.method+".guard", p.Pos(fn.Pos()), "the method calls no library function itself (C19.3 decides what it is built from)")
			}
			// NaN on the empty path: every way the result is produced under len(x)==0 - a return in the
			// guarded block, or a value that reaches a merged return over an edge on which len(x)==0 holds
			nan, delegated := 0, 0
			leaves := retLeaves(fn, 0)
			if sp.method == "MeanVariance" {
				leaves = c19ExpandPairs(fn, leaves, 2)
			}
			for _, lf := range leaves {
				if !c19OnEmpty(tm, lf, "recv") {
					// produced without a test of the length at all: NaN on the empty series when it is built
					// from accessors that are NaN there themselves
					if len(lf.Guards) == 0 && q.nanOnEmpty(tm.Of(lf.Val)) {
						delegated++
					}
					continue
				}
				rt := tm.Of(lf.Val)
				okRet := rt.String() == "math.NaN()"
				if sp.method == "MeanVariance" {
					// the pair {NaN, NaN}: both elements of the returned fresh slice are results of math.NaN()
					// (filled once, or branch by branch: then this is the path on which len(x)==0)
					okRet = len(lf.Els) == 2 && tm.Of(lf.Els[0]).String() == "math.NaN()" && tm.Of(lf.Els[1]).String() == "math.NaN()"
				}
				r.Check(okRet, "Floats."+sp.method+".nan", p.Pos(lf.Ret.Pos()), "returns NaN for an empty series", fmt.Sprintf("the empty-series path returns %s, expected NaN", rt))
				nan++
			}
			if nan == 0 {
				if delegated > 0 && delegated == len(leaves) {
					r.OK("Floats."+sp.method+".nan", p.Pos(fn.Pos()), "NaN for an empty series through the accessors it is built from")
				} else {
					r.Bad("Floats."+sp.method+".nan", p.Pos(fn.Pos()), "no return under len(x)==0: an empty series does not yield NaN")
				}
			}
			n++
		}
		r.Floor("Floats methods", n, 10)
	})

	r.Rule("C19.2", "library preconditions: stat.Quantile gets a constant level in [0,1], Empirical kind, nil weights and a sorted slice (a sort call dominates the use)", func() {
		n := 0
		for _, fn := range p.SrcFuncs() {
			if fn.Pkg == nil || fn.Pkg.Pkg.Path() != PkgE {
				continue
			}
			for _, c := range CallsNamed(fn, "stat.Quantile") {
				n++
				r.CallSites++
				args := c.Common().Args
				// the level is a constant, possibly handed down through the parameter of an unexported
				// helper: then every call of the helper in the repository passes a constant in [0,1]
				lvs, okLv := constFloatsOf(p, fn, args[0], 0)
				for _, f := range lvs {
					if !(f >= 0 && f <= 1) {
						okLv = false
					}
				}
				label := FuncName(fn) + ".Quantile"
				r.Check(okLv, label+".level", p.Pos(c.Pos()), "constant level in [0,1]", "the quantile level is not a constant in [0,1]")
				kind, isK := args[1].(*ssa.Const)
				okKind := isK && kind.Value != nil && kind.Value.ExactString() == p.constVal("gonum.org/v1/gonum/stat", "Empirical", "1")
				r.Check(okKind, label+".kind", p.Pos(c.Pos()), "empirical quantile kind", "the quantile kind is not stat.Empirical")
				sorted, why := r.sortedOrigin(fn, args[2], c, 0)
				r.Check(sorted, label+".sorted", p.Pos(c.Pos()), "sorted input: "+why, "stat.Quantile requires sorted data and panics otherwise; here "+why)
				// ... that holds the elements of the series (not a slice of zeros of the same length)
				holds, whyD := c19HoldsSeries(fn, args[2], c, 0)
				r.Check(holds, label+".data", p.Pos(c.Pos()), "the data are the elements of the series: "+whyD, "the quantile is not taken of the elements of the series: the data argument is "+whyD)
				w := NewTermer(fn).Of(args[3])
				r.Check(w.Op == "nil", label+".weights", p.Pos(c.Pos()), "nil weights", "weights are "+w.String())
			}
		}
		r.Floor("stat.Quantile call sites", n, 3)
	})

	r.Rule("C19.3", "right callee: each Floats method returns, for a non-empty series, the result of the library function its definition names or an expression the library defines to be that result", func() {
		for _, sp := range floatsTable {
			fn := p.Func(PkgE, "Floats."+sp.method)
			tm := NewTermer(fn)
			q := c19Quant{p: p, self: sp.method}
			// every way the method produces its result for a non-empty series is the quantity of its definition,
			// written as one of the expressions of the equivalence table (robust_c19.go)
			nOK := 0
			var bad []string
			var shown string
			pos := p.Pos(fn.Pos())
			leaves := retLeaves(fn, 0)
			if sp.method == "MeanVariance" {
				leaves = c19ExpandPairs(fn, leaves, 2)
			}
			for _, lf := range leaves {
				if sp.guard && c19OnEmpty(tm, lf, "recv") {
					continue // the empty series: C19.1
				}
				t := tm.Of(lf.Val)
				ok := false
				switch {
				case sp.level != "":
					// stat.Quantile(level, ...): kind, sorted input and weights are the obligations of C19.2
					if a, isQ := q.lib(t, c19PkgStat, "Quantile"); isQ && len(a) == 4 {
						if ok = a[0].String() == sp.level; !ok {
							bad = append(bad, "quantile level "+a[0].String()+", expected "+sp.level)
							continue
						}
					}
				case sp.method == "MeanVariance":
					if len(lf.Els) == 2 {
						e0, e1 := tm.Of(lf.Els[0]), tm.Of(lf.Els[1])
						ok = q.Is("Mean", e0) && q.Is("Variance", e1)
						t = &Term{Op: "call", Name: "pair", Args: []*Term{e0, e1}}
					}
				default:
					ok = q.Is(sp.method, t)
				}
				if ok {
					nOK++
					shown = t.String()
					if in, isIn := lf.Val.(ssa.Instruction); isIn && in.Pos().IsValid() {
						pos = p.Pos(in.Pos())
					}
				} else {
					bad = append(bad, "returns "+t.String()+", which is not "+sp.callee+" of the series (nor an expression defined to be the same quantity)")
				}
			}
			if nOK == 0 && len(bad) == 0 {
				bad = append(bad, "no result for a non-empty series")
			}
			r.Check(len(bad) == 0, "Floats."+sp.method+".callee", pos, sp.method+" = "+shown, sp.method+": "+strings.Join(bad, "; "))
		}
	})

	r.Rule("C19.5", "averages divide in floating point: no statistic converts the result of an integer division; winner averages are float(total)/float(count) over the solved trials", func() {
		n := 0
		for _, fn := range p.SrcFuncs() {
			if fn.Pkg == nil || fn.Pkg.Pkg.Path() != PkgE {
				for pf := fn; pf != nil; pf = pf.Parent() {
					if pf.Pkg != nil && pf.Pkg.Pkg.Path() == PkgE {
						goto inPkg
					}
				}
				continue
			}
		inPkg:
			Instrs(fn, func(_ *ssa.BasicBlock, _ int, in ssa.Instruction) {
				cv, ok := in.(*ssa.Convert)
				if !ok {
					return
				}
				bt, ok := cv.Type().Underlying().(*types.Basic)
				if !ok || bt.Info()&types.IsFloat == 0 {
					return
				}
				n++
				if b, ok := cv.X.(*ssa.BinOp); ok && b.Op == token.QUO {
					if xb, ok := b.X.Type().Underlying().(*types.Basic); ok && xb.Info()&types.IsInteger != 0 {
						r.Bad("integer-division:"+fn.Name(), p.Pos(cv.Pos()), "in "+FuncName(fn)+" a quotient of two integers is converted to float: the fraction is cut off before the conversion ("+NewTermer(fn).Of(cv).String()+")")
					}
				}
			})
		}
		r.Floor("int-to-float conversions inspected", n, 4)
		aw := p.Func(PkgE, "Experiment.AvgWinnerStatistics")
		r.Fn(FuncName(aw))
		tm := NewTermer(aw)
		okAll, nRes := true, 0
		for _, b := range aw.Blocks {
			ret, ok := b.Instrs[len(b.Instrs)-1].(*ssa.Return)
			if !ok {
				continue
			}
			for _, v := range ret.Results {
				t := tm.Of(v)
				if t.Op == "const" {
					continue
				}
				nRes++
				// an operand is in floating point: converted to float64 here, or accumulated as a float already
				// (what it accumulates and counts is decided by C19.8)
				isFloat := func(x *Term) bool {
					if x.Op == "conv" {
						return x.Name == "float64"
					}
					if x.V == nil {
						return false
					}
					bt, isB := x.V.Type().Underlying().(*types.Basic)
					return isB && bt.Info()&types.IsFloat != 0
				}
				ok := t.Op == "bin" && t.Name == "/" && isFloat(t.Args[0]) && isFloat(t.Args[1])
				if ok {
					// numerator accumulates a component of WinnerStatistics, denominator counts the solved trials
					num := t.Args[0]
					if num.Op == "conv" {
						num = num.Args[0]
					}
					ok = strings.Contains(num.String(), "WinnerStatistics") || num.Op == "phi" || num.Op == "loop"
				}
				if !ok {
					okAll = false
				}
			}
		}
		r.Check(okAll && nRes >= 4, "AvgWinnerStatistics.form", p.Pos(aw.Pos()), "each average is float64(total) / float64(count)", "AvgWinnerStatistics does not return float64(total)/float64(count) for each of its four averages")
		// only solved trials contribute
		okSolved := false
		for _, c := range CallsTo(aw, p.Func(PkgE, "Trial.WinnerStatistics")) {
			for _, g := range Guards(c.Block()) {
				if gt := tm.Of(g.Cond); gt.Op == "call" && gt.Name == "Trial.Solved" && g.True {
					okSolved = true
				}
			}
		}
		r.Check(okSolved, "AvgWinnerStatistics.solved-only", p.Pos(aw.Pos()), "only solved trials contribute", "winner statistics are accumulated for trials that are not solved")
	})

	r.Rule("C19.6", "per-trial and per-generation series are element-wise maps of the recorded values: result[i] is the named statistic of element i (best organism's fitness, species age, complexity; champion's fitness, species age, complexity; the generation's three averages in order), the result has one entry per element, and the generation averages are the means of the recorded per-species series", func() {
		type em struct {
			fn, list string
			res      int
			want     string
			// alt: the same value with a pinned helper written out in place. Generation.Average(g)#k is
			// Floats.Mean of g's k-th recorded series by the obligation "Generation.Average" below, so the
			// mean of that series of element i is the same statistic of element i.
			alt string
		}
		table := []em{
			{"Experiment.BestFitness", "recv.Trials", 0, "Trial.BestOrganism(&recv.Trials[*],false)#0.Fitness", ""},
			{"Experiment.BestSpeciesAge", "recv.Trials", 0, "float64(Trial.BestOrganism(&recv.Trials[*],false)#0.Species.Age)", ""},
			{"Experiment.BestComplexity", "recv.Trials", 0, "float64(organismComplexity(Trial.BestOrganism(&recv.Trials[*],false)#0))", ""},
			{"Trial.ChampionsFitness", "recv.Generations", 0, "&recv.Generations[*].Champion.Fitness", ""},
			{"Trial.ChampionSpeciesAges", "recv.Generations", 0, "float64(&recv.Generations[*].Champion.Species.Age)", ""},
			{"Trial.ChampionsComplexities", "recv.Generations", 0, "float64(Generation.ChampionComplexity(&recv.Generations[*]))", ""},
			{"Trial.Average", "recv.Generations", 0, "Generation.Average(&recv.Generations[*])#0", "Floats.Mean(&recv.Generations[*].Fitness)"},
			{"Trial.Average", "recv.Generations", 1, "Generation.Average(&recv.Generations[*])#1", "Floats.Mean(&recv.Generations[*].Age)"},
			{"Trial.Average", "recv.Generations", 2, "Generation.Average(&recv.Generations[*])#2", "Floats.Mean(&recv.Generations[*].Complexity)"},
		}
		isWanted := func(e em, vt *Term) bool {
			got := strings.NewReplacer(" ", "", "&", "").Replace(vt.String())
			if got == strings.ReplaceAll(e.want, "&", "") {
				return true
			}
			if e.alt == "" || got != strings.ReplaceAll(e.alt, "&", "") {
				return false
			}
			// the written-out form names the experiment package's own Floats.Mean
			return isCallTo(vt, p.Func(PkgE, "Floats.Mean"))
		}
		for _, e := range table {
			fn := p.Func(PkgE, e.fn)
			r.Fn(FuncName(fn))
			tm := NewTermer(fn)
			cons := fmt.Sprintf("%s#%d", e.fn, e.res)
			// the returned slice
			var res ssa.Value
			for _, b := range fn.Blocks {
				if ret, ok := b.Instrs[len(b.Instrs)-1].(*ssa.Return); ok && e.res < len(ret.Results) {
					res = ret.Results[e.res]
				}
			}
			for {
				if ct, ok := res.(*ssa.ChangeType); ok {
					res = ct.X
					continue
				}
				break
			}
			ms, ok := res.(*ssa.MakeSlice)
			if !ok {
				// a series built by appending one value per element of the list (c19AppendSeries): the value appended in
				// the iteration for element i is entry i, and there is one entry per element
				if as, _ := c19AppendSeries(fn, tm, e.res, e.list); as != nil {
					okElem, nWanted := true, 0
					var got []string
					for _, el := range as.Elems {
						if el.Zero {
							continue // the element is left at 0: C19.9 decides whether rightly
						}
						for _, a := range c19ValueAlts(tm, el.Val) {
							got = append(got, a.T.String())
							if a.ZeroLeaf {
								continue
							}
							nWanted++
							same := false
							a.T.Walk(func(x *Term) bool {
								if x.Op == "elem" && x.Args[0].String() == e.list && len(x.Args) > 1 && x.Args[1].V == as.IV {
									same = true
								}
								return true
							})
							if !isWanted(e, a.T) || !same {
								okElem = false
							}
						}
					}
					r.Check(okElem && nWanted > 0, cons, p.Pos(fn.Pos()), "one value appended per element of "+e.list+": "+e.want,
						fmt.Sprintf("%s (result %d): values appended %v; expected %s for every element", e.fn, e.res, got, e.want))
					continue
				}
				r.Bad(cons, p.Pos(fn.Pos()), e.fn+" does not return a freshly made series")
				continue
			}
			okLen := tm.Of(ms.Len).String() == "len("+e.list+")"
			okElem, n := true, 0
			var got []string
			// one store `series[i] = v`: v is the wanted statistic of element i of the list. A value
			// produced by a function literal bound at an inlined call site (a helper with a
			// function-valued parameter) is what the literal returns for these arguments; a path of
			// the literal that returns the constant 0 is the same as not storing (the rule accepts a
			// store under a condition: the element then keeps the 0 of make) provided the store is
			// the only writer of the fresh slice and writes each element at most once.
			checkStore := func(st *ssa.Store, needLoop bool) {
				n++
				ia := st.Addr.(*ssa.IndexAddr)
				nWanted := 0
				for _, a := range c19ValueAlts(tm, st.Val) {
					vt := a.T
					got = append(got, vt.String())
					if a.ZeroLeaf {
						if !(c19OncePerElement(fn, st) && c19OnlyWriter(ms, st)) {
							okElem = false
						}
						continue
					}
					nWanted++
					if !isWanted(e, vt) {
						okElem = false
					}
					// same index on both sides: the element index of the list read equals the index written
					same := false
					vt.Walk(func(x *Term) bool {
						if x.Op == "elem" && x.Args[0].String() == e.list && len(x.Args) > 1 && x.Args[1].V == ia.Index {
							same = true
						}
						return true
					})
					if !same {
						okElem = false
					}
				}
				if nWanted == 0 {
					okElem = false
				}
				if needLoop {
					l := InnermostLoop(Loops(fn), st.Block())
					if l == nil || !loopRangesOver(tm, l, e.list) {
						okElem = false
					}
				}
			}
			for _, st := range elemStoresInto(fn, ms) {
				checkStore(st, true)
			}
			// stores into a named-type slice go through a ChangeType: look there too
			if n == 0 {
				for _, ref := range *ms.Referrers() {
					if ct, ok := ref.(*ssa.ChangeType); ok {
						for _, st := range elemStoresInto(fn, ct) {
							checkStore(st, false)
						}
					}
				}
			}
			r.Check(okLen && okElem && n == 1, cons, p.Pos(fn.Pos()), "series[i] = "+e.want+", one entry per element of "+e.list,
				fmt.Sprintf("%s (result %d): length ok=%v, element stores=%d %v; expected series[i] = %s for every i", e.fn, e.res, okLen, n, got, e.want))
		}
		ga := p.Func(PkgE, "Generation.Average")
		gtm := NewTermer(ga)
		okGA := false
		for _, b := range ga.Blocks {
			if ret, ok := b.Instrs[len(b.Instrs)-1].(*ssa.Return); ok && len(ret.Results) == 3 {
				okGA = gtm.Of(ret.Results[0]).String() == "Floats.Mean(recv.Fitness)" && gtm.Of(ret.Results[1]).String() == "Floats.Mean(recv.Age)" && gtm.Of(ret.Results[2]).String() == "Floats.Mean(recv.Complexity)"
			}
		}
		r.Check(okGA, "Generation.Average", p.Pos(ga.Pos()), "(mean fitness, mean age, mean complexity) of the recorded per-species series", "Generation.Average does not return the means of Fitness, Age and Complexity in this order")
		// winner statistics: the four values come from the same (first solved) generation, field by field
		ws := p.Func(PkgE, "Trial.WinnerStatistics")
		wtm := NewTermer(ws)
		wantF := []string{"WinnerNodes", "WinnerGenes", "WinnerEvals", "Diversity"}
		okWS := false
		for _, b := range ws.Blocks {
			if ret, ok := b.Instrs[len(b.Instrs)-1].(*ssa.Return); ok && len(ret.Results) == 4 {
				okWS = true
				for i, v := range ret.Results {
					for _, a := range wtm.Of(v).Alternatives() {
						if a.Op == "const" {
							continue
						}
						if !(a.Op == "field" && a.Name == wantF[i]) {
							okWS = false
						}
					}
				}
			}
		}
		// the generation picked in the scan is a solved one and the scan stops there
		okSolved := false
		for _, st := range FieldStores(ws, p.Field(PkgE, "Trial", "WinnerGeneration")) {
			// (the outcomes known at the store include those of the edge over which a search result that is tested
			// there - `i := firstSolved(); if i >= 0` - left the scan: c19SentinelGuards; such an edge leaves the scan
			// at the element it found, so the scan stops there by construction)
			for _, g := range c19SentinelGuards(Guards(st.Block())) {
				if gt := wtm.Of(g.Cond); gt.Op == "field" && gt.Name == "Solved" && g.True {
					okSolved = true
				}
			}
			if l := scanLoopOf(Loops(ws), st.Block()); l != nil {
				if FindPath(p, PathQuery{Fn: ws, StartAfter: st, FlagBlind: true, Target: func(in ssa.Instruction) bool {
					return in.Block() == l.Header && instrIndex(in) == len(l.Header.Instrs)-1
				}}) != nil {
					okSolved = false
				}
			}
		}
		// the cached winner is a snapshot: Generations implements sort.Interface and is
		// re-ordered in place, so a pointer into its backing array changes its referent
		wg := p.Field(PkgE, "Trial", "WinnerGeneration")
		nW := 0
		for _, fn := range p.SrcFuncs() {
			if fn.Pkg == nil || fn.Pkg.Pkg.Path() != PkgE {
				continue
			}
			for _, st := range FieldStores(fn, wg) {
				nW++
				alias := false
				w := phiWeb(st.Val)
				for _, f := range append(w.Feeders, st.Val) {
					if ia, ok := f.(*ssa.IndexAddr); ok && strings.HasSuffix(NewTermer(fn).Of(ia.X).String(), ".Generations") {
						alias = true
					}
				}
				r.Check(!alias, "WinnerGeneration.snapshot:"+fn.Name(), p.Pos(st.Pos()), "the cached winner is not an element address of the Generations slice", "Trial.WinnerGeneration is set to the address of an element of t.Generations; the list is sorted in place (it implements sort.Interface), after which the cached pointer designates a different generation and the winner statistics no longer equal those recomputed from the records")
			}
		}
		r.Floor("stores to Trial.WinnerGeneration", nW, 1)
		r.Check(okWS && okSolved, "Trial.WinnerStatistics", p.Pos(ws.Pos()), "(nodes, genes, evaluations, diversity) of the first solved generation", fmt.Sprintf("WinnerStatistics: values are the winner fields in order=%v, taken from the first generation reported solved=%v", okWS, okSolved))
	})

	r.Rule("C19.7", "complexity is the phenotype's: the complexity of an organism is Complexity() of the network returned by organism.Phenotype() (the math.MaxInt sentinel only when there is no organism or no phenotype), and a generation's champion complexity is that of its champion", func() {
		oc := p.Func(PkgE, "organismComplexity")
		r.Fn(FuncName(oc))
		tm := NewTermer(oc)
		maxInt := constant.MakeInt64(int64(^uint(0) >> 1)).ExactString()
		isSentinel := func(v ssa.Value) bool {
			c, ok := v.(*ssa.Const)
			return ok && c.Value != nil && c.Value.ExactString() == maxInt
		}
		okAll, nCall := true, 0
		var why []string
		for _, lf := range retLeaves(oc, 0) {
			t := tm.Of(lf.Val)
			if isSentinel(lf.Val) {
				// only for a missing organism or a failed phenotype
				just := false
				for _, g := range lf.Guards {
					if a, b, ok := eqCond(tm, g); ok && ((a.Op == "param" && a.Idx == 0 && b.Op == "nil") || (b.Op == "param" && b.Idx == 0 && a.Op == "nil")) {
						just = true
					}
					if a, b, ok := neqCond(tm, g); ok {
						if b.Op != "nil" {
							a, b = b, a
						}
						if b.Op == "nil" && c19PhenotypeResult(a, 1, func(o *Term) bool { return o.Op == "param" && o.Idx == 0 }) {
							just = true
						}
					}
				}
				if !just {
					okAll = false
					why = append(why, "the sentinel is returned on a path where the organism is present and its phenotype was obtained")
				}
				continue
			}
			if c19IsPhenotypeComplexity(t, func(o *Term) bool { return o.Op == "param" && o.Idx == 0 }) {
				nCall++
				// the network is asked only when Phenotype() reported no error (it is nil otherwise)
				if !c19PhenotypeOK(tm, lf, func(o *Term) bool { return o.Op == "param" && o.Idx == 0 }) {
					okAll = false
					why = append(why, "Complexity() is called on the phenotype without testing the error of Phenotype()")
				}
				continue
			}
			okAll = false
			why = append(why, "returns "+t.String())
		}
		r.Check(okAll && nCall > 0, "organismComplexity", p.Pos(oc.Pos()), "phenotype.Complexity() of organism.Phenotype(); math.MaxInt only for nil organism or failed phenotype",
			"organismComplexity does not return the complexity of the organism's phenotype network: "+strings.Join(why, "; ")+" (the genome and the network differ for modular genomes and for genomes without a phenotype)")

		cc := p.Func(PkgE, "Generation.ChampionComplexity")
		r.Fn(FuncName(cc))
		ctm := NewTermer(cc)
		isChampion := func(o *Term) bool { return o.String() == "recv.Champion" }
		okAll, nCall = true, 0
		why = nil
		for _, lf := range retLeaves(cc, 0) {
			t := ctm.Of(lf.Val)
			if isSentinel(lf.Val) {
				just := false
				for _, g := range lf.Guards {
					if a, b, ok := eqCond(ctm, g); ok && ((isChampion(a) && b.Op == "nil") || (isChampion(b) && a.Op == "nil")) {
						just = true
					}
				}
				if !just {
					okAll = false
					why = append(why, "the sentinel is returned although a champion is recorded")
				}
				continue
			}
			if (isCallTo(t, oc) && len(t.Args) == 1 && isChampion(t.Args[0])) || (c19IsPhenotypeComplexity(t, isChampion) && c19PhenotypeOK(ctm, lf, isChampion)) {
				nCall++
				continue
			}
			okAll = false
			why = append(why, "returns "+t.String())
		}
		r.Check(okAll && nCall > 0, "Generation.ChampionComplexity", p.Pos(cc.Pos()), "organismComplexity(g.Champion); math.MaxInt only without a champion",
			"Generation.ChampionComplexity is not the complexity of the recorded champion: "+strings.Join(why, "; "))
	})

	r.Rule("C19.8", "exact counts, and the empty value exactly when empty: the number of solved trials an aggregate divides by (or returns) is incremented once for every trial with Solved() and for no other, by a loop that visits every trial and that is executed for every experiment with trials; the winner averages return the -1 sentinel only where that count is 0 (or there are no trials / no solved trial) and the quotients only where it is not; every mean over a list returns its empty value (0, EmptyDuration) only where len(list)==0 is established and divides only where len(list)!=0 is, its total being the sum over every element; Trial.WinnerStatistics returns -1 only for a trial without generations and scans them otherwise. If one of these is false some experiment (a single solved trial, a list of one element) gets the empty value although the recorded generations define the statistic", func() {
		solvedFn := p.Func(PkgE, "Trial.Solved")
		wsFn := p.Func(PkgE, "Trial.WinnerStatistics")
		tsFn := p.Func(PkgE, "Experiment.TrialsSolved")
		esFn := p.FuncOpt(PkgE, "Experiment.Solved")
		const trials = "recv.Trials"
		stripNot := func(g Guard) (ssa.Value, bool) {
			cond, out := g.Cond, g.True
			for {
				if u, ok := cond.(*ssa.UnOp); ok && u.Op == token.NOT {
					cond, out = u.X, !out
					continue
				}
				return cond, out
			}
		}
		// an iteration contributes exactly when the trial it visits reports Solved()
		solvedOnly := func(tm *Termer, ip *IterPath, iv ssa.Value) (int, string) {
			switch c19CallOutcome(tm, ip.Conds, solvedFn, trials, iv) {
			case 1:
				return 1, ""
			case -1:
				return 0, ""
			}
			return -1, "an iteration passes a trial without asking its Solved()"
		}
		countSpec := c19Sum{List: trials, Want: solvedOnly, Add: func(_ *Termer, add ssa.Value, _ ssa.Value) bool { return c19ConstIs(add, 1) }}

		// (a) Experiment.TrialsSolved: what is returned counts every solved trial once
		{
			tm := NewTermer(tsFn)
			r.Fn(FuncName(tsFn))
			why, n := "", 0
			for _, b := range tsFn.Blocks {
				ret, ok := b.Instrs[len(b.Instrs)-1].(*ssa.Return)
				if !ok || len(ret.Results) == 0 {
					continue
				}
				if _, isC := ret.Results[0].(*ssa.Const); isC {
					continue // 0 for no trials: c19CounterReturns (C19.4)
				}
				n++
				l, w := c19SumOver(tsFn, tm, ret.Results[0], countSpec)
				if w == "" {
					w = c19ReachedUnless(p, tsFn, tm, l, func(gs []Guard) bool { return c19AnyEmpty(tm, gs, trials) })
				}
				if w != "" && why == "" {
					why = w
				}
			}
			r.Check(why == "" && n > 0, "Experiment.TrialsSolved.exact", p.Pos(tsFn.Pos()), "the count returned is incremented once for every trial with Solved(), by a loop over all trials", "TrialsSolved does not return the number of solved trials: "+why)
		}

		// (b) Experiment.AvgWinnerStatistics
		{
			aw := p.Func(PkgE, "Experiment.AvgWinnerStatistics")
			r.Fn(FuncName(aw))
			tm := NewTermer(aw)
			isRecvCall := func(v ssa.Value, fn *ssa.Function) bool {
				c, ok := v.(*ssa.Call)
				return ok && fn != nil && c.Call.StaticCallee() == fn && len(c.Call.Args) == 1 && tm.Of(c.Call.Args[0]).Op == "recv"
			}
			// nothing to average: no trials, Solved() of the experiment false, TrialsSolved() == 0
			noWinner := func(gs []Guard) bool {
				if c19AnyEmpty(tm, gs, trials) {
					return true
				}
				for _, g := range gs {
					if cond, out := stripNot(g); !out && isRecvCall(cond, esFn) {
						return true
					}
					if z, _ := c19NatFact(g, func(v ssa.Value) bool { return isRecvCall(c19StripConv(v), tsFn) }); z {
						return true
					}
				}
				return false
			}
			countPhis := map[*ssa.Phi]bool{}
			scans := map[*Loop]bool{}
			isCount := func(v ssa.Value) bool {
				v = c19StripConv(v)
				if ph, ok := v.(*ssa.Phi); ok && countPhis[ph] {
					return true
				}
				return isRecvCall(v, tsFn)
			}
			outsideScans := func(gs []Guard) []Guard {
				var out []Guard
				for _, g := range gs {
					in := false
					for l := range scans {
						if g.At != nil && l.Blocks[g.At] {
							in = true
						}
					}
					if !in {
						out = append(out, g)
					}
				}
				return out
			}
			var whyCount, whyTotals, whyForm []string
			sumMemo := map[string]string{}
			nQuot := 0
			type sentinel struct {
				lf retLeaf
				k  int
			}
			var sentinels []sentinel
			var quots []retLeaf
			for k := 0; k < 4; k++ {
				for _, lf := range retLeaves(aw, k) {
					if _, isC := lf.Val.(*ssa.Const); isC {
						sentinels = append(sentinels, sentinel{lf, k})
						continue
					}
					b, ok := lf.Val.(*ssa.BinOp)
					if !ok || b.Op != token.QUO {
						whyForm = append(whyForm, fmt.Sprintf("result %d is %s, not total/count", k, tm.Of(lf.Val)))
						continue
					}
					nQuot++
					quots = append(quots, lf)
					num, den := c19StripConv(b.X), c19StripConv(b.Y)
					// the denominator: the exact number of solved trials
					if !isRecvCall(den, tsFn) {
						key := "count:" + den.Name()
						w, seen := sumMemo[key]
						if !seen {
							var l *Loop
							l, w = c19SumOver(aw, tm, den, countSpec)
							sumMemo[key] = w
							if w == "" {
								scans[l] = true
								for ph := range phiWeb(den).Phis {
									countPhis[ph] = true
								}
							}
						}
						if w != "" {
							whyCount = append(whyCount, fmt.Sprintf("the denominator of result %d: %s", k, w))
						}
					}
					// the numerator: component k of the winner statistics, summed over the solved trials
					kk := k
					l, w := c19SumOver(aw, tm, num, c19Sum{List: trials, Want: solvedOnly, Add: func(tm *Termer, add ssa.Value, iv ssa.Value) bool {
						ex, ok := c19StripConv(add).(*ssa.Extract)
						if !ok || ex.Index != kk {
							return false
						}
						c, ok := ex.Tuple.(*ssa.Call)
						return ok && c.Call.StaticCallee() == wsFn && len(c.Call.Args) == 1 && c19ElemOf(tm.Of(c.Call.Args[0]), trials, iv)
					}})
					if w != "" {
						whyTotals = append(whyTotals, fmt.Sprintf("the numerator of result %d: %s", k, w))
					} else {
						scans[l] = true
					}
				}
			}
			if nQuot < 4 {
				whyForm = append(whyForm, "fewer than four averages are returned as quotients")
			}
			r.Check(len(whyCount) == 0 && len(whyForm) == 0, "AvgWinnerStatistics.count", p.Pos(aw.Pos()), "every average divides by a count that is incremented once for every trial with Solved() and for no other, by a loop over all trials",
				"AvgWinnerStatistics does not divide by the number of solved trials: "+strings.Join(append(whyForm, whyCount...), "; "))
			r.Check(len(whyTotals) == 0 && len(whyForm) == 0, "AvgWinnerStatistics.totals", p.Pos(aw.Pos()), "average k divides the sum of WinnerStatistics()#k over exactly the trials with Solved()",
				"AvgWinnerStatistics does not sum the winner statistics of exactly the solved trials: "+strings.Join(append(whyForm, whyTotals...), "; "))
			// the scan runs for every experiment that has a solved trial
			whyReach := ""
			for l := range scans {
				if w := c19ReachedUnless(p, aw, tm, l, noWinner); w != "" {
					whyReach = w
				}
			}
			if len(scans) == 0 && !(len(whyForm) == 0 && len(whyCount) == 0 && len(whyTotals) == 0) {
				whyReach = "no scan of the trials was identified"
			}
			r.Check(whyReach == "", "AvgWinnerStatistics.scan-reached", p.Pos(aw.Pos()), "every path to a return that does not run the scan of the trials is one on which there are no trials (or no solved trial)",
				"AvgWinnerStatistics can return without counting the solved trials of an experiment that has some: "+whyReach+" (such an experiment reports the -1 sentinel or a wrong average although Trial.WinnerStatistics has the figures)")
			// sentinel <=> count == 0
			var whySent []string
			for _, s := range sentinels {
				if !c19ConstIs(s.lf.Val, -1) {
					whySent = append(whySent, fmt.Sprintf("result %d can be the constant %s", s.k, tm.Of(s.lf.Val)))
					continue
				}
				gs := outsideScans(s.lf.Guards)
				just := noWinner(gs)
				for _, g := range gs {
					if z, _ := c19NatFact(g, isCount); z {
						just = true
					}
				}
				if !just {
					whySent = append(whySent, fmt.Sprintf("the -1 sentinel of result %d is returned without the solved count being 0", s.k))
				}
			}
			for _, lf := range quots {
				nz := false
				for _, g := range outsideScans(c19LeafGuards(lf)) {
					if _, n := c19NatFact(g, isCount); n {
						nz = true
					}
				}
				if !nz {
					whySent = append(whySent, "a quotient is returned without the solved count being known to be non-zero (0/0 instead of the -1 sentinel)")
					break
				}
			}
			r.Check(len(whySent) == 0, "AvgWinnerStatistics.sentinel", p.Pos(aw.Pos()), "(-1,-1,-1,-1) exactly where the solved count is 0, the quotients exactly where it is not", "AvgWinnerStatistics: "+strings.Join(whySent, "; "))
		}

		// (e) "solved" is an existence statement over the records
		if esFn != nil {
			r.Fn(FuncName(esFn))
			tm := NewTermer(esFn)
			w := c19Exists(p, esFn, tm, trials, func(gs []Guard, iv ssa.Value) int { return c19CallOutcome(tm, gs, solvedFn, trials, iv) })
			r.Check(w == "", "Experiment.Solved.exists", p.Pos(esFn.Pos()), "true exactly when some trial reports Solved(): every trial is asked until one does", "Experiment.Solved is not `some trial is solved`: "+w)
		}
		{
			r.Fn(FuncName(solvedFn))
			tm := NewTermer(solvedFn)
			w := c19Exists(p, solvedFn, tm, "recv.Generations", func(gs []Guard, iv ssa.Value) int { return c19FieldOutcome(tm, gs, "Solved", "recv.Generations", iv) })
			r.Check(w == "", "Trial.Solved.exists", p.Pos(solvedFn.Pos()), "true exactly when some recorded generation has Solved: every generation is looked at until one has", "Trial.Solved is not `some generation is solved`: "+w)
		}

		// (c) means over a list: empty value <=> empty list, total over every element
		type mean struct {
			fn, list, add string
			empty         int64 // the documented value for an empty list (EmptyDuration is -1)
		}
		emptyDuration := int64(-1)
		if c := p.constVal(PkgE, "EmptyDuration", "-1"); c != "-1" {
			if v, err := strconv.ParseInt(c, 10, 64); err == nil {
				emptyDuration = v
			}
		}
		for _, m := range []mean{
			{"Experiment.AvgTrialDuration", trials, "recv.Trials[*].Duration", emptyDuration},
			{"Experiment.AvgEpochDuration", trials, "Trial.AvgEpochDuration(recv.Trials[*])", emptyDuration},
			{"Experiment.AvgGenerationsPerTrial", trials, "float64(len(recv.Trials[*].Generations))", 0},
			{"Trial.AvgEpochDuration", "recv.Generations", "recv.Generations[*].Duration", emptyDuration},
			{"Experiment.SuccessRate", trials, "", 0},
		} {
			fn := p.Func(PkgE, m.fn)
			r.Fn(FuncName(fn))
			tm := NewTermer(fn)
			var why []string
			nQ := 0
			for _, lf := range retLeaves(fn, 0) {
				gs := c19LeafGuards(lf)
				_, isC := lf.Val.(*ssa.Const)
				if isC || c19IsGlobalLoad(lf.Val) {
					if !c19AnyEmpty(tm, gs, m.list) {
						why = append(why, "the empty value "+tm.Of(lf.Val).String()+" is returned on a path on which len("+m.list+")==0 is not established (a non-empty list gets it)")
					}
					if isC && !c19ConstIs(lf.Val, m.empty) {
						why = append(why, fmt.Sprintf("the value for an empty list is %s, not %d", tm.Of(lf.Val), m.empty))
					}
					continue
				}
				b, ok := lf.Val.(*ssa.BinOp)
				if !ok || b.Op != token.QUO {
					why = append(why, "returns "+tm.Of(lf.Val).String()+", which is not total/len("+m.list+")")
					continue
				}
				nQ++
				if !c19AnyNonEmpty(tm, gs, m.list) {
					why = append(why, "divides by the length on a path on which len("+m.list+")!=0 is not established")
				}
				if dt := tm.Of(c19StripConv(b.Y)); !(dt.Op == "len" && len(dt.Args) == 1 && dt.Args[0].String() == m.list) {
					why = append(why, "divides by "+dt.String()+", not by len("+m.list+")")
				}
				if m.add == "" {
					if nt := tm.Of(c19StripConv(b.X)); !(isCallTo(nt, tsFn) && len(nt.Args) == 1 && nt.Args[0].Op == "recv") {
						why = append(why, "the numerator is "+nt.String()+", not TrialsSolved()")
					}
					continue
				}
				mm := m
				l, w := c19SumOver(fn, tm, b.X, c19Sum{List: m.list,
					Want: func(*Termer, *IterPath, ssa.Value) (int, string) { return 1, "" },
					Add: func(tm *Termer, add ssa.Value, iv ssa.Value) bool {
						at := tm.Of(add)
						return strings.NewReplacer(" ", "", "&", "").Replace(at.String()) == mm.add && c19ElemOf(at, mm.list, iv)
					}})
				if w == "" {
					w = c19ReachedUnless(p, fn, tm, l, func(gs []Guard) bool { return c19AnyEmpty(tm, gs, mm.list) })
				}
				if w != "" {
					why = append(why, "the total: "+w)
				}
			}
			if nQ == 0 {
				why = append(why, "no quotient is returned")
			}
			r.Check(len(why) == 0, m.fn+".empty-iff", p.Pos(fn.Pos()), "total/len("+m.list+") where the list is known to be non-empty, the empty value only where len("+m.list+")==0 is established; the total sums every element", m.fn+": "+strings.Join(why, "; "))
		}

		// (d) Trial.WinnerStatistics: -1 only for a trial without generations; otherwise (no cached winner) the generations are scanned
		{
			const gens = "recv.Generations"
			r.Fn(FuncName(wsFn))
			tm := NewTermer(wsFn)
			var why []string
			for k := 0; k < 4; k++ {
				for _, lf := range retLeaves(wsFn, k) {
					if _, isC := lf.Val.(*ssa.Const); isC && c19ConstIs(lf.Val, -1) && !c19AnyEmpty(tm, lf.Guards, gens) {
						why = append(why, fmt.Sprintf("result %d is the -1 of a trial without generations on a path on which len(%s)==0 is not established", k, gens))
					}
				}
			}
			isWG := func(v ssa.Value) bool {
				t := tm.Of(v)
				return t != nil && t.Op == "field" && t.Name == "WinnerGeneration" && len(t.Args) == 1 && t.Args[0].Op == "recv"
			}
			excused := func(gs []Guard) bool {
				if c19AnyEmpty(tm, gs, gens) {
					return true
				}
				for _, g := range gs {
					if GuardNilness(g, isWG) == -1 {
						return true
					}
				}
				return false
			}
			nScan := 0
			for _, l := range Loops(wsFn) {
				if _, ok := c19FullRange(tm, l, gens); !ok {
					continue
				}
				nScan++
				if w := c19ReachedUnless(p, wsFn, tm, l, excused); w != "" {
					why = append(why, w)
				}
			}
			if nScan == 0 {
				why = append(why, "no loop visits the generations from the first on")
			}
			// each result, way by way: the winner's field where a winner is known (the cached one, or the
			// generation the scan found solved), 0 only where the scan found none, -1 only for no generations
			wantF := []string{"WinnerNodes", "WinnerGenes", "WinnerEvals", "Diversity"}
			var whyV []string
			for k := 0; k < 4; k++ {
				for _, lf := range retLeaves(wsFn, k) {
					// (with what is known on the edge over which a tested search result left the scan: c19SentinelGuards)
					lfGuards := c19SentinelGuards(lf.Guards)
					cached, found := false, c19FieldOutcome(tm, lfGuards, "Solved", gens, nil) == 1
					for _, g := range lf.Guards {
						if GuardNilness(g, isWG) == -1 {
							cached = true
						}
					}
					if _, isC := lf.Val.(*ssa.Const); isC {
						switch {
						case cached:
							whyV = append(whyV, fmt.Sprintf("result %d is the constant %s although the cached winner generation is there", k, tm.Of(lf.Val)))
						case found:
							whyV = append(whyV, fmt.Sprintf("result %d is the constant %s although a solved generation was found", k, tm.Of(lf.Val)))
						case c19AnyEmpty(tm, lf.Guards, gens):
							if !c19ConstIs(lf.Val, -1) {
								whyV = append(whyV, fmt.Sprintf("result %d of a trial without generations is %s, not -1", k, tm.Of(lf.Val)))
							}
						default:
							if !c19ConstIs(lf.Val, 0) {
								whyV = append(whyV, fmt.Sprintf("result %d of a trial without a solved generation is %s, not 0", k, tm.Of(lf.Val)))
							}
						}
						continue
					}
					t := tm.Of(lf.Val)
					if t.Op != "field" || t.Name != wantF[k] || len(t.Args) != 1 {
						whyV = append(whyV, fmt.Sprintf("result %d is %s, not the %s of the winner generation", k, t, wantF[k]))
						continue
					}
					base := t.Args[0]
					for base.Op == "un" && base.Name == "&" && len(base.Args) == 1 {
						base = base.Args[0] // the address of the loop's copy of the element
					}
					switch {
					case base.Op == "field" && base.Name == "WinnerGeneration" && len(base.Args) == 1 && base.Args[0].Op == "recv":
						if !cached {
							whyV = append(whyV, fmt.Sprintf("result %d reads the cached winner generation where it is not known to be there", k))
						}
					case c19ElemOf(base, gens, nil) && base.Op == "elem":
						// the generation read is the one whose Solved was seen: the index it is read with is the index of
						// the element tested (for the result of a search, the index it is known to be under the outcomes)
						if len(base.Args) > 1 && base.Args[1].V != nil {
							if c19FieldOutcome(tm, lfGuards, "Solved", gens, c19NarrowIndex(base.Args[1].V, c19LeafGuards(lf))) != 1 {
								found = false
							}
						}
						if !found {
							whyV = append(whyV, fmt.Sprintf("result %d is taken from a generation that was not found solved", k))
						}
					default:
						whyV = append(whyV, fmt.Sprintf("result %d is %s, not a field of the winner generation", k, t))
					}
				}
			}
			r.Check(len(whyV) == 0, "Trial.WinnerStatistics.values", p.Pos(wsFn.Pos()), "each result is the winner generation's field where a winner is known, 0 only where the scan found none, -1 only without generations", "Trial.WinnerStatistics: "+strings.Join(whyV, "; "))
			r.Check(len(why) == 0, "Trial.WinnerStatistics.empty-iff", p.Pos(wsFn.Pos()), "-1 only where len(Generations)==0 is established; without a cached winner every trial with generations is scanned from the first generation on", "Trial.WinnerStatistics: "+strings.Join(why, "; "))
		}
	})

	r.Rule("C19.9", "a series element is left at 0 exactly when its statistic is undefined: in every per-trial / per-generation series the store of element i is executed in exactly those iterations in which the value can be computed for element i (no pointer on the way to it is nil, the best-organism lookup found one, the complexity is not the math.MaxInt sentinel), every pointer field the value is read through that the package itself compares with nil somewhere is known to be non-nil where the store executes, the loop visits every element and is not left early. If a store is skipped for a defined value the series reports 0 for that trial/generation; if it is executed for an undefined one the accessor panics", func() {
		n := 0
		nillable := c19NillableFields(p)
		r.Floor("pointer fields the package compares with nil", len(nillable), 2)
		for _, e := range []struct{ fn, list string }{
			{"Experiment.BestFitness", "recv.Trials"}, {"Experiment.BestSpeciesAge", "recv.Trials"}, {"Experiment.BestComplexity", "recv.Trials"},
			{"Experiment.AvgDiversity", "recv.Trials"}, {"Experiment.EpochsPerTrial", "recv.Trials"},
			{"Trial.ChampionsFitness", "recv.Generations"}, {"Trial.ChampionSpeciesAges", "recv.Generations"}, {"Trial.ChampionsComplexities", "recv.Generations"},
			{"Trial.Diversity", "recv.Generations"}, {"Trial.Average", "recv.Generations"},
		} {
			fn := p.Func(PkgE, e.fn)
			r.Fn(FuncName(fn))
			tm := NewTermer(fn)
			var why []string
			k := 0
			Instrs(fn, func(_ *ssa.BasicBlock, _ int, in ssa.Instruction) {
				st, ok := in.(*ssa.Store)
				if !ok {
					return
				}
				ia, ok := st.Addr.(*ssa.IndexAddr)
				if !ok {
					return
				}
				base := ia.X
				if ct, isCT := base.(*ssa.ChangeType); isCT {
					base = ct.X
				}
				if _, isMk := base.(*ssa.MakeSlice); !isMk {
					return
				}
				k++
				if w := c19StoredWhenDefined(fn, tm, st, e.list, nillable); w != "" {
					why = append(why, w)
				}
			})
			if k == 0 {
				// the series is built by appending one value per element instead (robust_c19.go, c19AppendSeries)
				as, w := c19AppendSeries(fn, tm, 0, e.list)
				if as == nil {
					why = append(why, "no element store, and the result is not a series appended element by element: "+w)
				} else {
					k++
					if w := c19AppendedWhenDefined(tm, as, nillable); w != "" {
						why = append(why, w)
					}
				}
			}
			n += k
			r.Check(len(why) == 0 && k > 0, e.fn+".stored-iff-defined", p.Pos(fn.Pos()), "element i is stored in exactly the iterations in which its statistic is defined; every element of "+e.list+" is visited",
				fmt.Sprintf("%s (%d element stores): %s", e.fn, k, strings.Join(why, "; ")))
		}
		r.Floor("element stores of the series accessors", n, 10)
	})

	r.Rule("C19.10", "the best organism of a trial is the fittest champion of the generations asked for: Trial.BestOrganism collects, by a loop over every recorded generation, the champion (where one was recorded) of each generation (onlySolvers false) or of exactly the generations with Solved (onlySolvers true) into a slice that starts empty, reports (nil,false) only where that slice is empty, and otherwise sorts it in descending order (sort.Reverse) and returns its first element with true. If a generation is left out, or the emptiness test or the index is off, the per-trial best fitness / age / complexity series are not those of the fittest recorded champion", func() {
		const gens = "recv.Generations"
		fn := p.Func(PkgE, "Trial.BestOrganism")
		r.Fn(FuncName(fn))
		tm := NewTermer(fn)
		pos := p.Pos(fn.Pos())
		// the collection: what a non-nil first result is an element of
		var coll ssa.Value
		type elemLeaf struct {
			lf  retLeaf
			ia  *ssa.IndexAddr
			use ssa.Instruction
		}
		var elems []elemLeaf
		var nils []retLeaf
		var whyR []string
		for _, lf := range retLeaves(fn, 0) {
			if c, isC := lf.Val.(*ssa.Const); isC && c.Value == nil {
				nils = append(nils, lf)
				continue
			}
			ld, ok := lf.Val.(*ssa.UnOp)
			var ia *ssa.IndexAddr
			if ok && ld.Op == token.MUL {
				ia, _ = ld.X.(*ssa.IndexAddr)
			}
			if ia == nil {
				whyR = append(whyR, "returns "+tm.Of(lf.Val).String()+", which is not an element of the collected champions")
				continue
			}
			elems = append(elems, elemLeaf{lf, ia, ld})
			if coll == nil {
				coll = ia.X
			}
		}
		if coll == nil {
			r.Bad("Trial.BestOrganism.collects", pos, "no result is an element of a collected slice: "+strings.Join(whyR, "; "))
			return
		}
		web := phiWeb(coll)
		inWeb := func(v ssa.Value) bool {
			for {
				if ct, ok := v.(*ssa.ChangeType); ok {
					v = ct.X
					continue
				}
				break
			}
			if v == coll {
				return true
			}
			ph, ok := v.(*ssa.Phi)
			return ok && web.Phis[ph]
		}
		isLen := func(v ssa.Value) bool {
			c, ok := c19IsBuiltinCall(v, "len")
			return ok && len(c.Call.Args) == 1 && inWeb(c.Call.Args[0])
		}
		// (1) how it is collected
		why := ""
		var l *Loop
		var hp *ssa.Phi
		for ph := range web.Phis {
			for _, cand := range Loops(fn) {
				if cand.Header == ph.Block() {
					if hp != nil && hp != ph {
						why = "the collection is carried by more than one loop"
					}
					hp, l = ph, cand
				}
			}
		}
		var iv ssa.Value
		if why == "" && hp == nil {
			why = "the collection is not built by a loop"
		}
		if why == "" {
			for _, f := range web.Feeders {
				in, _ := f.(ssa.Instruction)
				if mk, isMk := f.(*ssa.MakeSlice); isMk {
					if !c19ConstIs(mk.Len, 0) || l.Blocks[mk.Block()] {
						why = "the collection does not start as an empty slice made before the loop"
					}
					continue
				}
				if _, isApp := c19IsBuiltinCall(f, "append"); isApp && in != nil && l.Blocks[in.Block()] {
					continue
				}
				why = "the collection also receives " + tm.Of(f).String()
			}
			if web.HasNil || len(web.Consts) > 0 {
				// a nil slice is an empty slice as well
			}
		}
		if why == "" {
			var ok bool
			if iv, ok = c19FullRange(tm, l, gens); !ok {
				why = "the collecting loop does not visit every element of " + gens
			}
		}
		if why == "" {
			why = c19ReachedUnless(p, fn, tm, l, func(gs []Guard) bool { return c19AnyEmpty(tm, gs, gens) })
		}
		if why == "" {
			paths, complete := EnumIterPaths(fn, l, 512)
			if !complete {
				why = "too many paths through one iteration"
			}
			var only ssa.Value
			if len(fn.Params) > 1 {
				only = fn.Params[1]
			}
			for _, ip := range paths {
				if why != "" {
					break
				}
				if ip.End != "back" {
					if !(len(ip.Blocks) == 2 && ip.Blocks[0] == l.Header) {
						why = "an iteration leaves the loop from its body: the generations after it are not collected"
					}
					continue
				}
				os := 0
				for _, g := range ip.Conds {
					cond, out := g.Cond, g.True
					for {
						if u, isU := cond.(*ssa.UnOp); isU && u.Op == token.NOT {
							cond, out = u.X, !out
							continue
						}
						break
					}
					if cond == only && only != nil {
						if out {
							os = 1
						} else {
							os = -1
						}
					}
				}
				sv := c19FieldOutcome(tm, ip.Conds, "Solved", gens, iv)
				want := -1
				// a generation recorded without champion has nothing to collect (rule C19.11 requires the test)
				noChamp := false
				for _, g := range ip.Conds {
					if GuardNilness(g, func(x ssa.Value) bool {
						t := tm.Of(x)
						return t != nil && t.Op == "field" && t.Name == "Champion" && c19ElemOf(t, gens, iv)
					}) == 1 {
						noChamp = true
					}
				}
				switch {
				case noChamp:
					want = 0
				case os == -1, sv == 1:
					want = 1 // every champion is wanted / a solved generation's champion is wanted in both modes
				case os == 1 && sv == -1:
					want = 0
				}
				if want < 0 {
					why = "an iteration does not decide by onlySolvers and the generation's Solved whether the champion is collected"
					break
				}
				added, ok := c19AppendsOnPath(ip, hp)
				if !ok {
					why = "an iteration changes the collection otherwise than by append"
					break
				}
				if len(added) != want {
					why = fmt.Sprintf("an iteration in which %d champion is to be collected appends %d (onlySolvers=%d, Solved=%d; +1 true, -1 false, 0 not tested)", want, len(added), os, sv)
					break
				}
				for _, a := range added {
					at := tm.Of(a)
					if c19Strip(at) != "recv.Generations[*].Champion" || !c19ElemOf(at, gens, iv) {
						why = "an iteration collects " + at.String() + ", not the champion of the generation visited"
					}
				}
			}
		}
		r.Check(why == "", "Trial.BestOrganism.collects", pos, "the champion of every generation (or of exactly the solved ones when onlySolvers) is appended to a slice that starts empty", "Trial.BestOrganism: "+why)

		// (2) what is returned
		for _, lf := range nils {
			z := false
			for _, g := range lf.Guards {
				if zero, _ := c19NatFact(g, isLen); zero {
					z = true
				}
			}
			if !z {
				whyR = append(whyR, "nil is returned on a path on which the collection is not known to be empty")
			}
		}
		for _, e := range elems {
			if !inWeb(e.ia.X) {
				whyR = append(whyR, "the organism returned is not an element of the collection")
				continue
			}
			if !c19ConstIs(e.ia.Index, 0) {
				whyR = append(whyR, "the organism returned is element "+tm.Of(e.ia.Index).String()+" of the sorted collection, not the first")
			}
			nz := false
			for _, g := range c19LeafGuards(e.lf) {
				if _, n := c19NatFact(g, isLen); n {
					nz = true
				}
			}
			if !nz {
				whyR = append(whyR, "the first element is read on a path on which the collection is not known to be non-empty")
			}
			// sorted in descending order before the read
			sorted := false
			Instrs(fn, func(b *ssa.BasicBlock, i int, in ssa.Instruction) {
				c, ok := in.(*ssa.Call)
				if !ok {
					return
				}
				if n, _ := calleeName(c.Common()); n != "sort.Sort" && n != "sort.Stable" {
					return
				}
				rv, ok := c.Call.Args[0].(*ssa.Call)
				if !ok {
					return
				}
				if n, _ := calleeName(rv.Common()); n != "sort.Reverse" {
					return
				}
				mi, ok := rv.Call.Args[0].(*ssa.MakeInterface)
				if !ok || !inWeb(mi.X) {
					return
				}
				ub := e.use.Block()
				if (b == ub && i < instrIndex(e.use)) || (b != ub && b.Dominates(ub)) {
					sorted = true
				}
			})
			if !sorted {
				whyR = append(whyR, "no sort.Sort(sort.Reverse(collection)) dominates the read of the first element")
			}
		}
		for _, lf := range retLeaves(fn, 1) {
			zero, nonZero := false, false
			for _, g := range lf.Guards {
				z, n := c19NatFact(g, isLen)
				zero, nonZero = zero || z, nonZero || n
			}
			switch {
			case IsConstBool(lf.Val, true):
				if !nonZero {
					whyR = append(whyR, "true is reported on a path on which the collection is not known to be non-empty")
				}
			case IsConstBool(lf.Val, false):
				if !zero {
					whyR = append(whyR, "false is reported on a path on which the collection is not known to be empty")
				}
			default:
				whyR = append(whyR, "the found flag is "+tm.Of(lf.Val).String())
			}
		}
		r.Check(len(whyR) == 0 && len(elems) > 0, "Trial.BestOrganism.result", pos, "(first element of the collection sorted in descending order, true) where it is non-empty, (nil, false) exactly where it is empty", "Trial.BestOrganism: "+strings.Join(whyR, "; "))
	})

	r.Rule("C19.4", "aggregates as origins: success rate, solved counts, epochs per trial, diversity and best organism are computed from the recorded generations as defined", func() {
		type agg struct {
			fn    string
			check func(fn *ssa.Function, tm *Termer) (bool, string)
		}
		retTerms := func(fn *ssa.Function, tm *Termer, i int) []*Term {
			var out []*Term
			for _, b := range fn.Blocks {
				if ret, ok := b.Instrs[len(b.Instrs)-1].(*ssa.Return); ok && i < len(ret.Results) {
					out = append(out, tm.Of(ret.Results[i]))
				}
			}
			return out
		}
		elemValue := func(fn *ssa.Function, tm *Termer, list string) (out []*Term) {
			defer func() {
				if len(out) > 0 {
					return
				}
				// no element store: a series built by appending one value per element of the list (c19AppendSeries);
				// its elements are the values appended (a 0 appended is an element left at 0: C19.9 decides when)
				if as, _ := c19AppendSeries(fn, tm, 0, list); as != nil {
					for _, e := range as.Elems {
						if e.Zero {
							continue
						}
						for _, a := range c19ValueAlts(tm, e.Val) {
							out = append(out, a.T)
						}
					}
				}
			}()
			Instrs(fn, func(_ *ssa.BasicBlock, _ int, in ssa.Instruction) {
				if st, ok := in.(*ssa.Store); ok {
					if ia, ok := st.Addr.(*ssa.IndexAddr); ok {
						base := ia.X
						if ct, isCT := base.(*ssa.ChangeType); isCT {
							base = ct.X
						}
						if _, isMk := base.(*ssa.MakeSlice); isMk {
							// (a value produced by a function literal bound at an inlined call site is what the literal returns)
							for _, a := range c19ValueAlts(tm, st.Val) {
								out = append(out, a.T)
							}
						}
					}
				}
			})
			return out
		}
		aggs := []agg{
			{"Experiment.SuccessRate", func(fn *ssa.Function, tm *Termer) (bool, string) {
				for _, t := range retTerms(fn, tm, 0) {
					s := t.String()
					if s == "0" {
						continue
					}
					if !(t.Op == "bin" && t.Name == "/" && strings.Contains(t.Args[0].String(), "Experiment.TrialsSolved(recv)") && strings.Contains(t.Args[1].String(), "len(recv.Trials)")) {
						return false, "success rate is " + s + ", expected TrialsSolved()/len(Trials)"
					}
				}
				return true, "TrialsSolved()/len(Trials), 0 for no trials"
			}},
			{"Experiment.TrialsSolved", func(fn *ssa.Function, tm *Termer) (bool, string) {
				// count++ exactly in the block guarded by t.Solved()
				solved := p.Func(PkgE, "Trial.Solved")
				ok := false
				Instrs(fn, func(b *ssa.BasicBlock, _ int, in ssa.Instruction) {
					if bo, isB := in.(*ssa.BinOp); isB && bo.Op.String() == "+" && tm.Of(bo.Y).String() == "1" {
						if _, isPhi := bo.X.(*ssa.Phi); isPhi && tm.Of(bo.X).Has(func(x *Term) bool { return x.String() == "0" }) {
							for _, g := range Guards(b) {
								if gt := tm.Of(g.Cond); isCallTo(gt, solved) && g.True && strings.Contains(gt.Args[0].String(), "recv.Trials[*]") {
									ok = true
								}
							}
						}
					}
				})
				if !ok {
					return false, "the solved-trial counter is not incremented exactly under t.Solved() for t ranging over Trials"
				}
				// what is returned is this counter on every path: a result that comes from anywhere else
				// (a remembered count, a field) is not recomputed from the recorded trials
				if why := c19CounterReturns(fn, tm, "recv.Trials"); why != "" {
					return false, why
				}
				return true, "counts trials with Solved() and returns the count on every path"
			}},
			{"Trial.Solved", func(fn *ssa.Function, tm *Termer) (bool, string) {
				// every way the result is produced (a returned constant, a merged value edge by edge, or the comparison
				// `i >= 0` of a search result alternative by alternative: c19BoolLeaves)
				okT, okF := false, false
				for _, lf := range c19BoolLeaves(fn, 0) {
					switch {
					case IsConstBool(lf.Val, true):
						just := false
						for _, g := range lf.Guards {
							if gt := tm.Of(g.Cond); gt.Op == "field" && gt.Name == "Solved" && g.True && strings.Contains(gt.String(), "recv.Generations[*]") {
								just = true
							}
						}
						if !just {
							return false, "Solved returns true where no generation was found solved"
						}
						okT = true
					case IsConstBool(lf.Val, false):
						okF = true
					default:
						return false, "Solved returns " + tm.Of(lf.Val).String()
					}
				}
				if !okT || !okF {
					return false, "Solved is not `true iff some generation is solved`"
				}
				return true, "true iff some generation has Solved"
			}},
			{"Experiment.EpochsPerTrial", func(fn *ssa.Function, tm *Termer) (bool, string) {
				vs := elemValue(fn, tm, "recv.Trials")
				for _, v := range vs {
					if !(strings.Contains(v.String(), "len(&recv.Trials[*].Generations)")) {
						return false, "element is " + v.String() + ", expected len(trial.Generations)"
					}
				}
				return len(vs) > 0, "x[i] = len(trial.Generations)"
			}},
			{"Trial.Diversity", func(fn *ssa.Function, tm *Termer) (bool, string) {
				vs := elemValue(fn, tm, "recv.Generations")
				for _, v := range vs {
					if !(strings.Contains(v.String(), "recv.Generations[*].Diversity")) {
						return false, "element is " + v.String() + ", expected generation.Diversity"
					}
				}
				return len(vs) > 0, "x[i] = generation.Diversity"
			}},
			{"Experiment.AvgDiversity", func(fn *ssa.Function, tm *Termer) (bool, string) {
				vs := elemValue(fn, tm, "recv.Trials")
				for _, v := range vs {
					if v.String() != "Floats.Mean(Trial.Diversity(&recv.Trials[*]))" {
						return false, "element is " + v.String() + ", expected trial.Diversity().Mean()"
					}
				}
				return len(vs) > 0, "x[i] = trial.Diversity().Mean()"
			}},
			{"Trial.BestOrganism", func(fn *ssa.Function, tm *Termer) (bool, string) {
				// the sorted collection is a fresh slice, not the trial's records
				sorts := CallsNamed(fn, "sort.Sort")
				if len(sorts) == 0 {
					return false, "no sort"
				}
				for _, c := range sorts {
					a := tm.Of(c.Common().Args[0])
					if a.Has(func(x *Term) bool { return x.Op == "field" && x.Name == "Generations" && x == a.Root() }) {
						return false, "sorts the trial's own records"
					}
					if !a.Has(func(x *Term) bool { return x.Op == "make" }) {
						return false, "sorted collection " + a.String() + " is not a fresh slice"
					}
				}
				return true, "best organism chosen by sorting a fresh slice of champions"
			}},
			{"Experiment.BestFitness", func(fn *ssa.Function, tm *Termer) (bool, string) {
				vs := elemValue(fn, tm, "recv.Trials")
				for _, v := range vs {
					if !(v.Op == "field" && v.Name == "Fitness" && strings.Contains(v.String(), "Trial.BestOrganism(&recv.Trials[*],false)#0")) {
						return false, "element is " + v.String() + ", expected trial.BestOrganism(false).Fitness"
					}
				}
				return len(vs) > 0, "x[i] = best organism's fitness"
			}},
		}
		for _, a := range aggs {
			fn := p.Func(PkgE, a.fn)
			r.Fn(FuncName(fn))
			ok, why := a.check(fn, NewTermer(fn))
			r.Check(ok, a.fn, p.Pos(fn.Pos()), why, why)
		}
	})
	c19NilChampion(p, r)
}

// constVal returns the exact string of an external package constant, or def
// when the package's scope is not available.
func (p *Prog) constVal(pkg, name, def string) string {
	for _, sp := range p.SSA.AllPackages() {
		if sp.Pkg.Path() == pkg {
			if c, ok := sp.Pkg.Scope().Lookup(name).(interface{ Val() constant.Value }); ok {
				return c.Val().ExactString()
			}
		}
	}
	return def
}
