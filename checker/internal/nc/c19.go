package nc

import (
	"fmt"
	"go/constant"
	"go/token"
	"go/types"
	"strings"

	"golang.org/x/tools/go/ssa"
)

func init() { register("C19", C19) }

type floatsSpec struct {
	method string
	callee string // external function rendered by calleeName
	level  string // quantile level, "" otherwise
	guard  bool   // must return NaN on the empty series
}

var floatsTable = []floatsSpec{
	{"Min", "floats.Min", "", true},
	{"Max", "floats.Max", "", true},
	{"Sum", "floats.Sum", "", false},
	{"Mean", "stat.Mean", "", true},
	{"MeanVariance", "stat.MeanVariance", "", true},
	{"Median", "stat.Quantile", "0.5", true},
	{"Q25", "stat.Quantile", "0.25", true},
	{"Q75", "stat.Quantile", "0.75", true},
	{"Variance", "stat.Variance", "", true},
	{"StdDev", "stat.StdDev", "", true},
}

// lenIsZeroGuard: g establishes len(v)==0 (want=true) or len(v)!=0 (want=false).
func lenGuard(tm *Termer, g Guard, of string) (empty bool, ok bool) {
	t := tm.Of(g.Cond)
	if t.Op != "bin" {
		return false, false
	}
	l, k, op := t.Args[0], t.Args[1], t.Name
	if l.Op != "len" {
		l, k = k, l
		switch op {
		case "<":
			op = ">"
		case ">":
			op = "<"
		case "<=":
			op = ">="
		case ">=":
			op = "<="
		}
	}
	if l.Op != "len" || l.Args[0].String() != of || k.String() != "0" {
		return false, false
	}
	switch op {
	case "==":
		return g.True, true
	case "!=", ">":
		return !g.True, true
	case "<=":
		return g.True, true
	}
	return false, false
}

// sortedOrigin decides whether the slice value v is sorted when used at `use`:
// a sort call on the same value dominates the use, or v is the result of a
// repository function that returns a slice it sorted.
func (r *Run) sortedOrigin(fn *ssa.Function, v ssa.Value, use ssa.Instruction, depth int) (bool, string) {
	v = stripPtr(v)
	if ct, ok := v.(*ssa.ChangeType); ok {
		v = ct.X
	}
	isSortCall := func(in ssa.Instruction, on ssa.Value) bool {
		c, ok := in.(ssa.CallInstruction)
		if !ok {
			return false
		}
		n, _ := calleeName(c.Common())
		switch n {
		case "sort.Float64s", "slices.Sort", "sort.Sort", "sort.Stable":
			for _, a := range c.Common().Args {
				a = stripPtr(a)
				if ct, ok := a.(*ssa.ChangeType); ok {
					a = ct.X
				}
				if a == on {
					return true
				}
			}
		}
		return false
	}
	// (a) sorted in this function before the use
	found := false
	Instrs(fn, func(b *ssa.BasicBlock, i int, in ssa.Instruction) {
		if isSortCall(in, v) {
			ub := use.Block()
			if (b == ub && i < instrIndex(use)) || (b != ub && b.Dominates(ub)) {
				found = true
			}
		}
	})
	if found {
		return true, "a sort call on the same slice dominates the use"
	}
	// (b) result of a repository function that sorts what it returns
	if c, ok := v.(*ssa.Call); ok && depth < 3 {
		callee := c.Call.StaticCallee()
		if callee != nil && callee.Blocks != nil && InRepo(callee) {
			all := true
			nret := 0
			for _, b := range callee.Blocks {
				if ret, ok := b.Instrs[len(b.Instrs)-1].(*ssa.Return); ok {
					nret++
					if s, _ := r.sortedOrigin(callee, ret.Results[0], ret, depth+1); !s {
						all = false
					}
				}
			}
			if all && nret > 0 {
				return true, "returned by " + callee.Name() + ", which sorts the slice it returns"
			}
		}
	}
	return false, "no sort call on this slice dominates the use"
}

// C19 — result statistics.
func C19(p *Prog, r *Run) {
	r.Explanation = "Decided: (1) every Floats method except Sum returns math.NaN() (both elements for MeanVariance) on the path where len(x)==0 and that test dominates every gonum call of the method (a method built only from other accessors of the type, which are NaN there themselves, needs no test of its own); (2) gonum preconditions, keyed by the library function: stat.Quantile gets a constant level in [0,1], the Empirical kind, nil weights and a slice on which a sort call dominates the use (a sorted copy), floats.Min/Max never see an empty slice; (3) on every path for a non-empty series each method returns the quantity of its definition (Mean→stat.Mean, …, Median/Q25/Q75→Quantile 0.5/0.25/0.75), applied to the series itself without weights, written either as the canonical gonum call or as an expression that gonum v0.14.0 defines to be the same value (stat.Variance = second result of stat.MeanVariance, stat.StdDev = second result of stat.MeanStdDev = math.Sqrt of the variance, stat.Mean = first result of MeanVariance/MeanStdDev = floats.Sum/float64(len), floats.Min = x[floats.MinIdx(x)], another accessor of the type for its own quantity; table with reasons in robust_c19.go), the population variants (divide by n) and hand-written loops are not accepted; (4) the experiment/trial aggregates are built from the recorded generations as their definitions say (success rate = solved/len, solved = any generation solved, epochs per trial = len(Generations), diversity, best organism chosen on a fresh slice; the solved count is the loop counter on every return, never a remembered value); (5) the complexity of an organism is Complexity() of the network returned by its Phenotype(), asked only when Phenotype() reported no error, with the math.MaxInt sentinel confined to a missing organism/champion or a failed phenotype. Results are followed through phi nodes edge by edge, so an early return and a single return of a merged value are the same to the rules; a quantile level may be a parameter of an unexported helper when every call in the repository passes a constant in [0,1]. A fixed-size result slice that is filled branch by branch and returned once is read path by path (the elements stored last on each acyclic path, under the branch outcomes of that path). A series element produced by a capture-free function literal that an inlined helper received as its function-valued argument is what the literal returns for these arguments; a path of the literal returning the constant 0 counts as leaving the freshly made element untouched when the store is the only writer of the slice and writes each element at most once. Not decided: gonum's numerics; full recomputation equalities."
	r.Rule("C19.1", "empty guard: each Floats method except Sum returns NaN when len(x)==0, and the emptiness test dominates the library call", func() {
		n := 0
		for _, sp := range floatsTable {
			fn := p.Func(PkgE, "Floats."+sp.method)
			r.Fn(FuncName(fn))
			tm := NewTermer(fn)
			q := c19Quant{p: p, self: sp.method}
			// the library calls of the method: whatever gonum function it uses (C19.3 decides whether it is the
			// right one), each has a precondition or an undefined result on the empty series
			calls := c19GonumCalls(fn)
			if !sp.guard {
				r.OK("Floats."+sp.method, p.Pos(fn.Pos()), "no guard required (the library returns 0 for an empty sum)")
				n++
				continue
			}
			for _, c := range calls {
				r.CallSites++
				guarded := false
				for _, g := range Guards(c.Block()) {
					if empty, ok := lenGuard(tm, g, "recv"); ok && !empty {
						guarded = true
					}
				}
				cn, _ := calleeName(c.Common())
				r.Check(guarded, "Floats."+sp.method+".guard", p.Pos(c.Pos()), "the library call is reached only when len(x) != 0",
					"the call of "+cn+" is not dominated by a len(x)==0 test: an empty series reaches the library (panic or undefined result instead of NaN)")
			}
			if len(calls) == 0 {
				r.OK("Floats."+sp.method+".guard", p.Pos(fn.Pos()), "the method calls no library function itself (C19.3 decides what it is built from)")
			}
			// NaN on the empty path: every way the result is produced under len(x)==0 - a return in the
			// guarded block, or a value that reaches a merged return over an edge on which len(x)==0 holds
			nan, delegated := 0, 0
			leaves := retLeaves(fn, 0)
			if sp.method == "MeanVariance" {
				leaves = c19ExpandPairs(fn, leaves, 2)
			}
			for _, lf := range leaves {
				if !c19OnEmpty(tm, lf, "recv") {
					// produced without a test of the length at all: NaN on the empty series when it is built
					// from accessors that are NaN there themselves
					if len(lf.Guards) == 0 && q.nanOnEmpty(tm.Of(lf.Val)) {
						delegated++
					}
					continue
				}
				rt := tm.Of(lf.Val)
				okRet := rt.String() == "math.NaN()"
				if sp.method == "MeanVariance" {
					// the pair {NaN, NaN}: both elements of the returned fresh slice are results of math.NaN()
					// (filled once, or branch by branch: then this is the path on which len(x)==0)
					okRet = len(lf.Els) == 2 && tm.Of(lf.Els[0]).String() == "math.NaN()" && tm.Of(lf.Els[1]).String() == "math.NaN()"
				}
				r.Check(okRet, "Floats."+sp.method+".nan", p.Pos(lf.Ret.Pos()), "returns NaN for an empty series", fmt.Sprintf("the empty-series path returns %s, expected NaN", rt))
				nan++
			}
			if nan == 0 {
				if delegated > 0 && delegated == len(leaves) {
					r.OK("Floats."+sp.method+".nan", p.Pos(fn.Pos()), "NaN for an empty series through the accessors it is built from")
				} else {
					r.Bad("Floats."+sp.method+".nan", p.Pos(fn.Pos()), "no return under len(x)==0: an empty series does not yield NaN")
				}
			}
			n++
		}
		r.Floor("Floats methods", n, 10)
	})

	r.Rule("C19.2", "library preconditions: stat.Quantile gets a constant level in [0,1], Empirical kind, nil weights and a sorted slice (a sort call dominates the use)", func() {
		n := 0
		for _, fn := range p.SrcFuncs() {
			if fn.Pkg == nil || fn.Pkg.Pkg.Path() != PkgE {
				continue
			}
			for _, c := range CallsNamed(fn, "stat.Quantile") {
				n++
				r.CallSites++
				args := c.Common().Args
				// the level is a constant, possibly handed down through the parameter of an unexported
				// helper: then every call of the helper in the repository passes a constant in [0,1]
				lvs, okLv := constFloatsOf(p, fn, args[0], 0)
				for _, f := range lvs {
					if !(f >= 0 && f <= 1) {
						okLv = false
					}
				}
				label := FuncName(fn) + ".Quantile"
				r.Check(okLv, label+".level", p.Pos(c.Pos()), "constant level in [0,1]", "the quantile level is not a constant in [0,1]")
				kind, isK := args[1].(*ssa.Const)
				okKind := isK && kind.Value != nil && kind.Value.ExactString() == p.constVal("gonum.org/v1/gonum/stat", "Empirical", "1")
				r.Check(okKind, label+".kind", p.Pos(c.Pos()), "empirical quantile kind", "the quantile kind is not stat.Empirical")
				sorted, why := r.sortedOrigin(fn, args[2], c, 0)
				r.Check(sorted, label+".sorted", p.Pos(c.Pos()), "sorted input: "+why, "stat.Quantile requires sorted data and panics otherwise; here "+why)
				w := NewTermer(fn).Of(args[3])
				r.Check(w.Op == "nil", label+".weights", p.Pos(c.Pos()), "nil weights", "weights are "+w.String())
			}
		}
		r.Floor("stat.Quantile call sites", n, 3)
	})

	r.Rule("C19.3", "right callee: each Floats method returns, for a non-empty series, the result of the library function its definition names or an expression the library defines to be that result", func() {
		for _, sp := range floatsTable {
			fn := p.Func(PkgE, "Floats."+sp.method)
			tm := NewTermer(fn)
			q := c19Quant{p: p, self: sp.method}
			// every way the method produces its result for a non-empty series is the quantity of its definition,
			// written as one of the expressions of the equivalence table (robust_c19.go)
			nOK := 0
			var bad []string
			var shown string
			pos := p.Pos(fn.Pos())
			leaves := retLeaves(fn, 0)
			if sp.method == "MeanVariance" {
				leaves = c19ExpandPairs(fn, leaves, 2)
			}
			for _, lf := range leaves {
				if sp.guard && c19OnEmpty(tm, lf, "recv") {
					continue // the empty series: C19.1
				}
				t := tm.Of(lf.Val)
				ok := false
				switch {
				case sp.level != "":
					// stat.Quantile(level, ...): kind, sorted input and weights are the obligations of C19.2
					if a, isQ := q.lib(t, c19PkgStat, "Quantile"); isQ && len(a) == 4 {
						if ok = a[0].String() == sp.level; !ok {
							bad = append(bad, "quantile level "+a[0].String()+", expected "+sp.level)
							continue
						}
					}
				case sp.method == "MeanVariance":
					if len(lf.Els) == 2 {
						e0, e1 := tm.Of(lf.Els[0]), tm.Of(lf.Els[1])
						ok = q.Is("Mean", e0) && q.Is("Variance", e1)
						t = &Term{Op: "call", Name: "pair", Args: []*Term{e0, e1}}
					}
				default:
					ok = q.Is(sp.method, t)
				}
				if ok {
					nOK++
					shown = t.String()
					if in, isIn := lf.Val.(ssa.Instruction); isIn && in.Pos().IsValid() {
						pos = p.Pos(in.Pos())
					}
				} else {
					bad = append(bad, "returns "+t.String()+", which is not "+sp.callee+" of the series (nor an expression defined to be the same quantity)")
				}
			}
			if nOK == 0 && len(bad) == 0 {
				bad = append(bad, "no result for a non-empty series")
			}
			r.Check(len(bad) == 0, "Floats."+sp.method+".callee", pos, sp.method+" = "+shown, sp.method+": "+strings.Join(bad, "; "))
		}
	})

	r.Rule("C19.5", "averages divide in floating point: no statistic converts the result of an integer division; winner averages are float(total)/float(count) over the solved trials", func() {
		n := 0
		for _, fn := range p.SrcFuncs() {
			if fn.Pkg == nil || fn.Pkg.Pkg.Path() != PkgE {
				for pf := fn; pf != nil; pf = pf.Parent() {
					if pf.Pkg != nil && pf.Pkg.Pkg.Path() == PkgE {
						goto inPkg
					}
				}
				continue
			}
		inPkg:
			Instrs(fn, func(_ *ssa.BasicBlock, _ int, in ssa.Instruction) {
				cv, ok := in.(*ssa.Convert)
				if !ok {
					return
				}
				bt, ok := cv.Type().Underlying().(*types.Basic)
				if !ok || bt.Info()&types.IsFloat == 0 {
					return
				}
				n++
				if b, ok := cv.X.(*ssa.BinOp); ok && b.Op == token.QUO {
					if xb, ok := b.X.Type().Underlying().(*types.Basic); ok && xb.Info()&types.IsInteger != 0 {
						r.Bad("integer-division:"+fn.Name(), p.Pos(cv.Pos()), "in "+FuncName(fn)+" a quotient of two integers is converted to float: the fraction is cut off before the conversion ("+NewTermer(fn).Of(cv).String()+")")
					}
				}
			})
		}
		r.Floor("int-to-float conversions inspected", n, 4)
		aw := p.Func(PkgE, "Experiment.AvgWinnerStatistics")
		r.Fn(FuncName(aw))
		tm := NewTermer(aw)
		okAll, nRes := true, 0
		for _, b := range aw.Blocks {
			ret, ok := b.Instrs[len(b.Instrs)-1].(*ssa.Return)
			if !ok {
				continue
			}
			for _, v := range ret.Results {
				t := tm.Of(v)
				if t.Op == "const" {
					continue
				}
				nRes++
				ok := t.Op == "bin" && t.Name == "/" && t.Args[0].Op == "conv" && t.Args[1].Op == "conv" && t.Args[0].Name == "float64" && t.Args[1].Name == "float64"
				if ok {
					// numerator accumulates a component of WinnerStatistics, denominator counts the solved trials
					num, den := t.Args[0].Args[0], t.Args[1].Args[0]
					ok = strings.Contains(num.String(), "WinnerStatistics") || num.Op == "phi" || num.Op == "loop"
					_ = den
				}
				if !ok {
					okAll = false
				}
			}
		}
		r.Check(okAll && nRes >= 4, "AvgWinnerStatistics.form", p.Pos(aw.Pos()), "each average is float64(total) / float64(count)", "AvgWinnerStatistics does not return float64(total)/float64(count) for each of its four averages")
		// only solved trials contribute
		okSolved := false
		for _, c := range CallsTo(aw, p.Func(PkgE, "Trial.WinnerStatistics")) {
			for _, g := range Guards(c.Block()) {
				if gt := tm.Of(g.Cond); gt.Op == "call" && gt.Name == "Trial.Solved" && g.True {
					okSolved = true
				}
			}
		}
		r.Check(okSolved, "AvgWinnerStatistics.solved-only", p.Pos(aw.Pos()), "only solved trials contribute", "winner statistics are accumulated for trials that are not solved")
	})

	r.Rule("C19.6", "per-trial and per-generation series are element-wise maps of the recorded values: result[i] is the named statistic of element i (best organism's fitness, species age, complexity; champion's fitness, species age, complexity; the generation's three averages in order), the result has one entry per element, and the generation averages are the means of the recorded per-species series", func() {
		type em struct {
			fn, list string
			res      int
			want     string
			// alt: the same value with a pinned helper written out in place. Generation.Average(g)#k is
			// Floats.Mean of g's k-th recorded series by the obligation "Generation.Average" below, so the
			// mean of that series of element i is the same statistic of element i.
			alt string
		}
		table := []em{
			{"Experiment.BestFitness", "recv.Trials", 0, "Trial.BestOrganism(&recv.Trials[*],false)#0.Fitness", ""},
			{"Experiment.BestSpeciesAge", "recv.Trials", 0, "float64(Trial.BestOrganism(&recv.Trials[*],false)#0.Species.Age)", ""},
			{"Experiment.BestComplexity", "recv.Trials", 0, "float64(organismComplexity(Trial.BestOrganism(&recv.Trials[*],false)#0))", ""},
			{"Trial.ChampionsFitness", "recv.Generations", 0, "&recv.Generations[*].Champion.Fitness", ""},
			{"Trial.ChampionSpeciesAges", "recv.Generations", 0, "float64(&recv.Generations[*].Champion.Species.Age)", ""},
			{"Trial.ChampionsComplexities", "recv.Generations", 0, "float64(Generation.ChampionComplexity(&recv.Generations[*]))", ""},
			{"Trial.Average", "recv.Generations", 0, "Generation.Average(&recv.Generations[*])#0", "Floats.Mean(&recv.Generations[*].Fitness)"},
			{"Trial.Average", "recv.Generations", 1, "Generation.Average(&recv.Generations[*])#1", "Floats.Mean(&recv.Generations[*].Age)"},
			{"Trial.Average", "recv.Generations", 2, "Generation.Average(&recv.Generations[*])#2", "Floats.Mean(&recv.Generations[*].Complexity)"},
		}
		isWanted := func(e em, vt *Term) bool {
			got := strings.NewReplacer(" ", "", "&", "").Replace(vt.String())
			if got == strings.ReplaceAll(e.want, "&", "") {
				return true
			}
			if e.alt == "" || got != strings.ReplaceAll(e.alt, "&", "") {
				return false
			}
			// the written-out form names the experiment package's own Floats.Mean
			return isCallTo(vt, p.Func(PkgE, "Floats.Mean"))
		}
		for _, e := range table {
			fn := p.Func(PkgE, e.fn)
			r.Fn(FuncName(fn))
			tm := NewTermer(fn)
			cons := fmt.Sprintf("%s#%d", e.fn, e.res)
			// the returned slice
			var res ssa.Value
			for _, b := range fn.Blocks {
				if ret, ok := b.Instrs[len(b.Instrs)-1].(*ssa.Return); ok && e.res < len(ret.Results) {
					res = ret.Results[e.res]
				}
			}
			for {
				if ct, ok := res.(*ssa.ChangeType); ok {
					res = ct.X
					continue
				}
				break
			}
			ms, ok := res.(*ssa.MakeSlice)
			if !ok {
				r.Bad(cons, p.Pos(fn.Pos()), e.fn+" does not return a freshly made series")
				continue
			}
			okLen := tm.Of(ms.Len).String() == "len("+e.list+")"
			okElem, n := true, 0
			var got []string
			// one store `series[i] = v`: v is the wanted statistic of element i of the list. A value
			// produced by a function literal bound at an inlined call site (a helper with a
			// function-valued parameter) is what the literal returns for these arguments; a path of
			// the literal that returns the constant 0 is the same as not storing (the rule accepts a
			// store under a condition: the element then keeps the 0 of make) provided the store is
			// the only writer of the fresh slice and writes each element at most once.
			checkStore := func(st *ssa.Store, needLoop bool) {
				n++
				ia := st.Addr.(*ssa.IndexAddr)
				nWanted := 0
				for _, a := range c19ValueAlts(tm, st.Val) {
					vt := a.T
					got = append(got, vt.String())
					if a.ZeroLeaf {
						if !(c19OncePerElement(fn, st) && c19OnlyWriter(ms, st)) {
							okElem = false
						}
						continue
					}
					nWanted++
					if !isWanted(e, vt) {
						okElem = false
					}
					// same index on both sides: the element index of the list read equals the index written
					same := false
					vt.Walk(func(x *Term) bool {
						if x.Op == "elem" && x.Args[0].String() == e.list && len(x.Args) > 1 && x.Args[1].V == ia.Index {
							same = true
						}
						return true
					})
					if !same {
						okElem = false
					}
				}
				if nWanted == 0 {
					okElem = false
				}
				if needLoop {
					l := InnermostLoop(Loops(fn), st.Block())
					if l == nil || !loopRangesOver(tm, l, e.list) {
						okElem = false
					}
				}
			}
			for _, st := range elemStoresInto(fn, ms) {
				checkStore(st, true)
			}
			// stores into a named-type slice go through a ChangeType: look there too
			if n == 0 {
				for _, ref := range *ms.Referrers() {
					if ct, ok := ref.(*ssa.ChangeType); ok {
						for _, st := range elemStoresInto(fn, ct) {
							checkStore(st, false)
						}
					}
				}
			}
			r.Check(okLen && okElem && n == 1, cons, p.Pos(fn.Pos()), "series[i] = "+e.want+", one entry per element of "+e.list,
				fmt.Sprintf("%s (result %d): length ok=%v, element stores=%d %v; expected series[i] = %s for every i", e.fn, e.res, okLen, n, got, e.want))
		}
		ga := p.Func(PkgE, "Generation.Average")
		gtm := NewTermer(ga)
		okGA := false
		for _, b := range ga.Blocks {
			if ret, ok := b.Instrs[len(b.Instrs)-1].(*ssa.Return); ok && len(ret.Results) == 3 {
				okGA = gtm.Of(ret.Results[0]).String() == "Floats.Mean(recv.Fitness)" && gtm.Of(ret.Results[1]).String() == "Floats.Mean(recv.Age)" && gtm.Of(ret.Results[2]).String() == "Floats.Mean(recv.Complexity)"
			}
		}
		r.Check(okGA, "Generation.Average", p.Pos(ga.Pos()), "(mean fitness, mean age, mean complexity) of the recorded per-species series", "Generation.Average does not return the means of Fitness, Age and Complexity in this order")
		// winner statistics: the four values come from the same (first solved) generation, field by field
		ws := p.Func(PkgE, "Trial.WinnerStatistics")
		wtm := NewTermer(ws)
		wantF := []string{"WinnerNodes", "WinnerGenes", "WinnerEvals", "Diversity"}
		okWS := false
		for _, b := range ws.Blocks {
			if ret, ok := b.Instrs[len(b.Instrs)-1].(*ssa.Return); ok && len(ret.Results) == 4 {
				okWS = true
				for i, v := range ret.Results {
					for _, a := range wtm.Of(v).Alternatives() {
						if a.Op == "const" {
							continue
						}
						if !(a.Op == "field" && a.Name == wantF[i]) {
							okWS = false
						}
					}
				}
			}
		}
		// the generation picked in the scan is a solved one and the scan stops there
		okSolved := false
		for _, st := range FieldStores(ws, p.Field(PkgE, "Trial", "WinnerGeneration")) {
			for _, g := range Guards(st.Block()) {
				if gt := wtm.Of(g.Cond); gt.Op == "field" && gt.Name == "Solved" && g.True {
					okSolved = true
				}
			}
			if l := scanLoopOf(Loops(ws), st.Block()); l != nil {
				if FindPath(p, PathQuery{Fn: ws, StartAfter: st, FlagBlind: true, Target: func(in ssa.Instruction) bool {
					return in.Block() == l.Header && instrIndex(in) == len(l.Header.Instrs)-1
				}}) != nil {
					okSolved = false
				}
			}
		}
		// the cached winner is a snapshot: Generations implements sort.Interface and is
		// re-ordered in place, so a pointer into its backing array changes its referent
		wg := p.Field(PkgE, "Trial", "WinnerGeneration")
		nW := 0
		for _, fn := range p.SrcFuncs() {
			if fn.Pkg == nil || fn.Pkg.Pkg.Path() != PkgE {
				continue
			}
			for _, st := range FieldStores(fn, wg) {
				nW++
				alias := false
				w := phiWeb(st.Val)
				for _, f := range append(w.Feeders, st.Val) {
					if ia, ok := f.(*ssa.IndexAddr); ok && strings.HasSuffix(NewTermer(fn).Of(ia.X).String(), ".Generations") {
						alias = true
					}
				}
				r.Check(!alias, "WinnerGeneration.snapshot:"+fn.Name(), p.Pos(st.Pos()), "the cached winner is not an element address of the Generations slice", "Trial.WinnerGeneration is set to the address of an element of t.Generations; the list is sorted in place (it implements sort.Interface), after which the cached pointer designates a different generation and the winner statistics no longer equal those recomputed from the records")
			}
		}
		r.Floor("stores to Trial.WinnerGeneration", nW, 1)
		r.Check(okWS && okSolved, "Trial.WinnerStatistics", p.Pos(ws.Pos()), "(nodes, genes, evaluations, diversity) of the first solved generation", fmt.Sprintf("WinnerStatistics: values are the winner fields in order=%v, taken from the first generation reported solved=%v", okWS, okSolved))
	})

	r.Rule("C19.7", "complexity is the phenotype's: the complexity of an organism is Complexity() of the network returned by organism.Phenotype() (the math.MaxInt sentinel only when there is no organism or no phenotype), and a generation's champion complexity is that of its champion", func() {
		oc := p.Func(PkgE, "organismComplexity")
		r.Fn(FuncName(oc))
		tm := NewTermer(oc)
		maxInt := constant.MakeInt64(int64(^uint(0) >> 1)).ExactString()
		isSentinel := func(v ssa.Value) bool {
			c, ok := v.(*ssa.Const)
			return ok && c.Value != nil && c.Value.ExactString() == maxInt
		}
		okAll, nCall := true, 0
		var why []string
		for _, lf := range retLeaves(oc, 0) {
			t := tm.Of(lf.Val)
			if isSentinel(lf.Val) {
				// only for a missing organism or a failed phenotype
				just := false
				for _, g := range lf.Guards {
					if a, b, ok := eqCond(tm, g); ok && ((a.Op == "param" && a.Idx == 0 && b.Op == "nil") || (b.Op == "param" && b.Idx == 0 && a.Op == "nil")) {
						just = true
					}
					if a, b, ok := neqCond(tm, g); ok {
						if b.Op != "nil" {
							a, b = b, a
						}
						if b.Op == "nil" && c19PhenotypeResult(a, 1, func(o *Term) bool { return o.Op == "param" && o.Idx == 0 }) {
							just = true
						}
					}
				}
				if !just {
					okAll = false
					why = append(why, "the sentinel is returned on a path where the organism is present and its phenotype was obtained")
				}
				continue
			}
			if c19IsPhenotypeComplexity(t, func(o *Term) bool { return o.Op == "param" && o.Idx == 0 }) {
				nCall++
				// the network is asked only when Phenotype() reported no error (it is nil otherwise)
				if !c19PhenotypeOK(tm, lf, func(o *Term) bool { return o.Op == "param" && o.Idx == 0 }) {
					okAll = false
					why = append(why, "Complexity() is called on the phenotype without testing the error of Phenotype()")
				}
				continue
			}
			okAll = false
			why = append(why, "returns "+t.String())
		}
		r.Check(okAll && nCall > 0, "organismComplexity", p.Pos(oc.Pos()), "phenotype.Complexity() of organism.Phenotype(); math.MaxInt only for nil organism or failed phenotype",
			"organismComplexity does not return the complexity of the organism's phenotype network: "+strings.Join(why, "; ")+" (the genome and the network differ for modular genomes and for genomes without a phenotype)")

		cc := p.Func(PkgE, "Generation.ChampionComplexity")
		r.Fn(FuncName(cc))
		ctm := NewTermer(cc)
		isChampion := func(o *Term) bool { return o.String() == "recv.Champion" }
		okAll, nCall = true, 0
		why = nil
		for _, lf := range retLeaves(cc, 0) {
			t := ctm.Of(lf.Val)
			if isSentinel(lf.Val) {
				just := false
				for _, g := range lf.Guards {
					if a, b, ok := eqCond(ctm, g); ok && ((isChampion(a) && b.Op == "nil") || (isChampion(b) && a.Op == "nil")) {
						just = true
					}
				}
				if !just {
					okAll = false
					why = append(why, "the sentinel is returned although a champion is recorded")
				}
				continue
			}
			if (isCallTo(t, oc) && len(t.Args) == 1 && isChampion(t.Args[0])) || (c19IsPhenotypeComplexity(t, isChampion) && c19PhenotypeOK(ctm, lf, isChampion)) {
				nCall++
				continue
			}
			okAll = false
			why = append(why, "returns "+t.String())
		}
		r.Check(okAll && nCall > 0, "Generation.ChampionComplexity", p.Pos(cc.Pos()), "organismComplexity(g.Champion); math.MaxInt only without a champion",
			"Generation.ChampionComplexity is not the complexity of the recorded champion: "+strings.Join(why, "; "))
	})

	r.Rule("C19.4", "aggregates as origins: success rate, solved counts, epochs per trial, diversity and best organism are computed from the recorded generations as defined", func() {
		type agg struct {
			fn    string
			check func(fn *ssa.Function, tm *Termer) (bool, string)
		}
		retTerms := func(fn *ssa.Function, tm *Termer, i int) []*Term {
			var out []*Term
			for _, b := range fn.Blocks {
				if ret, ok := b.Instrs[len(b.Instrs)-1].(*ssa.Return); ok && i < len(ret.Results) {
					out = append(out, tm.Of(ret.Results[i]))
				}
			}
			return out
		}
		elemValue := func(fn *ssa.Function, tm *Termer) []*Term {
			var out []*Term
			Instrs(fn, func(_ *ssa.BasicBlock, _ int, in ssa.Instruction) {
				if st, ok := in.(*ssa.Store); ok {
					if ia, ok := st.Addr.(*ssa.IndexAddr); ok {
						base := ia.X
						if ct, isCT := base.(*ssa.ChangeType); isCT {
							base = ct.X
						}
						if _, isMk := base.(*ssa.MakeSlice); isMk {
							// (a value produced by a function literal bound at an inlined call site is what the literal returns)
							for _, a := range c19ValueAlts(tm, st.Val) {
								out = append(out, a.T)
							}
						}
					}
				}
			})
			return out
		}
		aggs := []agg{
			{"Experiment.SuccessRate", func(fn *ssa.Function, tm *Termer) (bool, string) {
				for _, t := range retTerms(fn, tm, 0) {
					s := t.String()
					if s == "0" {
						continue
					}
					if !(t.Op == "bin" && t.Name == "/" && strings.Contains(t.Args[0].String(), "Experiment.TrialsSolved(recv)") && strings.Contains(t.Args[1].String(), "len(recv.Trials)")) {
						return false, "success rate is " + s + ", expected TrialsSolved()/len(Trials)"
					}
				}
				return true, "TrialsSolved()/len(Trials), 0 for no trials"
			}},
			{"Experiment.TrialsSolved", func(fn *ssa.Function, tm *Termer) (bool, string) {
				// count++ exactly in the block guarded by t.Solved()
				solved := p.Func(PkgE, "Trial.Solved")
				ok := false
				Instrs(fn, func(b *ssa.BasicBlock, _ int, in ssa.Instruction) {
					if bo, isB := in.(*ssa.BinOp); isB && bo.Op.String() == "+" && tm.Of(bo.Y).String() == "1" {
						if _, isPhi := bo.X.(*ssa.Phi); isPhi && tm.Of(bo.X).Has(func(x *Term) bool { return x.String() == "0" }) {
							for _, g := range Guards(b) {
								if gt := tm.Of(g.Cond); isCallTo(gt, solved) && g.True && strings.Contains(gt.Args[0].String(), "recv.Trials[*]") {
									ok = true
								}
							}
						}
					}
				})
				if !ok {
					return false, "the solved-trial counter is not incremented exactly under t.Solved() for t ranging over Trials"
				}
				// what is returned is this counter on every path: a result that comes from anywhere else
				// (a remembered count, a field) is not recomputed from the recorded trials
				if why := c19CounterReturns(fn, tm, "recv.Trials"); why != "" {
					return false, why
				}
				return true, "counts trials with Solved() and returns the count on every path"
			}},
			{"Trial.Solved", func(fn *ssa.Function, tm *Termer) (bool, string) {
				okT, okF := false, false
				for _, b := range fn.Blocks {
					ret, isRet := b.Instrs[len(b.Instrs)-1].(*ssa.Return)
					if !isRet {
						continue
					}
					v := tm.Of(ret.Results[0]).String()
					if v == "true" {
						for _, g := range Guards(b) {
							if gt := tm.Of(g.Cond); gt.Op == "field" && gt.Name == "Solved" && g.True && strings.Contains(gt.String(), "recv.Generations[*]") {
								okT = true
							}
						}
					} else if v == "false" {
						okF = true
					} else {
						return false, "Solved returns " + v
					}
				}
				if !okT || !okF {
					return false, "Solved is not `true iff some generation is solved`"
				}
				return true, "true iff some generation has Solved"
			}},
			{"Experiment.EpochsPerTrial", func(fn *ssa.Function, tm *Termer) (bool, string) {
				vs := elemValue(fn, tm)
				for _, v := range vs {
					if !(strings.Contains(v.String(), "len(&recv.Trials[*].Generations)")) {
						return false, "element is " + v.String() + ", expected len(trial.Generations)"
					}
				}
				return len(vs) > 0, "x[i] = len(trial.Generations)"
			}},
			{"Trial.Diversity", func(fn *ssa.Function, tm *Termer) (bool, string) {
				vs := elemValue(fn, tm)
				for _, v := range vs {
					if !(strings.Contains(v.String(), "recv.Generations[*].Diversity")) {
						return false, "element is " + v.String() + ", expected generation.Diversity"
					}
				}
				return len(vs) > 0, "x[i] = generation.Diversity"
			}},
			{"Experiment.AvgDiversity", func(fn *ssa.Function, tm *Termer) (bool, string) {
				vs := elemValue(fn, tm)
				for _, v := range vs {
					if v.String() != "Floats.Mean(Trial.Diversity(&recv.Trials[*]))" {
						return false, "element is " + v.String() + ", expected trial.Diversity().Mean()"
					}
				}
				return len(vs) > 0, "x[i] = trial.Diversity().Mean()"
			}},
			{"Trial.BestOrganism", func(fn *ssa.Function, tm *Termer) (bool, string) {
				// the sorted collection is a fresh slice, not the trial's records
				sorts := CallsNamed(fn, "sort.Sort")
				if len(sorts) == 0 {
					return false, "no sort"
				}
				for _, c := range sorts {
					a := tm.Of(c.Common().Args[0])
					if a.Has(func(x *Term) bool { return x.Op == "field" && x.Name == "Generations" && x == a.Root() }) {
						return false, "sorts the trial's own records"
					}
					if !a.Has(func(x *Term) bool { return x.Op == "make" }) {
						return false, "sorted collection " + a.String() + " is not a fresh slice"
					}
				}
				return true, "best organism chosen by sorting a fresh slice of champions"
			}},
			{"Experiment.BestFitness", func(fn *ssa.Function, tm *Termer) (bool, string) {
				vs := elemValue(fn, tm)
				for _, v := range vs {
					if !(v.Op == "field" && v.Name == "Fitness" && strings.Contains(v.String(), "Trial.BestOrganism(&recv.Trials[*],false)#0")) {
						return false, "element is " + v.String() + ", expected trial.BestOrganism(false).Fitness"
					}
				}
				return len(vs) > 0, "x[i] = best organism's fitness"
			}},
		}
		for _, a := range aggs {
			fn := p.Func(PkgE, a.fn)
			r.Fn(FuncName(fn))
			ok, why := a.check(fn, NewTermer(fn))
			r.Check(ok, a.fn, p.Pos(fn.Pos()), why, why)
		}
	})
}

// constVal returns the exact string of an external package constant, or def
// when the package's scope is not available.
func (p *Prog) constVal(pkg, name, def string) string {
	for _, sp := range p.SSA.AllPackages() {
		if sp.Pkg.Path() == pkg {
			if c, ok := sp.Pkg.Scope().Lookup(name).(interface{ Val() constant.Value }); ok {
				return c.Val().ExactString()
			}
		}
	}
	return def
}
