package nc

import (
	"go/token"

	"golang.org/x/tools/go/ssa"
)

// ---------------------------------------------------------------------------------------------------------------
// The recipient of the make-up offspring kept as a POSITION in the species list.
//
// purgeZeroOffspringSpecies remembers "the species expecting the most" while it scans the list and later writes
// through it. The pinned tree keeps a pointer (nil = nobody yet); the same scan can keep the position of that
// species (a negative number = nobody yet) and write through recv.Species[position]. What C02.3 / C09.1 need from
// it is the same in both forms:
//
//   apportion.recipient   whenever the population has a species, the scan ends with somebody chosen;
//   apportion.total       the branch on which nobody is chosen is therefore not a case the total has to cover.
//
// c02RecipientIndex tells the second form from a plain element access; c02RecipientIndexExists is the proof of
// c02RecipientExists with "R != nil" read as "position >= 0" and "R = e" as "position = position of e".
// ---------------------------------------------------------------------------------------------------------------

// c02RecipientIndex: R is recv.Species[i] for an index i that is carried through phis and can be a negative constant
// (the value that stands for "no species"); returns i, or nil when R is not of that form.
func c02RecipientIndex(tm *Termer, R ssa.Value) ssa.Value {
	ld, ok := R.(*ssa.UnOp)
	if !ok || ld.Op != token.MUL {
		return nil
	}
	ia, ok := ld.X.(*ssa.IndexAddr)
	if !ok || tm.Of(ia.X).String() != "recv.Species" {
		return nil
	}
	if _, isPhi := ia.Index.(*ssa.Phi); !isPhi {
		return nil
	}
	for _, k := range phiWeb(ia.Index).Consts {
		if n, isInt := constInt(k); isInt && n < 0 {
			return ia.Index
		}
	}
	return nil
}

// c02SaysNoPosition: the comparison `x op k` (a fact that holds) says that the position x is negative.
func c02SaysNoPosition(y ssa.Value, op token.Token) bool {
	k, isK := constInt(y)
	if !isK {
		return false
	}
	switch op {
	case token.LSS:
		return k <= 0
	case token.LEQ, token.EQL:
		return k < 0
	}
	return false
}

// c02SaysPosition: the comparison `x op k` (a fact that holds) says that the position x is not negative.
func c02SaysPosition(y ssa.Value, op token.Token) bool {
	k, isK := constInt(y)
	if !isK {
		return false
	}
	switch op {
	case token.GEQ, token.EQL:
		return k >= 0
	case token.GTR:
		return k >= -1
	}
	return false
}

func c02RecipientIndexExists(fn *ssa.Function, tm *Termer, loops []*Loop, idx ssa.Value) (bool, string) {
	const quota = "recv.Species[*].ExpectedOffspring"
	web := phiWeb(idx)
	for _, k := range web.Consts {
		if n, isInt := constInt(k); !isInt || n >= 0 {
			return false, "its position may be the constant " + tm.Of(k).String() + ", which need not be a position of the list"
		}
	}
	var L *Loop
	var phI *ssa.Phi
	for _, l := range loops {
		for _, ph := range HeaderPhis(l) {
			if web.Phis[ph] {
				if phI != nil {
					return false, "its position is searched for in more than one loop"
				}
				L, phI = l, ph
			}
		}
	}
	if L == nil {
		return false, "its position is negative on some path that does not depend on a search over the species"
	}
	// every species is visited, in order; cur is the position of the species of the iteration
	cur, why := c09FullWalk(tm, L, "recv.Species")
	if cur == nil {
		return false, "the search for its position does not visit every species: " + why
	}
	for _, f := range web.Feeders {
		if f != cur {
			return false, "its position may be " + tm.Of(f).String() + ", which is not the position of the species the search visits"
		}
	}
	if len(web.Feeders) == 0 {
		return false, "no position is ever selected"
	}
	// the quota of the species of the iteration: read through the element at cur
	isCurQuota := func(v ssa.Value) bool {
		ld, ok := v.(*ssa.UnOp)
		if !ok || ld.Op != token.MUL || tm.Of(v).String() != quota {
			return false
		}
		fa, ok := ld.X.(*ssa.FieldAddr)
		if !ok {
			return false
		}
		el, ok := fa.X.(*ssa.UnOp)
		if !ok || el.Op != token.MUL {
			return false
		}
		ia, ok := el.X.(*ssa.IndexAddr)
		return ok && ia.Index == cur && tm.Of(ia.X).String() == "recv.Species"
	}
	paths, complete := EnumIterPaths(fn, L, 2000)
	if !complete {
		return false, "too many paths through the search loop"
	}
	type unchanged struct {
		ip *IterPath
		m  *ssa.Phi
	}
	var keep []unchanged
	nSel := 0
	for _, ip := range paths {
		if ip.End != "back" {
			continue
		}
		nv := ip.NextValue(phI)
		if nv == nil {
			return false, "the search loop is not understood"
		}
		if nv != ssa.Value(phI) {
			if nv != cur {
				return false, "an iteration may set the position to " + tm.Of(nv).String()
			}
			nSel++
			continue
		}
		// position unchanged: why is it not negative?
		u := unchanged{ip: ip}
		okPath := false
		for _, g := range ip.Conds {
			x, y, op, isCmp := CmpFact(g.Cond, g.True)
			if !isCmp {
				continue
			}
			if x == ssa.Value(phI) && c02SaysPosition(y, op) {
				okPath = true
				continue
			}
			// quota < M
			switch op {
			case token.LSS:
			case token.GTR:
				x, y = y, x
			default:
				continue
			}
			if !isCurQuota(x) {
				continue
			}
			if k, isK := constInt(y); isK && k <= 0 {
				okPath = true // `quota < 0` never holds: no iteration takes this path
				continue
			}
			m, isPhi := y.(*ssa.Phi)
			if !isPhi || m.Block() != L.Header {
				continue
			}
			zero := true
			for i, e := range m.Edges {
				if !L.Blocks[L.Header.Preds[i]] {
					if k, isK := constInt(e); !isK || k != 0 {
						zero = false
					}
				}
			}
			if zero {
				u.m, okPath = m, true
			}
		}
		if !okPath {
			return false, "an iteration can pass a species over while no position was selected yet (no test `quota < best so far, initially 0` or `position >= 0` on that path)"
		}
		keep = append(keep, u)
	}
	for _, u := range keep {
		if u.m == nil {
			continue
		}
		for _, o := range keep {
			if nv := o.ip.NextValue(u.m); nv != ssa.Value(u.m) {
				return false, "the best quota so far changes in an iteration that selects nobody"
			}
		}
	}
	if nSel == 0 {
		return false, "no iteration selects the position of the species it visits"
	}
	// the position is used on the list that was searched
	return true, "every iteration of the search selects the position of the species it visits unless one was selected before (quota < best-so-far, which starts at 0, or position >= 0)"
}
