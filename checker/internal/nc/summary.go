package nc

import (
	"go/token"
	"go/types"

	"golang.org/x/tools/go/ssa"
)

// Summary is the constructor summary of a function that returns a pointer to
// a struct: for every field the origin of its final value over the
// function's parameters.
type Summary struct {
	Fn     *ssa.Function
	Type   *types.Named
	Fields map[*types.Var]*Term // final value per field; absent = zero value
	Elems  map[*types.Var]*Term // element contents written into a slice field (copy / indexed stores)
	Fresh  bool                 // the returned object is allocated by this call (directly or via a summarised callee)
	Why    string               // when no summary could be built
}

// Summaries caches constructor and mutator summaries.
type Summaries struct {
	P     *Prog
	ctor  map[*ssa.Function]*Summary
	mut   map[mutKey]*MutSummary
	stack map[*ssa.Function]bool
}

type mutKey struct {
	fn  *ssa.Function
	idx int
}

// MutSummary: which fields of parameter idx a function writes, with origins.
type MutSummary struct {
	Fields map[*types.Var]*Term
	Elems  map[*types.Var]*Term
	Cond   map[*types.Var]bool // the write happens only on some paths
}

func NewSummaries(p *Prog) *Summaries {
	return &Summaries{P: p, ctor: map[*ssa.Function]*Summary{}, mut: map[mutKey]*MutSummary{}, stack: map[*ssa.Function]bool{}}
}

// Subst replaces recv/param leaves of t by the given argument terms
// (args[0] is the receiver for methods).
func Subst(t *Term, args []*Term) *Term {
	if t == nil {
		return nil
	}
	switch t.Op {
	case "recv":
		if len(args) > 0 {
			return args[0]
		}
	case "param":
		if t.Idx >= 0 && t.Idx < len(args) {
			return args[t.Idx]
		}
	}
	if len(t.Args) == 0 {
		return t
	}
	n := *t
	n.Args = make([]*Term, len(t.Args))
	for i, a := range t.Args {
		n.Args[i] = Subst(a, args)
	}
	return &n
}

func stripPtr(v ssa.Value) ssa.Value {
	for {
		switch x := v.(type) {
		case *ssa.ChangeType:
			v = x.X
		case *ssa.MakeInterface:
			v = x.X
		default:
			return v
		}
	}
}

// event: something that writes a field of the object under construction.
type fieldEvent struct {
	in    ssa.Instruction
	field *types.Var
	val   *Term
	elems *Term
	must  bool // kills earlier definitions
}

// Ctor computes the constructor summary of fn (result index 0).
func (s *Summaries) Ctor(fn *ssa.Function) *Summary {
	if sm, ok := s.ctor[fn]; ok {
		return sm
	}
	if s.stack[fn] {
		return &Summary{Fn: fn, Why: "recursive constructor"}
	}
	s.stack[fn] = true
	sm := s.ctor0(fn)
	delete(s.stack, fn)
	s.ctor[fn] = sm
	return sm
}

func (s *Summaries) ctor0(fn *ssa.Function) *Summary {
	sm := &Summary{Fn: fn, Fields: map[*types.Var]*Term{}, Elems: map[*types.Var]*Term{}}
	if fn.Blocks == nil {
		sm.Why = "no body"
		return sm
	}
	res := fn.Signature.Results()
	if res.Len() == 0 {
		sm.Why = "no result"
		return sm
	}
	pt, ok := res.At(0).Type().Underlying().(*types.Pointer)
	if !ok {
		sm.Why = "result 0 is not a pointer"
		return sm
	}
	named, ok := pt.Elem().(*types.Named)
	if !ok {
		sm.Why = "result 0 does not point to a named struct"
		return sm
	}
	if _, ok := named.Underlying().(*types.Struct); !ok {
		sm.Why = "result 0 does not point to a struct"
		return sm
	}
	sm.Type = named
	tm := NewTermer(fn)

	// the returned object(s): every non-nil returned value (nil returns on error paths are ignored)
	var bases []ssa.Value
	for _, b := range fn.Blocks {
		if r, ok := b.Instrs[len(b.Instrs)-1].(*ssa.Return); ok {
			var collect func(v ssa.Value, depth int)
			collect = func(v ssa.Value, depth int) {
				v = stripPtr(v)
				if c, ok := v.(*ssa.Const); ok && c.Value == nil {
					return
				}
				if ph, ok := v.(*ssa.Phi); ok && depth < 4 {
					for _, e := range ph.Edges {
						collect(e, depth+1)
					}
					return
				}
				for _, x := range bases {
					if x == v {
						return
					}
				}
				bases = append(bases, v)
			}
			collect(r.Results[0], 0)
		}
	}
	if len(bases) == 0 {
		sm.Why = "no non-nil return"
		return sm
	}
	if len(bases) > 1 {
		// several return sites: summarise each and join field-wise
		sm.Fresh = true
		seen := map[*types.Var]int{}
		for _, b := range bases {
			one := &Summary{Fn: fn, Type: named, Fields: map[*types.Var]*Term{}, Elems: map[*types.Var]*Term{}}
			s.ctorBase(fn, tm, named, b, one)
			if one.Why != "" {
				sm.Why = one.Why
				return sm
			}
			sm.Fresh = sm.Fresh && one.Fresh
			for f, t := range one.Fields {
				seen[f]++
				if prev, ok := sm.Fields[f]; ok {
					if prev.String() != t.String() {
						sm.Fields[f] = &Term{Op: "phi", Args: []*Term{prev, t}}
					}
				} else {
					sm.Fields[f] = t
				}
			}
			for f, t := range one.Elems {
				if prev, ok := sm.Elems[f]; ok {
					sm.Elems[f] = &Term{Op: "phi", Args: []*Term{prev, t}}
				} else {
					sm.Elems[f] = t
				}
			}
		}
		for f, n := range seen {
			if n < len(bases) {
				sm.Fields[f] = &Term{Op: "phi", Args: []*Term{sm.Fields[f], {Op: "const", Name: "zero"}}}
			}
		}
		return sm
	}
	s.ctorBase(fn, tm, named, bases[0], sm)
	return sm
}

// ctorBase fills sm with the field state of one returned object.
func (s *Summaries) ctorBase(fn *ssa.Function, tm *Termer, named *types.Named, base ssa.Value, sm *Summary) *Summary {
	// only returns that hand the object out count: `return nil, err` paths say nothing about its fields
	return s.objectState(fn, tm, named, base, sm, func(in ssa.Instruction) bool {
		ret, ok := in.(*ssa.Return)
		if !ok {
			return false
		}
		if len(ret.Results) > 0 {
			if c, isC := ret.Results[0].(*ssa.Const); isC && c.Value == nil {
				return false
			}
		}
		return true
	})
}

// ObjectAt computes the field state of the object `base` (an allocation or
// constructor call in fn) at the moment instruction `at` executes.
func (s *Summaries) ObjectAt(fn *ssa.Function, base ssa.Value, at ssa.Instruction) *Summary {
	sm := &Summary{Fn: fn, Fields: map[*types.Var]*Term{}, Elems: map[*types.Var]*Term{}}
	named, _ := deref(base.Type()).(*types.Named)
	if named == nil {
		sm.Why = "not a pointer to a named struct"
		return sm
	}
	sm.Type = named
	return s.objectState(fn, NewTermer(fn), named, base, sm, func(in ssa.Instruction) bool { return in == at })
}

func (s *Summaries) objectState(fn *ssa.Function, tm *Termer, named *types.Named, base ssa.Value, sm *Summary, target func(ssa.Instruction) bool) *Summary {
	// initial state
	switch b := base.(type) {
	case *ssa.Alloc:
		sm.Fresh = true
	case *ssa.Call:
		callee := b.Call.StaticCallee()
		if callee == nil {
			sm.Why = "returned object comes from a dynamic call"
			return sm
		}
		inner := s.Ctor(callee)
		if inner.Why != "" {
			sm.Why = "callee " + callee.Name() + ": " + inner.Why
			return sm
		}
		if inner.Type != named {
			sm.Why = "callee returns a different type"
			return sm
		}
		args := callArgTerms(tm, &b.Call)
		for f, t := range inner.Fields {
			sm.Fields[f] = Subst(t, args)
		}
		for f, t := range inner.Elems {
			sm.Elems[f] = Subst(t, args)
		}
		sm.Fresh = inner.Fresh
	default:
		sm.Why = "returned object is " + tm.Of(base).String() + ", not an allocation or constructor call"
		return sm
	}

	// events in this function
	var events []fieldEvent
	Instrs(fn, func(_ *ssa.BasicBlock, _ int, in ssa.Instruction) {
		switch x := in.(type) {
		case *ssa.Store:
			if fa, ok := x.Addr.(*ssa.FieldAddr); ok && fa.X == base {
				events = append(events, fieldEvent{in: in, field: fieldOf(fa.X.Type(), fa.Field), val: tm.Of(x.Val), must: true})
				return
			}
			// base.F[i] = v
			if ia, ok := x.Addr.(*ssa.IndexAddr); ok {
				if f := fieldLoadedFrom(ia.X, base); f != nil {
					events = append(events, fieldEvent{in: in, field: f, elems: tm.Of(x.Val)})
				} else if f := fieldHolding(fn, ia.X, base); f != nil {
					events = append(events, fieldEvent{in: in, field: f, elems: tm.Of(x.Val)})
				}
			}
		case ssa.CallInstruction:
			c := x.Common()
			if b, ok := c.Value.(*ssa.Builtin); ok && b.Name() == "copy" && len(c.Args) == 2 {
				f := fieldLoadedFrom(c.Args[0], base)
				if f == nil {
					f = fieldHolding(fn, c.Args[0], base)
				}
				if f != nil {
					events = append(events, fieldEvent{in: in, field: f, elems: &Term{Op: "elem", Args: []*Term{tm.Of(c.Args[1]), {Op: "unknown"}}}})
				}
				return
			}
			callee := c.StaticCallee()
			if callee == nil || callee.Blocks == nil {
				return
			}
			if v, ok := in.(ssa.Value); ok && v == base {
				return
			}
			all := c.Args
			for i, a := range all {
				if stripPtr(a) == base {
					ms := s.Mut(callee, i)
					args := callArgTerms(tm, c)
					for f, t := range ms.Fields {
						events = append(events, fieldEvent{in: in, field: f, val: Subst(t, args), must: !ms.Cond[f]})
					}
					for f, t := range ms.Elems {
						events = append(events, fieldEvent{in: in, field: f, elems: Subst(t, args)})
					}
				}
			}
		}
	})

	// reaching definitions at the returns
	byField := map[*types.Var][]fieldEvent{}
	for _, e := range events {
		byField[e.field] = append(byField[e.field], e)
	}
	for f, evs := range byField {
		var alts []*Term
		hasVal := false
		for _, e := range evs {
			if e.val == nil {
				continue
			}
			hasVal = true
			// does e reach a return without passing another must-write of f?
			others := map[ssa.Instruction]bool{}
			for _, o := range evs {
				if o.in != e.in && o.must && o.val != nil {
					others[o.in] = true
				}
			}
			if p := FindPath(s.P, PathQuery{Fn: fn, StartAfter: e.in, Target: target,
				Avoid: func(in ssa.Instruction) bool { return others[in] || isSameInstr(in, base) }, FlagBlind: true}); p != nil {
				alts = append(alts, e.val)
			}
		}
		if hasVal {
			// initial value survives if some path from the object's creation avoids all must-writes
			musts := map[ssa.Instruction]bool{}
			for _, e := range evs {
				if e.must && e.val != nil {
					musts[e.in] = true
				}
			}
			var start ssa.Instruction
			if in, ok := base.(ssa.Instruction); ok {
				start = in
			}
			if start != nil {
				if p := FindPath(s.P, PathQuery{Fn: fn, StartAfter: start, Target: target,
					Avoid: func(in ssa.Instruction) bool { return musts[in] || isSameInstr(in, base) }, FlagBlind: true}); p != nil {
					if init, ok := sm.Fields[f]; ok {
						// the initial value survives only on paths that bypass every overriding
						// store; where such a store sits directly under `if X != nil`, X is nil there
						for _, e := range evs {
							if e.must && e.val != nil {
								if x := nilGuardOf(e.in); x != nil {
									init = replaceWithNil(init, tm.Of(x).String())
								}
							}
						}
						alts = append(alts, init)
					} else {
						alts = append(alts, &Term{Op: "const", Name: "zero"})
					}
				}
			}
			if len(alts) == 1 {
				sm.Fields[f] = alts[0]
			} else if len(alts) > 1 {
				sm.Fields[f] = &Term{Op: "phi", Args: alts}
			}
		}
		for _, e := range evs {
			if e.elems != nil {
				if prev, ok := sm.Elems[f]; ok {
					sm.Elems[f] = &Term{Op: "phi", Args: []*Term{prev, e.elems}}
				} else {
					sm.Elems[f] = e.elems
				}
			}
		}
	}
	return sm
}

func callArgTerms(tm *Termer, c *ssa.CallCommon) []*Term {
	var out []*Term
	for _, a := range c.Args {
		out = append(out, tm.Of(a))
	}
	return out
}

// fieldLoadedFrom: if v is (a slice of) the value loaded from base.F, return F.
func fieldLoadedFrom(v ssa.Value, base ssa.Value) *types.Var {
	for {
		switch x := v.(type) {
		case *ssa.Slice:
			v = x.X
			continue
		case *ssa.UnOp:
			if x.Op == token.MUL {
				if fa, ok := x.X.(*ssa.FieldAddr); ok && stripPtr(fa.X) == base {
					return fieldOf(fa.X.Type(), fa.Field)
				}
			}
		}
		return nil
	}
}

// Mut computes which fields of parameter idx fn writes (one level, plus
// nested calls that pass the same parameter on).
func (s *Summaries) Mut(fn *ssa.Function, idx int) *MutSummary {
	k := mutKey{fn, idx}
	if m, ok := s.mut[k]; ok {
		return m
	}
	m := &MutSummary{Fields: map[*types.Var]*Term{}, Elems: map[*types.Var]*Term{}, Cond: map[*types.Var]bool{}}
	s.mut[k] = m
	if fn.Blocks == nil || idx >= len(fn.Params) {
		return m
	}
	base := ssa.Value(fn.Params[idx])
	tm := NewTermer(fn)
	Instrs(fn, func(b *ssa.BasicBlock, _ int, in ssa.Instruction) {
		switch x := in.(type) {
		case *ssa.Store:
			if fa, ok := x.Addr.(*ssa.FieldAddr); ok && fa.X == base {
				f := fieldOf(fa.X.Type(), fa.Field)
				t := tm.Of(x.Val)
				if prev, ok := m.Fields[f]; ok {
					m.Fields[f] = &Term{Op: "phi", Args: []*Term{prev, t}}
				} else {
					m.Fields[f] = t
				}
				// conditional unless the store's block dominates every return
				for _, rb := range fn.Blocks {
					if _, ok := rb.Instrs[len(rb.Instrs)-1].(*ssa.Return); ok {
						if !(b == rb || b.Dominates(rb)) {
							m.Cond[f] = true
						}
					}
				}
				return
			}
			if ia, ok := x.Addr.(*ssa.IndexAddr); ok {
				if f := fieldLoadedFrom(ia.X, base); f != nil {
					m.Elems[f] = tm.Of(x.Val)
				} else if f := fieldHolding(fn, ia.X, base); f != nil {
					// a local slice that is filled first and stored into the field afterwards
					m.Elems[f] = tm.Of(x.Val)
				}
			}
		case ssa.CallInstruction:
			c := x.Common()
			if bi, ok := c.Value.(*ssa.Builtin); ok && bi.Name() == "copy" && len(c.Args) == 2 {
				f := fieldLoadedFrom(c.Args[0], base)
				if f == nil {
					f = fieldHolding(fn, c.Args[0], base)
				}
				if f != nil {
					m.Elems[f] = &Term{Op: "elem", Args: []*Term{tm.Of(c.Args[1]), {Op: "unknown"}}}
				}
				return
			}
			callee := c.StaticCallee()
			if callee == nil || callee.Blocks == nil || callee == fn {
				return
			}
			for i, a := range c.Args {
				if stripPtr(a) == base {
					inner := s.Mut(callee, i)
					args := callArgTerms(tm, c)
					for f, t := range inner.Fields {
						m.Fields[f] = Subst(t, args)
						m.Cond[f] = true
					}
					for f, t := range inner.Elems {
						m.Elems[f] = Subst(t, args)
					}
				}
			}
		}
	})
	return m
}

// nilGuardOf: if instruction in sits in the then-block of `if X != nil` (the
// block is entered only by that edge), return X.
func nilGuardOf(in ssa.Instruction) ssa.Value {
	b := in.Block()
	if len(b.Preds) != 1 {
		return nil
	}
	d := b.Preds[0]
	iff, ok := d.Instrs[len(d.Instrs)-1].(*ssa.If)
	if !ok || d.Succs[0] == d.Succs[1] {
		return nil
	}
	bin, ok := iff.Cond.(*ssa.BinOp)
	if !ok {
		return nil
	}
	var x, c ssa.Value = bin.X, bin.Y
	if _, isC := x.(*ssa.Const); isC {
		x, c = c, x
	}
	cc, isC := c.(*ssa.Const)
	if !isC || cc.Value != nil {
		return nil
	}
	onTrue := d.Succs[0] == b
	if (bin.Op == token.NEQ && onTrue) || (bin.Op == token.EQL && !onTrue) {
		return x
	}
	return nil
}

func replaceWithNil(t *Term, s string) *Term {
	if t == nil {
		return nil
	}
	if t.String() == s {
		return &Term{Op: "nil", V: t.V}
	}
	if len(t.Args) == 0 {
		return t
	}
	n := *t
	n.Args = make([]*Term, len(t.Args))
	for i, a := range t.Args {
		n.Args[i] = replaceWithNil(a, s)
	}
	return &n
}

func isSameInstr(in ssa.Instruction, v ssa.Value) bool {
	x, ok := v.(ssa.Instruction)
	return ok && x == in
}

// fieldHolding: the slice value v (a local, e.g. `params := make(...)`) is what this function stores
// into field f of base (`&T{F: params}` or `x.F = params`); filling v fills base.F.
func fieldHolding(fn *ssa.Function, v ssa.Value, base ssa.Value) *types.Var {
	if _, ok := v.(*ssa.MakeSlice); !ok {
		if sl, isSl := v.(*ssa.Slice); isSl {
			v = sl.X
			if _, ok := v.(*ssa.MakeSlice); !ok {
				return nil
			}
		} else {
			return nil
		}
	}
	var out *types.Var
	for _, ref := range *v.Referrers() {
		st, ok := ref.(*ssa.Store)
		if !ok || st.Val != v {
			continue
		}
		if fa, ok := st.Addr.(*ssa.FieldAddr); ok && fa.X == base {
			out = fieldOf(fa.X.Type(), fa.Field)
		}
	}
	return out
}
