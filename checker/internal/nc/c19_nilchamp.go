package nc

import (
	"fmt"
	"go/types"
	"sort"

	"golang.org/x/tools/go/ssa"
)

// Rule C19.11 (defect F16): a recorded generation need not have a champion
// (Generation.Encode guards it, ChampionsFitness / ChampionSpeciesAges /
// ChampionComplexity test it), so the series that run over EVERY recorded
// generation - solved or not - must tolerate a nil Generation.Champion: the
// loaded pointer is dereferenced, handed to a function that dereferences its
// parameter, or put into a list (whose elements the sort and the callers
// dereference) only where a test of that very value against nil says it is
// not nil. Contradiction rule in the sense of Engler et al.: the siblings
// believe the champion may be absent.
//
// Scope: the functions reachable from the per-trial "best" and "champion"
// series. The winner statistics read the champion of a generation that was
// reported SOLVED, for which the evaluator hands the champion over by the
// library's convention; those reads are outside this rule.

func c19NilChampion(p *Prog, r *Run) {
	r.Rule("C19.11", "a generation recorded without champion is tolerated by the per-trial best / champion series: in the functions reachable from Trial.BestOrganism, ChampionsFitness, ChampionSpeciesAges, ChampionsComplexities, Experiment.BestFitness, BestSpeciesAge, BestComplexity and Generation.ChampionComplexity every value loaded from Generation.Champion is dereferenced, passed to a function that dereferences it, or stored into a list only under a test that it is not nil", func() {
		roots := []*ssa.Function{
			p.Func(PkgE, "Trial.BestOrganism"), p.Func(PkgE, "Trial.ChampionsFitness"),
			p.Func(PkgE, "Trial.ChampionSpeciesAges"), p.Func(PkgE, "Trial.ChampionsComplexities"),
			p.Func(PkgE, "Experiment.BestFitness"), p.Func(PkgE, "Experiment.BestSpeciesAge"),
			p.Func(PkgE, "Experiment.BestComplexity"), p.Func(PkgE, "Generation.ChampionComplexity"),
		}
		reach := p.Reachable(roots, func(f *ssa.Function) bool {
			return f.Pkg == nil || f.Pkg.Pkg.Path() != PkgE
		})
		var fns []*ssa.Function
		for f := range reach.Funcs {
			if f.Pkg != nil && f.Pkg.Pkg.Path() == PkgE && len(f.Blocks) > 0 {
				fns = append(fns, f)
			}
		}
		sort.Slice(fns, func(i, j int) bool { return FuncName(fns[i]) < FuncName(fns[j]) })
		nLoads, nUses := nilChampionUses(p, r, fns, "a generation recorded without champion (evaluator that neither solved nor filled the statistics; Generation.Encode itself anticipates it) makes the series panic or rank a nil organism, while the sibling series skip such a generation")
		r.Floor("loads of Generation.Champion in the per-trial series", nLoads, 5)
		r.Floor("uses of a loaded champion that need the nil test", nUses, 4)
	})
}

// nilChampionUses checks every value loaded from Generation.Champion in fns: a dereference, a hand-over to a function
// that dereferences its parameter, or a store into a list happens only under a test that the value is not nil.
func nilChampionUses(p *Prog, r *Run, fns []*ssa.Function, consequence string) (nLoads, nUses int) {
	champ := p.Field(PkgE, "Generation", "Champion")
	for _, fn := range fns {
		r.Fn(FuncName(fn))
		tm := NewTermer(fn)
		for _, b := range fn.Blocks {
			for _, in := range b.Instrs {
				v, ok := in.(ssa.Value)
				if !ok || !isChampionLoad(v, champ) {
					continue
				}
				nLoads++
				key := tm.Of(v).String()
				same := func(x ssa.Value) bool {
					if x == v {
						return true
					}
					return isChampionLoad(x, champ) && tm.Of(x).String() == key
				}
				seen := map[ssa.Value]bool{}
				var walk func(val ssa.Value)
				walk = func(val ssa.Value) {
					if seen[val] {
						return
					}
					seen[val] = true
					refs := val.Referrers()
					if refs == nil {
						return
					}
					for _, u := range *refs {
						what := ""
						switch u := u.(type) {
						case *ssa.Phi:
							walk(u)
							continue
						case *ssa.FieldAddr:
							if u.X == val {
								what = "reads ." + fieldNameOfAddr(u)
							}
						case *ssa.UnOp:
							if u.X == val {
								what = "dereferences it"
							}
						case *ssa.Store:
							if u.Val == val {
								if _, isElem := u.Addr.(*ssa.IndexAddr); isElem {
									what = "puts it into a list"
								}
							}
						case ssa.CallInstruction:
							c := u.Common()
							callee := c.StaticCallee()
							for i, a := range c.Args {
								if a != val {
									continue
								}
								if callee == nil || len(callee.Blocks) == 0 {
									if c.IsInvoke() || callee == nil {
										continue // handed to an interface / library (fmt, append of a slice value): not a dereference by itself
									}
									continue
								}
								if w := derefsParamUnguarded(callee, i, 0); w != "" {
									what = "hands it to " + FuncName(callee) + ", which " + w
								}
							}
						}
						if what == "" {
							continue
						}
						nUses++
						guarded := false
						for _, g := range Guards(u.Block()) {
							if GuardNilness(g, same) == -1 {
								guarded = true
							}
						}
						r.Check(guarded, fmt.Sprintf("champion.nil-tolerated:%s:%s", fn.Name(), what), p.Pos(u.Pos()),
							"the champion is used only where it was tested against nil",
							fmt.Sprintf("%s %s without a test that the generation has a champion: %s", FuncName(fn), what, consequence))
					}
				}
				walk(v)
			}
		}
	}
	return nLoads, nUses
}

func isChampionLoad(v ssa.Value, champ *types.Var) bool {
	switch x := v.(type) {
	case *ssa.UnOp:
		if fa, ok := x.X.(*ssa.FieldAddr); ok {
			return fieldVarOfAddr(fa) == champ
		}
	case *ssa.Field:
		if st, ok := x.X.Type().Underlying().(*types.Struct); ok && x.Field < st.NumFields() {
			return st.Field(x.Field) == champ
		}
	}
	return false
}

func fieldVarOfAddr(fa *ssa.FieldAddr) *types.Var {
	t := fa.X.Type().Underlying()
	if pt, ok := t.(*types.Pointer); ok {
		if st, ok := pt.Elem().Underlying().(*types.Struct); ok && fa.Field < st.NumFields() {
			return st.Field(fa.Field)
		}
	}
	return nil
}

func fieldNameOfAddr(fa *ssa.FieldAddr) string {
	if f := fieldVarOfAddr(fa); f != nil {
		return f.Name()
	}
	return "?"
}

// derefsParamUnguarded: does fn dereference its i-th parameter (receiver
// included in the numbering of fn.Params) somewhere that no test of the
// parameter against nil dominates? Returns a description, "" if not.
func derefsParamUnguarded(fn *ssa.Function, i int, depth int) string {
	if i >= len(fn.Params) || depth > 3 {
		return ""
	}
	par := fn.Params[i]
	if !isNillable(par.Type()) {
		return ""
	}
	same := func(x ssa.Value) bool { return x == par }
	refs := par.Referrers()
	if refs == nil {
		return ""
	}
	for _, u := range *refs {
		what := ""
		switch u := u.(type) {
		case *ssa.FieldAddr:
			if u.X == par {
				what = "reads its field " + fieldNameOfAddr(u)
			}
		case *ssa.UnOp:
			if u.X == par {
				what = "dereferences it"
			}
		case ssa.CallInstruction:
			c := u.Common()
			callee := c.StaticCallee()
			if callee != nil && len(callee.Blocks) > 0 {
				for k, a := range c.Args {
					if a == par {
						if w := derefsParamUnguarded(callee, k, depth+1); w != "" {
							what = "passes it to " + FuncName(callee) + ", which " + w
						}
					}
				}
			}
		}
		if what == "" {
			continue
		}
		guarded := false
		for _, g := range Guards(u.Block()) {
			if GuardNilness(g, same) == -1 {
				guarded = true
			}
		}
		if !guarded {
			return what + " without a nil test"
		}
	}
	return ""
}
