package nc

import (
	"fmt"
	"go/token"
	"go/types"
	"regexp"
	"sort"
	"strings"

	"golang.org/x/tools/go/ssa"
)

func init() { register("C01", C01) }

// C01 — every genetic operator and epoch yields only well-formed genomes.
func C01(p *Prog, r *Run) {
	r.Explanation = "Well-formedness is an inductive closure property over unbounded operator histories; decided are the per-operator mechanisms that preserve it: (1) who may write the gene list, node list, node index and trait list of a genome; (2) every node that enters a genome's list enters its id index too; (3) structural mutators add genes and nodes only through the ordered insertion helpers, whose two implementations agree as algorithms modulo the key (a key handed to a shared routine as a pure field-selecting function is read as that field), return a list containing the new element, and leave each step of their descending split-index walk only as the key comparison on that path justifies (on below i under k <= key(list[i]), split i+1 under k >= key(list[i]), split i under equality); (4) crossover: interface nodes of all three roles seeded, endpoints of a child gene are child nodes selected by the chosen gene's own endpoint ids, a copy is appended only after a non-bypassable scan for a genetically equal link (rules shared with C04); (5) add-link: target never a sensor, no gene with equal (in id, out id, recurrence) already present (shared with C05); connect-sensors adds only missing links; (6) reuse guards: the node of a reused add-node innovation is inserted only past !haveNode, a reused link is excluded by haveGene or already by the scan; (7) duplication remaps every node and trait reference by id into the copy's own lists (shared with C06); (8) a new gene carries a fresh or a completely matched innovation number (shared with C03); (9) Genesis fails only for a genome without connection genes or without output nodes (shared with C11.7); (10) trait references: every node and gene that enters a crossover child gets nil or an element of the trait list handed to NewGenome, the copy of an endpoint node is inserted into the very list that was searched for its id, mutators store only own traits, the random constructor only traits of the list it builds, and nothing else writes a trait reference. Not decided: the induction itself; that the merge walk of the crossovers emits ascending innovation numbers; array-content facts beyond the sibling agreement of the insertion helpers."
	sums := NewSummaries(p)
	gf := func(n string) *types.Var { return p.Field(PkgG, "Genome", n) }

	r.Rule("C01.1", "who may write: the gene list, node list, node index and trait list of a genome are written only by the constructors, the readers, the insertion helpers and duplicate", func() {
		// The two functions that the pinned tree lets assemble a genome through the constructor (the checked
		// constructor newGenome: C01.2; duplicate: C01.7 / C06.2) may as well carry the constructor's body themselves:
		// a store that INITIALISES a genome the function has just allocated (`&Genome{…}`: one store per field in the
		// block of the allocation, the object goes nowhere but to the caller - c06GenomeLits) is the constructor
		// written in place, not a write to an existing genome. What is stored there is examined by those rules.
		assemblers := map[*ssa.Function]bool{p.Func(PkgG, "Genome.duplicate"): true}
		if ng := p.FuncOpt(PkgG, "newGenome"); ng != nil {
			assemblers[ng] = true
		}
		initStores := map[*ssa.Store]bool{}
		for fn := range assemblers {
			lits, _ := c06GenomeLits(p, fn)
			for _, lit := range lits {
				for _, st := range lit.stores {
					initStores[st] = true
				}
			}
		}
		allowed := map[string]map[string]string{
			"Genes":       {"newGenomeWithNodeIdMap": "constructor", "newGenomeRand": "random constructor", "geneInsert": "ordered insertion", "Read": "readers build the genome they return"},
			"Nodes":       {"newGenomeWithNodeIdMap": "constructor", "newGenomeRand": "random constructor", "nodeInsert": "ordered insertion", "addNode": "append used by the readers and the random constructor"},
			"nodeByIdMap": {"newGenomeWithNodeIdMap": "constructor", "newGenomeRand": "random constructor"},
			"Traits":      {"newGenomeWithNodeIdMap": "constructor", "newGenomeRand": "random constructor", "Read": "readers build the genome they return"},
		}
		// The declaration of a new unexported helper that nothing refers to any more (every call of it was expanded
		// in place by the source normalisation) is never executed: its stores and calls are examined in the
		// functions they were expanded into, which are held to the tables below. A helper that is still referred to
		// anywhere (a call the normaliser declined, a function value) is a writer of its own.
		pinned := PinnedFuncs()
		for _, f := range []string{"Genes", "Nodes", "nodeByIdMap", "Traits"} {
			var bad []string
			n := 0
			for _, fn := range p.SrcFuncs() {
				if p.expandedAway(fn, pinned) {
					continue
				}
				for _, st := range FieldStores(fn, gf(f)) {
					n++
					if _, ok := allowed[f][fn.Name()]; !ok && !initStores[st] { // initStores: a genome assembled in place, see above
						bad = append(bad, FuncName(fn)+" at "+p.Pos(st.Pos()))
					}
				}
			}
			r.Check(len(bad) == 0, "writers:"+f, "-", fmt.Sprintf("%d stores, all in %s", n, strings.Join(sortedKeys(allowed[f]), ", ")), "Genome."+f+" is also written by "+strings.Join(bad, "; ")+": the list can lose its order or its agreement with the node index")
		}
		// the index map itself is updated only by mapNodeId and the constructor that builds it
		var bad []string
		for _, fn := range p.SrcFuncs() {
			if p.expandedAway(fn, pinned) {
				continue
			}
			tm := NewTermer(fn)
			Instrs(fn, func(_ *ssa.BasicBlock, _ int, in ssa.Instruction) {
				if mu, ok := in.(*ssa.MapUpdate); ok {
					mt := tm.Of(mu.Map)
					if mt.Op == "field" && mt.Obj == gf("nodeByIdMap") && fn.Name() != "mapNodeId" {
						bad = append(bad, FuncName(fn)+" at "+p.Pos(mu.Pos()))
					}
				}
			})
		}
		r.Check(len(bad) == 0, "index.writers", "-", "the node index is updated only by mapNodeId", "the node index of a genome is also updated by "+strings.Join(bad, "; "))
		// addNode (plain append) is used only while reading a genome, never by an operator
		var users []string
		addNode := p.Func(PkgG, "Genome.addNode")
		for _, fn := range p.SrcFuncs() {
			if len(CallsTo(fn, addNode)) > 0 && fn.Name() != "Read" && fn.Name() != "addNodes" && fn.Name() != "newGenomeRand" && !p.expandedAway(fn, pinned) {
				users = append(users, FuncName(fn))
			}
		}
		sort.Strings(users)
		r.Check(len(users) == 0, "addNode.users", p.Pos(addNode.Pos()), "the unordered append is used only by the readers", "the unordered Genome.addNode is used by "+strings.Join(users, ", ")+": nodes are no longer in ascending id order")
	})

	r.Rule("C01.2", "index coherence: a node that enters the node list enters the id index, the index is built from the list the genome stores, looking a node up by id answers from that index", func() {
		for _, n := range []string{"addNode", "nodeInsert"} {
			fn := p.Func(PkgG, "Genome."+n)
			r.Fn(FuncName(fn))
			tm := NewTermer(fn)
			okStore, okMap := false, false
			for _, st := range FieldStores(fn, gf("Nodes")) {
				vt := tm.Of(st.Val)
				if vt.Op == "call" && len(vt.Args) == 2 && vt.Args[0].String() == "recv.Nodes" {
					okStore = true
				}
			}
			for _, c := range CallsTo(fn, p.Func(PkgG, "Genome.mapNodeId")) {
				a := callArgTerms(tm, c.Common())
				if a[0].Op == "recv" && isParamIdx(a[1], 1) {
					dom := true
					for _, b := range fn.Blocks {
						if _, ok := b.Instrs[len(b.Instrs)-1].(*ssa.Return); ok && !(c.Block() == b || c.Block().Dominates(b)) {
							dom = false
						}
					}
					okMap = dom
				}
			}
			r.Check(okStore && okMap, n+".indexes", p.Pos(fn.Pos()), "stores the extended list and indexes the node on every path", fmt.Sprintf("%s: node list extended=%v, node indexed by id on every path=%v", n, okStore, okMap))
		}
		mp := p.Func(PkgG, "Genome.mapNodeId")
		mtm := NewTermer(mp)
		okMp := false
		Instrs(mp, func(_ *ssa.BasicBlock, _ int, in ssa.Instruction) {
			if mu, ok := in.(*ssa.MapUpdate); ok {
				if mtm.Of(mu.Map).String() == "recv.nodeByIdMap" && mtm.Of(mu.Key).String() == "p1.Id" && isParamIdx(mtm.Of(mu.Value), 1) {
					okMp = true
				}
			}
		})
		r.Check(okMp, "mapNodeId", p.Pos(mp.Pos()), "index[node.Id] = node", "mapNodeId does not store the node under its own id")
		ng := p.Func(PkgG, "newGenome")
		ntm := NewTermer(ng)
		okNg, okPass := false, false
		var indexMap ssa.Value // the map that receives index[node.Id] = node
		Instrs(ng, func(_ *ssa.BasicBlock, _ int, in ssa.Instruction) {
			if mu, ok := in.(*ssa.MapUpdate); ok {
				k, v := ntm.Of(mu.Key), ntm.Of(mu.Value)
				if v.Op == "elem" && isParamIdx(v.Args[0], 2) && k.Op == "field" && k.Name == "Id" && k.Args[0].String() == v.String() {
					okNg = true
					indexMap = stripPtr(mu.Map)
					// on every iteration: the update dominates every back edge of its loop
					if l := InnermostLoop(Loops(ng), mu.Block()); l != nil {
						for _, lb := range l.Latch {
							if !(mu.Block() == lb || mu.Block().Dominates(lb)) {
								okNg = false
							}
						}
					} else {
						okNg = false
					}
				}
			}
		})
		// the genome newGenome returns stores that node list and that index: handed to the field-wise constructor,
		// or stored into the genome newGenome allocates itself (the constructor written in place)
		assembled := map[ssa.Value]bool{}
		sitesOK := true
		if ctor := p.FuncOpt(PkgG, "newGenomeWithNodeIdMap"); ctor != nil {
			for _, c := range CallsTo(ng, ctor) {
				a := callArgTerms(ntm, c.Common())
				if !(isParamIdx(a[2], 2) && a[5].Op == "make") {
					sitesOK = false
				}
				if c.Value() != nil {
					assembled[c.Value()] = true
				}
			}
		}
		lits, otherLits := c06GenomeLits(p, ng)
		for _, lit := range lits {
			nodes, idx := lit.vals[gf("Nodes")], lit.vals[gf("nodeByIdMap")]
			_, isMake := indexMap.(*ssa.MakeMap)
			if !(nodes != nil && idx != nil && isParamIdx(ntm.Of(nodes), 2) && isMake && stripPtr(idx) == indexMap) {
				sitesOK = false
			}
			assembled[lit.alloc] = true
		}
		// every genome newGenome returns is one of those
		outside, _ := c06ReturnedOutside(ng, 0, assembled)
		okPass = len(assembled) > 0 && sitesOK && len(outside) == 0 && len(otherLits) == 0
		okLoop := false
		for _, l := range Loops(ng) {
			if loopRangesOver(ntm, l, "p2") {
				okLoop = true
			}
		}
		r.Check(okNg && okPass && okLoop, "newGenome.index", p.Pos(ng.Pos()), "the index is built from every node of the list the genome stores", "newGenome does not index every node of the node list it stores")
		for _, x := range [][2]string{{"haveNode", "has"}, {"NodeWithId", "lookup"}} {
			fn := p.Func(PkgG, "Genome."+x[0])
			tm := NewTermer(fn)
			ok := false
			Instrs(fn, func(_ *ssa.BasicBlock, _ int, in ssa.Instruction) {
				if lk, isLk := in.(*ssa.Lookup); isLk && tm.Of(lk.X).String() == "recv.nodeByIdMap" && isParamIdx(tm.Of(lk.Index), 1) {
					ok = true
				}
			})
			// and the answer is what the index says: the node it holds for the id resp. whether it holds one
			why := c01IndexAnswer(p, fn, x[1])
			if !ok && why == "" {
				why = "does not access recv.nodeByIdMap[id]"
			}
			r.Check(ok && why == "", x[0], p.Pos(fn.Pos()), "answers from the id index", x[0]+" does not answer from recv.nodeByIdMap[id]: "+why)
		}
	})

	r.Rule("C01.3", "ordered insertion: structural mutators add genes and nodes only through geneInsert / nodeInsert; both helpers are the same algorithm modulo the key and return a list containing the new element", func() {
		r.c01OrderedInsertion()
		r.c01ScanBound()
		r.c01SplitDecision()
		r.c01SinglePointOrder()
	})

	r.Rule("C01.4", "crossover keeps children well-formed: interface nodes seeded, endpoints are child nodes chosen by the gene's own endpoint ids, no genetically equal link twice, child nodes enter through nodeInsert (shared with C04); the trait of every node and gene that enters the child is nil or an element of the child's own trait list; the copy of an endpoint node is inserted into the very list that was searched for its id (no node id twice)", func() {
		r.c04IsEqualGenetically()
		r.c04GeneCopyCtor(sums)
		for _, n := range []string{"mateMultipoint", "mateMultipointAvg", "mateSinglePoint"} {
			s := r.mateShapeOf(n)
			ok := s.why == "" && s.walk != nil && s.scan != nil && s.seed != nil
			r.Check(ok, n+".shape", p.Pos(s.fn.Pos()), "gene walk, conflict scan and node seeding located", "cannot locate the parts of "+n+": "+s.why)
			if !ok {
				continue
			}
			r.c04Provenance(s)
			r.c04Conflict(s)
			r.c04Seeding(s)
			r.c01ChildTraits(s, sums)
			r.c01NodeOnce(s)
			// the child genome is assembled from exactly the local lists
			tm := s.tm
			okAsm := false
			for _, c := range CallsTo(s.fn, p.Func(PkgG, "NewGenome")) {
				a := c.Common().Args
				nodesOK, genesOK := false, false
				for _, f := range c04Feeders(a[2]) {
					if cc, ok := f.(*ssa.Call); ok && cc.Call.StaticCallee() != nil && cc.Call.StaticCallee().Name() == "nodeInsert" {
						nodesOK = true
					}
				}
				for _, f := range c04Feeders(a[3]) {
					if cc, ok := f.(*ssa.Call); ok {
						if _, elems, ok := appendCall(cc); ok && len(elems) == 1 && elems[0] == ssa.Value(s.copyCall) {
							genesOK = true
						}
					}
				}
				tt := tm.Of(c04Unload(a[1]))
				okAsm = nodesOK && genesOK && tt.Op == "extract" && strings.Contains(tt.String(), "mateTraits")
			}
			r.Check(okAsm, n+".assembled", p.Pos(s.fn.Pos()), "the child is built from the averaged traits, the node list filled by nodeInsert and the list of copied genes", "the child genome is not assembled from exactly the lists the function filled")
		}
	})

	r.Rule("C01.5", "add-link never targets a sensor and never duplicates a link; connect-sensors adds only missing links (shared with C05)", func() {
		r.checkAddLink(sums)
		r.Mode = "well-formed"
		defer func() { r.Mode = "" }()
		r.checkConnectSensors(sums)
	})

	r.Rule("C01.6", "reuse guards: the node of a reused add-node innovation enters the genome only when its id is not present yet", func() {
		fn := p.Func(PkgG, "Genome.mutateAddNode")
		r.Fn(FuncName(fn))
		haveNode := p.Func(PkgG, "Genome.haveNode")
		ni := CallsTo(fn, p.Func(PkgG, "Genome.nodeInsert"))
		gi := CallsTo(fn, p.Func(PkgG, "Genome.geneInsert"))
		hn := CallsTo(fn, haveNode)
		if len(ni) == 0 || len(gi) == 0 {
			r.Bad("add-node.inserts", p.Pos(fn.Pos()), "add-node no longer inserts through nodeInsert/geneInsert")
			return
		}
		// reuse-path node creations: NewNNode whose id comes from the record
		tm := NewTermer(fn)
		n := 0
		for _, c := range CallsTo(fn, p.Func(PkgN, "NewNNode")) {
			// (terms as seen where the node is created: a record handed out of the scan as `rec, found` / a pointer is the
			// record itself where it is known to have been found)
			if f, _, ok := recordField(NewTermerAt(fn, c.Block()).Of(c.Common().Args[0])); !ok || f != "NewNodeId" {
				continue
			}
			n++
			isInsert := func(in ssa.Instruction) bool {
				for _, x := range append(append([]ssa.CallInstruction{}, ni...), gi...) {
					if in == ssa.Instruction(x) {
						return true
					}
				}
				return false
			}
			// (a) no path from the creation to an insertion that avoids the haveNode test
			path := c01FindPath(p, PathQuery{Fn: fn, StartAfter: c, Explored: &r.PathsExplored, Target: isInsert,
				Avoid: func(in ssa.Instruction) bool {
					for _, h := range hn {
						if in == ssa.Instruction(h) {
							return true
						}
					}
					return false
				}})
			r.Check(path == nil && len(hn) > 0, "add-node.reuse.tested", p.Pos(c.Pos()), "a reused node id is always tested with haveNode before anything is inserted", "on the path that reuses a recorded node id, genes and node can be inserted without testing whether the genome already has a node with that id: the node appears twice", path...)
			// (b) after haveNode answered true nothing is inserted
			for _, h := range hn {
				blk := h.Block()
				iff, ok := blk.Instrs[len(blk.Instrs)-1].(*ssa.If)
				if !ok || iff.Cond != h.Value() {
					r.Bad("add-node.reuse.rejects", p.Pos(h.Pos()), "the result of haveNode does not decide a branch")
					continue
				}
				arg := tm.Of(h.Common().Args[1])
				okArg := arg.Op == "field" && arg.Name == "Id"
				path := c01FindPath(p, PathQuery{Fn: fn, StartEdge: [2]*ssa.BasicBlock{blk, blk.Succs[0]}, Explored: &r.PathsExplored, Target: isInsert})
				r.Check(path == nil && okArg, "add-node.reuse.rejects", p.Pos(h.Pos()), "when the genome already has the node nothing is inserted", "after haveNode reported that the node id is present the insertion can still happen (or the id tested is not the new node's)", path...)
			}
		}
		r.Floor("reuse-path node creations", n, 1)
	})

	r.Rule("C01.8", "one number, one gene: a new gene carries a freshly issued innovation number or the number of a record that was matched under the complete key (kind, in node, out node, recurrence resp. split gene) - otherwise a genome can receive two genes with the same number (rules shared with C03.1-C03.3)", func() {
		c03Core(p, r, NewSummaries(p))
	})

	r.Rule("C01.9", "expressible: Genome.Genesis refuses a genome only when it has no connection gene or no output node - neither can happen to a well-formed genome, so every produced genome can be expressed as a network and the operators that express it (add-link, Organism.Phenotype) never fail on it; in particular the failure never depends on which genes are enabled (fact shared with C11.7)", func() {
		r.c01Expressible()
	})

	r.Rule("C01.10", "trait references stay inside the genome: NNode.Trait / Link.Trait are written only by constructors, genome builders and mutators; a mutator stores only nil, one of the receiver's own traits or a trait the receiver already holds; the random constructor only traits of the list it builds", func() {
		r.c01OperatorTraits(sums)
	})

	r.Rule("C01.7", "duplication remaps every node and trait reference by id into the copy's own lists (shared with C06)", func() {
		r.Mode = "own-lists"
		defer func() { r.Mode = "" }()
		r.c06Remap(sums)
	})
}

var keyWords = regexp.MustCompile(`InnovationNum|\bId\b`)

// c01OrderedInsertion implements C01.3.
func (r *Run) c01OrderedInsertion() {
	p := r.P
	gi, ni := p.Func(PkgG, "geneInsert"), p.Func(PkgG, "nodeInsert")
	mgi, mni := p.Func(PkgG, "Genome.geneInsert"), p.Func(PkgG, "Genome.nodeInsert")
	r.Fn(FuncName(gi), FuncName(ni), FuncName(mgi), FuncName(mni))
	// the methods delegate
	for _, x := range []struct {
		m, f  *ssa.Function
		field string
	}{{mgi, gi, "Genes"}, {mni, ni, "Nodes"}} {
		tm := NewTermer(x.m)
		ok := false
		for _, st := range FieldStores(x.m, p.Field(PkgG, "Genome", x.field)) {
			vt := tm.Of(st.Val)
			if isCallTo(vt, x.f) && vt.Args[0].String() == "recv."+x.field && isParamIdx(vt.Args[1], 1) {
				ok = true
			}
		}
		r.Check(ok, x.m.Name()+".delegates", p.Pos(x.m.Pos()), "g."+x.field+" = "+x.f.Name()+"(g."+x.field+", x)", "Genome."+x.m.Name()+" does not store "+x.f.Name()+"(g."+x.field+", x) back into the genome")
	}
	// mutators reach the lists only through the helpers
	for _, n := range []string{"mutateAddNode", "mutateAddLink", "mutateConnectSensors"} {
		fn := p.Func(PkgG, "Genome."+n)
		_, w := p.writeSet(fn, 0)
		var bad []string
		Instrs(fn, func(_ *ssa.BasicBlock, _ int, in ssa.Instruction) {
			ci, ok := in.(ssa.CallInstruction)
			if !ok {
				return
			}
			cal := ci.Common().StaticCallee()
			if cal == nil || !InRepo(cal) {
				return
			}
			// only calls on the receiver's own lists matter
			if len(ci.Common().Args) == 0 || NewTermer(fn).Of(ci.Common().Args[0]).Op != "recv" {
				return
			}
			for _, t := range w.W[cal] {
				if t.Param != 0 {
					continue
				}
				if t.What == "Genome.Genes" && cal != mgi {
					bad = append(bad, cal.Name()+" (writes the gene list)")
				}
				if t.What == "Genome.Nodes" && cal != mni {
					bad = append(bad, cal.Name()+" (writes the node list)")
				}
			}
		})
		for _, f := range []string{"Genes", "Nodes"} {
			for _, st := range FieldStores(fn, p.Field(PkgG, "Genome", f)) {
				bad = append(bad, "direct store at "+p.Pos(st.Pos()))
			}
		}
		sort.Strings(bad)
		r.Check(len(bad) == 0, n+".through-helpers", p.Pos(fn.Pos()), "genes and nodes enter the genome only through the ordered insertion helpers", n+" extends the genome's lists through "+strings.Join(bad, ", ")+" instead of geneInsert/nodeInsert: the lists lose their ascending order")
	}
	// sibling agreement modulo key and element type
	canon := func(fn *ssa.Function) []string {
		tm := NewTermer(fn)
		var out []string
		norm := func(s string) string {
			s = keyWords.ReplaceAllString(s, "KEY")
			s = strings.ReplaceAll(s, "genetics.Gene", "T")
			s = strings.ReplaceAll(s, "network.NNode", "T")
			return s
		}
		// a call of a key function that merely selects a field of its argument stands for that field (both helpers
		// may hand their key to one shared routine as a function: robust_c01.go, resolveProjections)
		T := func(v ssa.Value) string { return CanonTermWith(resolveProjections(tm.Of(v)), norm) }
		// conditions in positive canonical form (operands ordered, complements removed); the blocks are then
		// numbered in depth-first order over the successors as the canonical condition orders them, so that
		// `a >= b` / `b <= a` / `!(a < b)` with exchanged branches are the same step
		succs := map[*ssa.BasicBlock][]*ssa.BasicBlock{}
		cond := map[*ssa.BasicBlock]string{}
		for _, b := range fn.Blocks {
			sc := append([]*ssa.BasicBlock(nil), b.Succs...)
			if iff, ok := b.Instrs[len(b.Instrs)-1].(*ssa.If); ok {
				c, neg := CanonCondWith(resolveProjections(tm.Of(iff.Cond)), norm)
				if neg {
					sc[0], sc[1] = sc[1], sc[0]
				}
				cond[b] = c
			}
			succs[b] = sc
		}
		num := map[*ssa.BasicBlock]int{}
		var order []*ssa.BasicBlock
		var dfs func(b *ssa.BasicBlock)
		dfs = func(b *ssa.BasicBlock) {
			if _, ok := num[b]; ok {
				return
			}
			num[b] = len(order)
			order = append(order, b)
			for _, s := range succs[b] {
				dfs(s)
			}
		}
		if len(fn.Blocks) > 0 {
			dfs(fn.Blocks[0])
		}
		for _, b := range order {
			for _, in := range b.Instrs {
				switch x := in.(type) {
				case *ssa.Phi:
					// which value arrives over which edge (a negated test with the branches left in place shows here)
					var a []string
					for i, e := range x.Edges {
						a = append(a, fmt.Sprintf("b%d:%s", num[b.Preds[i]], T(e)))
					}
					sort.Strings(a)
					out = append(out, fmt.Sprintf("b%d phi {%s}", num[b], strings.Join(a, " ")))
				case *ssa.Slice:
					lo, hi := "", ""
					if x.Low != nil {
						lo = T(x.Low)
					}
					if x.High != nil {
						hi = T(x.High)
					}
					if lo == "0" {
						lo = ""
					}
					out = append(out, fmt.Sprintf("b%d slice %s[%s:%s]", num[b], T(x.X), lo, hi))
				case *ssa.If:
					out = append(out, fmt.Sprintf("b%d if %s -> b%d b%d", num[b], cond[b], num[succs[b][0]], num[succs[b][1]]))
				case *ssa.Return:
					var a []string
					for _, v := range x.Results {
						a = append(a, T(v))
					}
					out = append(out, fmt.Sprintf("b%d return %s", num[b], strings.Join(a, ",")))
				case *ssa.Store:
					out = append(out, fmt.Sprintf("b%d store %s := %s", num[b], T(x.Addr), T(x.Val)))
				case ssa.CallInstruction:
					n, _ := calleeName(x.Common())
					if n == "dyn" || strings.HasPrefix(n, "fmt.") {
						continue // logging
					}
					if _, isProj := projectionCall(x.Common()); isProj {
						continue // a field selection, listed (like every load) where its value is used
					}
					var a []string
					for _, v := range x.Common().Args {
						a = append(a, T(v))
					}
					out = append(out, fmt.Sprintf("b%d call %s(%s)", num[b], n, strings.Join(a, ",")))
				}
			}
		}
		return out
	}
	a, b := canon(gi), canon(ni)
	diff := ""
	for i := 0; i < len(a) || i < len(b); i++ {
		x, y := "", ""
		if i < len(a) {
			x = a[i]
		}
		if i < len(b) {
			y = b[i]
		}
		if x != y && diff == "" {
			diff = fmt.Sprintf("geneInsert: %q / nodeInsert: %q", x, y)
		}
	}
	r.Check(diff == "" && len(a) > 8, "insert.siblings", p.Pos(gi.Pos()), fmt.Sprintf("geneInsert and nodeInsert agree instruction by instruction modulo key (%d steps)", len(a)),
		"geneInsert and nodeInsert are no longer the same algorithm modulo the key they order by; first difference: "+diff+" (one of them orders its list differently)")
	// every list returned contains the new element (or is the unchanged list for a nil element)
	for _, fn := range []*ssa.Function{gi, ni} {
		tm := NewTermer(fn)
		ok := true
		why := ""
		for _, blk := range fn.Blocks {
			ret, isRet := blk.Instrs[len(blk.Instrs)-1].(*ssa.Return)
			if !isRet {
				continue
			}
			for _, alt := range tm.Of(ret.Results[0]).Alternatives() {
				switch {
				case isParamIdx(alt, 0):
					nilGuard := false
					for _, g := range Guards(blk) {
						if GuardNilness(g, func(v ssa.Value) bool { return isParamIdx(tm.Of(v), 1) }) > 0 {
							nilGuard = true
						}
					}
					if !nilGuard {
						ok, why = false, "returns the unchanged list although the element is not nil"
					}
				case alt.Op == "call" && alt.Name == "append":
					c := alt.V.(*ssa.Call)
					base, elems, _ := appendCall(c)
					has := false
					for _, e := range elems {
						if isParamIdx(tm.Of(e), 1) {
							has = true
						}
					}
					if !has {
						// append(first, second...) where first[index] = element
						for _, st := range elemStoresInto(fn, base) {
							if isParamIdx(tm.Of(st.Val), 1) {
								has = true
							}
						}
					}
					if !has {
						ok, why = false, "returns "+alt.String()+", which does not contain the new element"
					}
				default:
					ok, why = false, "returns "+alt.String()
				}
			}
		}
		r.Check(ok, fn.Name()+".contains-new", p.Pos(fn.Pos()), "every returned list contains the new element", fn.Name()+" "+why)
	}
}

// c01ScanBound: the ordered-insertion helpers look for the split index by walking a cursor down the list.
// The walk may end early only because the split point was found; the only index bound it may respect is the
// beginning of the list. Every comparison of the descending cursor with a constant must therefore mean
// `cursor >= 0` (or its negation): `cursor > 0` leaves position 0 unexamined and an element that belongs
// right after the first one is appended at the end.
func (r *Run) c01ScanBound() {
	p := r.P
	for _, name := range []string{"geneInsert", "nodeInsert"} {
		fn := p.Func(PkgG, name)
		var cursors []*ssa.Phi
		for _, l := range Loops(fn) {
			for _, ph := range HeaderPhis(l) {
				for i, e := range ph.Edges {
					if !l.Blocks[l.Header.Preds[i]] {
						continue
					}
					if b, ok := e.(*ssa.BinOp); ok && b.X == ssa.Value(ph) {
						if k, isK := b.Y.(*ssa.Const); isK && k.Value != nil && ((b.Op == token.SUB && k.Int64() == 1) || (b.Op == token.ADD && k.Int64() == -1)) {
							cursors = append(cursors, ph)
						}
					}
				}
			}
		}
		if len(cursors) == 0 {
			r.OK(name+".scan-bound", p.Pos(fn.Pos()), "no descending index scan in this helper")
			continue
		}
		n := 0
		ok, why := true, ""
		isCursor := func(v ssa.Value) bool {
			for _, c := range cursors {
				if v == ssa.Value(c) {
					return true
				}
				// the value a cursor has after the loop (exit phi) or one step further
				if w := phiWeb(v); w.Phis[c] && len(w.Feeders) == 0 {
					return true
				}
			}
			return false
		}
		Instrs(fn, func(_ *ssa.BasicBlock, _ int, in ssa.Instruction) {
			b, isB := in.(*ssa.BinOp)
			if !isB {
				return
			}
			op := b.Op
			x, y := b.X, b.Y
			if _, isK := x.(*ssa.Const); isK {
				x, y = y, x
				op = mirrorCmp(op)
			}
			k, isK := y.(*ssa.Const)
			if !isK || k.Value == nil || !isCursor(x) {
				return
			}
			switch op {
			case token.GEQ, token.LSS:
				n++
				if k.Int64() != 0 {
					ok, why = false, fmt.Sprintf("cursor %s %d at %s", op, k.Int64(), p.Pos(b.Pos()))
				}
			case token.GTR, token.LEQ:
				n++
				if k.Int64() != -1 {
					ok, why = false, fmt.Sprintf("cursor %s %d at %s", op, k.Int64(), p.Pos(b.Pos()))
				}
			case token.EQL, token.NEQ:
				n++
				if k.Int64() != -1 {
					ok, why = false, fmt.Sprintf("cursor %s %d at %s", op, k.Int64(), p.Pos(b.Pos()))
				}
			}
		})
		r.Check(ok && n > 0, name+".scan-bound", p.Pos(fn.Pos()), "the split-index scan is bounded only by the beginning of the list (cursor >= 0)",
			name+": the scan for the split index stops on `"+why+"`, not at the beginning of the list: a position is never examined and an element that belongs there is put at the end, the list is no longer ascending")
	}
}
