package nc

import (
	"go/token"
	"go/types"
	"strings"

	"golang.org/x/tools/go/ssa"
)

// c12BiasTest recognises a branch condition that decides whether the source of
// an incoming link is a bias neuron, independent of how the comparison is
// spelled: `x.InNode.NeuronType == BiasNeuron`, `!=`, operands swapped, or any
// number of `!` around it. taken is the branch outcome under consideration.
// Returned are the comparison itself (identity of the test), the term of the
// tested NeuronType field, and whether "source is a bias neuron" holds on that
// outcome.
func c12BiasTest(tm *Termer, c ssa.Value, taken bool, biasConst string) (core ssa.Value, srcType *Term, isBias bool, ok bool) {
	holds := taken
	for i := 0; i < 8; i++ {
		u, isU := c.(*ssa.UnOp)
		if !isU || u.Op != token.NOT {
			break
		}
		c, holds = u.X, !holds
	}
	b, isB := c.(*ssa.BinOp)
	if !isB || (b.Op != token.EQL && b.Op != token.NEQ) {
		return nil, nil, false, false
	}
	x, y := tm.Of(b.X), tm.Of(b.Y)
	if y.String() != biasConst {
		x, y = y, x
	}
	if y.String() != biasConst || !strings.HasSuffix(x.String(), ".InNode.NeuronType") {
		return nil, nil, false, false
	}
	if b.Op == token.NEQ {
		holds = !holds
	}
	return b, x, holds, true
}

// ---------------------------------------------------------------------------------------------------------------
// Start indices of the neuron groups (C12.5 layout.order).
//
// The obligation claims: group k starts at the index where group k-1 ended, the first group starts at 0.  The pinned
// code threads the result of processList into the next call; equivalent code computes the start offsets from the
// group sizes (`inputsOffset := len(biasList)`, `outputsOffset := inputsOffset + len(inList)` ...), or from a counter
// kept next to the appends.  All forms are compared as linear forms over the atoms len(<list value>).

// c12Lin is k + Σ coef[a]·a, the atoms a standing for the length of one list value.
type c12Lin struct {
	k    int64
	coef map[string]int64
}

func (a c12Lin) plus(b c12Lin) c12Lin {
	s := c12Lin{k: a.k + b.k, coef: map[string]int64{}}
	for n, c := range a.coef {
		s.coef[n] += c
	}
	for n, c := range b.coef {
		s.coef[n] += c
	}
	for n, c := range s.coef {
		if c == 0 {
			delete(s.coef, n)
		}
	}
	return s
}

func (a c12Lin) equal(b c12Lin) bool {
	if a.k != b.k || len(a.coef) != len(b.coef) {
		return false
	}
	for n, c := range a.coef {
		if b.coef[n] != c {
			return false
		}
	}
	return true
}

// c12LinCtx evaluates integer values of fn as linear forms.
type c12LinCtx struct {
	tm    *Termer
	fn    *ssa.Function
	pl    *ssa.Function // processList; its result is start+len(list) if plExact
	exact bool          // processList numbers exactly len(list) neurons start, start+1, ... and returns the next index
	lists []ssa.Value   // the list values handed to processList (candidates for a counter kept next to the appends)
	// fields of the receiver that fn never stores to: two loads of them yield the same slice
	stableField func(t *Term) bool
}

// atom names the length of list value v: SSA identity for local lists, the origin term for a receiver field that
// the function does not assign (every load yields the same slice header, hence the same length).
func (cx *c12LinCtx) atom(v ssa.Value) (string, bool) {
	for {
		ct, ok := v.(*ssa.ChangeType)
		if !ok {
			break
		}
		v = ct.X
	}
	if t := cx.tm.Of(v); t.Op == "field" && cx.stableField(t) {
		return "len(" + t.String() + ")", true
	}
	switch v.(type) {
	case *ssa.Phi, *ssa.Call, *ssa.Slice, *ssa.MakeSlice, *ssa.Parameter:
		return "len(" + v.Name() + ")", true
	}
	return "", false
}

func (cx *c12LinCtx) of(v ssa.Value, depth int) (c12Lin, bool) {
	if depth > 16 {
		return c12Lin{}, false
	}
	if k, ok := constInt(v); ok {
		if _, isC := v.(*ssa.Const); isC {
			return c12Lin{k: k}, true
		}
	}
	switch x := v.(type) {
	case *ssa.BinOp:
		if x.Op != token.ADD {
			return c12Lin{}, false
		}
		a, okA := cx.of(x.X, depth+1)
		b, okB := cx.of(x.Y, depth+1)
		if !okA || !okB {
			return c12Lin{}, false
		}
		return a.plus(b), true
	case *ssa.Call:
		if b, isB := x.Call.Value.(*ssa.Builtin); isB && b.Name() == "len" && len(x.Call.Args) == 1 {
			if n, ok := cx.atom(x.Call.Args[0]); ok {
				return c12Lin{coef: map[string]int64{n: 1}}, true
			}
			return c12Lin{}, false
		}
		if cx.exact && x.Call.StaticCallee() == cx.pl && len(x.Call.Args) == 4 {
			s, okS := cx.of(x.Call.Args[0], depth+1)
			n, okN := cx.atom(x.Call.Args[1])
			if okS && okN {
				return s.plus(c12Lin{coef: map[string]int64{n: 1}}), true
			}
		}
		return c12Lin{}, false
	case *ssa.Phi:
		// a counter advanced exactly where one of the lists grows by one element
		for _, l := range cx.lists {
			if c12CountsLen(x, l, map[[2]ssa.Value]bool{}) {
				if n, ok := cx.atom(l); ok {
					return c12Lin{coef: map[string]int64{n: 1}}, true
				}
			}
		}
	}
	return c12Lin{}, false
}

// c12EmptyList: v is a list of length 0 (nil, make(T, 0[, cap]), T{}).
func c12EmptyList(v ssa.Value) bool {
	switch x := v.(type) {
	case *ssa.Const:
		return x.Value == nil
	case *ssa.MakeSlice:
		return IsConstIntValue(x.Len, 0)
	case *ssa.Slice:
		// make with constant sizes and composite literals: new [cap]T sliced [:len]
		if _, isAlloc := x.X.(*ssa.Alloc); !isAlloc {
			return false
		}
		if x.High != nil {
			return IsConstIntValue(x.High, 0) && (x.Low == nil || IsConstIntValue(x.Low, 0))
		}
		if pt, ok := x.X.Type().Underlying().(*types.Pointer); ok {
			if at, ok := pt.Elem().Underlying().(*types.Array); ok {
				return at.Len() == 0 && x.Low == nil
			}
		}
	}
	return false
}

// c12CountsLen proves c == len(l) wherever both values are live, by simulation: both are the constant start (0 and
// an empty list), or phis of the same block whose edges correspond pairwise, or c'+1 and append(l', one element) with
// c' == len(l').  Phi pairs under examination are assumed (the usual coinductive argument: the relation holds on
// entry and is preserved by every edge).
func c12CountsLen(c, l ssa.Value, assumed map[[2]ssa.Value]bool) bool {
	if ct, ok := l.(*ssa.ChangeType); ok {
		l = ct.X
	}
	key := [2]ssa.Value{c, l}
	if assumed[key] {
		return true
	}
	if IsConstIntValue(c, 0) {
		_, isC := c.(*ssa.Const)
		return isC && c12EmptyList(l)
	}
	switch x := c.(type) {
	case *ssa.Phi:
		y, ok := l.(*ssa.Phi)
		if !ok || y.Block() != x.Block() || len(x.Edges) != len(y.Edges) {
			return false
		}
		assumed[key] = true
		for i := range x.Edges {
			if !c12CountsLen(x.Edges[i], y.Edges[i], assumed) {
				delete(assumed, key)
				return false
			}
		}
		return true
	case *ssa.BinOp:
		if x.Op != token.ADD {
			return false
		}
		prev := x.X
		if !IsConstIntValue(x.Y, 1) {
			if !IsConstIntValue(x.X, 1) {
				return false
			}
			prev = x.Y
		}
		base, elems, ok := appendCall(l)
		if !ok || len(elems) != 1 {
			return false
		}
		return c12CountsLen(prev, base, assumed)
	}
	return false
}

// c12ProcessListExact: processList(start, list, ..) runs its body once per element of list (no other way out of
// the loop than the exhausted range), the index phi idx enters with start and advances by one on every back edge,
// and the value returned is idx at loop exit.  Hence the indices start .. start+len(list)-1 are handed out and
// start+len(list) is returned.
func c12ProcessListExact(tm *Termer, pl *ssa.Function, idx ssa.Value, body *ssa.BasicBlock) bool {
	ph, ok := idx.(*ssa.Phi)
	if !ok || body == nil {
		return false
	}
	loops := Loops(pl)
	l := InnermostLoop(loops, body)
	if l == nil || ph.Block() != l.Header {
		return false
	}
	// the header is the only block with an edge out of the loop
	for b := range l.Blocks {
		for _, s := range b.Succs {
			if !l.Blocks[s] && b != l.Header {
				return false
			}
		}
	}
	iff, isIf := l.Header.Instrs[len(l.Header.Instrs)-1].(*ssa.If)
	if !isIf {
		return false
	}
	cmp, isCmp := iff.Cond.(*ssa.BinOp)
	if !isCmp || !c12CountsInputs(tm, pl, body, cmp.X) || tm.Of(cmp.Y).String() != "len(p1)" {
		return false
	}
	nIn, nBack := 0, 0
	for i, e := range ph.Edges {
		if l.Blocks[l.Header.Preds[i]] {
			if !c13IsPlusOne(e, ph) {
				return false
			}
			nBack++
		} else {
			if !isParamIdx(tm.Of(e), 0) {
				return false
			}
			nIn++
		}
	}
	if nIn == 0 || nBack == 0 {
		return false
	}
	// every return yields the index phi, and lies outside the loop
	nRet := 0
	for _, b := range pl.Blocks {
		if ret, isRet := b.Instrs[len(b.Instrs)-1].(*ssa.Return); isRet {
			if l.Blocks[b] || len(ret.Results) != 1 || ret.Results[0] != ssa.Value(ph) {
				return false
			}
			nRet++
		}
	}
	return nRet > 0
}

// c12ChainedStarts: the start index of every processList call (in program order) is the end of the previous group,
// the first is 0.
func c12ChainedStarts(cx *c12LinCtx, calls []ssa.CallInstruction) bool {
	for i, c := range calls {
		a := c.Common().Args
		if i == 0 {
			s, ok := cx.of(a[0], 0)
			if !ok || !s.equal(c12Lin{}) {
				return false
			}
			continue
		}
		if a[0] == calls[i-1].Value() && calls[i-1].Value() != nil {
			continue // the pinned form: the index returned by the previous call
		}
		if !cx.exact {
			return false
		}
		prev := calls[i-1].Common().Args
		ps, okP := cx.of(prev[0], 0)
		pn, okN := cx.atom(prev[1])
		s, okS := cx.of(a[0], 0)
		if !okP || !okN || !okS || !s.equal(ps.plus(c12Lin{coef: map[string]int64{pn: 1}})) {
			return false
		}
	}
	return true
}

// c12NewLinCtx prepares the evaluation of start indices in fn (Network.FastNetworkSolver).
func c12NewLinCtx(p *Prog, fn, pl *ssa.Function) *c12LinCtx {
	cx := &c12LinCtx{tm: NewTermer(fn), fn: fn, pl: pl}
	// the functions that run between two loads of a receiver field in fn: fn itself and what it calls directly
	scope := []*ssa.Function{fn}
	Instrs(fn, func(_ *ssa.BasicBlock, _ int, in ssa.Instruction) {
		if c, ok := in.(ssa.CallInstruction); ok {
			if callee := c.Common().StaticCallee(); callee != nil && len(callee.Blocks) > 0 && callee.Pkg == fn.Pkg {
				scope = append(scope, callee)
			}
		}
	})
	cx.stableField = func(t *Term) bool {
		if t.Op != "field" || len(t.Args) != 1 || t.Args[0].Op != "recv" {
			return false
		}
		fld, ok := t.Obj.(*types.Var)
		if !ok {
			return false
		}
		for _, f := range scope {
			if len(FieldStores(f, fld)) > 0 {
				return false
			}
		}
		return true
	}
	// processList hands out start .. start+len(list)-1 and returns start+len(list)
	ptm := NewTermer(pl)
	nStores, nExact := 0, 0
	Instrs(pl, func(b *ssa.BasicBlock, _ int, in ssa.Instruction) {
		if st, ok := in.(*ssa.Store); ok {
			if ia, ok := st.Addr.(*ssa.IndexAddr); ok && isParamIdx(ptm.Of(ia.X), 2) {
				nStores++
				if c12ProcessListExact(ptm, pl, ia.Index, b) {
					nExact++
				}
			}
		}
	})
	cx.exact = nStores > 0 && nStores == nExact
	return cx
}
