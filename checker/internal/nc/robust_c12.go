package nc

import (
	"go/token"
	"strings"

	"golang.org/x/tools/go/ssa"
)

// c12BiasTest recognises a branch condition that decides whether the source of
// an incoming link is a bias neuron, independent of how the comparison is
// spelled: `x.InNode.NeuronType == BiasNeuron`, `!=`, operands swapped, or any
// number of `!` around it. taken is the branch outcome under consideration.
// Returned are the comparison itself (identity of the test), the term of the
// tested NeuronType field, and whether "source is a bias neuron" holds on that
// outcome.
func c12BiasTest(tm *Termer, c ssa.Value, taken bool, biasConst string) (core ssa.Value, srcType *Term, isBias bool, ok bool) {
	holds := taken
	for i := 0; i < 8; i++ {
		u, isU := c.(*ssa.UnOp)
		if !isU || u.Op != token.NOT {
			break
		}
		c, holds = u.X, !holds
	}
	b, isB := c.(*ssa.BinOp)
	if !isB || (b.Op != token.EQL && b.Op != token.NEQ) {
		return nil, nil, false, false
	}
	x, y := tm.Of(b.X), tm.Of(b.Y)
	if y.String() != biasConst {
		x, y = y, x
	}
	if y.String() != biasConst || !strings.HasSuffix(x.String(), ".InNode.NeuronType") {
		return nil, nil, false, false
	}
	if b.Op == token.NEQ {
		holds = !holds
	}
	return b, x, holds, true
}
