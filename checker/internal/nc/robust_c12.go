package nc

import (
	"go/token"
	"go/types"
	"strings"

	"golang.org/x/tools/go/ssa"
)

// c12BiasTest recognises a branch condition that decides whether the source of
// an incoming link is a bias neuron, independent of how the comparison is
// spelled: `x.InNode.NeuronType == BiasNeuron`, `!=`, operands swapped, or any
// number of `!` around it. taken is the branch outcome under consideration.
// Returned are the comparison itself (identity of the test), the term of the
// tested NeuronType field, and whether "source is a bias neuron" holds on that
// outcome.
func c12BiasTest(tm *Termer, c ssa.Value, taken bool, biasConst string) (core ssa.Value, srcType *Term, isBias bool, ok bool) {
	holds := taken
	for i := 0; i < 8; i++ {
		u, isU := c.(*ssa.UnOp)
		if !isU || u.Op != token.NOT {
			break
		}
		c, holds = u.X, !holds
	}
	b, isB := c.(*ssa.BinOp)
	if !isB || (b.Op != token.EQL && b.Op != token.NEQ) {
		return nil, nil, false, false
	}
	x, y := tm.Of(b.X), tm.Of(b.Y)
	if y.String() != biasConst {
		x, y = y, x
	}
	if y.String() != biasConst || !strings.HasSuffix(x.String(), ".InNode.NeuronType") {
		return nil, nil, false, false
	}
	if b.Op == token.NEQ {
		holds = !holds
	}
	return b, x, holds, true
}

// ---------------------------------------------------------------------------------------------------------------
// Start indices of the neuron groups (C12.5 layout.order).
//
// The obligation claims: group k starts at the index where group k-1 ended, the first group starts at 0.  The pinned
// code threads the result of processList into the next call; equivalent code computes the start offsets from the
// group sizes (`inputsOffset := len(biasList)`, `outputsOffset := inputsOffset + len(inList)` ...), or from a counter
// kept next to the appends.  All forms are compared as linear forms over the atoms len(<list value>).

// c12Lin is k + Σ coef[a]·a, the atoms a standing for the length of one list value.
type c12Lin struct {
	k    int64
	coef map[string]int64
}

func (a c12Lin) plus(b c12Lin) c12Lin {
	s := c12Lin{k: a.k + b.k, coef: map[string]int64{}}
	for n, c := range a.coef {
		s.coef[n] += c
	}
	for n, c := range b.coef {
		s.coef[n] += c
	}
	for n, c := range s.coef {
		if c == 0 {
			delete(s.coef, n)
		}
	}
	return s
}

func (a c12Lin) equal(b c12Lin) bool {
	if a.k != b.k || len(a.coef) != len(b.coef) {
		return false
	}
	for n, c := range a.coef {
		if b.coef[n] != c {
			return false
		}
	}
	return true
}

// c12LinCtx evaluates integer values of fn as linear forms.
type c12LinCtx struct {
	tm    *Termer
	fn    *ssa.Function
	pl    *ssa.Function // processList; its result is start+len(list) if plExact
	exact bool          // processList numbers exactly len(list) neurons start, start+1, ... and returns the next index
	lists []ssa.Value   // the list values handed to processList (candidates for a counter kept next to the appends)
	// fields of the receiver that fn never stores to: two loads of them yield the same slice
	stableField func(t *Term) bool
}

// atom names the length of list value v: SSA identity for local lists, the origin term for a receiver field that
// the function does not assign (every load yields the same slice header, hence the same length).
func (cx *c12LinCtx) atom(v ssa.Value) (string, bool) {
	for {
		ct, ok := v.(*ssa.ChangeType)
		if !ok {
			break
		}
		v = ct.X
	}
	if t := cx.tm.Of(v); t.Op == "field" && cx.stableField(t) {
		return "len(" + t.String() + ")", true
	}
	switch v.(type) {
	case *ssa.Phi, *ssa.Call, *ssa.Slice, *ssa.MakeSlice, *ssa.Parameter:
		return "len(" + v.Name() + ")", true
	}
	return "", false
}

func (cx *c12LinCtx) of(v ssa.Value, depth int) (c12Lin, bool) {
	if depth > 16 {
		return c12Lin{}, false
	}
	if k, ok := constInt(v); ok {
		if _, isC := v.(*ssa.Const); isC {
			return c12Lin{k: k}, true
		}
	}
	switch x := v.(type) {
	case *ssa.BinOp:
		if x.Op != token.ADD {
			return c12Lin{}, false
		}
		a, okA := cx.of(x.X, depth+1)
		b, okB := cx.of(x.Y, depth+1)
		if !okA || !okB {
			return c12Lin{}, false
		}
		return a.plus(b), true
	case *ssa.Call:
		if b, isB := x.Call.Value.(*ssa.Builtin); isB && b.Name() == "len" && len(x.Call.Args) == 1 {
			if n, ok := cx.atom(x.Call.Args[0]); ok {
				return c12Lin{coef: map[string]int64{n: 1}}, true
			}
			return c12Lin{}, false
		}
		if cx.exact && x.Call.StaticCallee() == cx.pl && len(x.Call.Args) == 4 {
			s, okS := cx.of(x.Call.Args[0], depth+1)
			n, okN := cx.atom(x.Call.Args[1])
			if okS && okN {
				return s.plus(c12Lin{coef: map[string]int64{n: 1}}), true
			}
		}
		return c12Lin{}, false
	case *ssa.Phi:
		// a counter advanced exactly where one of the lists grows by one element
		for _, l := range cx.lists {
			if c12CountsLen(x, l, map[[2]ssa.Value]bool{}) {
				if n, ok := cx.atom(l); ok {
					return c12Lin{coef: map[string]int64{n: 1}}, true
				}
			}
		}
	}
	return c12Lin{}, false
}

// c12EmptyList: v is a list of length 0 (nil, make(T, 0[, cap]), T{}).
func c12EmptyList(v ssa.Value) bool {
	switch x := v.(type) {
	case *ssa.Const:
		return x.Value == nil
	case *ssa.MakeSlice:
		return IsConstIntValue(x.Len, 0)
	case *ssa.Slice:
		// make with constant sizes and composite literals: new [cap]T sliced [:len]
		if _, isAlloc := x.X.(*ssa.Alloc); !isAlloc {
			return false
		}
		if x.High != nil {
			return IsConstIntValue(x.High, 0) && (x.Low == nil || IsConstIntValue(x.Low, 0))
		}
		if pt, ok := x.X.Type().Underlying().(*types.Pointer); ok {
			if at, ok := pt.Elem().Underlying().(*types.Array); ok {
				return at.Len() == 0 && x.Low == nil
			}
		}
	}
	return false
}

// c12CountsLen proves c == len(l) wherever both values are live, by simulation: both are the constant start (0 and
// an empty list), or phis of the same block whose edges correspond pairwise, or c'+1 and append(l', one element) with
// c' == len(l').  Phi pairs under examination are assumed (the usual coinductive argument: the relation holds on
// entry and is preserved by every edge).
func c12CountsLen(c, l ssa.Value, assumed map[[2]ssa.Value]bool) bool {
	if ct, ok := l.(*ssa.ChangeType); ok {
		l = ct.X
	}
	key := [2]ssa.Value{c, l}
	if assumed[key] {
		return true
	}
	if IsConstIntValue(c, 0) {
		_, isC := c.(*ssa.Const)
		return isC && c12EmptyList(l)
	}
	switch x := c.(type) {
	case *ssa.Phi:
		y, ok := l.(*ssa.Phi)
		if !ok || y.Block() != x.Block() || len(x.Edges) != len(y.Edges) {
			return false
		}
		assumed[key] = true
		for i := range x.Edges {
			if !c12CountsLen(x.Edges[i], y.Edges[i], assumed) {
				delete(assumed, key)
				return false
			}
		}
		return true
	case *ssa.BinOp:
		if x.Op != token.ADD {
			return false
		}
		prev := x.X
		if !IsConstIntValue(x.Y, 1) {
			if !IsConstIntValue(x.X, 1) {
				return false
			}
			prev = x.Y
		}
		base, elems, ok := appendCall(l)
		if !ok || len(elems) != 1 {
			return false
		}
		return c12CountsLen(prev, base, assumed)
	}
	return false
}

// c12ProcessListExact: processList(start, list, ..) runs its body once per element of list (no other way out of
// the loop than the exhausted range), the index phi idx enters with start and advances by one on every back edge,
// and the value returned is idx at loop exit.  Hence the indices start .. start+len(list)-1 are handed out and
// start+len(list) is returned.
func c12ProcessListExact(tm *Termer, pl *ssa.Function, idx ssa.Value, body *ssa.BasicBlock) bool {
	ph, ok := idx.(*ssa.Phi)
	if !ok || body == nil {
		return false
	}
	loops := Loops(pl)
	l := InnermostLoop(loops, body)
	if l == nil || ph.Block() != l.Header {
		return false
	}
	// the header is the only block with an edge out of the loop
	for b := range l.Blocks {
		for _, s := range b.Succs {
			if !l.Blocks[s] && b != l.Header {
				return false
			}
		}
	}
	iff, isIf := l.Header.Instrs[len(l.Header.Instrs)-1].(*ssa.If)
	if !isIf {
		return false
	}
	cmp, isCmp := iff.Cond.(*ssa.BinOp)
	if !isCmp || !c12CountsInputs(tm, pl, body, cmp.X) || tm.Of(cmp.Y).String() != "len(p1)" {
		return false
	}
	nIn, nBack := 0, 0
	for i, e := range ph.Edges {
		if l.Blocks[l.Header.Preds[i]] {
			if !c13IsPlusOne(e, ph) {
				return false
			}
			nBack++
		} else {
			if !isParamIdx(tm.Of(e), 0) {
				return false
			}
			nIn++
		}
	}
	if nIn == 0 || nBack == 0 {
		return false
	}
	// every return yields the index phi, and lies outside the loop
	nRet := 0
	for _, b := range pl.Blocks {
		if ret, isRet := b.Instrs[len(b.Instrs)-1].(*ssa.Return); isRet {
			if l.Blocks[b] || len(ret.Results) != 1 || ret.Results[0] != ssa.Value(ph) {
				return false
			}
			nRet++
		}
	}
	return nRet > 0
}

// c12ChainedStarts: the start index of every processList call (in program order) is the end of the previous group,
// the first is 0.
func c12ChainedStarts(cx *c12LinCtx, calls []ssa.CallInstruction) bool {
	for i, c := range calls {
		a := c.Common().Args
		if i == 0 {
			s, ok := cx.of(a[0], 0)
			if !ok || !s.equal(c12Lin{}) {
				return false
			}
			continue
		}
		if a[0] == calls[i-1].Value() && calls[i-1].Value() != nil {
			continue // the pinned form: the index returned by the previous call
		}
		if !cx.exact {
			return false
		}
		prev := calls[i-1].Common().Args
		ps, okP := cx.of(prev[0], 0)
		pn, okN := cx.atom(prev[1])
		s, okS := cx.of(a[0], 0)
		if !okP || !okN || !okS || !s.equal(ps.plus(c12Lin{coef: map[string]int64{pn: 1}})) {
			return false
		}
	}
	return true
}

// c12NewLinCtx prepares the evaluation of start indices in fn (Network.FastNetworkSolver).
func c12NewLinCtx(p *Prog, fn, pl *ssa.Function) *c12LinCtx {
	cx := &c12LinCtx{tm: NewTermer(fn), fn: fn, pl: pl}
	// the functions that run between two loads of a receiver field in fn: fn itself and what it calls directly
	scope := []*ssa.Function{fn}
	Instrs(fn, func(_ *ssa.BasicBlock, _ int, in ssa.Instruction) {
		if c, ok := in.(ssa.CallInstruction); ok {
			if callee := c.Common().StaticCallee(); callee != nil && len(callee.Blocks) > 0 && callee.Pkg == fn.Pkg {
				scope = append(scope, callee)
			}
		}
	})
	cx.stableField = func(t *Term) bool {
		if t.Op != "field" || len(t.Args) != 1 || t.Args[0].Op != "recv" {
			return false
		}
		fld, ok := t.Obj.(*types.Var)
		if !ok {
			return false
		}
		for _, f := range scope {
			if len(FieldStores(f, fld)) > 0 {
				return false
			}
		}
		return true
	}
	// processList hands out start .. start+len(list)-1 and returns start+len(list)
	ptm := NewTermer(pl)
	nStores, nExact := 0, 0
	Instrs(pl, func(b *ssa.BasicBlock, _ int, in ssa.Instruction) {
		if st, ok := in.(*ssa.Store); ok {
			if ia, ok := st.Addr.(*ssa.IndexAddr); ok && isParamIdx(ptm.Of(ia.X), 2) {
				nStores++
				if c12ProcessListExact(ptm, pl, ia.Index, b) {
					nExact++
				}
			}
		}
	})
	cx.exact = nStores > 0 && nStores == nExact
	return cx
}

// ---------------------------------------------------------------------------------------------------------------
// Where the translation of incoming links stands (C12.1, C12.5 layout.connections).
//
// The obligations are about one piece of code - the loop that turns every incoming link of every neuron of a list
// into `biases[target] += weight` or a FastNetworkLink - and about the lists, the bias array and the id->index map
// FastNetworkSolver runs it on.  In the pinned tree the loop is the body of the method
// Network.processIncomingConnections and the inputs are its parameters.  A refactoring may turn the method (which
// does not use its receiver) into a function, rename it, or write its body out in FastNetworkSolver; the normaliser
// expands every call of a function the pinned tree does not have, so in all these cases the loop stands in
// FastNetworkSolver itself.  c12Xlate names the function that holds the loop and says which values play the three
// roles there: parameters 1, 2, 3 of the pinned method, or - in place - the bias array FastNetworkSolver hands to the
// solver constructor and the lookup map it had processList fill (value identity), the list being whatever slice of
// neurons the loop ranges over (recorded per instance and reported as the translated list).

type c12Site struct {
	list, biases, lookup ssa.Value
	pos                  token.Pos
}

type c12Xlate struct {
	fn         *ssa.Function
	tm         *Termer
	inPlace    bool
	isList     func(t *Term) bool
	isBiases   func(t *Term) bool
	isLookup   func(t *Term) bool
	biasStores []*ssa.Store
	linkAllocs []*ssa.Alloc
	sites      []c12Site // one per list FastNetworkSolver translates
}

// c12StripCT is the value-identity normaliser of the C12 rules: type changes are removed, and a read of a local
// that lives in a memory cell only because a function literal captures it (a cell that is stored exactly once,
// before the read, and that no literal does anything with but read: c04CellValue) is the value stored there.
func c12StripCT(v ssa.Value) ssa.Value {
	for depth := 0; depth < 8; depth++ {
		if ct, ok := v.(*ssa.ChangeType); ok {
			v = ct.X
			continue
		}
		if held, ok := c04CellValue(v); ok {
			v = held
			continue
		}
		return v
	}
	return v
}

// c12ListElemId: t == L[i].Id for a list L accepted by isList and a non-constant index i. Returned are the terms of L and i.
func c12ListElemId(t *Term, isList func(*Term) bool) (list, idx *Term, ok bool) {
	if t == nil || t.Op != "field" || t.Name != "Id" || len(t.Args) != 1 {
		return nil, nil, false
	}
	e := t.Args[0]
	if e.Op != "elem" || len(e.Args) < 2 || e.Args[1].Op == "const" || !isList(e.Args[0]) {
		return nil, nil, false
	}
	return e.Args[0], e.Args[1], true
}

// linkFieldStores: the stores that initialise the fields of the FastNetworkLink allocated by la.
func c12LinkFieldStores(la *ssa.Alloc) map[string][]*ssa.Store {
	out := map[string][]*ssa.Store{}
	for _, ref := range *la.Referrers() {
		if fa, ok := ref.(*ssa.FieldAddr); ok {
			for _, r2 := range *fa.Referrers() {
				if st, ok := r2.(*ssa.Store); ok && st.Addr == ssa.Value(fa) {
					name := fieldOf(fa.X.Type(), fa.Field).Name()
					out[name] = append(out[name], st)
				}
			}
		}
	}
	return out
}

func c12FindXlate(p *Prog) *c12Xlate {
	fns := p.Func(PkgN, "Network.FastNetworkSolver")
	x := &c12Xlate{}
	pic := p.FuncOpt(PkgN, "Network.processIncomingConnections")
	var biasesV, lookupV ssa.Value
	if pic != nil {
		x.fn, x.tm = pic, NewTermer(pic)
		x.isList = func(t *Term) bool { return isParamIdx(t, 1) }
		x.isBiases = func(t *Term) bool { return isParamIdx(t, 2) }
		x.isLookup = func(t *Term) bool { return isParamIdx(t, 3) }
	} else {
		// in place: the roles are fixed by what FastNetworkSolver does with the arrays afterwards / before
		x.fn, x.tm, x.inPlace = fns, NewTermer(fns), true
		if cs := CallsTo(fns, p.Func(PkgN, "NewFastModularNetworkSolver")); len(cs) == 1 {
			biasesV = c12StripCT(cs[0].Common().Args[6])
		}
		if cs := CallsTo(fns, p.Func(PkgN, "processList")); len(cs) > 0 {
			lookupV = c12StripCT(cs[0].Common().Args[3])
		}
		if biasesV == nil || lookupV == nil {
			panic(anchorMissing{"function " + short(PkgN) + ".Network.processIncomingConnections"})
		}
		x.isList = func(t *Term) bool {
			if t == nil || t.V == nil {
				return false
			}
			sl, ok := t.V.Type().Underlying().(*types.Slice)
			if !ok {
				return false
			}
			n, ok := deref(sl.Elem()).(*types.Named)
			return ok && n.Obj().Name() == "NNode"
		}
		x.isBiases = func(t *Term) bool { return t != nil && t.V != nil && c12StripCT(t.V) == biasesV }
		x.isLookup = func(t *Term) bool { return t != nil && t.V != nil && c12StripCT(t.V) == lookupV }
	}
	Instrs(x.fn, func(_ *ssa.BasicBlock, _ int, in ssa.Instruction) {
		switch i := in.(type) {
		case *ssa.Store:
			if ia, ok := i.Addr.(*ssa.IndexAddr); ok && x.isBiases(x.tm.Of(ia.X)) {
				x.biasStores = append(x.biasStores, i)
			}
		case *ssa.Alloc:
			if n, ok := deref(i.Type()).(*types.Named); ok && n.Obj().Name() == "FastNetworkLink" {
				x.linkAllocs = append(x.linkAllocs, i)
			}
		}
	})
	if x.inPlace && len(x.biasStores)+len(x.linkAllocs) == 0 {
		// neither the method nor its body: the translation is gone
		panic(anchorMissing{"function " + short(PkgN) + ".Network.processIncomingConnections"})
	}
	// the lists FastNetworkSolver runs the loop on
	add := func(list, biases, lookup ssa.Value, pos token.Pos) {
		if elems, ok := c12RangedLiteral(fns, list); ok {
			for _, e := range elems {
				x.sites = append(x.sites, c12Site{e, biases, lookup, pos})
			}
			return
		}
		x.sites = append(x.sites, c12Site{list, biases, lookup, pos})
	}
	if !x.inPlace {
		for _, c := range CallsTo(fns, pic) {
			a := c.Common().Args
			add(a[1], a[2], a[3], c.Pos())
		}
	} else {
		for _, la := range x.linkAllocs {
			// the list of this instance: TargetIndex = lookup[L[i].Id]
			for _, st := range c12LinkFieldStores(la)["TargetIndex"] {
				t := x.tm.Of(st.Val)
				if t.Op == "lookup" && x.isLookup(t.Args[0]) {
					if l, _, ok := c12ListElemId(t.Args[1], x.isList); ok {
						add(l.V, biasesV, lookupV, la.Pos())
					}
				}
			}
		}
	}
	return x
}

// c12RangedLiteral: v is the element lit[k] of a slice literal lit = []T{e0, .., eN-1}, read at the counter k of a loop
// that ranges over the whole literal: k = 0, 1, .., N-1, the loop being left before the end only by returning an
// error.  The literal is built once (every element stored exactly once, before the loop) and is used for nothing but
// len and element reads, so lit[k] is e_k.  Returned are e0 .. eN-1: what is done with v in the loop body is done
// with each of them, in this order.
func c12RangedLiteral(fn *ssa.Function, v ssa.Value) ([]ssa.Value, bool) {
	ld, ok := c12StripCT(v).(*ssa.UnOp)
	if !ok || ld.Op != token.MUL {
		return nil, false
	}
	ia, ok := ld.X.(*ssa.IndexAddr)
	if !ok {
		return nil, false
	}
	sl, ok := ia.X.(*ssa.Slice)
	if !ok || sl.Low != nil || sl.High != nil || sl.Max != nil {
		return nil, false
	}
	al, ok := sl.X.(*ssa.Alloc)
	if !ok {
		return nil, false
	}
	at, ok := deref(al.Type()).Underlying().(*types.Array)
	if !ok || at.Len() <= 0 || at.Len() > 64 {
		return nil, false
	}
	n := int(at.Len())
	elems := make([]ssa.Value, n)
	for _, ref := range *al.Referrers() {
		switch r := ref.(type) {
		case *ssa.Slice:
			if r != sl {
				return nil, false
			}
		case *ssa.IndexAddr:
			k, isK := constInt(r.Index)
			if !isK || k < 0 || int(k) >= n || elems[k] != nil || len(*r.Referrers()) != 1 {
				return nil, false
			}
			st, isSt := (*r.Referrers())[0].(*ssa.Store)
			if !isSt || st.Addr != ssa.Value(r) || !st.Block().Dominates(ld.Block()) {
				return nil, false
			}
			elems[k] = st.Val
		case *ssa.DebugRef:
		default:
			return nil, false
		}
	}
	for _, e := range elems {
		if e == nil {
			return nil, false
		}
	}
	// the slice is only measured and read
	isLen := func(x ssa.Value) bool {
		c, ok := x.(*ssa.Call)
		if !ok || len(c.Call.Args) != 1 || c.Call.Args[0] != ssa.Value(sl) {
			return false
		}
		b, ok := c.Call.Value.(*ssa.Builtin)
		return ok && b.Name() == "len"
	}
	for _, ref := range *sl.Referrers() {
		switch r := ref.(type) {
		case *ssa.Call:
			if !isLen(r) {
				return nil, false
			}
		case *ssa.IndexAddr:
			for _, r2 := range *r.Referrers() {
				if u, ok := r2.(*ssa.UnOp); !ok || u.Op != token.MUL {
					return nil, false
				}
			}
		case *ssa.DebugRef:
		default:
			return nil, false
		}
	}
	// k counts 0 .. N-1
	if !c12CountsTo(fn, ld.Block(), ia.Index, func(b ssa.Value) bool { return isLen(b) || IsConstIntValue(b, int64(n)) }) {
		return nil, false
	}
	l := InnermostLoop(Loops(fn), ld.Block())
	if l == nil {
		return nil, false
	}
	// the stores precede the loop
	for _, ref := range *al.Referrers() {
		if r, ok := ref.(*ssa.IndexAddr); ok && l.Blocks[r.Block()] {
			return nil, false
		}
	}
	// left early only by returning an error
	for b := range l.Blocks {
		if b == l.Header {
			continue
		}
		for _, s := range b.Succs {
			if l.Blocks[s] {
				continue
			}
			ret, isRet := s.Instrs[len(s.Instrs)-1].(*ssa.Return)
			if !isRet || len(ret.Results) == 0 {
				return nil, false
			}
			last := ret.Results[len(ret.Results)-1]
			if !types.Identical(last.Type(), types.Universe.Lookup("error").Type()) {
				return nil, false
			}
			if c, isC := last.(*ssa.Const); isC && c.Value == nil {
				return nil, false
			}
		}
	}
	return elems, true
}

// c12SumParts splits the term of `acc + a*b` (the summand on either side) into the running sum and the product.
func c12SumParts(v *Term) (acc, prod *Term, ok bool) {
	if v == nil || v.Op != "bin" || v.Name != "+" || len(v.Args) != 2 {
		return nil, nil, false
	}
	isProd := func(t *Term) bool { return t.Op == "bin" && t.Name == "*" && len(t.Args) == 2 }
	switch {
	case isProd(v.Args[1]):
		return v.Args[0], v.Args[1], true
	case isProd(v.Args[0]):
		return v.Args[1], v.Args[0], true
	}
	return nil, nil, false
}
