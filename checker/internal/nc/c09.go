package nc

import (
	"fmt"
	"go/token"
	"strings"

	"golang.org/x/tools/go/ssa"
)

// C09 — offspring quotas follow shared fitness and total the population size.
func C09(p *Prog, r *Run) {
	r.Explanation = "Decided: the formulas the statement names, as origins of the stored values - an organism's expected offspring is its fitness divided by (sum of all fitness / number of organisms), computed after every species' adjustFitness, whose last write to the fitness is the division by the species size, whose parent count is int(floor(SurvivalThresh*n + 1)) and which marks exactly the organisms at positions >= that count of the list sorted best-first; countOffspring adds floor(e) per organism to the quota and mod(e,1) to the carried fraction, moves whole units of the fraction to the quota, and returns both; the fraction is threaded through the species in order starting from zero; zero-quota species are removed before reproduction and marked organisms are removed from both lists; plus the conservation, pipeline and one-baby-per-quota-unit obligations shared with C02; the rest of the age adjustment (youth boost exactly for Age <= 10, negative fitness replaced before sharing, the improvement record kept on original fitness values exactly when the best one exceeds the maximum ever); the parent pool (C09.4: from the marking until the last species has reproduced only the removal of the marked organisms writes a species' organism list - in both executors the babies are speciated after the last Species.reproduce / after the join); the choice between the two repairs of a short total (C09.5: make-up offspring iff sum of quotas < n, whole-population fallback iff sum + 1 < n, both to the species with the largest quota, which exists whenever a species exists). Not decided: the numeric claims (proportionality, 'differs by less than one', totals under floating-point rounding)."
	r.Rule("C09.1", "pipeline order, one baby per quota unit, conservation of the total under stolen babies and delta coding (shared with C02)", func() {
		r.epochPipeline(false)
		r.babiesPerQuota()
		r.conservation()
	})
	r.Rule("C09.2", "formulas: expected offspring = fitness / population mean; fitness shared by species size last; parent count floor(thresh*n+1); marked = positions >= parent count of the best-first list; floor + carried fraction per species", func() {
		r.c09ExpectedOffspring()
		r.c09AdjustFitness(false)
		r.c09CountOffspring()
	})
	r.Rule("C09.3", "organisms marked for elimination are removed from their species and from the master list before reproduction", func() {
		fn := p.Func(PkgG, "Population.purgeOrganisms")
		r.Fn(FuncName(fn))
		tm := NewTermer(fn)
		rem := p.Func(PkgG, "Species.removeOrganism")
		okRem, okKeep, okStore := false, false, false
		elim := func(b *ssa.BasicBlock, want bool) bool {
			for _, g := range Guards(b) {
				if boolFieldCondTerm(tm, g, "recv.Organisms[*].toEliminate", want) {
					return true
				}
			}
			return false
		}
		for _, c := range CallsTo(fn, rem) {
			a := callArgTerms(tm, c.Common())
			if a[0].String() == "recv.Organisms[*].Species" && a[1].String() == "recv.Organisms[*]" && elim(c.Block(), true) {
				okRem = true
			}
		}
		for _, st := range FieldStores(fn, p.Field(PkgG, "Population", "Organisms")) {
			okStore = true
			// the same list built by index into a preallocated slice and cut to the number kept
			if c09KeptByIndex(fn, tm, st, "recv.Organisms[*]", "recv.Organisms[*].toEliminate") {
				okKeep = true
			}
			for _, f := range phiWeb(st.Val).Feeders {
				c, ok := f.(*ssa.Call)
				if !ok {
					continue
				}
				if _, elems, ok := appendCall(c); ok && len(elems) == 1 && tm.Of(elems[0]).String() == "recv.Organisms[*]" && elim(c.Block(), false) {
					okKeep = true
				}
			}
		}
		okLoop := false
		for _, l := range Loops(fn) {
			if loopRangesOver(tm, l, "recv.Organisms") {
				okLoop = true
			}
		}
		r.Check(okRem && okKeep && okStore && okLoop, "purgeOrganisms", p.Pos(fn.Pos()), "marked organisms leave their species; exactly the unmarked ones form the new master list",
			fmt.Sprintf("purgeOrganisms: marked organisms removed from their species=%v, unmarked ones kept=%v, master list replaced=%v, all organisms visited=%v", okRem, okKeep, okStore, okLoop))
	})
	r.Rule("C09.4", "the parents of a species are the survivors of its cut-off: from the marking until the last species has reproduced, nothing but the removal of the marked organisms writes a species' organism list (babies are speciated only after every species has reproduced, in both executors)", func() {
		r.c09ParentPool()
	})
	r.Rule("C09.5", "the quotas total the population size after the repair of a short total: the make-up offspring is given exactly when the sum of all quotas is below the number of organisms, the whole-population fallback exactly when the re-counted total (make-up offspring included) still is - not by a presumed cause -, and both go to the species with the largest quota, which the scan always finds", func() {
		r.c09FallbackWhenShort()
	})
}

func (r *Run) c09ExpectedOffspring() {
	p := r.P
	fn := p.Func(PkgG, "Population.purgeZeroOffspringSpecies")
	r.Fn(FuncName(fn))
	tm := NewTermer(fn)
	f := p.Field(PkgG, "Organism", "ExpectedOffspring")
	sts := FieldStores(fn, f)
	if len(sts) != 1 {
		r.Bad("expected-offspring.sites", p.Pos(fn.Pos()), fmt.Sprintf("%d stores to Organism.ExpectedOffspring", len(sts)))
		return
	}
	st := sts[0]
	vt := tm.Of(st.Val)
	ok := vt.Op == "bin" && vt.Name == "/" && vt.Args[0].String() == "recv.Organisms[*].Fitness" && tm.Of(st.Addr).String() == "recv.Organisms[*].ExpectedOffspring"
	okMean := false
	if ok {
		m := vt.Args[1]
		if m.Op == "bin" && m.Name == "/" && m.Args[1].String() == "float64(len(recv.Organisms))" {
			// numerator: accumulator phi {0, acc + Fitness} over a loop that ranges over all organisms
			if ph, isPhi := m.Args[0].V.(*ssa.Phi); isPhi {
				init, add := false, false
				for _, e := range ph.Edges {
					if k := constTermOf(e); k != nil && (k.Name == "0") {
						init = true
					} else if b, isB := e.(*ssa.BinOp); isB && b.Op == token.ADD && b.X == ssa.Value(ph) && tm.Of(b.Y).String() == "recv.Organisms[*].Fitness" {
						add = true
					}
				}
				for _, l := range Loops(fn) {
					if l.Header == ph.Block() && loopRangesOver(tm, l, "recv.Organisms") {
						okMean = init && add
					}
				}
			}
		}
	}
	l := InnermostLoop(Loops(fn), st.Block())
	okAll := l != nil && loopRangesOver(tm, l, "recv.Organisms")
	// the quotient is withheld only for a zero mean: any other cut-off leaves stale expectations in place
	// for populations whose (shared, penalised) fitness values are merely small
	if ok {
		mean := vt.Args[1].String()
		okGuard, why := true, ""
		for _, g := range Guards(st.Block()) {
			if l != nil && l.Blocks[g.At] {
				continue
			}
			gt := tm.Of(g.Cond)
			if !strings.Contains(gt.String(), mean) {
				continue
			}
			// the test and its outcome, with negations removed and the constant on the right (`0 != mean`, `!(mean == 0)`)
			cond, outcome := g.Cond, g.True
			for {
				if u, isU := cond.(*ssa.UnOp); isU && u.Op == token.NOT {
					cond, outcome = u.X, !outcome
					continue
				}
				break
			}
			okG := false
			if b, isB := cond.(*ssa.BinOp); isB {
				x, y, op := b.X, b.Y, b.Op
				if IsConstIntValue(x, 0) && !IsConstIntValue(y, 0) {
					x, y, op = y, x, mirrorCmp(op)
				}
				zero := IsConstIntValue(y, 0) && tm.Of(x).String() == mean
				switch {
				case zero && op == token.NEQ && outcome, zero && op == token.EQL && !outcome, zero && op == token.GTR && outcome, zero && op == token.LEQ && !outcome:
					okG = true
				}
			}
			if !okG {
				okGuard, why = false, gt.String()
			}
		}
		r.Check(okGuard, "expected-offspring.guard", p.Pos(st.Pos()), "computed whenever the mean fitness is not zero", "the expected offspring are computed only under `"+why+"`; the definition excludes nothing but a zero mean, so for small positive fitness values the organisms keep stale expectations and the quotas no longer follow the fitness")
	}
	r.Check(ok && okMean && okAll, "expected-offspring.formula", p.Pos(st.Pos()), "ExpectedOffspring = Fitness / (sum of Fitness / number of organisms), for every organism",
		fmt.Sprintf("an organism's expected offspring is %s; expected its fitness divided by the mean fitness of all organisms, for every organism (shape ok=%v mean ok=%v all organisms=%v)", vt, ok, okMean, okAll))
}

func (r *Run) c09AdjustFitness(boundOnly bool) {
	p := r.P
	fn := p.Func(PkgG, "Species.adjustFitness")
	r.Fn(FuncName(fn))
	tm := NewTermer(fn)
	loops := Loops(fn)
	fit := p.Field(PkgG, "Organism", "Fitness")
	// the organism loop and its last fitness write
	var share *ssa.Store
	for _, st := range FieldStores(fn, fit) {
		l := InnermostLoop(loops, st.Block())
		if l == nil {
			continue
		}
		// dominates every latch of the loop => written on every iteration, and no other fitness store follows it
		domAll := true
		for _, lb := range l.Latch {
			if !(st.Block() == lb || st.Block().Dominates(lb)) {
				domAll = false
			}
		}
		if !domAll {
			continue
		}
		later := false
		for _, o := range FieldStores(fn, fit) {
			if o != st && InnermostLoop(loops, o.Block()) == l && instrBefore(st, o) {
				later = true
			}
		}
		if !later {
			share = st
		}
	}
	okShare := false
	if share != nil {
		vt := tm.Of(share.Val)
		okShare = vt.Op == "bin" && vt.Name == "/" && vt.Args[0].String() == "recv.Organisms[*].Fitness" && vt.Args[1].String() == "float64(len(recv.Organisms))" && tm.Of(share.Addr).String() == "recv.Organisms[*].Fitness" &&
			loopRangesOver(tm, InnermostLoop(loops, share.Block()), "recv.Organisms")
	}
	// sort best-first after the loop, before the marking
	var sortCall ssa.CallInstruction
	for _, c := range CallsNamed(fn, "sort.Sort") {
		a := tm.Of(c.Common().Args[0])
		for a.Op == "iface" {
			a = a.Args[0]
		}
		if a.Op == "call" && a.Name == "sort.Reverse" && strings.Contains(a.String(), "recv.Organisms") {
			sortCall = c
		}
	}
	// marking loop
	elim := p.Field(PkgG, "Organism", "toEliminate")
	marks := FieldStores(fn, elim)
	okMark, okParents, okOrder := false, false, false
	if len(marks) == 1 && IsConstBool(marks[0].Val, true) {
		st := marks[0]
		at := tm.Of(st.Addr)
		l := InnermostLoop(loops, st.Block())
		if l != nil && at.Op == "field" && at.Args[0].Op == "elem" && at.Args[0].Args[0].String() == "recv.Organisms" {
			if ph, ok := at.Args[0].Args[1].V.(*ssa.Phi); ok && ph.Block() == l.Header {
				init, step := "", false
				var initT *Term
				for i, e := range ph.Edges {
					if !l.Blocks[ph.Block().Preds[i]] {
						initT = tm.Of(e)
						init = initT.String()
					} else if b, ok := e.(*ssa.BinOp); ok && b.Op == token.ADD && b.X == ssa.Value(ph) && constTermOf(b.Y) != nil && constTermOf(b.Y).Name == "1" {
						step = true
					}
				}
				// the body runs exactly while c < len(Organisms), however the header test spells it
				bound := false
				if x, y, ok := c09HeaderLess(l); ok && x == ssa.Value(ph) && tm.Of(y).String() == "len(recv.Organisms)" {
					bound = true
				}
				okMark = step && bound
				okParents = initT != nil && c09IsParentCount(initT)
				if !okParents {
					r.Note("adjustFitness: parent count is %s", init)
				}
			}
			if sortCall != nil && share != nil {
				okOrder = instrBefore(share, sortCall) == false && sortCall.Block().Dominates(l.Header) && InnermostLoop(loops, sortCall.Block()) == nil
				// the sort must come after the sharing loop: the loop header dominates the sort block and the sort is outside the loop
				sl := InnermostLoop(loops, share.Block())
				okOrder = okOrder && sl != nil && sl.Header.Dominates(sortCall.Block()) && !sl.Blocks[sortCall.Block()]
			}
		}
	}
	if boundOnly {
		// C02 needs only that marking cannot run off the list, whatever the parent count is
		okB := false
		if len(marks) == 1 {
			if l := InnermostLoop(loops, marks[0].Block()); l != nil {
				if x, y, ok := c09HeaderLess(l); ok {
					at := tm.Of(marks[0].Addr)
					okB = tm.Of(y).String() == "len(recv.Organisms)" && at.Op == "field" && at.Args[0].Op == "elem" && at.Args[0].Args[0].String() == "recv.Organisms" &&
						len(at.Args[0].Args) > 1 && at.Args[0].Args[1].V == x
				}
			}
		}
		r.Check(okB, "adjustFitness.marking-in-bounds", p.Pos(fn.Pos()), "marks Organisms[c] only while c < len(Organisms)", "the loop that marks organisms for elimination is not bounded by the length of the organism list: a survival threshold of 1.0 makes the epoch fail")
		return
	}
	// the four stages of the fitness adjustment: decided per path of one iteration (robust_c09b.go) wherever the loop
	// can be evaluated that way, store by store otherwise
	inline := r.c09LastImprovedInline(tm)
	if pipe := r.c09FitnessPipeline(fn, tm, loops, inline); pipe.Decided {
		r.Note("adjustFitness: fitness pipeline decided on %d iteration paths", pipe.Paths)
		stage := func(st, construct, okDetail, consequence string) {
			pos := p.Pos(fn.Pos())
			if at, has := pipe.Pos[st]; has && at.IsValid() {
				pos = p.Pos(at)
			}
			why, bad := pipe.Fail[st]
			r.Check(!bad, construct, pos, okDetail, why+": "+consequence)
		}
		stage(c09StShare, "adjustFitness.share", "the last fitness update of every organism is the division by the species size", "the fitness of every organism is not finally divided by the number of organisms of its species")
		stage(c09StStag, "adjustFitness.stagnation", "penalty exactly when Age - AgeOfLastImprovement + 1 - DropOffAge >= 0", "species are penalised a generation early or late (or not by the factor 0.01) and every quota derived from the adjusted fitness shifts")
		stage(c09StBoost, "adjustFitness.youth-boost", "fitness * AgeSignificance exactly when Age <= 10, before the fitness is shared", "the age-adjusted fitness of some species, and with it every quota, is off by the factor AgeSignificance")
		stage(c09StClamp, "adjustFitness.non-negative", "a negative fitness is replaced by a non-negative constant before the fitness is shared", "a negative fitness yields a negative expectation, for which floor(e) + mod(e,1) != e - the quotas no longer total the population size")
		pos := fn.Pos()
		if share != nil {
			pos = share.Pos()
		}
		r.c09StagnationRecord(fn, pos)
	} else {
		r.Note("adjustFitness: fitness pipeline not decided per path (%s); store-by-store rules applied", pipe.Why)
		{
			r.Check(okShare, "adjustFitness.share", p.Pos(fn.Pos()), "the last fitness update of every organism is the division by the species size", "the fitness of every organism is not finally divided by the number of organisms of its species")
		}
		r.c09Stagnation(fn, tm, loops)
		r.c09YouthBoost(fn, tm, loops, share)
		r.c09NonNegative(fn, tm, loops, share)
	}
	r.c09ImprovementRecord(fn, tm, loops, sortCall)
	r.Check(okParents, "adjustFitness.parent-count", p.Pos(fn.Pos()), "parents = int(floor(SurvivalThresh * n + 1))", "the number of organisms that remain available as parents is not int(floor(SurvivalThresh*n + 1))")
	r.Check(okMark, "adjustFitness.marking", p.Pos(fn.Pos()), "exactly the positions parents, parents+1, ..., n-1 are marked", "the organisms marked for elimination are not exactly those at positions >= the parent count")
	r.Check(okOrder, "adjustFitness.sorted-first", p.Pos(fn.Pos()), "the list is sorted best-first after the fitness update and before the marking", "the organisms are not sorted best-first between the fitness update and the marking: the wrong organisms are eliminated")
	// nothing reorders the organisms between here and reproduction: checked by C10.4
}

func (r *Run) c09CountOffspring() {
	p := r.P
	fn := p.Func(PkgG, "Species.countOffspring")
	r.Fn(FuncName(fn))
	tm := NewTermer(fn)
	loops := Loops(fn)
	if len(loops) != 1 || !loopRangesOver(tm, loops[0], "recv.Organisms") {
		r.Bad("countOffspring.loop", p.Pos(fn.Pos()), "countOffspring does not loop over all organisms of the species")
		return
	}
	l := loops[0]
	var quota, skim *ssa.Phi
	for _, ph := range HeaderPhis(l) {
		switch typeShort(ph.Type()) {
		case "int":
			// the range index is also an int: the accumulator starts at 0 and is returned
			for _, b := range fn.Blocks {
				if ret, ok := b.Instrs[len(b.Instrs)-1].(*ssa.Return); ok && ret.Results[0] == ssa.Value(ph) {
					quota = ph
				}
			}
		case "float64":
			skim = ph
		}
	}
	if quota == nil || skim == nil {
		r.Undecided("countOffspring.state", p.Pos(fn.Pos()), "cannot find the quota accumulator and the carried fraction")
		return
	}
	paths, _ := EnumIterPaths(fn, l, 100)
	r.PathsExplored += len(paths)
	eoT := "recv.Organisms[*].ExpectedOffspring"
	isCallNamed := func(v ssa.Value, name string) *ssa.Call {
		c, ok := v.(*ssa.Call)
		if !ok {
			return nil
		}
		if n, _ := calleeName(&c.Call); n == name {
			return c
		}
		return nil
	}
	floorE := func(v ssa.Value) bool {
		cv, ok := v.(*ssa.Convert)
		if !ok {
			return false
		}
		c := isCallNamed(cv.X, "math.Floor")
		return c != nil && tm.Of(c.Call.Args[0]).String() == eoT
	}
	modE := func(v ssa.Value) bool {
		c := isCallNamed(v, "math.Mod")
		return c != nil && tm.Of(c.Call.Args[0]).String() == eoT && constTermOf(c.Call.Args[1]) != nil && constTermOf(c.Call.Args[1]).Name == "1"
	}
	sum2 := func(v ssa.Value, op token.Token, a func(ssa.Value) bool, b func(ssa.Value) bool) bool {
		bo, ok := v.(*ssa.BinOp)
		if !ok || bo.Op != op {
			return false
		}
		if a(bo.X) && b(bo.Y) {
			return true
		}
		return op == token.ADD && a(bo.Y) && b(bo.X)
	}
	isQ := func(v ssa.Value) bool { return v == ssa.Value(quota) }
	isS := func(v ssa.Value) bool { return v == ssa.Value(skim) }
	q1 := func(v ssa.Value) bool { return sum2(v, token.ADD, isQ, floorE) }
	sF := func(v ssa.Value) bool { return sum2(v, token.ADD, isS, modE) }
	n := 0
	for _, ip := range paths {
		if ip.End != "back" {
			continue
		}
		n++
		nq, ns := ip.NextValue(quota), ip.NextValue(skim)
		carried := false
		for _, g := range ip.Conds {
			// `fraction >= 1` holds on the path (CmpFact: operands in either order; the complement of a floating-point
			// ordering is not taken)
			if x, y, op, ok := CmpFact(g.Cond, g.True); ok && op == token.GEQ && sF(x) && constTermOf(y) != nil && constTermOf(y).Name == "1" {
				carried = true
			}
		}
		okQ, okS := false, false
		if !carried {
			okQ, okS = q1(nq), sF(ns)
		} else {
			var fl *ssa.Call
			floorS := func(v ssa.Value) bool {
				c := isCallNamed(v, "math.Floor")
				if c != nil && sF(c.Call.Args[0]) {
					fl = c
					return true
				}
				return false
			}
			convFloorS := func(v ssa.Value) bool {
				cv, ok := v.(*ssa.Convert)
				return ok && floorS(cv.X)
			}
			okQ = sum2(nq, token.ADD, q1, convFloorS)
			okS = sum2(ns, token.SUB, sF, floorS)
			_ = fl
		}
		r.Check(okQ && okS, fmt.Sprintf("countOffspring.step[carry=%v]", carried), p.Pos(firstPos(ip)), "quota += floor(e) (+ whole units of the fraction), fraction += mod(e,1) (- those units)",
			fmt.Sprintf("per organism the quota becomes %s and the carried fraction %s; expected quota + floor(e) [+ floor(fraction)] and fraction + mod(e,1) [- floor(fraction)] (quota ok=%v, fraction ok=%v)", tm.Of(nq), tm.Of(ns), okQ, okS), ip.Describe(p)...)
	}
	r.Floor("countOffspring steps", n, 2)
	// initial values and result
	okInit := false
	for i, e := range skim.Edges {
		if !l.Blocks[skim.Block().Preds[i]] && isParamIdx(tm.Of(e), 1) {
			okInit = true
		}
	}
	okQ0 := false
	for i, e := range quota.Edges {
		if !l.Blocks[quota.Block().Preds[i]] && IsConstIntValue(e, 0) {
			okQ0 = true
		}
	}
	okRet := false
	for _, b := range fn.Blocks {
		if ret, ok := b.Instrs[len(b.Instrs)-1].(*ssa.Return); ok && ret.Results[0] == ssa.Value(quota) && ret.Results[1] == ssa.Value(skim) {
			okRet = true
		}
	}
	r.Check(okInit && okQ0 && okRet, "countOffspring.frame", p.Pos(fn.Pos()), "starts from quota 0 and the fraction handed in, returns both", "countOffspring does not start from (0, carried fraction) or does not return (quota, fraction)")
}

// c09LastImprovedInline: the getter Species.lastImproved, when the tree has it and its body is
// Age - AgeOfLastImprovement of its receiver, read as that difference (a tree that spells the difference out has no
// call to inline).
func (r *Run) c09LastImprovedInline(tm *Termer) func(c *ssa.Call) (Lin, bool) {
	li := r.P.FuncOpt(PkgG, "Species.lastImproved")
	return func(c *ssa.Call) (Lin, bool) {
		if li == nil || c.Call.StaticCallee() != li {
			return Lin{}, false
		}
		// the getter must be Age - AgeOfLastImprovement of its receiver
		tl := NewTermer(li)
		for _, b := range li.Blocks {
			if ret, ok := b.Instrs[len(b.Instrs)-1].(*ssa.Return); ok {
				if tl.Of(ret.Results[0]).String() != "(recv.Age-recv.AgeOfLastImprovement)" {
					return Lin{}, false
				}
			}
		}
		if tm.Of(c.Call.Args[0]).Op != "recv" {
			return Lin{}, false
		}
		return linAtom("recv.Age").Add(linAtom("recv.AgeOfLastImprovement"), -1), true
	}
}

// c09Stagnation (store-by-store form): the stagnation penalty (fitness * 0.01) applies exactly when
// Age - AgeOfLastImprovement + 1 >= DropOffAge. The condition is normalised to
// an integer-linear "L >= 0" and compared with that expression; the repository's
// `debt := X; if debt == 0 { debt = 1 }; if debt >= 1` form is recognised as X >= 0 (c09IntCondLin).
func (r *Run) c09Stagnation(fn *ssa.Function, tm *Termer, loops []*Loop) {
	p := r.P
	fit := p.Field(PkgG, "Organism", "Fitness")
	inline := r.c09LastImprovedInline(tm)
	want := linAtom("recv.Age").Add(linAtom("recv.AgeOfLastImprovement"), -1).Add(linConst(1), 1).Add(linAtom("p1.DropOffAge"), -1)
	var pen *ssa.Store
	for _, st := range FieldStores(fn, fit) {
		vt := tm.Of(st.Val)
		// the organism's own fitness times 0.01, stored back into that fitness (operands in either order)
		const fT = "recv.Organisms[*].Fitness"
		if vt.Op == "bin" && vt.Name == "*" && tm.Of(st.Addr).String() == fT &&
			((vt.Args[1].String() == "0.01" && vt.Args[0].String() == fT) || (vt.Args[0].String() == "0.01" && vt.Args[1].String() == fT)) {
			pen = st
		}
	}
	if pen == nil {
		r.Bad("adjustFitness.stagnation", p.Pos(fn.Pos()), "no stagnation penalty (fitness * 0.01) found in adjustFitness")
		return
	}
	var conds []Guard
	for _, g := range Guards(pen.Block()) {
		if l := InnermostLoop(loops, g.At); l != nil && g.At == l.Header {
			continue // the range condition of the organism loop
		}
		conds = append(conds, g)
	}
	if len(conds) != 1 {
		r.Bad("adjustFitness.stagnation", p.Pos(pen.Pos()), fmt.Sprintf("the stagnation penalty is applied under %d conditions; expected the single test of the species' stagnation period against DropOffAge", len(conds)))
		return
	}
	g := conds[0]
	if _, _, _, ok := CmpFact(g.Cond, g.True); !ok {
		r.Bad("adjustFitness.stagnation", p.Pos(pen.Pos()), "the condition of the stagnation penalty is not an integer comparison: "+tm.Of(g.Cond).String())
		return
	}
	got, decided := c09IntCondLin(tm, inline, g.Cond, g.True)
	if !decided {
		r.Bad("adjustFitness.stagnation", p.Pos(pen.Pos()), "the condition of the stagnation penalty could not be brought to the form L >= 0: "+tm.Of(g.Cond).String())
		return
	}
	r.c09StagnationRecord(fn, pen.Pos())
	r.Check(got.Equal(want), "adjustFitness.stagnation", p.Pos(pen.Pos()), "penalty exactly when Age - AgeOfLastImprovement + 1 - DropOffAge >= 0",
		"the stagnation penalty applies when "+got.String()+" >= 0; the age adjustment is defined as Age - AgeOfLastImprovement + 1 - DropOffAge >= 0 ("+want.String()+"), so species are penalised a generation early or late and every quota derived from the adjusted fitness shifts")
}

// c09StagnationRecord: the decision uses the improvement record as it stood before this generation's own update:
// every read of AgeOfLastImprovement (directly or through lastImproved) precedes every store to it in this function.
func (r *Run) c09StagnationRecord(fn *ssa.Function, at token.Pos) {
	p := r.P
	li := p.FuncOpt(PkgG, "Species.lastImproved")
	aoli := p.Field(PkgG, "Species", "AgeOfLastImprovement")
	var reads []ssa.Instruction
	Instrs(fn, func(_ *ssa.BasicBlock, _ int, in ssa.Instruction) {
		switch x := in.(type) {
		case *ssa.UnOp:
			if fa, ok := x.X.(*ssa.FieldAddr); ok && x.Op == token.MUL && fieldOf(fa.X.Type(), fa.Field) == aoli {
				reads = append(reads, in)
			}
		case *ssa.Call:
			if li != nil && x.Call.StaticCallee() == li {
				reads = append(reads, in)
			}
		}
	})
	okOrder, whyO := true, ""
	for _, st := range FieldStores(fn, aoli) {
		for _, rd := range reads {
			before := (rd.Block() == st.Block() && instrIndex(rd) < instrIndex(st)) || (rd.Block() != st.Block() && rd.Block().Dominates(st.Block()))
			if !before {
				// a read that can only execute after the store is a violation; reads on disjoint paths are not
				if st.Block() == rd.Block() || st.Block().Dominates(rd.Block()) || reachesBlock(st.Block(), rd.Block()) {
					okOrder = false
					whyO = "AgeOfLastImprovement is stored at " + p.Pos(st.Pos()) + " and read afterwards at " + p.Pos(rd.Pos())
				}
			}
		}
	}
	r.Check(okOrder && len(reads) > 0, "adjustFitness.stagnation.record", p.Pos(at), "the stagnation test reads the improvement record before this generation updates it",
		whyO+": a species due for the penalty that sets a new record in the same generation escapes it, its quota is about 100 times too large")
}

// reachesBlock: is there a CFG path from a to b?
func reachesBlock(a, b *ssa.BasicBlock) bool {
	seen := map[*ssa.BasicBlock]bool{}
	stack := []*ssa.BasicBlock{a}
	for len(stack) > 0 {
		x := stack[len(stack)-1]
		stack = stack[:len(stack)-1]
		for _, s := range x.Succs {
			if s == b {
				return true
			}
			if !seen[s] {
				seen[s] = true
				stack = append(stack, s)
			}
		}
	}
	return false
}
