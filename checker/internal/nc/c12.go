package nc

import (
	"fmt"
	"go/token"
	"sort"
	"strings"

	"golang.org/x/tools/go/ssa"
)

func init() { register("C12", C12) }

// elemOfField: t == <base>.field[idx]; returns the index value.
func elemOfField(t *Term, field string) (idx ssa.Value, base *Term, ok bool) {
	if t == nil || t.Op != "elem" || t.Args[0].Op != "field" || t.Args[0].Name != field {
		return nil, nil, false
	}
	if len(t.Args) > 1 {
		idx = t.Args[1].V
	}
	return idx, t.Args[0].Args[0], true
}

// C12 — all solvers compute the feed-forward function.
func C12(p *Prog, r *Run) {
	r.Explanation = "Numeric agreement of the solvers is out of reach of static analysis. Decided are the structural mechanisms it depends on: (1) when a network is translated for the fast solver every incoming link of every neuron lands in exactly one of `biases[target] += weight` (source is a bias neuron) or a FastNetworkLink{source index, target index, weight}; (2) every activation site of the fast solver (forward step and recursive activation) passes signal[i] + biasList[i] of the same neuron index i to the activation function of the same index, the bias being omitted only under biasNeuronCount <= 0; (3) ForwardSteps and Relax reach activation only through forwardStep, Network.RecursiveSteps is ForwardSteps(depth); bias signals are initialised to 1 in the fast solver and default to 1.0 in the standard one; (4) the standard solver's sweep adds weight*source-output for every incoming link and activates from that sum; the fast solver's sweeps add signal[source]*weight into the target; (8) a sweep of the fast solver depends on the loaded sensors and the topology only, whatever was evaluated on the same solver before and without a Flush in between: an array that a sweep adds into without clearing it first is zero whenever a sweep starts (it is only assigned a fresh make and every function that writes it sets what it wrote back to zero before each non-error return), and every RecursiveSteps starts its recursion with the memo flag true exactly on the sensors and the cycle marker false; (9) what a sweep evaluates and where the value goes: RecursiveSteps calls the recursion for every output index, the recursion activates the neuron it is asked for unless its memo flag is set, adds exactly one summand for each entry of reverseAdjacentList[node] (which the constructor fills with the source of every connection into node, adjacentMatrix[source][node] being that connection's weight), reads neuronSignals[source] for a forward link only after the source has its value, and stores the activation as neuronSignals[node]; forwardStep activates every neuron of [sensorNeuronCount, totalNeuronCount) and moves each result into neuronSignals of the same neuron, for exactly that range, before it returns, committing without the change test only under maxAllowedSignalDelta <= 0; Network.LoadSensors is decided per way through its loop over the input nodes. Not decided: equality of the computed numbers, summation order, sufficiency of the number of steps."
	solverMethods := func() []*ssa.Function {
		var out []*ssa.Function
		for _, fn := range p.SrcFuncs() {
			if fn.Signature.Recv() != nil && strings.HasSuffix(fn.Signature.Recv().Type().String(), "network.FastModularNetworkSolver") {
				out = append(out, fn)
			}
		}
		return out
	}
	actByType := p.Func(PkgM, "NodeActivatorsFactory.ActivateByType")

	r.Rule("C12.1", "bias-link partition: in processIncomingConnections every incoming link is folded into biases[target] (bias source) or becomes a FastNetworkLink{source, target, weight}, never both, never neither", func() {
		// the function that holds the translation loop and the roles of its inputs there (robust_c12.go): the pinned
		// method with its parameters, or FastNetworkSolver itself when the loop stands in place
		x := c12FindXlate(p)
		fn, tm := x.fn, x.tm
		r.Fn(FuncName(fn))
		if x.inPlace {
			r.Note("C12.1: Network.processIncomingConnections does not exist; its loop is examined where it stands in %s", FuncName(fn))
		}
		biasC := p.Const(PkgN, "BiasNeuron")
		if len(x.biasStores) == 0 || len(x.linkAllocs) == 0 {
			r.Bad("processIncomingConnections", p.Pos(fn.Pos()), fmt.Sprintf("bias folding present=%v, connection creation present=%v: bias links are dropped or duplicated", len(x.biasStores) > 0, len(x.linkAllocs) > 0))
			return
		}
		// instances of the loop: (bias store, connection allocation) pairs that are the two arms of one test.  The
		// pinned method has one; code written out in place may repeat it per list.
		biasCore := func(b *ssa.BasicBlock, want bool) ssa.Value {
			var core ssa.Value
			for _, g := range Guards(b) {
				if c, _, isBias, ok := c12BiasTest(tm, g.Cond, g.True, biasC.Val().ExactString()); ok && isBias == want {
					core = c
				}
			}
			return core
		}
		type inst struct {
			bias *ssa.Store
			link *ssa.Alloc
		}
		var insts []inst
		if len(x.biasStores) == 1 && len(x.linkAllocs) == 1 {
			insts = []inst{{x.biasStores[0], x.linkAllocs[0]}}
		} else {
			used := map[*ssa.Store]bool{}
			for _, la := range x.linkAllocs {
				var bs *ssa.Store
				if core := biasCore(la.Block(), false); core != nil {
					for _, s := range x.biasStores {
						if !used[s] && biasCore(s.Block(), true) == core {
							bs = s
							break
						}
					}
				}
				if bs == nil {
					r.Bad("partition", p.Pos(la.Pos()), "this connection creation is not paired with a bias folding under the opposite outcome of one test of the link source being a bias neuron")
					continue
				}
				used[bs] = true
				insts = append(insts, inst{bs, la})
			}
			for _, s := range x.biasStores {
				if !used[s] {
					r.Bad("partition", p.Pos(s.Pos()), "this bias folding is not paired with a connection creation under the opposite outcome of one test of the link source being a bias neuron")
				}
			}
		}
		for _, in := range insts {
			biasStore, linkAlloc := in.bias, in.link
			// same condition, opposite sides
			// The test may be written as ==, != (either operand order) or under !; what
			// is decided is the fact each arm establishes: "source is a bias neuron" holds
			// where the bias is folded and is refuted where the connection is created.
			var cond ssa.Value
			var srcType *Term
			var biasSide, linkSide bool
			for _, g := range Guards(biasStore.Block()) {
				if core, st, isBias, ok := c12BiasTest(tm, g.Cond, g.True, biasC.Val().ExactString()); ok {
					cond, srcType, biasSide = core, st, isBias
				}
			}
			for _, g := range Guards(linkAlloc.Block()) {
				if core, _, isBias, ok := c12BiasTest(tm, g.Cond, g.True, biasC.Val().ExactString()); ok && core == cond {
					linkSide = !isBias
				}
			}
			r.Check(cond != nil && biasSide && linkSide, "partition", p.Pos(biasStore.Pos()), "bias folding and connection creation are the two arms of `source.NeuronType == BiasNeuron`",
				"bias folding and connection creation are not the two arms of one test of the link source being a bias neuron")
			// bias store: biases[target] = biases[target] + link.ConnectionWeight
			v := tm.Of(biasStore.Val)
			idx := biasStore.Addr.(*ssa.IndexAddr).Index
			okV := v.Op == "bin" && v.Name == "+"
			if okV {
				var old, w *Term = v.Args[0], v.Args[1]
				if old.Op != "elem" {
					old, w = w, old
				}
				okV = old.Op == "elem" && x.isBiases(old.Args[0]) && old.Args[1].V == idx && w.Op == "field" && w.Name == "ConnectionWeight"
				// the link whose weight is added is the one whose source was tested
				if okV && cond != nil {
					okV = strings.HasPrefix(srcType.String(), w.Args[0].String()+".")
				}
			}
			r.Check(okV, "bias.accumulate", p.Pos(biasStore.Pos()), "biases[target] += link.ConnectionWeight", "the bias of the target neuron is not accumulated as biases[target] + link.ConnectionWeight: "+v.String())
			// the neuron whose incoming links are walked: element i of list L.  Bias index and TargetIndex must name the
			// position of that same neuron.
			tIdx := tm.Of(idx)
			var bList, bIdx *Term
			okI := tIdx.Op == "lookup" && x.isLookup(tIdx.Args[0])
			if okI {
				bList, bIdx, okI = c12ListElemId(tIdx.Args[1], x.isList)
			}
			r.Check(okI, "bias.index", p.Pos(biasStore.Pos()), "indexed by the target neuron's position", "the bias is stored at "+tIdx.String()+", not at the target neuron's index")
			// link fields
			want := map[string]func(t *Term) bool{
				"SourceIndex": func(t *Term) bool {
					return t.Op == "lookup" && x.isLookup(t.Args[0]) && strings.HasSuffix(t.Args[1].String(), ".InNode.Id")
				},
				"TargetIndex": func(t *Term) bool {
					if t.Op != "lookup" || !x.isLookup(t.Args[0]) {
						return false
					}
					l, i, ok := c12ListElemId(t.Args[1], x.isList)
					if ok && bList != nil && x.inPlace {
						// in place several lists are in scope: the connection's target is the neuron the bias is folded for
						ok = l.V == bList.V && i.V == bIdx.V
					}
					return ok
				},
				"Weight": func(t *Term) bool { return t.Op == "field" && t.Name == "ConnectionWeight" },
			}
			got := map[string]bool{}
			fieldStores := c12LinkFieldStores(linkAlloc)
			for _, name := range []string{"SourceIndex", "TargetIndex", "Weight"} {
				chk := want[name]
				for _, st := range fieldStores[name] {
					t := tm.Of(st.Val)
					r.Check(chk(t), "connection."+name, p.Pos(st.Pos()), name+" <- "+t.String(), name+" of the fast connection is "+t.String())
					got[name] = true
				}
			}
			for _, name := range []string{"SourceIndex", "TargetIndex", "Weight"} {
				if !got[name] {
					r.Bad("connection."+name, p.Pos(linkAlloc.Pos()), name+" of the fast connection is never set")
				}
			}
			// appended
			app := false
			for _, c := range CallsNamed(fn, "append") {
				if strings.Contains(tm.Of(c.Common().Args[1]).String(), "FastNetworkLink") && (c.Block() == linkAlloc.Block() || linkAlloc.Block().Dominates(c.Block())) {
					app = true
				}
			}
			r.Check(app, "connection.appended", p.Pos(linkAlloc.Pos()), "the connection is appended to the result", "the created connection is not appended to the result list")
		}
		// FastNetworkSolver feeds every neuron list through it
		fns := p.Func(PkgN, "Network.FastNetworkSolver")
		r.Floor("processIncomingConnections call sites", len(x.sites), 3)
		tf := NewTermer(fns)
		lists := map[string]bool{}
		for _, c := range x.sites {
			a := tf.Of(c.list).String()
			if a != "recv.Outputs" {
				a = fmt.Sprintf("%p", c12StripCT(c.list))
			}
			lists[a] = true
			b := tf.Of(c12StripCT(c.biases))
			if b.Op != "make" {
				r.Bad("solver.biases", p.Pos(c.pos), "the bias array passed on is "+b.String())
			}
		}
		r.Check(lists["recv.Outputs"], "solver.outputs", p.Pos(fns.Pos()), "incoming links of the outputs are translated", "incoming links of the output neurons are not translated")
		r.Check(len(lists) >= 3, "solver.lists", p.Pos(fns.Pos()), fmt.Sprintf("%d neuron lists translated", len(lists)), "hidden or output neurons are skipped when translating links")
	})

	r.Rule("C12.2", "every activation site of the fast solver consumes the bias: ActivateByType receives signal[i]+biasList[i] (same i), omitted only under biasNeuronCount <= 0, with activationFunctions[i]", func() {
		n := 0
		pinned := PinnedFuncs()
		for _, fn := range solverMethods() {
			if p.expandedAway(fn, pinned) {
				continue // never executed; its activation sites are checked where the normaliser expanded them
			}
			tm := NewTermer(fn)
			for _, c := range CallsTo(fn, actByType) {
				n++
				r.Fn(FuncName(fn))
				r.CallSites++
				label := fn.Name() + ".activate"
				args := c.Common().Args
				// activation function of the same neuron
				at := tm.Of(args[3])
				aIdx, _, okA := elemOfField(at, "activationFunctions")
				// signal alternatives
				var alts []struct {
					v    ssa.Value
					pred *ssa.BasicBlock
					blk  *ssa.BasicBlock
				}
				if ph, ok := args[1].(*ssa.Phi); ok {
					for i, e := range ph.Edges {
						alts = append(alts, struct {
							v    ssa.Value
							pred *ssa.BasicBlock
							blk  *ssa.BasicBlock
						}{e, ph.Block().Preds[i], ph.Block()})
					}
				} else {
					alts = append(alts, struct {
						v    ssa.Value
						pred *ssa.BasicBlock
						blk  *ssa.BasicBlock
					}{args[1], nil, c.Block()})
				}
				ok := true
				why := ""
				for _, a := range alts {
					t := tm.Of(a.v)
					hasBias := false
					var sigIdx ssa.Value
					if t.Op == "bin" && t.Name == "+" {
						for i, x := range t.Args {
							if bi, base, isB := elemOfField(x, "biasList"); isB && base.Op == "recv" {
								o := t.Args[1-i]
								si, sb, isS := elemOfField(o, "neuronSignalsBeingProcessed")
								if isS && sb.Op == "recv" && si == bi {
									hasBias = true
									sigIdx = si
								} else {
									why = fmt.Sprintf("bias index and signal index differ in %s", t)
								}
							}
						}
					}
					if hasBias {
						if okA && aIdx != sigIdx {
							ok, why = false, "the activation function is taken at a different index than the signal"
						}
						continue
					}
					// no bias on this alternative: only acceptable when biasNeuronCount <= 0 on that edge
					excused := false
					var gs []Guard
					if a.pred != nil {
						gs = Guards(a.pred)
						if iff, isIf := a.pred.Instrs[len(a.pred.Instrs)-1].(*ssa.If); isIf && a.pred.Succs[0] != a.pred.Succs[1] {
							gs = append(gs, Guard{iff.Cond, a.pred.Succs[0] == a.blk, a.pred})
						}
					} else {
						gs = Guards(a.blk)
					}
					for _, g := range gs {
						// biasNeuronCount <= 0 holds here, in whatever spelling (`0 < n` not taken, `!(n > 0)`, `n == 0`, `n < 1`)
						if x, y, op, isCmp := CmpFact(g.Cond, g.True); isCmp && tm.Of(x).String() == "recv.biasNeuronCount" {
							if k, isK := constInt(y); isK && ((k == 0 && (op == token.LEQ || op == token.EQL)) || (k == 1 && op == token.LSS)) {
								excused = true
							}
						}
					}
					if !excused {
						ok = false
						if why == "" {
							why = fmt.Sprintf("the activation input %s does not include biasList[node]", t)
						}
					}
				}
				r.Check(ok && okA, label, p.Pos(c.Pos()), "activation input = signal[i] + biasList[i], function activationFunctions[i]",
					"this activation site ignores the neuron's bias: "+why+" (bias links are folded into biasList when the solver is built, so the bias input is lost)")
			}
		}
		r.Floor("ActivateByType call sites in the fast solver", n, 2)
	})

	r.Rule("C12.3", "delegation: only forwardStep and recursiveActivateNode activate neurons in the fast solver; ForwardSteps and Relax go through forwardStep; Network.RecursiveSteps = ForwardSteps(depth); bias signals start at 1", func() {
		allowed := map[string]bool{"forwardStep": true, "recursiveActivateNode": true}
		actMod := p.Func(PkgM, "NodeActivatorsFactory.ActivateModuleByType")
		pinned := PinnedFuncs()
		for _, fn := range solverMethods() {
			// The declaration of a NEW unexported helper that nothing refers to any more (no static call, no value
			// use, no interface that names it: every call of it was expanded in place by the normaliser) is never
			// executed. Its activation calls are examined where they were expanded: in forwardStep /
			// recursiveActivateNode they are legitimate, in any other solver method the expanded copy is reported here.
			if p.expandedAway(fn, pinned) {
				continue
			}
			if len(CallsTo(fn, actByType))+len(CallsTo(fn, actMod)) > 0 && !allowed[fn.Name()] {
				r.Bad("activation-site:"+fn.Name(), p.Pos(fn.Pos()), fn.Name()+" activates neurons itself; the fast solver's only activation sites are forwardStep and recursiveActivateNode (checked by C12.2)")
			}
		}
		fs := p.Func(PkgN, "FastModularNetworkSolver.forwardStep")
		for _, name := range []string{"FastModularNetworkSolver.ForwardSteps", "FastModularNetworkSolver.Relax"} {
			fn := p.Func(PkgN, name)
			r.Fn(FuncName(fn))
			cs := CallsTo(fn, fs)
			inLoop := len(cs) == 1 && InnermostLoop(Loops(fn), cs[0].Block()) != nil
			r.Check(inLoop, name+".delegates", p.Pos(fn.Pos()), "calls forwardStep once per step", name+" does not call forwardStep once per step")
		}
		// Network.RecursiveSteps
		rs := p.Func(PkgN, "Network.RecursiveSteps")
		tm := NewTermer(rs)
		okRS := false
		for _, c := range CallsTo(rs, p.Func(PkgN, "Network.ForwardSteps")) {
			a := tm.Of(c.Common().Args[1])
			if a.Op == "extract" && a.Idx == 0 && isCallTo(a.Args[0], p.Func(PkgN, "Network.MaxActivationDepthWithCap")) {
				okRS = true
			}
		}
		r.Check(okRS, "Network.RecursiveSteps", p.Pos(rs.Pos()), "= ForwardSteps(MaxActivationDepthWithCap(..))", "Network.RecursiveSteps does not activate for the network's depth")
		// bias signals
		ctor := p.Func(PkgN, "NewFastModularNetworkSolver")
		tc := NewTermer(ctor)
		okB := false
		Instrs(ctor, func(b *ssa.BasicBlock, _ int, in ssa.Instruction) {
			if st, ok := in.(*ssa.Store); ok {
				if ia, ok := st.Addr.(*ssa.IndexAddr); ok && tc.Of(st.Val).String() == "1" {
					at := tc.Of(ia.X)
					if strings.HasSuffix(at.String(), ".neuronSignals") {
						for _, g := range Guards(b) {
							// `.. < biasNeuronCount` holds here (any spelling of the comparison)
							if _, y, isLess := c13LessThan(g.Cond, g.True); isLess && isParamIdx(tc.Of(y), 0) {
								okB = true
							}
						}
					}
				}
			}
		})
		r.Check(okB, "fast.bias-signal", p.Pos(ctor.Pos()), "neuronSignals[i] = 1 for i < biasNeuronCount", "the fast solver does not initialise the bias neurons' signals to 1")
		// standard solver default bias (decided per way through the loop over the input nodes, c12d.go)
		ls := p.Func(PkgN, "Network.LoadSensors")
		std := c12StdLoadSensors(p)
		r.Check(std.OKBias, "standard.bias-default", p.Pos(ls.Pos()), "bias nodes are loaded with 1.0 when not supplied", "LoadSensors does not load 1.0 into the bias nodes when they are not supplied: "+std.WhyBias)
	})

	r.Rule("C12.5", "index layout of the translation: neurons are numbered bias, input, output, hidden with chained start indices; activation type and id->index entry are written under the same index; connections and biases use that same lookup; the solver is built from exactly these arrays and counts", func() {
		r.c12Layout()
	})

	r.Rule("C12.6", "input/output windows: the fast solver loads input i into signal[biasCount+i] for all inputs and reads the outputs from signal[sensorCount : sensorCount+outputCount]; the standard network loads sensor values in input order (bias 1.0 when not supplied) and reads Outputs[i].Activation", func() {
		r.c12Windows()
	})

	r.Rule("C12.7", "step counts: Network.ForwardSteps and the fast solver's ForwardSteps perform one sweep call per counter value 0..steps-1 and leave the loop early only on error; Relax additionally stops when the step reports a relaxed network; forwardStep's relaxed flag starts true, is cleared by the |old-new| > delta test of the neuron being committed, and never returns to true within a sweep", func() {
		r.c12StepLoop(p.Func(PkgN, "Network.ForwardSteps"), p.Func(PkgN, "Network.ActivateSteps"), 1, false, "Network.ForwardSteps")
		r.c12StepLoop(p.Func(PkgN, "FastModularNetworkSolver.ForwardSteps"), p.Func(PkgN, "FastModularNetworkSolver.forwardStep"), 1, false, "Fast.ForwardSteps")
		r.c12StepLoop(p.Func(PkgN, "FastModularNetworkSolver.Relax"), p.Func(PkgN, "FastModularNetworkSolver.forwardStep"), 1, true, "Fast.Relax")
		r.c12RelaxFlag()
	})

	r.Rule("C12.8", "a sweep of the fast solver depends on the loaded sensors and the topology only: every array a sweep adds into without clearing it first is zero whenever a sweep starts (fresh at construction, and every writer sets what it wrote back to zero before each non-error return; a Flush in between is not required), and every RecursiveSteps starts its recursion with the memo flag true exactly on the sensors and every other recursion flag false on the non-sensor neurons", func() {
		r.c12History(actByType)
	})

	r.Rule("C12.9", "what a sweep of the fast solver evaluates and where the value goes: RecursiveSteps calls the recursion for every output neuron; the recursion activates the neuron it is called for unless that neuron's memo flag is set, sums over every entry of reverseAdjacentList[node] (filled by the constructor with the source of every connection into node, adjacentMatrix[source][node] holding the weight), reads neuronSignals[source] for a forward link only after the source has its value, and stores the activation as neuronSignals[node]; forwardStep activates every neuron in [sensorNeuronCount, totalNeuronCount) and moves each result into neuronSignals of the same neuron, for exactly that range, before it returns", func() {
		r.c12Dataflow(actByType)
	})

	r.Rule("C12.4", "sum-then-activate: the standard sweep adds ConnectionWeight*source.GetActiveOut() for every incoming link and activates from that sum; the fast sweeps add signal[source]*weight into signal[target]", func() {
		as := p.Func(PkgN, "Network.ActivateSteps")
		r.Fn(FuncName(as))
		tm := NewTermer(as)
		sumF := p.Field(PkgN, "NNode", "ActivationSum")
		okSum, okReset := false, false
		for _, st := range FieldStores(as, sumF) {
			v := tm.Of(st.Val)
			if v.String() == "0" {
				okReset = true
				continue
			}
			// sum = sum + addAmount, addAmount ∈ {w*GetActiveOut, w*GetActiveOutTd}
			if v.Op == "bin" && v.Name == "+" {
				// the summand on either side of the sum, the product in either operand order
				for _, side := range v.Args {
					for _, a := range side.Alternatives() {
						if a.Op != "bin" || a.Name != "*" || len(a.Args) != 2 {
							continue
						}
						for _, o := range [][2]*Term{{a.Args[0], a.Args[1]}, {a.Args[1], a.Args[0]}} {
							w, src := o[0], o[1]
							if strings.HasSuffix(w.String(), ".ConnectionWeight") && src.Op == "call" && src.Name == "NNode.GetActiveOut" && len(src.Args) > 0 {
								// same link's source
								if strings.HasPrefix(src.Args[0].String(), strings.TrimSuffix(w.String(), ".ConnectionWeight")) {
									okSum = true
								}
							}
						}
					}
				}
				lp := InnermostLoop(Loops(as), st.Block())
				if lp == nil {
					okSum = false
				}
			}
		}
		r.Check(okReset, "standard.sum.reset", p.Pos(as.Pos()), "ActivationSum is reset before summing", "ActivationSum is not reset to 0 before the incoming links are summed")
		r.Check(okSum, "standard.sum", p.Pos(as.Pos()), "sum += link.ConnectionWeight * link.InNode.GetActiveOut() over the incoming links", "the standard sweep does not add ConnectionWeight*source output for every incoming link")
		an := p.Func(PkgN, "ActivateNode")
		ta := NewTermer(an)
		okAN := false
		for _, c := range CallsTo(an, actByType) {
			a := callArgTerms(ta, c.Common())
			if a[1].String() == "p0.ActivationSum" && a[3].String() == "p0.ActivationType" {
				okAN = true
			}
		}
		// the computed value becomes the node's Activation: stored directly, or through the setter (which may have been
		// inlined by hand and deleted)
		sets := false
		actF := p.Field(PkgN, "NNode", "Activation")
		isActResult := func(t *Term) bool {
			if t.Op != "extract" || t.Idx != 0 || len(t.Args) == 0 {
				return false
			}
			return t.Args[0].Op == "call" && t.Args[0].Obj != nil && t.Args[0].Obj == actByType.Object()
		}
		if setter := p.FuncOpt(PkgN, "NNode.setActivation"); setter != nil {
			ts := NewTermer(setter)
			setterStores := false
			for _, st := range FieldStores(setter, actF) {
				if ts.Of(st.Val).String() == "p1" && ts.Of(st.Addr).String() == "recv.Activation" {
					setterStores = true
				}
			}
			cs := CallsTo(an, setter)
			if setterStores && len(cs) == 1 {
				a := callArgTerms(ta, cs[0].Common())
				sets = a[0].String() == "p0" && isActResult(a[1])
			}
		}
		for _, st := range FieldStores(an, actF) {
			if ta.Of(st.Addr).String() == "p0.Activation" && isActResult(ta.Of(st.Val)) {
				sets = true
			}
		}
		r.Check(okAN && sets, "standard.activate", p.Pos(an.Pos()), "activation = f_type(node.ActivationSum), stored as the node's Activation", "ActivateNode does not activate from the node's ActivationSum with the node's own activation type")
		// fast sweeps
		fs := p.Func(PkgN, "FastModularNetworkSolver.forwardStep")
		tf := NewTermer(fs)
		okF := false
		Instrs(fs, func(_ *ssa.BasicBlock, _ int, in ssa.Instruction) {
			st, ok := in.(*ssa.Store)
			if !ok {
				return
			}
			ia, ok := st.Addr.(*ssa.IndexAddr)
			if !ok || tf.Of(ia.X).String() != "recv.neuronSignalsBeingProcessed" {
				return
			}
			v := tf.Of(st.Val)
			if acc, prod, isSum := c12SumParts(v); isSum {
				// the product in either operand order
				for _, o := range [][2]*Term{{prod.Args[0], prod.Args[1]}, {prod.Args[1], prod.Args[0]}} {
					sig, w := o[0], o[1]
					si, _, isS := elemOfField(sig, "neuronSignals")
					if isS && w.Op == "field" && w.Name == "Weight" {
						conn := w.Args[0].String()
						// the running sum is the very element that is stored (`x += e` or `x = x + e`)
						same := acc.Op == "elem" && len(acc.Args) > 1 && CanonTerm(acc.Args[0]) == CanonTerm(tf.Of(ia.X)) &&
							(acc.Args[1].V == ia.Index || CanonTerm(acc.Args[1]) == CanonTerm(tf.Of(ia.Index)))
						okF = tf.Of(si).String() == conn+".SourceIndex" && tf.Of(ia.Index).String() == conn+".TargetIndex" && same
					}
				}
			}
		})
		r.Check(okF, "fast.forward.sum", p.Pos(fs.Pos()), "processed[target] += signal[source]*weight for every connection", "forwardStep does not add signal[conn.Source]*conn.Weight into the target's pending signal")
		ra := p.Func(PkgN, "FastModularNetworkSolver.recursiveActivateNode")
		nSum := 0
		var sumStores []*ssa.Store
		hasFwd, hasRec := false, false
		for _, sm := range c12RecursiveSums(ra) {
			nSum++
			sumStores = append(sumStores, sm.St)
			if sm.Src == "neuronSignals" {
				hasFwd = true
			} else {
				hasRec = true
			}
		}
		// the forward and the recurrent case (that each link adds exactly one of them is C12.9 recursive.sources)
		r.Check(hasFwd && hasRec, "fast.recursive.sum", p.Pos(ra.Pos()), "processed[node] += signal[adj]*matrix[adj][node] (last activation on cycles)", fmt.Sprintf("recursive activation sums its inputs at %d site(s) as signal[adj]*matrix[adj][node]; expected the forward and the recurrent case", nSum))
		r.c12RecursiveReset(ra, sumStores)
		_ = token.ADD
	})
}

// c12Layout implements C12.5.
func (r *Run) c12Layout() {
	p := r.P
	fn := p.Func(PkgN, "Network.FastNetworkSolver")
	pl := p.Func(PkgN, "processList")
	ctor := p.Func(PkgN, "NewFastModularNetworkSolver")
	r.Fn(FuncName(fn), FuncName(pl))
	tm := NewTermer(fn)
	roleName := map[string]string{}
	for _, n := range []string{"HiddenNeuron", "InputNeuron", "OutputNeuron", "BiasNeuron"} {
		roleName[p.Const(PkgN, n).Val().ExactString()] = n
	}
	// role of a node list: the neuron type under which elements are appended to it, or Outputs
	roleOf := func(v ssa.Value) string {
		if t := tm.Of(v); t.String() == "recv.Outputs" {
			return "OutputNeuron"
		}
		role := ""
		for _, f := range phiWeb(v).Feeders {
			c, ok := f.(*ssa.Call)
			if !ok {
				continue
			}
			if _, elems, ok := appendCall(c); !ok || len(elems) != 1 {
				continue
			} else {
				for _, g := range Guards(c.Block()) {
					b, isB := g.Cond.(*ssa.BinOp)
					if !isB || b.Op != token.EQL || !g.True {
						continue
					}
					if fieldChainOn(tm.Of(b.X), elems[0], "NeuronType") {
						if k := constTermOf(b.Y); k != nil {
							if role != "" && role != roleName[k.Name] {
								return "mixed"
							}
							role = roleName[k.Name]
						}
					}
				}
			}
		}
		return role
	}
	calls := CallsTo(fn, pl)
	sort.Slice(calls, func(i, j int) bool { return instrBefore(calls[i], calls[j]) })
	var roles []string
	okChain := len(calls) == 4
	// start indices: each group starts where the previous one ended - the index returned by the previous call, or
	// the same number computed from the group sizes (robust_c12.go)
	cx := c12NewLinCtx(p, fn, pl)
	for _, c := range calls {
		cx.lists = append(cx.lists, c.Common().Args[1])
	}
	okChain = okChain && c12ChainedStarts(cx, calls)
	for i, c := range calls {
		a := c.Common().Args
		roles = append(roles, roleOf(a[1]))
		if i > 0 {
			okChain = okChain && c12StripCT(a[2]) == c12StripCT(calls[0].Common().Args[2]) && c12StripCT(a[3]) == c12StripCT(calls[0].Common().Args[3])
		}
	}
	want := []string{"BiasNeuron", "InputNeuron", "OutputNeuron", "HiddenNeuron"}
	r.Check(okChain && fmt.Sprint(roles) == fmt.Sprint(want), "layout.order", p.Pos(fn.Pos()), "indices are assigned to bias, input, output, hidden neurons in this order, each group starting where the previous ended",
		fmt.Sprintf("neurons are numbered in the order %v (chained start indices and shared arrays=%v); the fast solver expects bias, input, output, hidden: sensors are loaded into and outputs read from the wrong neurons", roles, okChain))
	if len(calls) == 0 {
		return
	}
	acts, lookup := calls[0].Common().Args[2], calls[0].Common().Args[3]
	// connections
	// (one entry per list the translation loop is run on: the calls of processIncomingConnections, or the loop
	// standing in place in this function - robust_c12.go)
	pcs := c12FindXlate(p).sites
	got := map[string]bool{}
	var biases ssa.Value
	okShared := len(pcs) > 0
	for _, c := range pcs {
		got[roleOf(c.list)] = true
		if biases == nil {
			biases = c.biases
		}
		okShared = okShared && c12StripCT(c.biases) == c12StripCT(biases) && c12StripCT(c.lookup) == c12StripCT(lookup)
	}
	r.Check(got["HiddenNeuron"] && got["OutputNeuron"] && okShared, "layout.connections", p.Pos(fn.Pos()), "incoming links of hidden and output neurons are translated with the same id->index lookup and bias array",
		fmt.Sprintf("incoming connections are translated for %v with shared lookup/bias array=%v; hidden and output neurons must both be covered", keysOf(got), okShared))
	// constructor
	cs := CallsTo(fn, ctor)
	if len(cs) == 1 {
		a := cs[0].Common().Args
		at := callArgTerms(tm, cs[0].Common())
		okIn := at[1].Op == "len" && roleOf(at[1].Args[0].V) == "InputNeuron"
		okOut := at[2].String() == "len(recv.Outputs)"
		okTot := at[3].String() == "len(recv.allNodes)"
		// bias count: incremented where the bias list grows, or its length
		okBias := false
		if at[0].Op == "len" && roleOf(at[0].Args[0].V) == "BiasNeuron" {
			okBias = true
		}
		for _, f := range phiWeb(a[0]).Feeders {
			if b, ok := f.(*ssa.BinOp); ok && b.Op == token.ADD && constTermOf(b.Y) != nil && constTermOf(b.Y).Name == "1" {
				for _, g := range Guards(b.Block()) {
					if bb, ok := g.Cond.(*ssa.BinOp); ok && bb.Op == token.EQL && g.True {
						if k := constTermOf(bb.Y); k != nil && roleName[k.Name] == "BiasNeuron" {
							okBias = true
						}
					}
				}
			}
		}
		r.Check(okBias && okIn && okOut && okTot && a[4] == acts && c12StripCT(a[6]) == c12StripCT(biases), "layout.constructor", p.Pos(cs[0].Pos()), "solver built from (bias count, input count, output count, total, the filled activation array, connections, the filled bias array)",
			fmt.Sprintf("the solver is not built from the counts and arrays the translation filled (bias count=%v input count=%v output count=%v total=%v activations=%v biases=%v)", okBias, okIn, okOut, okTot, a[4] == acts, c12StripCT(a[6]) == c12StripCT(biases)))
	} else {
		r.Bad("layout.constructor", p.Pos(fn.Pos()), fmt.Sprintf("%d constructor calls", len(cs)))
	}
	// processList body
	ptm := NewTermer(pl)
	var idxV ssa.Value
	okAct, okMap := false, false
	Instrs(pl, func(_ *ssa.BasicBlock, _ int, in ssa.Instruction) {
		switch x := in.(type) {
		case *ssa.Store:
			if ia, ok := x.Addr.(*ssa.IndexAddr); ok && isParamIdx(ptm.Of(ia.X), 2) {
				vt := ptm.Of(x.Val)
				if vt.Op == "field" && vt.Name == "ActivationType" && vt.Args[0].Op == "elem" && isParamIdx(vt.Args[0].Args[0], 1) {
					okAct = true
					idxV = ia.Index
				}
			}
		case *ssa.MapUpdate:
			kt := ptm.Of(x.Key)
			if isParamIdx(ptm.Of(x.Map), 3) && kt.Op == "field" && kt.Name == "Id" && kt.Args[0].Op == "elem" && isParamIdx(kt.Args[0].Args[0], 1) {
				okMap = idxV != nil && x.Value == idxV
				if idxV == nil {
					idxV = x.Value
					okMap = true
				}
			}
		}
	})
	// both under the same index value
	same := false
	Instrs(pl, func(_ *ssa.BasicBlock, _ int, in ssa.Instruction) {
		if mu, ok := in.(*ssa.MapUpdate); ok && idxV != nil && mu.Value == idxV {
			same = true
		}
	})
	okStep := false
	if ph, ok := idxV.(*ssa.Phi); ok {
		init, inc := false, false
		for _, e := range ph.Edges {
			if isParamIdx(ptm.Of(e), 0) {
				init = true
			} else if b, ok := e.(*ssa.BinOp); ok && b.Op == token.ADD && b.X == ssa.Value(ph) && constTermOf(b.Y) != nil && constTermOf(b.Y).Name == "1" {
				inc = true
			}
		}
		okRet := false
		for _, b := range pl.Blocks {
			if ret, ok := b.Instrs[len(b.Instrs)-1].(*ssa.Return); ok && ret.Results[0] == ssa.Value(ph) {
				okRet = true
			}
		}
		okStep = init && inc && okRet
	}
	r.Check(okAct && okMap && same && okStep, "layout.processList", p.Pos(pl.Pos()), "activations[i] and lookup[id] are written under the same i, i runs from the start index by one per neuron and is returned",
		fmt.Sprintf("processList: activation stored=%v id->index stored=%v under the same index=%v index runs start,start+1,.. and is returned=%v", okAct, okMap, same, okStep))
}

// c12CountsInputs: the store in block b with index variable iv is executed for iv = 0, 1, .., n-1 where n is
// inputNeuronCount or len(inputs): iv is the counter of the innermost loop around b, whose header test `iv < n`
// guards b. Two counter forms: the three-clause loop (iv is a header phi entering with 0 and advanced by one on
// every back edge) and the range loop (iv = k+1 for a header phi k entering with -1 and carrying iv on every back edge).
func c12CountsInputs(tm *Termer, fn *ssa.Function, b *ssa.BasicBlock, iv ssa.Value) bool {
	return c12CountsTo(fn, b, iv, func(n ssa.Value) bool {
		bt := tm.Of(n).String()
		return bt == "recv.inputNeuronCount" || bt == "len(p1)"
	})
}

// c12CountsTo: block b is executed for iv = 0, 1, .., n-1 (in this order, unless the loop is left early), n being
// a value accepted by bound: iv is the counter of the innermost loop around b, whose header test `iv < n` guards b
// (counter forms as described at c12CountsInputs).
func c12CountsTo(fn *ssa.Function, b *ssa.BasicBlock, iv ssa.Value, bound func(ssa.Value) bool) bool {
	l := InnermostLoop(Loops(fn), b)
	if l == nil || len(l.Header.Succs) != 2 {
		return false
	}
	h := l.Header
	iff, ok := h.Instrs[len(h.Instrs)-1].(*ssa.If)
	if !ok {
		return false
	}
	// the successor that stays in the loop is taken exactly when iv < n (any spelling of the comparison)
	var stay *ssa.BasicBlock
	var stayOutcome bool
	switch {
	case l.Blocks[h.Succs[0]] && !l.Blocks[h.Succs[1]]:
		stay, stayOutcome = h.Succs[0], true
	case !l.Blocks[h.Succs[0]] && l.Blocks[h.Succs[1]]:
		stay, stayOutcome = h.Succs[1], false
	default:
		return false
	}
	if !edgeDominates(h, stay, b) {
		return false
	}
	cx, cy, isLess := c13LessThan(iff.Cond, stayOutcome)
	if !isLess || cx != iv {
		return false
	}
	if !bound(cy) {
		return false
	}
	var ph *ssa.Phi
	var enter int64
	next := func(e ssa.Value) bool { return false }
	switch x := iv.(type) {
	case *ssa.Phi:
		ph, enter = x, 0
		next = func(e ssa.Value) bool { return c13IsPlusOne(e, x) }
	case *ssa.BinOp:
		k, isPhi := x.X.(*ssa.Phi)
		if x.Op != token.ADD || !isPhi || !IsConstIntValue(x.Y, 1) || x.Block() != h {
			return false
		}
		ph, enter = k, -1
		next = func(e ssa.Value) bool { return e == ssa.Value(x) }
	default:
		return false
	}
	if ph.Block() != h {
		return false
	}
	nIn, nBack := 0, 0
	for i, e := range ph.Edges {
		if l.Blocks[h.Preds[i]] {
			if !next(e) {
				return false
			}
			nBack++
		} else {
			if !IsConstIntValue(e, enter) {
				return false
			}
			nIn++
		}
	}
	return nIn > 0 && nBack > 0
}

// c12Windows implements C12.6.
func (r *Run) c12Windows() {
	p := r.P
	ls := p.Func(PkgN, "FastModularNetworkSolver.LoadSensors")
	ro := p.Func(PkgN, "FastModularNetworkSolver.ReadOutputs")
	r.Fn(FuncName(ls), FuncName(ro))
	tm := NewTermer(ls)
	okStore, okGuard := false, false
	hist := c12NewHist(p)
	sizeGuard := func(b *ssa.BasicBlock) bool {
		for _, g := range Guards(b) {
			// len(inputs) == inputNeuronCount holds here, however the comparison is spelled
			if x, y, op, isCmp := CmpFact(g.Cond, g.True); isCmp && op == token.EQL {
				tx, ty := tm.Of(x).String(), tm.Of(y).String()
				if tx == "len(p1)" && ty == "recv.inputNeuronCount" || ty == "len(p1)" && tx == "recv.inputNeuronCount" {
					return true
				}
			}
		}
		return false
	}
	Instrs(ls, func(b *ssa.BasicBlock, _ int, in ssa.Instruction) {
		// the same written as one block copy: copy(neuronSignals[biasNeuronCount : biasNeuronCount+inputNeuronCount], inputs)
		// moves inputs[i] to neuronSignals[biasNeuronCount+i] for i = 0..min(inputNeuronCount, len(inputs))-1; under the
		// size guard that is every input
		if c, isCall := in.(*ssa.Call); isCall {
			if bi, isB := c.Call.Value.(*ssa.Builtin); isB && bi.Name() == "copy" && len(c.Call.Args) == 2 {
				dst, isSl := c.Call.Args[0].(*ssa.Slice)
				src := c.Call.Args[1]
				if ss, isSS := src.(*ssa.Slice); isSS && (ss.Low == nil || IsConstIntValue(ss.Low, 0)) && ss.Max == nil &&
					(ss.High == nil || tm.Of(ss.High).String() == "recv.inputNeuronCount" || tm.Of(ss.High).String() == "len(p1)") {
					src = ss.X
				}
				if isSl && dst.Low != nil && dst.High != nil && dst.Max == nil && tm.Of(dst.X).String() == "recv.neuronSignals" &&
					hist.kind(tm, dst.Low) == "bias" && hist.kind(tm, dst.High) == "sensor" && isParamIdx(tm.Of(src), 1) {
					okStore = true
					if sizeGuard(b) {
						okGuard = true
					}
				}
			}
			return
		}
		st, ok := in.(*ssa.Store)
		if !ok {
			return
		}
		ia, ok := st.Addr.(*ssa.IndexAddr)
		if !ok || tm.Of(ia.X).String() != "recv.neuronSignals" {
			return
		}
		it := tm.Of(ia.Index)
		vt := tm.Of(st.Val)
		// index = biasNeuronCount + i, value = inputs[i], i = 0..inputNeuronCount-1
		if it.Op == "bin" && it.Name == "+" && vt.Op == "elem" && isParamIdx(vt.Args[0], 1) {
			var iv *Term
			if it.Args[0].String() == "recv.biasNeuronCount" {
				iv = it.Args[1]
			} else if it.Args[1].String() == "recv.biasNeuronCount" {
				iv = it.Args[0]
			}
			if iv != nil && len(vt.Args) > 1 && vt.Args[1].V == iv.V {
				if c12CountsInputs(tm, ls, b, iv.V) {
					okStore = true
				}
			}
		}
		if sizeGuard(b) {
			okGuard = true
		}
	})
	r.Check(okStore && okGuard, "fast.LoadSensors", p.Pos(ls.Pos()), "signal[biasCount+i] = inputs[i] for i = 0..inputCount-1, only for a vector of exactly inputCount values", fmt.Sprintf("the fast solver does not load input i into neuronSignals[biasNeuronCount+i] for every input (store ok=%v, size guard=%v)", okStore, okGuard))
	// ReadOutputs
	okRead := false
	Instrs(ro, func(_ *ssa.BasicBlock, _ int, in ssa.Instruction) {
		c, ok := in.(*ssa.Call)
		if !ok {
			return
		}
		if b, isB := c.Call.Value.(*ssa.Builtin); !isB || b.Name() != "copy" {
			return
		}
		sl, ok := c.Call.Args[1].(*ssa.Slice)
		if !ok || sl.Low == nil || sl.High == nil {
			return
		}
		rtm := NewTermer(ro)
		lo, hi := rtm.Of(sl.Low).String(), strings.ReplaceAll(rtm.Of(sl.High).String(), " ", "")
		dst := rtm.Of(c.Call.Args[0])
		okRead = rtm.Of(sl.X).String() == "recv.neuronSignals" && lo == "recv.sensorNeuronCount" &&
			(hi == "(recv.sensorNeuronCount+recv.outputNeuronCount)" || hi == "(recv.outputNeuronCount+recv.sensorNeuronCount)") &&
			dst.Op == "make" && len(dst.Args) > 0 && dst.Args[0].String() == "recv.outputNeuronCount"
	})
	r.Check(okRead, "fast.ReadOutputs", p.Pos(ro.Pos()), "outputs = copy of signal[sensorCount : sensorCount+outputCount]", "the fast solver does not return a copy of neuronSignals[sensorNeuronCount : sensorNeuronCount+outputNeuronCount]")
	// standard network
	nro := p.Func(PkgN, "Network.ReadOutputs")
	ntm := NewTermer(nro)
	okN := false
	Instrs(nro, func(_ *ssa.BasicBlock, _ int, in ssa.Instruction) {
		if st, ok := in.(*ssa.Store); ok {
			if ia, ok := st.Addr.(*ssa.IndexAddr); ok {
				vt := ntm.Of(st.Val)
				if vt.Op == "field" && vt.Name == "Activation" && vt.Args[0].Op == "elem" && vt.Args[0].Args[0].String() == "recv.Outputs" && len(vt.Args[0].Args) > 1 && vt.Args[0].Args[1].V == ia.Index {
					okN = true
				}
			}
		}
	})
	r.Check(okN, "standard.ReadOutputs", p.Pos(nro.Pos()), "outs[i] = Outputs[i].Activation", "Network.ReadOutputs does not return the activation of output i at position i")
	nls := p.Func(PkgN, "Network.LoadSensors")
	std := c12StdLoadSensors(p)
	r.Check(std.OKLoad, "standard.LoadSensors", p.Pos(nls.Pos()), "input nodes receive sensors[0], sensors[1], ... in input order", "Network.LoadSensors does not hand sensor value k to the k-th input node (counter from 0, one step per loaded node): "+std.WhyLoad)
}
