package nc

import (
	"fmt"
	"go/constant"
	"go/token"
	"strings"

	"golang.org/x/tools/go/ssa"
)

// ---------------------------------------------------------------------------------------------------------------
// C09.4 - the parents of a species are the survivors of the cut-off.
//
// adjustFitness marks the organisms behind the parent count, purgeOrganisms removes exactly those (C09.3), and
// Species.reproduce draws mothers and fathers from whatever its Organisms list holds at the moment it runs. The
// statement "only the top floor(thresh*n)+1 organisms remain available as parents" therefore needs one more fact:
// from the marking until the last species has reproduced, nothing but that removal changes the membership of any
// species' organism list. An organism that enters a list inside this window (a baby speciated early, an organism
// moved between species) is drawn as a parent although it never passed the cut-off.
//
// The rule is stated on writers: the transitive write facts of wthrough.go tell which call sites can store to
// Species.Organisms (or to the elements of an Organisms list). On the three levels of the epoch
//
//	NextEpoch            (A)  prepareForReproduction ... reproduce ...
//	prepareForReproduction (B)  adjustFitness* ... purgeOrganisms
//	reproduce (both executors) (C)  Species.reproduce* ... speciate
//
// every such writer must lie outside the window: it cannot be reached from a marking site and reach a reproduction
// site (A), it is not reachable from a marking site unless it is the removal itself (B), no path leads from it to a
// reproduction site (C), the reproduction of one species itself writes no organism list, and when the species
// reproduce in goroutines a WaitGroup.Wait that no spawn follows dominates the writer (the join protocol itself -
// Add before go, deferred Done - is C16.4).
// ---------------------------------------------------------------------------------------------------------------

func c09PoolFact(what string) bool {
	return what == "Species.Organisms" || what == "elem:Organisms"
}

// c09LeadsTo: the functions from which target can be reached over the call graph (target included). A function
// literal counts for the function that creates it only through the instruction that calls/starts/passes it.
func (p *Prog) c09LeadsTo(target *ssa.Function) map[*ssa.Function]bool {
	cg := p.CallGraph()
	out := map[*ssa.Function]bool{target: true}
	queue := []*ssa.Function{target}
	for len(queue) > 0 {
		f := queue[0]
		queue = queue[1:]
		n := cg.Nodes[f]
		if n == nil {
			continue
		}
		for _, e := range n.In {
			c := e.Caller.Func
			if c != nil && !out[c] && InRepoOf(p, c) {
				out[c] = true
				queue = append(queue, c)
			}
		}
	}
	return out
}

// c09Site is an instruction of a function through which a target function gets executed.
type c09Site struct {
	In      ssa.Instruction
	Callees []*ssa.Function
	Async   bool // started with `go`, deferred, or handed to a function outside the repository
}

// c09Sites: the instructions of fn that call, start or hand over a function leading to the target.
func (p *Prog) c09Sites(w *WriteThrough, fn *ssa.Function, leads map[*ssa.Function]bool) []c09Site {
	var out []c09Site
	Instrs(fn, func(_ *ssa.BasicBlock, _ int, in ssa.Instruction) {
		ci, ok := in.(ssa.CallInstruction)
		if !ok {
			return
		}
		s := c09Site{In: in}
		for _, c := range w.calleesOf(fn, ci) {
			if leads[c] {
				s.Callees = append(s.Callees, c)
			}
		}
		if _, isCall := in.(*ssa.Call); !isCall {
			s.Async = true
		}
		if len(s.Callees) == 0 {
			// a function value handed to somebody else (errgroup.Go(func), a worker pool)
			for _, a := range ci.Common().Args {
				var f *ssa.Function
				switch x := a.(type) {
				case *ssa.MakeClosure:
					f, _ = x.Fn.(*ssa.Function)
				case *ssa.Function:
					f = x
				}
				if f != nil && leads[f] {
					s.Callees = append(s.Callees, f)
					s.Async = true
				}
			}
		}
		if len(s.Callees) > 0 {
			out = append(out, s)
		}
	})
	return out
}

// c09Writer is an instruction that can change a species' organism list.
type c09Writer struct {
	In   ssa.Instruction
	At   []ssa.Instruction // where the write takes effect (the RunDefers of the function for a deferred call)
	Why  string
	Call *ssa.Function // the (first) callee, nil for a direct store
}

// c09Writers: the instructions of fn that store to Species.Organisms or to the elements of an Organisms list,
// directly or through a callee.
func (p *Prog) c09Writers(w *WriteThrough, fn *ssa.Function) []c09Writer {
	var out []c09Writer
	orgs := p.Field(PkgG, "Species", "Organisms")
	var runDefers []ssa.Instruction
	Instrs(fn, func(_ *ssa.BasicBlock, _ int, in ssa.Instruction) {
		if _, ok := in.(*ssa.RunDefers); ok {
			runDefers = append(runDefers, in)
		}
	})
	for _, e := range Writes(fn) {
		switch e.Kind {
		case "field":
			if e.Field == orgs {
				out = append(out, c09Writer{In: e.Instr, At: []ssa.Instruction{e.Instr}, Why: "stores Species.Organisms"})
			}
		case "elem":
			if f := ElemOwner(e); f == orgs {
				out = append(out, c09Writer{In: e.Instr, At: []ssa.Instruction{e.Instr}, Why: "stores an element of Species.Organisms"})
			}
		}
	}
	Instrs(fn, func(_ *ssa.BasicBlock, _ int, in ssa.Instruction) {
		ci, ok := in.(ssa.CallInstruction)
		if !ok {
			return
		}
		for _, c := range w.calleesOf(fn, ci) {
			for _, t := range w.W[c] {
				if !c09PoolFact(t.What) {
					continue
				}
				wr := c09Writer{In: in, At: []ssa.Instruction{in}, Call: c, Why: fmt.Sprintf("%s writes %s at %s (%s)", FuncName(c), t.What, p.Pos(t.Pos), strings.Join(t.Via, " -> "))}
				if _, isDefer := in.(*ssa.Defer); isDefer && len(runDefers) > 0 {
					wr.At = runDefers
				}
				out = append(out, wr)
				return
			}
		}
	})
	return out
}

// c09Reaches: can b execute after a in one activation of their function (a == b: can a execute twice)?
func c09Reaches(a, b ssa.Instruction) bool {
	if a.Block() == b.Block() && instrIndex(a) < instrIndex(b) {
		return true
	}
	return reachesBlock(a.Block(), b.Block())
}

func (r *Run) c09ParentPool() {
	p := r.P
	repro := p.Func(PkgG, "Species.reproduce")
	adjust := p.Func(PkgG, "Species.adjustFitness")
	purge := p.Func(PkgG, "Population.purgeOrganisms")
	remove := p.Func(PkgG, "Species.removeOrganism")
	_, w := p.writeSet(repro, 0)
	leadsRepro := p.c09LeadsTo(repro)
	leadsMark := p.c09LeadsTo(adjust)
	removal := func(f *ssa.Function) bool { return f == purge || f == remove || f == adjust }

	// the reproduction of one species leaves every organism list alone
	var impure []string
	for _, t := range w.W[repro] {
		if c09PoolFact(t.What) {
			impure = append(impure, fmt.Sprintf("%s at %s (%s)", t.What, p.Pos(t.Pos), strings.Join(t.Via, " -> ")))
		}
	}
	r.Fn(FuncName(repro))
	r.Check(len(impure) == 0, "parents.reproduce-pure", p.Pos(repro.Pos()), "Species.reproduce writes no species' organism list: the babies are only returned",
		"Species.reproduce itself changes an organism list ("+strings.Join(impure, "; ")+"): organisms that did not pass the parent cut-off of this epoch sit in a list that mothers and fathers are drawn from")

	inWindow := func(at []ssa.Instruction, openers, sites []ssa.Instruction, needOpen bool) (bool, ssa.Instruction) {
		for _, x := range at {
			open := !needOpen
			for _, o := range openers {
				if c09Reaches(o, x) {
					open = true
				}
			}
			if !open {
				continue
			}
			for _, s := range sites {
				if c09Reaches(x, s) {
					return true, s
				}
			}
		}
		return false, nil
	}
	instrsOf := func(ss []c09Site) []ssa.Instruction {
		var out []ssa.Instruction
		for _, s := range ss {
			out = append(out, s.In)
		}
		return out
	}

	// (A) NextEpoch of both executors
	for _, ex := range []string{"Sequential", "Parallel"} {
		fn := p.Func(PkgG, ex+"PopulationEpochExecutor.NextEpoch")
		r.Fn(FuncName(fn))
		name := strings.ToLower(ex)
		sites := p.c09Sites(w, fn, leadsRepro)
		openers := p.c09Sites(w, fn, leadsMark)
		isStep := map[ssa.Instruction]bool{}
		for _, s := range append(append([]c09Site{}, sites...), openers...) {
			isStep[s.In] = true
		}
		ok, why := len(sites) > 0 && len(openers) > 0, ""
		if !ok {
			why = fmt.Sprintf("NextEpoch reaches adjustFitness through %d and Species.reproduce through %d call sites", len(openers), len(sites))
		}
		for _, wr := range p.c09Writers(w, fn) {
			if isStep[wr.In] {
				// the steps are analysed on their own level; a reproduction step that writes may not run twice
				for _, s := range sites {
					if s.In == wr.In && c09Reaches(wr.In, wr.In) {
						ok, why = false, "the reproduction step at "+p.Pos(wr.In.Pos())+" runs repeatedly and "+wr.Why
					}
				}
				continue
			}
			if wr.Call != nil && removal(wr.Call) {
				continue
			}
			if bad, s := inWindow(wr.At, instrsOf(openers), instrsOf(sites), true); bad {
				ok, why = false, fmt.Sprintf("between the marking and the reproduction at %s, %s: %s", p.Pos(s.Pos()), p.Pos(wr.In.Pos()), wr.Why)
			}
		}
		r.Check(ok, "parents."+name+".NextEpoch", p.Pos(fn.Pos()), "nothing between the preparation step and the reproduction step writes a species' organism list",
			why+": organisms that did not pass the parent cut-off become available as parents")
	}

	// (B) the preparation step: after the marking only the removal of the marked organisms writes the lists
	{
		fn := p.Func(PkgG, "SequentialPopulationEpochExecutor.prepareForReproduction")
		r.Fn(FuncName(fn))
		openers := instrsOf(p.c09Sites(w, fn, leadsMark))
		ok, why := len(openers) > 0, "prepareForReproduction no longer reaches adjustFitness"
		for _, wr := range p.c09Writers(w, fn) {
			if wr.Call != nil && removal(wr.Call) {
				continue
			}
			for _, x := range wr.At {
				for _, o := range openers {
					if o == x || c09Reaches(o, x) {
						ok, why = false, fmt.Sprintf("after the marking (%s), %s: %s", p.Pos(o.Pos()), p.Pos(wr.In.Pos()), wr.Why)
					}
				}
			}
		}
		r.Check(ok, "parents.prepare", p.Pos(fn.Pos()), "after adjustFitness only purgeOrganisms / removeOrganism write a species' organism list",
			why+": the list the parents are drawn from is no longer the marked list minus the marked organisms")
	}

	// (C) the reproduction step of both executors
	for _, ex := range []string{"Sequential", "Parallel"} {
		fn := p.Func(PkgG, ex+"PopulationEpochExecutor.reproduce")
		r.Fn(FuncName(fn))
		name := strings.ToLower(ex)
		sites := p.c09Sites(w, fn, leadsRepro)
		if len(sites) == 0 {
			r.Bad("parents."+name+".reproduce", p.Pos(fn.Pos()), "the reproduction step reaches Species.reproduce through no call site")
			continue
		}
		ok, why := true, ""
		async := false
		for _, s := range sites {
			if s.Async {
				async = true
			}
			for _, c := range s.Callees {
				if c == repro {
					continue // parents.reproduce-pure
				}
				for _, t := range w.W[c] {
					if c09PoolFact(t.What) {
						ok, why = false, fmt.Sprintf("%s, through which a species reproduces (%s), itself writes %s at %s (%s)", FuncName(c), p.Pos(s.In.Pos()), t.What, p.Pos(t.Pos), strings.Join(t.Via, " -> "))
					}
				}
			}
		}
		writers := p.c09Writers(w, fn)
		for _, wr := range writers {
			isSite := false
			for _, s := range sites {
				if s.In == wr.In {
					isSite = true
				}
			}
			if isSite {
				continue // reported above
			}
			if bad, s := inWindow(wr.At, nil, instrsOf(sites), false); bad {
				ok, why = false, fmt.Sprintf("%s can run before the reproduction at %s: %s", p.Pos(wr.In.Pos()), p.Pos(s.Pos()), wr.Why)
			}
		}
		r.Check(ok, "parents."+name+".reproduce", p.Pos(fn.Pos()), "no species' organism list is written on any path that leads to a Species.reproduce call: the babies are speciated after the last species has reproduced",
			why+": a species that reproduces later finds organisms in its list that did not pass the parent cut-off (newborns of this epoch) and draws them as parents")
		if !async {
			continue
		}
		// the species reproduce concurrently: the writers wait for all of them
		var joins []ssa.Instruction
		for _, j := range CallsNamed(fn, "sync.WaitGroup.Wait") {
			if _, isCall := j.(*ssa.Call); !isCall {
				continue
			}
			after := true
			for _, s := range sites {
				if c09Reaches(j, s.In) {
					after = false
				}
			}
			if after {
				joins = append(joins, j)
			}
		}
		okJ, whyJ := true, ""
		for _, wr := range writers {
			for _, x := range wr.At {
				joined := false
				for _, j := range joins {
					if instrBefore(j, x) {
						joined = true
					}
				}
				if !joined {
					okJ, whyJ = false, fmt.Sprintf("%s (%s) is not preceded by a WaitGroup.Wait that follows every spawn", p.Pos(wr.In.Pos()), wr.Why)
				}
			}
		}
		r.Check(okJ, "parents."+name+".joined", p.Pos(fn.Pos()), "every write to a species' organism list is dominated by a WaitGroup.Wait after which no species is started",
			whyJ+": babies can enter a species' list while that species still draws its parents")
	}
}

// c09KeptByIndex: the value stored to Population.Organisms is `buf[:k]` where buf is a fresh slice, k a counter
// that starts at 0 and is carried round a loop over all organisms, and every iteration either is taken under
// `toEliminate == false`, stores the iteration's organism at buf[k] and continues with k+1, or is taken under
// `toEliminate == true`, stores nothing into buf and continues with k. Then buf[:k] holds exactly the unmarked
// organisms in their old order - the same list as `kept = append(kept, org)` under the same condition builds.
func c09KeptByIndex(fn *ssa.Function, tm *Termer, st *ssa.Store, elemTerm, flagTerm string) bool {
	sl, ok := st.Val.(*ssa.Slice)
	if !ok || sl.Max != nil || sl.High == nil || (sl.Low != nil && !IsConstIntValue(sl.Low, 0)) {
		return false
	}
	buf, ok := sl.X.(*ssa.MakeSlice)
	if !ok {
		return false
	}
	k, ok := sl.High.(*ssa.Phi)
	if !ok {
		return false
	}
	var l *Loop
	for _, x := range Loops(fn) {
		if x.Header == k.Block() && loopRangesOver(tm, x, strings.TrimSuffix(elemTerm, "[*]")) {
			l = x
		}
	}
	if l == nil {
		return false
	}
	for i, e := range k.Edges {
		if !l.Blocks[k.Block().Preds[i]] && !IsConstIntValue(e, 0) {
			return false
		}
	}
	// buf is used only as the target of indexed stores inside the loop and as the operand of the final slice
	var cells []*ssa.IndexAddr
	for _, ref := range *buf.Referrers() {
		switch x := ref.(type) {
		case *ssa.IndexAddr:
			if !l.Blocks[x.Block()] {
				return false
			}
			cells = append(cells, x)
		case *ssa.Slice:
			if x != sl {
				return false
			}
		case *ssa.DebugRef:
		default:
			return false
		}
	}
	paths, complete := EnumIterPaths(fn, l, 200)
	if !complete {
		return false
	}
	n := 0
	for _, ip := range paths {
		if ip.End != "back" {
			continue
		}
		marked, kept := false, false
		for _, g := range ip.Conds {
			if boolFieldCondTerm(tm, g, flagTerm, true) {
				marked = true
			}
			if boolFieldCondTerm(tm, g, flagTerm, false) {
				kept = true
			}
		}
		if marked == kept {
			return false
		}
		var stores []*ssa.Store
		for _, c := range cells {
			for _, ref := range *c.Referrers() {
				s, isStore := ref.(*ssa.Store)
				if !isStore || s.Addr != ssa.Value(c) {
					if _, dbg := ref.(*ssa.DebugRef); dbg {
						continue
					}
					return false // the cell is read or escapes
				}
				if ip.OnPath(s) {
					if ip.Resolve(c.Index) != ssa.Value(k) {
						return false
					}
					stores = append(stores, s)
				}
			}
		}
		nk := ip.NextValue(k)
		if marked {
			if len(stores) != 0 || nk != ssa.Value(k) {
				return false
			}
			continue
		}
		if len(stores) != 1 || tm.Of(stores[0].Val).String() != elemTerm {
			return false
		}
		b, isB := nk.(*ssa.BinOp)
		if !isB || b.Op != token.ADD {
			return false
		}
		if !((b.X == ssa.Value(k) && IsConstIntValue(b.Y, 1)) || (b.Y == ssa.Value(k) && IsConstIntValue(b.X, 1))) {
			return false
		}
		n++
	}
	return n > 0
}

// c09HeaderLess: the comparison `x < y` that holds exactly when the loop proceeds from its header into its body,
// however the header test spells it (`x < y`, `y > x`, `!(x >= y)` with the successors exchanged). Only for
// operands whose complement CmpFact can take (integers).
func c09HeaderLess(l *Loop) (x, y ssa.Value, ok bool) {
	if l == nil || len(l.Header.Instrs) == 0 {
		return nil, nil, false
	}
	iff, isIf := l.Header.Instrs[len(l.Header.Instrs)-1].(*ssa.If)
	if !isIf || len(l.Header.Succs) != 2 {
		return nil, nil, false
	}
	in0, in1 := l.Blocks[l.Header.Succs[0]], l.Blocks[l.Header.Succs[1]]
	if in0 == in1 {
		return nil, nil, false
	}
	a, b, op, okc := CmpFact(iff.Cond, in0)
	if !okc {
		return nil, nil, false
	}
	switch op {
	case token.LSS:
		return a, b, true
	case token.GTR:
		return b, a, true
	}
	return nil, nil, false
}

// c09IsParentCount: t is int(floor(SurvivalThresh*n + 1)) or int(floor(SurvivalThresh*n)) + 1, n the number of
// organisms of the species, with the operands of the commutative operators in either order (the two forms agree:
// floor(x+1) == floor(x)+1).
func c09IsParentCount(t *Term) bool {
	one := func(t *Term) bool { return t.Op == "const" && t.Name == "1" }
	prod := func(t *Term) bool {
		if t.Op != "bin" || t.Name != "*" {
			return false
		}
		a, b := t.Args[0].String(), t.Args[1].String()
		const th, n = "p1.SurvivalThresh", "float64(len(recv.Organisms))"
		return (a == th && b == n) || (a == n && b == th)
	}
	sumOf := func(t *Term, a, b func(*Term) bool) bool {
		return t.Op == "bin" && t.Name == "+" && ((a(t.Args[0]) && b(t.Args[1])) || (a(t.Args[1]) && b(t.Args[0])))
	}
	intFloor := func(t *Term, inner func(*Term) bool) bool {
		return t.Op == "conv" && t.Name == "int" && t.Args[0].Op == "call" && t.Args[0].Name == "math.Floor" && len(t.Args[0].Args) == 1 && inner(t.Args[0].Args[0])
	}
	return intFloor(t, func(x *Term) bool { return sumOf(x, prod, one) }) ||
		sumOf(t, func(x *Term) bool { return intFloor(x, prod) }, one)
}

// ---------------------------------------------------------------------------------------------------------------
// C09.5 - when one make-up offspring is not enough, the whole population goes to one species.
//
// The quotas must total the population size n. purgeZeroOffspringSpecies repairs a short total T < n in two ways:
// one make-up offspring (T+1), and, when that still is not n, the fallback "every quota 0, one species gets n".
// Both repairs produce the total n only if the choice between them is made on the re-counted total: the fallback
// must be taken whenever T+1 < n. A fallback selected by anything else (the cause the comment names - a zero
// average - instead of the effect) leaves every deficit of two or more that has another cause (sums that overflow
// to +Inf, NaN, subnormal quotients) with a total of T+1 < n, and the epoch fails its progeny-size check.
//
// The obligation: the store `quota = len(Organisms)` is guarded by a comparison that, as an integer-linear fact,
// reads S + k < len(Organisms), where S is a sum of all species' quotas (a counter started at 0 that adds
// ExpectedOffspring of every species in a loop over all species) and k = 1 when S was summed before the make-up
// offspring was added, k = 0 when it was summed afterwards; and no other quota store lies between the sum and the
// test. The spelling of the test (operands swapped, negated, `n - S - 1 > 0`) does not matter.
// ---------------------------------------------------------------------------------------------------------------
func (r *Run) c09FallbackWhenShort() {
	p := r.P
	fn := p.Func(PkgG, "Population.purgeZeroOffspringSpecies")
	r.Fn(FuncName(fn))
	tm := NewTermer(fn)
	eo := p.Field(PkgG, "Species", "ExpectedOffspring")
	loops := Loops(fn)
	const nTerm = "len(recv.Organisms)"
	var bump, all *ssa.Store
	for _, st := range FieldStores(fn, eo) {
		if b, ok := st.Val.(*ssa.BinOp); ok && b.Op == token.ADD {
			isLoad := func(v ssa.Value) bool {
				u, ok := v.(*ssa.UnOp)
				return ok && u.Op == token.MUL && tm.Of(u.X).String() == tm.Of(st.Addr).String()
			}
			if (isLoad(b.X) && IsConstIntValue(b.Y, 1)) || (isLoad(b.Y) && IsConstIntValue(b.X, 1)) {
				bump = st
			}
		}
		if tm.Of(st.Val).String() == nTerm {
			all = st
		}
	}
	if bump == nil || all == nil {
		r.Bad("apportion.fallback-when-short", p.Pos(fn.Pos()), fmt.Sprintf("the two repairs of a short quota total are not both present (make-up offspring=%v, whole population to one species=%v)", bump != nil, all != nil))
		return
	}
	// the counters that sum the quotas of all species
	accs := map[string]*Loop{}
	for _, l := range loops {
		if !loopRangesOver(tm, l, "recv.Species") {
			continue
		}
		for _, ph := range HeaderPhis(l) {
			if typeShort(ph.Type()) != "int" {
				continue
			}
			okAcc, adds := true, 0
			for i, e := range ph.Edges {
				if !l.Blocks[ph.Block().Preds[i]] {
					if !IsConstIntValue(e, 0) {
						okAcc = false
					}
					continue
				}
				b, isB := e.(*ssa.BinOp)
				if !isB || b.Op != token.ADD {
					okAcc = false
					continue
				}
				other := b.Y
				if b.Y == ssa.Value(ph) {
					other = b.X
				} else if b.X != ssa.Value(ph) {
					okAcc = false
					continue
				}
				ot := tm.Of(other)
				isQuota := ot.String() == "recv.Species[*].ExpectedOffspring" ||
					(ot.Op == "extract" && ot.Idx == 0 && ot.Args[0].Op == "call" && ot.Args[0].Name == "Species.countOffspring" && len(ot.Args[0].Args) > 0 && ot.Args[0].Args[0].String() == "recv.Species[*]")
				if !isQuota {
					okAcc = false
				}
				adds++
			}
			if okAcc && adds > 0 {
				accs["phi:"+ph.Name()] = l
			}
		}
	}
	var lin func(v ssa.Value, d int) Lin
	lin = func(v ssa.Value, d int) Lin {
		if d > 20 {
			return linAtom("?deep")
		}
		if tm.Of(v).String() == nTerm {
			return linAtom("N")
		}
		switch x := v.(type) {
		case *ssa.Const:
			if x.Value != nil && x.Value.Kind() == constant.Int {
				n, _ := constant.Int64Val(x.Value)
				return linConst(n)
			}
		case *ssa.Phi:
			return linAtom("phi:" + x.Name())
		case *ssa.BinOp:
			switch x.Op {
			case token.ADD:
				return lin(x.X, d+1).Add(lin(x.Y, d+1), 1)
			case token.SUB:
				return lin(x.X, d+1).Add(lin(x.Y, d+1), -1)
			}
		case *ssa.Convert:
			return lin(x.X, d+1)
		case *ssa.ChangeType:
			return lin(x.X, d+1)
		}
		return linAtom("t:" + tm.Of(v).String())
	}
	// shortTests: the guards of block b that read S + k < N for a sum S of all quotas; sumBefore tells whether S was
	// summed before the make-up offspring (the bump) was added; bad explains the candidates that were rejected
	type shortTest struct {
		k         int64
		sumBefore bool
	}
	shortTests := func(b *ssa.BasicBlock) (out []shortTest, bad string) {
		for _, g := range Guards(b) {
			x, y, op, okc := CmpFact(g.Cond, g.True)
			if !okc {
				continue
			}
			L, okl := ineqAsLin(op, lin(x, 0), lin(y, 0), true) // L >= 0
			if !okl || len(L.T) != 2 || L.T["N"] != 1 {
				continue
			}
			var l *Loop
			for a, c := range L.T {
				if a != "N" && c == -1 {
					l = accs[a]
				}
			}
			if l == nil {
				bad = "the total compared with the number of organisms is not a sum of all species' quotas started at 0"
				continue
			}
			// L = N - S - k - 1 >= 0  <=>  S + k < N
			t := shortTest{k: -L.C - 1}
			bb := bump.Block()
			switch {
			case !l.Blocks[bb] && reachesBlock(l.Header, bb) && !reachesBlock(bb, l.Header):
				t.sumBefore = true
			case !l.Blocks[bb] && reachesBlock(bb, l.Header) && !reachesBlock(l.Header, bb):
			default:
				bad = "the order of the quota sum and the make-up offspring is not fixed"
				continue
			}
			between := ""
			for _, st := range FieldStores(fn, eo) {
				if st == bump || l.Blocks[st.Block()] {
					continue
				}
				if reachesBlock(l.Header, st.Block()) && (st.Block() == g.At || reachesBlock(st.Block(), g.At)) {
					between = p.Pos(st.Pos())
				}
			}
			if between != "" {
				bad = "a quota is written at " + between + " between the sum and the test"
				continue
			}
			out = append(out, t)
		}
		return out, bad
	}
	// the make-up offspring is given exactly when the quotas total less than the number of organisms
	okB, whyB := false, "no test of the quota total against the number of organisms guards it"
	ts, bad := shortTests(bump.Block())
	if bad != "" {
		whyB = bad
	}
	for _, t := range ts {
		if t.sumBefore && t.k == 0 {
			okB = true
		} else {
			whyB = fmt.Sprintf("it is given when (sum of the quotas) %+d < number of organisms", t.k)
		}
	}
	r.Check(okB, "apportion.fixup-when-short", p.Pos(bump.Pos()), "one make-up offspring exactly when the sum of all quotas (started at 0, every species added) is less than the number of organisms",
		"the make-up offspring is not selected by the sum of the quotas: "+whyB+"; it is given to a population whose quotas already total the population size, or withheld from one that is short")
	ok, why := false, "no test of a re-counted quota total against the number of organisms guards it"
	ts, bad = shortTests(all.Block())
	if bad != "" {
		why = bad
	}
	for _, t := range ts {
		kReq := int64(0)
		if t.sumBefore {
			kReq = 1
		}
		if t.k == kReq {
			ok = true
		} else if !ok {
			why = fmt.Sprintf("it is taken when (sum of the quotas) %+d < number of organisms; with the make-up offspring %s the sum the total is short exactly when (sum) %+d < number of organisms", t.k, map[int64]string{1: "not yet in", 0: "already in"}[kReq], kReq)
		}
	}
	r.Check(ok, "apportion.fallback-when-short", p.Pos(all.Pos()), "the whole population goes to one species exactly when the quotas, the make-up offspring included, still total less than the number of organisms",
		"the fallback that gives the whole population to one species is not selected by the re-counted total: "+why+"; a deficit of two or more offspring that the selecting condition does not cover leaves the quotas below the population size")

	// the recipient of either repair exists whenever there is a species: it is the running maximum of the quotas,
	// found by `quota >= max` from max = 0 (quotas are never negative), or by `quota > max` from a negative start
	r.c09Recipient(fn, tm, loops, bump, all)
}

// c09Recipient: both repairs write through one pointer, the species "expecting the most". If the scan can end
// without having chosen anybody (strict comparison from 0 when every quota is 0, a choice that is never recorded,
// a nil test the wrong way round), the make-up offspring or the whole population is given to nobody and the quotas
// total less than the population size. Claimed: the pointer is carried round a loop over all species; an iteration
// replaces it by the current species exactly when quota(current) >= m (or > m), m being carried alongside, replaced
// by quota(current) in the same iterations and started at a constant c with c <= 0 (c < 0 for the strict form);
// and no guard of the two stores says that the pointer is nil.
func (r *Run) c09Recipient(fn *ssa.Function, tm *Termer, loops []*Loop, bump, all *ssa.Store) {
	p := r.P
	base := func(st *ssa.Store) ssa.Value {
		if fa, ok := st.Addr.(*ssa.FieldAddr); ok {
			return fa.X
		}
		return nil
	}
	// the choice is carried as a pointer (the chosen species, nil while there is none) or as a position in the
	// species list (negative while there is none); in the second form the recipient is recv.Species[choice]
	choiceOf := func(b ssa.Value) (*ssa.Phi, bool) {
		if ph, isPhi := b.(*ssa.Phi); isPhi {
			return ph, false
		}
		if ld, isLoad := b.(*ssa.UnOp); isLoad && ld.Op == token.MUL {
			if ia, isIA := ld.X.(*ssa.IndexAddr); isIA && tm.Of(ia.X).String() == "recv.Species" {
				if ph, isPhi := ia.Index.(*ssa.Phi); isPhi && c09IsIntValue(ph) {
					return ph, true
				}
			}
		}
		return nil, false
	}
	best, byIndex := choiceOf(base(bump))
	isPhi := best != nil
	ok, why := true, ""
	var l *Loop
	var walkIdx ssa.Value // byIndex: the position of the current species in the scan
	if isPhi {
		for _, x := range loops {
			if x.Header == best.Block() && loopRangesOver(tm, x, "recv.Species") {
				l = x
			}
		}
	}
	if l != nil && byIndex {
		idx, w := c09FullWalk(tm, l, "recv.Species")
		if idx == nil {
			ok, why = false, "the scan that records the position of the chosen species does not visit every species: "+w
		}
		walkIdx = idx
	}
	// afterScan: b lies between the scan and block `to` (both stores read the list again in the index form)
	afterScan := func(to *ssa.BasicBlock) func(b *ssa.BasicBlock) bool {
		return func(b *ssa.BasicBlock) bool {
			return l.Blocks[b] || ((b == l.Header || reachesBlock(l.Header, b)) && (b == to || reachesBlock(b, to)))
		}
	}
	switch {
	case !ok:
	case !isPhi || l == nil:
		ok, why = false, "the species that receives the make-up offspring is "+tm.Of(base(bump)).String()+", not a choice carried round a loop over all species"
	case byIndex:
		if other, oIdx := choiceOf(base(all)); !oIdx || other != best {
			ok, why = false, "the fallback gives the population to "+tm.Of(base(all)).String()+", not to the species at the position chosen by the scan"
			break
		}
		// the list indexed is the list scanned
		for _, st := range []*ssa.Store{bump, all} {
			if bad := r.c09SpeciesListWritten(fn, tm, afterScan(st.Block())); bad != "" {
				ok, why = false, bad+" between the scan and the store at "+p.Pos(st.Pos())+": the position chosen no longer denotes the species chosen"
			}
		}
	case base(all) != ssa.Value(best):
		// the other spelling of "the chosen species": a later walk over all species that stores through the current
		// species exactly in the iterations that compared it identical with the choice
		if same, w := r.c09ChosenByIdentity(fn, tm, loops, l, best, all); !same {
			ok, why = false, "the fallback gives the population to "+tm.Of(base(all)).String()+", not to the species chosen by the scan ("+w+")"
		}
	}
	// saysNone: guard g holds only while nothing is chosen (nil / a negative position)
	saysNone := func(g Guard) bool {
		if !byIndex {
			return GuardNilness(g, func(v ssa.Value) bool { return v == ssa.Value(best) }) > 0
		}
		x, y, op, okc := CmpFact(g.Cond, g.True)
		if !okc || x != ssa.Value(best) {
			return false
		}
		k, isK := constInt(y)
		if !isK {
			return false
		}
		switch op {
		case token.LSS:
			return k <= 0
		case token.LEQ, token.EQL:
			return k < 0
		}
		return false
	}
	if ok {
		for _, st := range []*ssa.Store{bump, all} {
			for _, g := range Guards(st.Block()) {
				if saysNone(g) {
					ok, why = false, "the store at "+p.Pos(st.Pos())+" runs only when no species was chosen"
				}
			}
		}
	}
	if ok {
		for i, e := range best.Edges {
			if l.Blocks[best.Block().Preds[i]] {
				continue
			}
			if !byIndex && tm.Of(e).Op != "nil" {
				ok, why = false, "the choice does not start from nil"
			}
			if k, isK := constInt(e); byIndex && (!isK || k >= 0) {
				ok, why = false, "the chosen position does not start from a negative constant (`no species yet`)"
			}
		}
		paths, complete := EnumIterPaths(fn, l, 200)
		if !complete {
			ok, why = false, "too many paths through the scan"
		}
		const cur, curQ = "recv.Species[*]", "recv.Species[*].ExpectedOffspring"
		// isCur: v denotes the species of this iteration (index form: its position in the list);
		// isCurQ: v is the quota of that species (index form: read through the element at the position of the walk)
		isCur := func(v ssa.Value) bool {
			if byIndex {
				return v == walkIdx
			}
			return tm.Of(v).String() == cur
		}
		isCurQ := func(v ssa.Value) bool {
			if tm.Of(v).String() != curQ {
				return false
			}
			if !byIndex {
				return true
			}
			ld, isLoad := v.(*ssa.UnOp)
			if !isLoad || ld.Op != token.MUL {
				return false
			}
			fa, isFA := ld.X.(*ssa.FieldAddr)
			if !isFA {
				return false
			}
			el, isLoad := fa.X.(*ssa.UnOp)
			if !isLoad || el.Op != token.MUL {
				return false
			}
			ia, isIA := el.X.(*ssa.IndexAddr)
			return isIA && ia.Index == walkIdx && tm.Of(ia.X).String() == "recv.Species"
		}
		var maxPhi *ssa.Phi
		strict := false
		n := 0
		for _, ip := range paths {
			if !ok || ip.End != "back" {
				continue
			}
			nb := ip.NextValue(best)
			// the comparison of the current quota with the running maximum taken on this path
			chosen, seen := false, false
			for _, g := range ip.Conds {
				for _, outcome := range []bool{true, false} {
					x, y, op, okc := CmpFact(g.Cond, outcome)
					if !okc {
						continue
					}
					if op == token.LEQ || op == token.LSS {
						x, y, op = y, x, mirrorCmp(op)
					}
					if (op != token.GEQ && op != token.GTR) || !isCurQ(x) {
						continue
					}
					m, isM := y.(*ssa.Phi)
					if !isM || m.Block() != l.Header {
						continue
					}
					if maxPhi != nil && (maxPhi != m || strict != (op == token.GTR)) {
						ok, why = false, "the current quota is compared with more than one running value"
					}
					maxPhi, strict = m, op == token.GTR
					seen = true
					if outcome == g.True {
						chosen = true
					}
				}
			}
			if !seen {
				ok, why = false, "an iteration of the scan does not compare the current species' quota with the running maximum"
				continue
			}
			nm := ip.NextValue(maxPhi)
			if chosen {
				n++
				if !isCur(nb) || !isCurQ(nm) {
					ok, why = false, "a species whose quota reaches the running maximum is not recorded as the choice together with its quota (choice becomes "+tm.Of(nb).String()+", maximum "+tm.Of(nm).String()+")"
				}
			} else if nb != ssa.Value(best) || nm != ssa.Value(maxPhi) {
				ok, why = false, "the choice or the running maximum changes although the current quota is below the maximum"
			}
		}
		if ok && (maxPhi == nil || n == 0) {
			ok, why = false, "no iteration of the scan records a choice"
		}
		if ok {
			for i, e := range maxPhi.Edges {
				if l.Blocks[maxPhi.Block().Preds[i]] {
					continue
				}
				k, isC := e.(*ssa.Const)
				if !isC || k.Value == nil || k.Value.Kind() != constant.Int {
					ok, why = false, "the running maximum does not start from a constant"
					continue
				}
				if c := k.Int64(); c > 0 || (strict && c == 0) {
					ok, why = false, fmt.Sprintf("the running maximum starts at %d and is compared %s: a population whose quotas are all %s chooses nobody", c, map[bool]string{true: "strictly", false: "with >="}[strict], map[bool]string{true: "0", false: "below it"}[strict])
				}
			}
		}
	}
	r.Check(ok, "apportion.recipient", p.Pos(bump.Pos()), "the make-up offspring and the fallback go to the species with the largest quota, which exists whenever there is a species",
		why+": the repair is given to nobody and the quotas total less than the population size")
}

// c09FullWalk: l visits every element of the list `what` (an origin term) once, in order: its only way out is the test
// at its header, which keeps the iteration inside exactly when idx < len(what); idx is either a header phi started at
// 0 and advanced by 1 on every back edge, or phi+1 of a header phi started at -1 that receives that very sum on every
// back edge (the form a `range` statement compiles to). Returns idx, the index of the current element.
func c09FullWalk(tm *Termer, l *Loop, what string) (ssa.Value, string) {
	if l == nil || len(l.Header.Instrs) == 0 {
		return nil, "not a loop"
	}
	iff, isIf := l.Header.Instrs[len(l.Header.Instrs)-1].(*ssa.If)
	if !isIf || len(l.Header.Succs) != 2 || !l.Blocks[l.Header.Succs[0]] || l.Blocks[l.Header.Succs[1]] {
		return nil, "the loop is not left by the false outcome of the test at its head"
	}
	for b := range l.Blocks {
		if b == l.Header {
			continue
		}
		for _, s := range b.Succs {
			if !l.Blocks[s] {
				return nil, "the loop can be left from its body"
			}
		}
	}
	x, y, op, okc := CmpFact(iff.Cond, true)
	if !okc {
		return nil, "the test at the head of the loop is not a comparison"
	}
	if op == token.GTR {
		x, y, op = y, x, token.LSS
	}
	if op != token.LSS || tm.Of(y).String() != "len("+what+")" {
		return nil, "the loop does not run while index < len(" + what + ")"
	}
	var ph *ssa.Phi
	start := int64(0)
	if q, isPhi := x.(*ssa.Phi); isPhi {
		ph = q
	} else if b, isB := x.(*ssa.BinOp); isB && b.Op == token.ADD {
		switch {
		case IsConstIntValue(b.Y, 1):
			ph, _ = b.X.(*ssa.Phi)
		case IsConstIntValue(b.X, 1):
			ph, _ = b.Y.(*ssa.Phi)
		}
		start = -1
	}
	if ph == nil || ph.Block() != l.Header {
		return nil, "the index is not carried round the loop"
	}
	for i, e := range ph.Edges {
		if !l.Blocks[l.Header.Preds[i]] {
			if !IsConstIntValue(e, start) {
				return nil, "the walk does not start at the first element"
			}
			continue
		}
		if start == -1 {
			if e != x {
				return nil, "the index is not advanced by one per iteration"
			}
			continue
		}
		b, isB := e.(*ssa.BinOp)
		if !isB || b.Op != token.ADD || !((b.X == ssa.Value(ph) && IsConstIntValue(b.Y, 1)) || (b.Y == ssa.Value(ph) && IsConstIntValue(b.X, 1))) {
			return nil, "the index is not advanced by one per iteration"
		}
	}
	return x, ""
}

// c09ChosenByIdentity: the store `all` writes through the species chosen by the scan l (whose choice is the header
// phi best) although its base is not that phi. Claimed, all of it:
//   - the base is the current element recv.Species[idx] of a loop w that visits every species (c09FullWalk), entered
//     only after the scan has been left;
//   - among the branch outcomes that dominate the store, those taken inside w are exactly one, and it says
//     `current == best` (pointer identity, either spelling), the test being passed in every iteration of w;
//   - between the scan and the walk, and during the walk, the species list is not written (no store to Population.Species, no store to an
//     element of a species list, no call that is handed the population).
//
// The choice is nil or an element of the list the scan walked; the walk reaches every element of the same list, so
// the store runs for the chosen species whenever there is one - the same fact as `best.quota = n` under best != nil.
func (r *Run) c09ChosenByIdentity(fn *ssa.Function, tm *Termer, loops []*Loop, scan *Loop, best *ssa.Phi, all *ssa.Store) (bool, string) {
	fa, isFA := all.Addr.(*ssa.FieldAddr)
	if !isFA {
		return false, "the store is not made through a species"
	}
	cur := fa.X
	w := InnermostLoop(loops, all.Block())
	if w == nil || w == scan {
		return false, "it is not written in a walk over the species that follows the scan"
	}
	idx, why := c09FullWalk(tm, w, "recv.Species")
	if idx == nil {
		return false, "the loop around the store does not visit every species: " + why
	}
	// isCur: v is recv.Species[idx] read inside the walk (the list is not written there, see below, so every such
	// read yields the same species within one iteration)
	isCur := func(v ssa.Value) bool {
		ld, isLoad := v.(*ssa.UnOp)
		if !isLoad || ld.Op != token.MUL || !w.Blocks[ld.Block()] || tm.Of(v).String() != "recv.Species[*]" {
			return false
		}
		ia, isIA := ld.X.(*ssa.IndexAddr)
		return isIA && ia.Index == idx
	}
	if !isCur(cur) {
		return false, "the species written is not the element at the index of the walk"
	}
	if scan.Blocks[w.Header] || !reachesBlock(scan.Header, w.Header) || reachesBlock(w.Header, scan.Header) {
		return false, "the walk does not follow the scan"
	}
	// the one test inside the walk: current == best
	n := 0
	for _, g := range Guards(all.Block()) {
		if !w.Blocks[g.At] || g.At == w.Header {
			continue
		}
		n++
		x, y, op, okc := CmpFact(g.Cond, g.True)
		if !okc || op != token.EQL || !((isCur(x) && y == ssa.Value(best)) || (isCur(y) && x == ssa.Value(best))) {
			return false, "inside the walk the store depends on " + tm.Of(g.Cond).String() + fmt.Sprintf(" (taken %v)", g.True) + ", not only on the identity of the current species with the choice"
		}
		for _, lt := range w.Latch {
			if !(g.At == lt || g.At.Dominates(lt)) {
				return false, "the identity test is skipped in some iterations of the walk"
			}
		}
		if il := InnermostLoop(loops, g.At); il != w {
			return false, "the identity test sits in an inner loop"
		}
	}
	if n != 1 {
		return false, fmt.Sprintf("inside the walk the store is made under %d tests; expected the single test current == choice", n)
	}
	// the list walked is the list scanned
	between := func(b *ssa.BasicBlock) bool {
		return w.Blocks[b] || ((b == scan.Header || reachesBlock(scan.Header, b)) && (b == w.Header || reachesBlock(b, w.Header)))
	}
	if bad := r.c09SpeciesListWritten(fn, tm, between); bad != "" {
		return false, bad + " between the scan and the walk"
	}
	return true, ""
}

// c09SpeciesListWritten: in the blocks selected by `in`, the species list of the population can change - a store
// to Population.Species, a store to an element of the list, or a call that is handed the population or the list.
// Returns what was found ("" when the list stays as it is).
func (r *Run) c09SpeciesListWritten(fn *ssa.Function, tm *Termer, in func(*ssa.BasicBlock) bool) string {
	p := r.P
	for _, st := range FieldStores(fn, p.Field(PkgG, "Population", "Species")) {
		if in(st.Block()) {
			return "the species list is replaced at " + p.Pos(st.Pos())
		}
	}
	bad := ""
	Instrs(fn, func(b *ssa.BasicBlock, _ int, ins ssa.Instruction) {
		if bad != "" || !in(b) {
			return
		}
		switch x := ins.(type) {
		case *ssa.Store:
			if ia, isIA := x.Addr.(*ssa.IndexAddr); isIA && strings.HasPrefix(tm.Of(ia.X).String(), "recv.Species") && !strings.Contains(tm.Of(ia.X).String(), "[*].") {
				bad = "an element of the species list is replaced at " + p.Pos(x.Pos())
			}
		case ssa.CallInstruction:
			c := x.Common()
			if bi, isBuiltin := c.Value.(*ssa.Builtin); isBuiltin && (bi.Name() == "len" || bi.Name() == "cap") {
				return
			}
			args := append([]ssa.Value{}, c.Args...)
			if c.IsInvoke() {
				args = append(args, c.Value)
			}
			for _, a := range args {
				if t := tm.Of(a).String(); t == "recv" || t == "recv.Species" {
					bad = "the population or its species list is handed to a call at " + p.Pos(x.Pos())
				}
			}
		}
	})
	return bad
}

// c09BodyConds: the branch outcomes that decide whether block b runs, without the range conditions of
// the loops around it.
func c09BodyConds(loops []*Loop, b *ssa.BasicBlock) []Guard {
	var out []Guard
	for _, g := range Guards(b) {
		if l := InnermostLoop(loops, g.At); l != nil && g.At == l.Header {
			continue
		}
		out = append(out, g)
	}
	return out
}

// c09YouthBoost (C09.2): the age adjustment has a second half besides the stagnation penalty - young species get
// their fitness multiplied by AgeSignificance. "Age-adjusted fitness" in the statement is the fitness after both;
// a boost that is applied to the wrong ages, with the wrong factor, or after the division by the species size was
// stored, changes every quota derived from it. Claimed: in the organism loop, before the final division by the
// species size, Fitness = Fitness * AgeSignificance is stored under exactly one condition, and that condition is
// Age <= 10 of the species (as an integer-linear fact 10 - Age >= 0, whatever the spelling).
func (r *Run) c09YouthBoost(fn *ssa.Function, tm *Termer, loops []*Loop, share *ssa.Store) {
	p := r.P
	fit := p.Field(PkgG, "Organism", "Fitness")
	const fT, aT = "recv.Organisms[*].Fitness", "p1.AgeSignificance"
	var boost *ssa.Store
	for _, st := range FieldStores(fn, fit) {
		vt := tm.Of(st.Val)
		if vt.Op == "bin" && vt.Name == "*" && tm.Of(st.Addr).String() == fT {
			a, b := vt.Args[0].String(), vt.Args[1].String()
			if (a == fT && b == aT) || (a == aT && b == fT) {
				boost = st
			}
		}
	}
	if boost == nil {
		r.Bad("adjustFitness.youth-boost", p.Pos(fn.Pos()), "no youth boost (fitness * AgeSignificance) found in adjustFitness: the fitness of young species is not age-adjusted")
		return
	}
	okPlace := share != nil && InnermostLoop(loops, boost.Block()) == InnermostLoop(loops, share.Block()) && boost.Block() != share.Block() &&
		!share.Block().Dominates(boost.Block())
	if share != nil && boost.Block() == share.Block() {
		okPlace = instrIndex(boost) < instrIndex(share)
	}
	conds := c09BodyConds(loops, boost.Block())
	want := linConst(10).Add(linAtom("recv.Age"), -1)
	ok, why := false, ""
	switch {
	case !okPlace:
		why = "the boost is not applied to every organism's fitness before the division by the species size"
	case len(conds) != 1:
		why = fmt.Sprintf("the boost is applied under %d conditions; expected the single test of the species' age", len(conds))
	default:
		x, y, op, okc := CmpFact(conds[0].Cond, conds[0].True)
		if !okc {
			why = "the condition of the boost is not an integer comparison: " + tm.Of(conds[0].Cond).String()
			break
		}
		got, okl := ineqAsLin(op, linStatic(tm, x, nil, 0), linStatic(tm, y, nil, 0), true)
		if !okl {
			why = "the condition of the boost is not an ordering comparison: " + tm.Of(conds[0].Cond).String()
			break
		}
		ok = got.Equal(want)
		why = "the boost applies when " + got.String() + " >= 0; young species are those with 10 - Age >= 0 (" + want.String() + ")"
	}
	r.Check(ok, "adjustFitness.youth-boost", p.Pos(boost.Pos()), "fitness * AgeSignificance exactly when Age <= 10, before the fitness is shared",
		why+": the age-adjusted fitness of some species, and with it every quota, is off by the factor AgeSignificance")
}

// c09ImprovementRecord (C09.2): the stagnation penalty of later generations is decided from AgeOfLastImprovement.
// That record means "the age at which the best original (unadjusted) fitness of the species last exceeded its
// maximum ever"; the adjusted fitness cannot be used because the adjustment itself depends on the record. Claimed:
// (1) every organism's originalFitness is stored from its Fitness before the first fitness update of the iteration;
// (2) AgeOfLastImprovement is written with Age, and MaxFitnessEver with Organisms[0].originalFitness, exactly under
// Organisms[0].originalFitness > MaxFitnessEver, after the sort that puts the best organism first. If any of these
// fails, a species that improves is treated as stagnant (or the reverse) DropOffAge generations later, and its
// quota is about a hundred times too small (or too large).
func (r *Run) c09ImprovementRecord(fn *ssa.Function, tm *Termer, loops []*Loop, sortCall ssa.CallInstruction) {
	p := r.P
	fit := p.Field(PkgG, "Organism", "Fitness")
	orig := p.Field(PkgG, "Organism", "originalFitness")
	aoli := p.Field(PkgG, "Species", "AgeOfLastImprovement")
	mfe := p.Field(PkgG, "Species", "MaxFitnessEver")
	const fT, oT0, mT = "recv.Organisms[*].Fitness", "recv.Organisms[0].originalFitness", "recv.MaxFitnessEver"
	// (1)
	ok1, why1 := false, "no organism's originalFitness is stored"
	for _, st := range FieldStores(fn, orig) {
		l := InnermostLoop(loops, st.Block())
		if l == nil || !loopRangesOver(tm, l, "recv.Organisms") || tm.Of(st.Addr).String() != "recv.Organisms[*].originalFitness" {
			continue
		}
		ok1, why1 = true, ""
		if u, isLoad := st.Val.(*ssa.UnOp); !isLoad || u.Op != token.MUL || tm.Of(u.X).String() != fT {
			ok1, why1 = false, "originalFitness is set to "+tm.Of(st.Val).String()+", not to the organism's fitness"
		}
		for _, lb := range l.Latch {
			if !(st.Block() == lb || st.Block().Dominates(lb)) {
				ok1, why1 = false, "originalFitness is not stored for every organism"
			}
		}
		for _, fs := range FieldStores(fn, fit) {
			if l.Blocks[fs.Block()] && !instrBefore(st, fs) {
				ok1, why1 = false, "the fitness is updated at "+p.Pos(fs.Pos())+" before it is remembered as the original fitness"
			}
		}
	}
	// (2)
	improved := func(b *ssa.BasicBlock) (bool, string) {
		conds := c09BodyConds(loops, b)
		if len(conds) != 1 {
			return false, fmt.Sprintf("it is written under %d conditions", len(conds))
		}
		x, y, op, okc := CmpFact(conds[0].Cond, conds[0].True)
		if !okc {
			return false, "it is written under " + tm.Of(conds[0].Cond).String()
		}
		if op == token.LSS {
			x, y, op = y, x, token.GTR
		}
		if op == token.GTR && tm.Of(x).String() == oT0 && tm.Of(y).String() == mT {
			return true, ""
		}
		return false, "it is written under " + tm.Of(conds[0].Cond).String()
	}
	ok2, why2 := true, ""
	nA, nM := 0, 0
	for _, st := range FieldStores(fn, aoli) {
		nA++
		if tm.Of(st.Addr).String() != "recv.AgeOfLastImprovement" || tm.Of(st.Val).String() != "recv.Age" {
			ok2, why2 = false, "AgeOfLastImprovement receives "+tm.Of(st.Val).String()
		} else if okc, w := improved(st.Block()); !okc {
			ok2, why2 = false, "AgeOfLastImprovement: "+w
		} else if sortCall == nil || !instrBefore(sortCall, st) {
			ok2, why2 = false, "AgeOfLastImprovement is written before the organisms are sorted best-first"
		}
	}
	for _, st := range FieldStores(fn, mfe) {
		nM++
		if tm.Of(st.Addr).String() != mT || tm.Of(st.Val).String() != oT0 {
			ok2, why2 = false, "MaxFitnessEver receives "+tm.Of(st.Val).String()
		} else if okc, w := improved(st.Block()); !okc {
			ok2, why2 = false, "MaxFitnessEver: "+w
		} else if sortCall == nil || !instrBefore(sortCall, st) {
			ok2, why2 = false, "MaxFitnessEver is written before the organisms are sorted best-first"
		}
	}
	if nA == 0 || nM == 0 {
		ok2, why2 = false, fmt.Sprintf("the record is not updated (stores to AgeOfLastImprovement: %d, to MaxFitnessEver: %d)", nA, nM)
	}
	r.Check(ok1, "adjustFitness.original-fitness", p.Pos(fn.Pos()), "every organism's original fitness is remembered before the first fitness update",
		why1+": the improvement record is kept on adjusted values, which themselves depend on the record")
	r.Check(ok2, "adjustFitness.improvement-record", p.Pos(fn.Pos()), "AgeOfLastImprovement = Age and MaxFitnessEver = best original fitness, exactly when the best original fitness exceeds MaxFitnessEver, after the sort",
		why2+"; expected `Organisms[0].originalFitness > MaxFitnessEver`: the stagnation penalty of later generations hits improving species or spares stagnant ones")
}

// c09NonNegative (C09.2): countOffspring splits an organism's expectation e into floor(e) and mod(e,1); the two add
// up to e only for e >= 0 (Go's math.Mod keeps the sign of e: floor(-0.5)+mod(-0.5,1) = -1.5). The quotas total
// the population size, and differ from the species' sums by less than one, only if no expectation is negative,
// i.e. if no fitness leaves adjustFitness negative. Claimed: before the final division by the species size every
// organism's fitness is replaced by a non-negative constant under the single condition `fitness < 0` (or <= 0).
func (r *Run) c09NonNegative(fn *ssa.Function, tm *Termer, loops []*Loop, share *ssa.Store) {
	p := r.P
	fit := p.Field(PkgG, "Organism", "Fitness")
	const fT = "recv.Organisms[*].Fitness"
	ok, why := false, "no replacement of a negative fitness by a non-negative constant is found"
	pos := p.Pos(fn.Pos())
	for _, st := range FieldStores(fn, fit) {
		k, isC := st.Val.(*ssa.Const)
		if !isC || k.Value == nil || tm.Of(st.Addr).String() != fT {
			continue
		}
		if f, _ := constant.Float64Val(constant.ToFloat(k.Value)); f < 0 {
			continue
		}
		pos = p.Pos(st.Pos())
		if share == nil || InnermostLoop(loops, st.Block()) != InnermostLoop(loops, share.Block()) || st.Block() == share.Block() || share.Block().Dominates(st.Block()) {
			why = "the replacement does not precede the division by the species size"
			continue
		}
		conds := c09BodyConds(loops, st.Block())
		if len(conds) != 1 {
			why = fmt.Sprintf("the replacement is made under %d conditions", len(conds))
			continue
		}
		x, y, op, okc := CmpFact(conds[0].Cond, conds[0].True)
		if okc && (op == token.LSS || op == token.LEQ) && tm.Of(x).String() == fT && constTermOf(y) != nil && constTermOf(y).Name == "0" {
			ok = true
		} else {
			why = "the replacement is made under " + tm.Of(conds[0].Cond).String() + ", not under fitness < 0"
		}
	}
	r.Check(ok, "adjustFitness.non-negative", pos, "a negative fitness is replaced by a non-negative constant before the fitness is shared",
		why+": a negative fitness yields a negative expectation, for which floor(e) + mod(e,1) != e - the quotas no longer total the population size")
}
