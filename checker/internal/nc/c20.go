package nc

import (
	"fmt"
	"go/token"
	"go/types"
	"sort"
	"strings"

	"golang.org/x/tools/go/ssa"
)

func init() { register("C20", C20) }

// loopCounter: the header's condition is `phi < bound` with phi = {0, phi+1}.
func loopCounter(l *Loop, tm *Termer) (bound *Term, phi *ssa.Phi, ok bool) {
	// the exit test may sit in the header or in a block of the loop that leaves it
	for b := range l.Blocks {
		iff, isIf := b.Instrs[len(b.Instrs)-1].(*ssa.If)
		if !isIf {
			continue
		}
		exits := !l.Blocks[b.Succs[0]] || !l.Blocks[b.Succs[1]]
		if !exits {
			continue
		}
		bin, isBin := iff.Cond.(*ssa.BinOp)
		if !isBin || bin.Op != token.LSS {
			continue
		}
		ph, isPhi := bin.X.(*ssa.Phi)
		if !isPhi || ph.Block() != l.Header && ph.Block() != b {
			continue
		}
		zero, step := false, false
		for _, e := range ph.Edges {
			if c, isC := e.(*ssa.Const); isC && c.Value != nil && c.Value.ExactString() == "0" {
				zero = true
			}
			if add, isAdd := e.(*ssa.BinOp); isAdd && add.Op == token.ADD && add.X == ph {
				if c, isC := add.Y.(*ssa.Const); isC && c.Value != nil && c.Value.ExactString() == "1" {
					step = true
				}
			}
		}
		if zero && step && l.Blocks[b.Succs[0]] && !l.Blocks[b.Succs[1]] {
			return tm.Of(bin.Y), ph, true
		}
	}
	return nil, nil, false
}

// C20 — experiment protocol.
func C20(p *Prog, r *Run) {
	r.Explanation = "Decided on Experiment.Execute by flag-sensitive path search over its SSA control-flow graph (two loops; the observer's nil-ness is tracked along each path): per trial iteration exactly one NewPopulation(start genome, options) before the generation loop, TrialRunStarted exactly once before the first generation, the trial recorded exactly once at e.Trials[run] on every non-error path, TrialRunFinished exactly once on every non-error path and never followed by EpochEvaluated; per generation iteration the context test precedes the evaluation and, on every path after it on which the Done channel was ready, Execute returns Err() of that same context (read after the test) before any further event of the protocol (phis, result variables and result slots resolved along the path), exactly one GenerationEvaluate whose error returns at once, NextEpoch only under !Solved, at most once, its error returned, append-then-EpochEvaluated exactly once in that order, under Solved the iteration leaves the loop; counters run 0,1,… below NumRuns / NumGenerations, tested in the effect-free loop condition (any spelling of the test; the loop condition may additionally test a flag that is raised only under generation.Solved, nothing else), a break out of the generation loop only under Solved; the record handed to the evaluator is allocated or reset in every generation so that its Solved flag is false at the call; every notification is delivered to the observer parameter whenever it is non-nil and, when it is nil, is either not executed or addressed to a substitute whose method body is empty (decided per value that can be the receiver, on the edge that selects it); the errors of GenerationEvaluate / NextEpoch are the value returned on every path after the failing call (phis resolved along the path); the executor selection covers every EpochExecutorType constant and errors when all type tests fail (decided per way the operands of each return can be chosen).; with the options present in the context nothing returns before the trial loop, and every return that leaves the trial loop from its body returns a value that is a non-nil error on the path taken (a nil test of that value passed, or an error by construction); the result holder e.Trials is only ever replaced by make(Trials, <bound of the trial loop>) before the first trial or while nil, a nil holder never reaches the recording store, and the repository's caller of Execute (func main of the root package) hands over no holder or one made from NumRuns of the options in the call's context with no write of NumRuns between the sizing and the call (ordering across function literals by the places where they are started); the values the events carry are identified (recorded trial = trial shown to the observer = trial the generations are appended to, fresh per trial, numbered by the trial counter; record appended and shown = record the evaluator filled, numbered by the generation and trial counters; population evaluated = population turned over = population spawned for the trial; NextEpoch is told the generation counter). Equivalent shapes read as such: a trial variable that is a field of a by-value local struct is that variable; a population kept in such a field or in a local shared with closures is the spawned one when every store to it stores the result of NewPopulation next to the call; the preparation steps of a trial written as a loop over a literal slice of closures, each called once in order and a non-nil error returned at once, are the sequence of those steps (NewPopulation / the executor selection may sit in one step; a step makes no protocol call and writes only captured locals); an executor selection by lookup in a literal map from executor type to constructor is the switch over its keys (the map a local literal, or a package-level variable that the package initialiser stores once with such a literal and that is only ever looked up anywhere in the program); an edge that leaves the generation loop from its body to a merge point after which, with what is known on the edge, only a Return of Execute can follow (the error returns of a generation loop that lives in a helper whose result the trial loop tests) is an error exit like a direct return, not a break. Err() of a context read where its Done channel was found closed is taken to be non-nil (contract of context.Context). Assumption: the observer and NextEpoch do not flip generation.Solved between its two reads. Not decided: what the evaluator, observer and executor do."
	ex := p.Func(PkgE, "Experiment.Execute")
	r.Fn(FuncName(ex))
	tm := NewTermer(ex)
	allLoops := Loops(ex)
	// a loop over a literal slice of step closures is a ladder of steps, not a loop of the protocol (robust_c20.go, fifth round (3))
	steps, loops := c20StepLoops(ex, allLoops)
	if len(loops) != 2 {
		r.Rule("C20.0", "Execute has a trial loop and a generation loop", func() {
			r.Undecided("Execute.loops", p.Pos(ex.Pos()), fmt.Sprintf("expected 2 loops in Execute, found %d", len(loops)))
		})
		return
	}
	outer, inner := loops[0], loops[1]
	if len(inner.Blocks) > len(outer.Blocks) {
		outer, inner = inner, outer
	}
	if len(steps) > 0 {
		stepBad := ""
		for _, s := range steps {
			for _, f := range s.Fns {
				if why := c20StepClosureProblem(p, f); why != "" && stepBad == "" {
					stepBad = "the step closure " + f.Name() + " is not a plain preparation step: " + why
				}
			}
			// a failed step ends the run: nothing of the trial loop is reachable from the error exits of the ladder
			for b := range c15ReachableFrom(s.ErrExits) {
				if outer.Blocks[b] && stepBad == "" {
					stepBad = "after a failed step of the ladder @" + p.Pos(s.At.Pos()) + " the trial loop goes on"
				}
			}
		}
		if stepBad != "" {
			r.Rule("C20.0", "Execute has a trial loop and a generation loop", func() {
				r.Undecided("Execute.steps", p.Pos(ex.Pos()), stepBad)
			})
			return
		}
	}
	// stepSites: the instructions of the step closures that satisfy pred
	stepSites := func(pred func(ssa.Instruction) bool) []c20StepSite {
		var out []c20StepSite
		for _, s := range steps {
			for k, f := range s.Fns {
				Instrs(f, func(_ *ssa.BasicBlock, _ int, in ssa.Instruction) {
					if pred(in) {
						out = append(out, c20StepSite{S: s, K: k, In: in})
					}
				})
			}
		}
		return out
	}
	observer := ssa.Value(ex.Params[4])

	isInvoke := func(name string) func(ssa.Instruction) bool {
		return func(in ssa.Instruction) bool {
			c, ok := in.(ssa.CallInstruction)
			if !ok {
				return false
			}
			n, _ := calleeName(c.Common())
			return n == "iface."+name
		}
	}
	findAll := func(pred func(ssa.Instruction) bool) []ssa.Instruction {
		var out []ssa.Instruction
		Instrs(ex, func(_ *ssa.BasicBlock, _ int, in ssa.Instruction) {
			if pred(in) {
				out = append(out, in)
			}
		})
		return out
	}
	toHeader := func(h *ssa.BasicBlock) func(a, b *ssa.BasicBlock) bool {
		return func(a, b *ssa.BasicBlock) bool { return b == h }
	}
	leavesLoop := func(l *Loop) func(a, b *ssa.BasicBlock) bool {
		return func(a, b *ssa.BasicBlock) bool { return l.Blocks[a] && !l.Blocks[b] }
	}
	isErrReturn := func(in ssa.Instruction) bool {
		ret, ok := in.(*ssa.Return)
		return ok && tm.Of(ret.Results[0]).Op != "nil"
	}
	_ = isErrReturn
	// Loop model (robust_c20.go): the loop condition is the effect-free region R behind the header; an iteration
	// starts on an edge from R into the body and completes normally when control is back at the header or leaves
	// the loop from the body towards code of the surrounding trial loop (break). Leaving Execute from the body is
	// an error path: C20.1 checks separately that the returns reachable that way carry a non-nil error. The exits
	// taken from R (loop condition false) are no iteration at all; C20.1 checks that each of them is justified
	// (counter exhausted / solved flag).
	cOuter, cInner := newC20Loop(outer), newC20Loop(inner)
	modelOf := func(l *Loop) *c20Loop {
		if l == inner {
			return cInner
		}
		return cOuter
	}
	// Sixth round: an edge that leaves the generation loop from its body towards code of the trial loop is not a break
	// when nothing of the protocol can follow it: on every feasible path after it (phis and nil tests resolved along the
	// path with what is known on the edge - the branch outcomes that dominate it, and Err() of the context being non-nil
	// once its Done channel was found closed) neither loop is entered again, i.e. the path ends in a Return. That is the
	// form the error returns of the generation loop take when the loop lives in a helper whose result the trial loop
	// tests (`if err = runGenerations(..); err != nil { return err }`): the helper's `return err` is an edge to the merge
	// point behind the loop. Such an edge is an error path exactly like an edge that leaves Execute directly; the Returns
	// it reaches are checked by trial.returns-inside-loop / trial.leaves-loop.failure, what happens on the way by
	// generation.*.error-stops and generation.ctx.returns-err.
	cancelErrs := c20CancelErrs(ex)
	errExitMemo := map[[2]*ssa.BasicBlock]bool{}
	errExit := func(a, b *ssa.BasicBlock) bool {
		if !(inner.Blocks[a] && !cInner.R[a] && !inner.Blocks[b] && outer.Blocks[b]) {
			return false
		}
		key := [2]*ssa.BasicBlock{a, b}
		if v, done := errExitMemo[key]; done {
			return v
		}
		isCancelErr := func(v ssa.Value) bool {
			for _, c := range cancelErrs {
				if c20Strip(v) == c {
					return true
				}
			}
			return false
		}
		reenters := false
		w := &c20RetWalk{P: p, Init: condsAt(a, b), Learn: true, NonNilIf: isCancelErr, StopEdge: func(x, y *ssa.BasicBlock) bool {
			if y == outer.Header || y == inner.Header {
				reenters = true
				return true
			}
			return false
		}}
		why := w.Run(b, a, 0, func(*ssa.Return, ssa.Value) string { return "" })
		res := why == "" && !reenters
		errExitMemo[key] = res
		return res
	}
	iterEnd := func(l *Loop) func(a, b *ssa.BasicBlock) bool {
		c := modelOf(l)
		return func(a, b *ssa.BasicBlock) bool {
			return b == l.Header || (l.Blocks[a] && !c.R[a] && !l.Blocks[b] && outer.Blocks[b] && !errExit(a, b))
		}
	}
	// fromIterStart runs the query from every edge on which an iteration of l starts; first witness wins.
	fromIterStart := func(l *Loop, q PathQuery) []string {
		c := modelOf(l)
		userAvoid := q.AvoidEdge
		q.AvoidEdge = func(a, b *ssa.BasicBlock) bool {
			// a path that comes back to the loop condition and leaves through it is no longer inside an iteration;
			// a path that takes an error exit of the generation loop does not complete an iteration (it cannot come back)
			return c.IsCondExit(a, b) || errExit(a, b) || (userAvoid != nil && userAvoid(a, b))
		}
		for _, e := range c.Starts() {
			q.StartEdge = e
			if path := FindPath(p, q); path != nil {
				return path
			}
		}
		return nil
	}
	// exactlyOnce: within one iteration of loop l, event occurs exactly once on every non-error path.
	exactlyOnce := func(l *Loop, what string, ev func(ssa.Instruction) bool, withObserver bool, label string) {
		sites := findAll(ev)
		if ss := stepSites(ev); len(ss) > 0 {
			// the event is made by a step closure of a ladder: it happens when the ladder runs that step
			first := ss[0]
			S, fk := first.S, first.S.Fns[first.K]
			pos := p.Pos(first.In.Pos())
			if len(sites) > 0 {
				r.Bad(label+".at-most-once", pos, what+" happens both in Execute and in a step closure of the ladder @"+p.Pos(S.At.Pos()))
				return
			}
			for _, x := range ss[1:] {
				if x.S != S || x.K != first.K {
					r.Bad(label+".at-most-once", pos, what+" is made by more than one step closure")
					return
				}
			}
			// at least once: every completed iteration of l runs the ladder to its end (takes the exit of its counter
			// test), and the step cannot return without the event
			path := fromIterStart(l, PathQuery{Fn: ex, TargetEdge: iterEnd(l), AvoidEdge: S.CompleteExit, Explored: &r.PathsExplored})
			if path == nil {
				path = FindPath(p, PathQuery{Fn: fk, Target: IsReturn, Avoid: ev, Explored: &r.PathsExplored})
			}
			if path != nil {
				r.Bad(label+".at-least-once", pos, "an iteration can complete without "+what, path...)
			} else {
				r.OK(label+".at-least-once", pos, "every non-error path of one iteration runs the ladder of steps to its end, and its step "+fk.Name()+" passes "+what)
			}
			// at most once: the ladder lies in l and in no loop inside l (it runs at most once per iteration, each step once),
			// and inside the step the event is not reachable from itself
			nested := !l.Blocks[S.L.Header]
			for _, m := range allLoops {
				if m != S.L && m != l && m.Blocks[S.L.Header] && l.Blocks[m.Header] {
					nested = true
				}
			}
			for _, x := range ss {
				again := FindPath(p, PathQuery{Fn: fk, StartAfter: x.In, Target: ev, Explored: &r.PathsExplored})
				if nested || again != nil {
					r.Bad(label+".at-most-once", p.Pos(x.In.Pos()), what+" can happen twice in one iteration", again...)
				} else {
					r.OK(label+".at-most-once", p.Pos(x.In.Pos()), what+" happens at most once per iteration")
				}
			}
			return
		}
		if len(sites) == 0 {
			r.Bad(label+".exists", p.Pos(ex.Pos()), "no "+what+" in Execute")
			return
		}
		var nn []ssa.Value
		if withObserver {
			nn = []ssa.Value{observer}
		}
		// at least once: no path header -> iteration end avoiding the event
		path := fromIterStart(l, PathQuery{Fn: ex, TargetEdge: iterEnd(l), Avoid: ev, NonNil: nn, Explored: &r.PathsExplored})
		if path != nil {
			r.Bad(label+".at-least-once", p.Pos(sites[0].Pos()), "an iteration can complete without "+what, path...)
		} else {
			r.OK(label+".at-least-once", p.Pos(sites[0].Pos()), "every non-error path of one iteration passes "+what)
		}
		// at most once: no path from the event to the event again without passing the header
		for _, s := range sites {
			path := FindPath(p, PathQuery{Fn: ex, StartAfter: s, Target: ev, AvoidEdge: toHeader(l.Header), NonNil: nn, Explored: &r.PathsExplored})
			if path != nil {
				r.Bad(label+".at-most-once", p.Pos(s.Pos()), what+" can happen twice in one iteration", path...)
			} else {
				r.OK(label+".at-most-once", p.Pos(s.Pos()), what+" happens at most once per iteration")
			}
		}
	}

	isNewPop := func(in ssa.Instruction) bool {
		c, ok := in.(ssa.CallInstruction)
		return ok && c.Common().StaticCallee() == p.Func(PkgG, "NewPopulation")
	}
	isTrialStore := func(in ssa.Instruction) bool {
		st, ok := in.(*ssa.Store)
		if !ok {
			return false
		}
		ia, ok := st.Addr.(*ssa.IndexAddr)
		if !ok {
			return false
		}
		t := tm.Of(ia.X)
		return t.Op == "field" && t.Name == "Trials" && t.Args[0].Op == "recv"
	}
	isAppendGen := func(in ssa.Instruction) bool {
		st, ok := in.(*ssa.Store)
		if !ok {
			return false
		}
		f := StoredField(st)
		if f == nil || f.Name() != "Generations" {
			return false
		}
		v := tm.Of(st.Val)
		return v.Op == "call" && v.Name == "append"
	}
	isSelect := func(in ssa.Instruction) bool { _, ok := in.(*ssa.Select); return ok }

	r.Rule("C20.1", "per trial: one fresh population before the generation loop; TrialRunStarted once before it; the trial recorded once; TrialRunFinished exactly once on every non-error path, after the last EpochEvaluated", func() {
		// every return inside the trial loop is an error return (so that 'non-error path' = reaches the end of the iteration)
		// "inside the trial loop" = reachable from an edge that leaves the loop from its body (not from its loop condition)
		fromBody := map[*ssa.BasicBlock]bool{}
		var stack []*ssa.BasicBlock
		for _, e := range cOuter.BodyExits() {
			stack = append(stack, e[1])
		}
		for len(stack) > 0 {
			b := stack[len(stack)-1]
			stack = stack[:len(stack)-1]
			if fromBody[b] || outer.Blocks[b] {
				continue
			}
			fromBody[b] = true
			stack = append(stack, b.Succs...)
		}
		// the value a Return delivers is resolved along each path that leaves the loop body (a single `return r` over a
		// result variable - the form an inlined helper takes - returns nil on the paths on which r was set to nil)
		nilRet := map[*ssa.Return]bool{}
		for _, e := range cOuter.BodyExits() {
			(&c20RetWalk{P: p}).Run(e[1], e[0], 0, func(ret *ssa.Return, got ssa.Value) string {
				if got != nil && c20IsNilConst(got) {
					nilRet[ret] = true
				}
				return ""
			})
		}
		for _, b := range ex.Blocks {
			ret, ok := b.Instrs[len(b.Instrs)-1].(*ssa.Return)
			if !ok || !fromBody[b] {
				continue
			}
			rt := tm.Of(ret.Results[0])
			if nilRet[ret] {
				rt = &Term{Op: "nil"}
			}
			r.Check(rt.Op != "nil", "trial.returns-inside-loop", p.Pos(ret.Pos()), "a return inside the trial loop carries an error: "+rt.String(), "Execute returns nil from inside the trial loop: the remaining trials are silently skipped")
		}
		// ... and it is a failure that ends the run early: on every path that leaves the trial loop from its body the value
		// returned is known to be non-nil on that path (a nil test of that very value passed on the way, phis and result
		// variables resolved along the path) or is an error by construction (ctx.Err() after the Done test - see
		// generation.ctx.returns-err -, a freshly built error, a package-level Err… value). An inverted error test
		// (`if err == nil { return err }`) returns nil after the first step of the first trial: no trial is executed.
		// Decided by walking one iteration of the trial loop from each edge on which it starts (the generation loop inside
		// is walked until no new combination of resolved values turns up); one verdict per Return reached.
		{
			verdict := map[*ssa.Return]string{}
			var order []*ssa.Return
			overflow := ""
			for _, e := range cOuter.Starts() {
				w := &c20RetWalk{P: p, Learn: true, Init: condsAt(e[0], e[1]), StopEdge: func(a, b *ssa.BasicBlock) bool {
					return b == outer.Header || cOuter.IsCondExit(a, b)
				}}
				if why := w.Run(e[1], e[0], 0, func(ret *ssa.Return, got ssa.Value) string {
					msg := ""
					switch {
					case got == nil:
						msg = "a return without a value"
					case w.RetNil == c20NonNil || c20ErrorByConstruction(got):
					case w.RetNil == c20IsNil:
						msg = "the value returned is nil on a path: " + tm.Of(got).String()
					default:
						msg = "the value returned is not known to be a non-nil error on a path: " + tm.Of(got).String()
					}
					if _, seen := verdict[ret]; !seen {
						order = append(order, ret)
						verdict[ret] = msg
					} else if verdict[ret] == "" {
						verdict[ret] = msg
					}
					return ""
				}); why != "" {
					overflow = why
				}
			}
			if overflow != "" {
				r.Undecided("trial.leaves-loop.failure", p.Pos(outer.Header.Instrs[0].Pos()), "the paths of one trial iteration could not be enumerated: "+overflow)
			}
			sort.Slice(order, func(i, j int) bool { return order[i].Block().Index < order[j].Block().Index })
			for _, ret := range order {
				r.Check(verdict[ret] == "", "trial.leaves-loop.failure", p.Pos(ret.Pos()), "the trial loop is left early only with a non-nil error in hand",
					"Execute can leave the trial loop early without a failure: "+verdict[ret]+"; the remaining trials are silently skipped")
			}
		}
		// with the options present nothing ends the run before the first trial
		{
			var found []ssa.Value
			for _, c := range CallsTo(ex, p.Func(PkgT, "FromContext")) {
				if v, ok := c.(ssa.Value); ok && v.Referrers() != nil {
					for _, ref := range *v.Referrers() {
						if x, isX := ref.(*ssa.Extract); isX && x.Index == 1 {
							found = append(found, x)
						}
					}
				}
			}
			w := &c20RetWalk{P: p, True: found, Learn: true, StopEdge: func(a, b *ssa.BasicBlock) bool { return b == outer.Header }}
			why := w.Run(ex.Blocks[0], nil, 0, func(ret *ssa.Return, got ssa.Value) string {
				g := "nothing"
				if got != nil {
					g = tm.Of(got).String()
				}
				return "Execute returns " + g + " @" + p.Pos(ret.Pos()) + " before the first trial although the context carries the options"
			})
			r.Check(why == "", "run.starts", p.Pos(ex.Pos()), "whenever neat.FromContext reports the options present, control reaches the trial loop",
				why+": no trial is executed")
		}
		exactlyOnce(outer, "NewPopulation", isNewPop, false, "trial.NewPopulation")
		for _, s := range findAll(isNewPop) {
			c := s.(ssa.CallInstruction)
			a := callArgTerms(tm, c.Common())
			r.Check(isParamIdx(a[0], 2), "trial.NewPopulation.genome", p.Pos(s.Pos()), "spawned from the start genome parameter", "population is spawned from "+a[0].String())
			r.Check(!inner.Blocks[s.Block()] && outer.Blocks[s.Block()] && s.Block().Dominates(inner.Header), "trial.NewPopulation.place", p.Pos(s.Pos()),
				"inside the trial loop, dominating the generation loop", "NewPopulation is not placed once per trial before the generation loop")
		}
		for _, s := range stepSites(isNewPop) {
			c := s.In.(ssa.CallInstruction)
			got := s.S.capturedValue(s.K, c.Common().Args[0])
			r.Check(got != nil && got == ssa.Value(ex.Params[2]), "trial.NewPopulation.genome", p.Pos(s.In.Pos()), "spawned from the start genome parameter", "population is spawned from "+NewTermer(s.S.Fns[s.K]).Of(c.Common().Args[0]).String())
			h := s.S.L.Header
			r.Check(!inner.Blocks[h] && outer.Blocks[h] && h.Dominates(inner.Header), "trial.NewPopulation.place", p.Pos(s.In.Pos()),
				"made by a ladder of steps inside the trial loop that dominates the generation loop", "NewPopulation is not placed once per trial before the generation loop")
		}
		exactlyOnce(outer, "TrialRunStarted", isInvoke("TrialRunStarted"), true, "trial.started")
		for _, s := range findAll(isInvoke("TrialRunStarted")) {
			r.Check(!inner.Blocks[s.Block()], "trial.started.place", p.Pos(s.Pos()), "outside the generation loop", "TrialRunStarted is called inside the generation loop")
			// before the first generation: no path outer header -> inner header avoiding it (observer present)
			path := fromIterStart(outer, PathQuery{Fn: ex, TargetEdge: toHeader(inner.Header), Avoid: isInvoke("TrialRunStarted"), NonNil: []ssa.Value{observer}, Explored: &r.PathsExplored})
			if path != nil {
				r.Bad("trial.started.before-generations", p.Pos(s.Pos()), "the generation loop can start before TrialRunStarted", path...)
			} else {
				r.OK("trial.started.before-generations", p.Pos(s.Pos()), "TrialRunStarted precedes the first generation")
			}
		}
		exactlyOnce(outer, "the store e.Trials[run] = trial", isTrialStore, false, "trial.recorded")
		for _, s := range findAll(isTrialStore) {
			idx := s.(*ssa.Store).Addr.(*ssa.IndexAddr).Index
			_, ph, _, ok := cOuter.Counter(tm)
			r.Check(ok && idx == ssa.Value(ph), "trial.recorded.index", p.Pos(s.Pos()), "recorded at the trial counter's index", "the trial is recorded at index "+tm.Of(idx).String()+", not at the trial counter")
			r.Check(!inner.Blocks[s.Block()], "trial.recorded.place", p.Pos(s.Pos()), "after the generation loop", "the trial is recorded inside the generation loop (before its generations are complete)")
		}
		exactlyOnce(outer, "TrialRunFinished", isInvoke("TrialRunFinished"), true, "trial.finished")
		for _, s := range findAll(isInvoke("TrialRunFinished")) {
			path := FindPath(p, PathQuery{Fn: ex, StartAfter: s, Target: isInvoke("EpochEvaluated"), AvoidEdge: toHeader(outer.Header), NonNil: []ssa.Value{observer}, Explored: &r.PathsExplored})
			if path != nil {
				r.Bad("trial.finished.last", p.Pos(s.Pos()), "a generation can be reported after the trial was reported finished", path...)
			} else {
				r.OK("trial.finished.last", p.Pos(s.Pos()), "no EpochEvaluated after TrialRunFinished in the same trial")
			}
		}
		// observer absent: none of the notifications is reachable
		// (per site, on the values that can be its receiver: the observer parameter must not be selected when it is nil -
		// the `if observer != nil` guard or any equivalent; a substitute selected instead must ignore the notification)
		// observer present: the notification goes to that observer, not to anything else
		for _, name := range []string{"TrialRunStarted", "TrialRunFinished", "EpochEvaluated"} {
			var nilBad, idBad *c20RecvVerdict
			for _, s := range findAll(isInvoke(name)) {
				v := c20CheckReceiver(p, ex, s.(ssa.CallInstruction), observer, name, &r.PathsExplored)
				if !v.NilSafe && nilBad == nil {
					nilBad = &v
				}
				if !v.Identity && idBad == nil {
					idBad = &v
				}
			}
			if nilBad != nil {
				r.Bad("observer.nil."+name, p.Pos(ex.Pos()), nilBad.NilWhy, nilBad.NilPath...)
			} else {
				r.OK("observer.nil."+name, p.Pos(ex.Pos()), name+" is never called on a nil observer")
			}
			if idBad != nil {
				r.Bad("observer.receiver."+name, p.Pos(ex.Pos()), idBad.IdWhy, idBad.IdPath...)
			} else {
				r.OK("observer.receiver."+name, p.Pos(ex.Pos()), name+" is delivered to the observer whenever one is present")
			}
		}
		// counters
		for _, lc := range []struct {
			l     *Loop
			field string
			label string
		}{{outer, "NumRuns", "trial.counter"}, {inner, "NumGenerations", "generation.counter"}} {
			c := modelOf(lc.l)
			b, _, cexit, ok := c.Counter(tm)
			r.Check(ok && b.Op == "field" && b.Name == lc.field, lc.label, p.Pos(lc.l.Header.Instrs[0].Pos()), "counter runs 0,1,… < options."+lc.field+", tested in the loop condition before anything of the iteration happens",
				fmt.Sprintf("loop counter is not 0,1,… < %s tested in the loop condition (bound %v)", lc.field, b))
			// every other way the loop condition can end the loop needs a reason the property allows:
			// none for the trial loop; for the generation loop a flag raised only under generation.Solved.
			var bad []string
			for _, e := range c.CondExits() {
				if ok && e == cexit {
					continue
				}
				if lc.l == inner {
					fine, why := c20SolvedFlagExit(tm, inner, e[0], e[1], findAll(isInvoke("GenerationEvaluate")))
					if fine {
						continue
					}
					bad = append(bad, fmt.Sprintf("block %d -> %d (%s): %s", e[0].Index, e[1].Index, p.Pos(e[0].Instrs[len(e[0].Instrs)-1].Pos()), why))
					continue
				}
				bad = append(bad, fmt.Sprintf("block %d -> %d (%s)", e[0].Index, e[1].Index, p.Pos(e[0].Instrs[len(e[0].Instrs)-1].Pos())))
			}
			r.Check(len(bad) == 0, lc.label+".only-exit", p.Pos(lc.l.Header.Instrs[0].Pos()), "the loop condition ends the loop only when the counter is exhausted"+map[bool]string{true: " or a flag raised under generation.Solved is set", false: ""}[lc.l == inner],
				"the loop condition can end the loop for another reason than the exhausted counter: "+strings.Join(bad, "; "))
		}
		// a break out of the generation loop is taken only under generation.Solved
		for _, e := range cInner.BodyExits() {
			if !outer.Blocks[e[1]] || errExit(e[0], e[1]) {
				continue // leaves Execute (at once, or behind a merge point after which only a Return can follow): error path, see trial.returns-inside-loop
			}
			guarded := false
			for _, g := range condsAt(e[0], e[1]) {
				if c20SolvedGuard(tm, g, true) {
					guarded = true
				}
			}
			pos := token.NoPos
			for _, in := range e[0].Instrs {
				if in.Pos().IsValid() {
					pos = in.Pos()
				}
			}
			r.Check(guarded, "generation.break.only-solved", p.Pos(pos), "the generation loop is left early only under generation.Solved", "the generation loop is left early on a path that is not guarded by generation.Solved: fewer generations than configured are evaluated")
		}
	})

	r.Rule("C20.2", "per generation: context test before the evaluation; exactly one GenerationEvaluate, its error returns at once; NextEpoch only under !Solved, at most once, its error returns; append then EpochEvaluated exactly once; under Solved the loop is left", func() {
		ge := isInvoke("GenerationEvaluate")
		ne := isInvoke("NextEpoch")
		ee := isInvoke("EpochEvaluated")
		exactlyOnce(inner, "GenerationEvaluate", ge, false, "generation.evaluate")
		exactlyOnce(inner, "append(trial.Generations, generation)", isAppendGen, false, "generation.append")
		exactlyOnce(inner, "EpochEvaluated", ee, true, "generation.notified")
		// the record handed to the evaluator is fresh in every generation: its Solved flag is false when the evaluator is
		// called (the bundled evaluators only ever raise it), so "solved" below means "reported solved by this evaluation".
		// Established either by the allocation of the record inside the generation loop (zeroed each time it executes), or
		// by a whole-value reset from a fresh literal / a `Solved = false` store inside the loop that dominates the call;
		// nothing else may write Solved or receive the record before the call.
		solvedFld := p.Field(PkgE, "Generation", "Solved")
		for _, s := range findAll(ge) {
			args := s.(ssa.CallInstruction).Common().Args
			rec := c20AllocOf(args[len(args)-1])
			if rec == nil || rec.Referrers() == nil {
				r.Undecided("generation.record.fresh", p.Pos(s.Pos()), "cannot identify the allocation of the generation record passed to GenerationEvaluate: "+tm.Of(args[len(args)-1]).String())
				continue
			}
			established := inner.Blocks[rec.Block()] && c20After(rec, s)
			why := ""
			note := func(msg string, in ssa.Instruction) {
				if why == "" {
					why = msg + " @" + p.Pos(in.Pos())
				}
			}
			for _, ref := range *rec.Referrers() {
				switch x := ref.(type) {
				case *ssa.Store:
					if x.Addr != ssa.Value(rec) {
						note("the record's address is stored away", x)
						continue
					}
					fresh := c20FreshStructValue(x.Val, inner, solvedFld)
					if fresh && inner.Blocks[x.Block()] && c20After(x, s) {
						established = true
					} else if !fresh && !c20After(s, x) {
						note("the record is overwritten before the evaluation with a value that is not a fresh literal", x)
					}
				case *ssa.FieldAddr:
					if fieldOf(x.X.Type(), x.Field) != solvedFld || x.Referrers() == nil {
						continue
					}
					for _, rr := range *x.Referrers() {
						switch y := rr.(type) {
						case *ssa.Store:
							if y.Addr == ssa.Value(x) && IsConstBool(y.Val, false) {
								if inner.Blocks[y.Block()] && c20After(y, s) {
									established = true
								}
							} else if !c20After(s, y) {
								note("Solved is written before the evaluation", y)
							}
						case *ssa.UnOp, *ssa.DebugRef:
						default:
							if !c20After(s, rr) {
								note("the address of Solved is used before the evaluation", rr)
							}
						}
					}
				case *ssa.UnOp, *ssa.DebugRef:
				case ssa.CallInstruction:
					if ref != s && !c20After(s, ref) {
						note("the record is handed to another call before the evaluation", ref)
					}
				default:
					if !c20After(s, ref) {
						note("the record escapes before the evaluation", ref)
					}
				}
			}
			if !established {
				why = "the record is neither allocated nor reset inside the generation loop before the call (allocated @" + p.Pos(rec.Pos()) + ")"
			}
			r.Check(established && why == "", "generation.record.fresh", p.Pos(s.Pos()), "the evaluator receives a record whose Solved flag is false: allocated or reset in every generation before the call",
				"the generation record handed to the evaluator is not fresh in every generation: "+why+"; Solved (and winner data) left from an earlier generation or trial ends later trials after their first generation")
		}
		// the events of the protocol
		anyEvent := func(in ssa.Instruction) bool {
			return ge(in) || ne(in) || ee(in) || isAppendGen(in) || isTrialStore(in) || isInvoke("TrialRunFinished")(in) || isInvoke("TrialRunStarted")(in)
		}
		// context test precedes the evaluation
		sel := findAll(isSelect)
		if len(sel) == 0 {
			r.Bad("generation.ctx", p.Pos(ex.Pos()), "the generation loop never tests the context for cancellation")
		}
		for _, s := range findAll(ge) {
			path := fromIterStart(inner, PathQuery{Fn: ex, Target: ge, Avoid: isSelect, Explored: &r.PathsExplored})
			if path != nil {
				r.Bad("generation.ctx.before-evaluate", p.Pos(s.Pos()), "a generation can be evaluated without testing the context first", path...)
			} else {
				r.OK("generation.ctx.before-evaluate", p.Pos(s.Pos()), "the context test precedes GenerationEvaluate in every iteration")
			}
		}
		for _, s := range sel {
			sl := s.(*ssa.Select)
			okShape := !sl.Blocking && len(sl.States) == 1 && sl.States[0].Dir == types.RecvOnly && strings.HasSuffix(tm.Of(sl.States[0].Chan).String(), "iface.Done(p1)")
			r.Check(okShape, "generation.ctx.shape", p.Pos(s.Pos()), "non-blocking receive from ctx.Done()", "the cancellation test is not a non-blocking receive from ctx.Done()")
			// the ready branch returns ctx.Err(): decided on every path after the select on which its receive case was ready
			// (the test may sit in an inlined helper that hands `canceled, cause` back, the return may go through a result
			// variable), and nothing of the protocol happens on the way
			okRet, whyRet := c20CancelReturns(p, tm, sl, anyEvent)
			if whyRet != "" {
				whyRet = ": " + whyRet
			}
			r.Check(okRet, "generation.ctx.returns-err", p.Pos(s.Pos()), "cancellation returns ctx.Err() at once", "a cancelled context does not make Execute return ctx.Err()"+whyRet)
		}
		// errors return immediately: from the call, on the path where its error is non-nil, no further event is reachable
		for _, kind := range []struct {
			name string
			pred func(ssa.Instruction) bool
		}{{"GenerationEvaluate", ge}, {"NextEpoch", ne}} {
			for _, s := range findAll(kind.pred) {
				errV := s.(ssa.Value)
				path := FindPath(p, PathQuery{Fn: ex, StartAfter: s, Target: anyEvent, NonNil: []ssa.Value{errV, observer}, Explored: &r.PathsExplored})
				if path != nil {
					r.Bad("generation."+kind.name+".error-stops", p.Pos(s.Pos()), "after "+kind.name+" returned an error the run continues", path...)
				} else {
					r.OK("generation."+kind.name+".error-stops", p.Pos(s.Pos()), "an error from "+kind.name+" ends the run before any further event")
				}
				// and it is that error which is returned
				retOK := false
				for _, b := range ex.Blocks {
					if ret, ok := b.Instrs[len(b.Instrs)-1].(*ssa.Return); ok && ret.Results[0] == errV {
						retOK = true
					}
				}
				whyNot := ""
				if !retOK {
					// the error may reach the return through a result variable (phi): decide it on the paths after the call -
					// every path on which the error is non-nil ends in a Return that returns this very value
					retOK, whyNot = c20ErrReturned(p, s, errV)
					if whyNot != "" {
						whyNot = ": " + whyNot
					}
				}
				r.Check(retOK, "generation."+kind.name+".error-returned", p.Pos(s.Pos()), "the error is returned to the caller", "the error of "+kind.name+" is not returned to the caller"+whyNot)
			}
		}
		// NextEpoch only under !Solved, at most once
		nes := findAll(ne)
		if len(nes) == 0 {
			r.Bad("generation.nextepoch.exists", p.Pos(ex.Pos()), "the population is never turned over")
		}
		for _, s := range nes {
			guarded := false
			for _, g := range Guards(s.Block()) {
				gt := tm.Of(g.Cond)
				if gt.Op == "field" && gt.Name == "Solved" && !g.True {
					guarded = true
				}
			}
			r.Check(guarded, "generation.nextepoch.guard", p.Pos(s.Pos()), "NextEpoch is reached only when the generation is not solved", "NextEpoch is not guarded by !generation.Solved: a solved population is turned over")
			path := FindPath(p, PathQuery{Fn: ex, StartAfter: s, Target: ne, AvoidEdge: toHeader(inner.Header), Explored: &r.PathsExplored})
			r.Check(path == nil, "generation.nextepoch.at-most-once", p.Pos(s.Pos()), "at most one turnover per generation", "NextEpoch can run twice in one generation")
			r.Check(inner.Blocks[s.Block()], "generation.nextepoch.place", p.Pos(s.Pos()), "inside the generation loop", "NextEpoch is outside the generation loop")
			// after the evaluation
			pre := fromIterStart(inner, PathQuery{Fn: ex, Target: ne, Avoid: ge, Explored: &r.PathsExplored})
			r.Check(pre == nil, "generation.nextepoch.after-evaluate", p.Pos(s.Pos()), "the turnover follows the evaluation", "NextEpoch can run before the generation was evaluated")
		}
		// order append -> EpochEvaluated
		for _, s := range findAll(ee) {
			pre := fromIterStart(inner, PathQuery{Fn: ex, Target: ee, Avoid: isAppendGen, NonNil: []ssa.Value{observer}, Explored: &r.PathsExplored})
			if pre != nil {
				r.Bad("generation.notified.after-append", p.Pos(s.Pos()), "EpochEvaluated can be delivered before the generation is recorded in the trial", pre...)
			} else {
				r.OK("generation.notified.after-append", p.Pos(s.Pos()), "the generation is recorded before the observer is notified")
			}
		}
		// under Solved no further generation starts: from the true edge of a Solved test that follows the append, no edge on
		// which an iteration of the generation loop starts is reachable within the same trial (flag-sensitive: a `solved`
		// flag tested by the loop condition ends the loop just like a break)
		n := 0
		for b := range inner.Blocks {
			iff, ok := b.Instrs[len(b.Instrs)-1].(*ssa.If)
			if !ok {
				continue
			}
			ct := tm.Of(iff.Cond)
			if !(ct.Op == "field" && ct.Name == "Solved") || b.Succs[0] == b.Succs[1] {
				continue
			}
			// is this test after the append?
			after := false
			for _, a := range findAll(isAppendGen) {
				if a.Block() == b || a.Block().Dominates(b) {
					after = true
				}
			}
			if !after {
				continue
			}
			n++
			path := FindPath(p, PathQuery{Fn: ex, StartEdge: [2]*ssa.BasicBlock{b, b.Succs[0]}, TargetEdge: cInner.IsStart, AvoidEdge: toHeader(outer.Header), Explored: &r.PathsExplored})
			if path != nil {
				r.Bad("generation.solved.leaves", p.Pos(iff.Pos()), "after a solved generation the loop continues with the next generation", path...)
			} else {
				r.OK("generation.solved.leaves", p.Pos(iff.Pos()), "a solved generation ends the trial")
			}
			path = FindPath(p, PathQuery{Fn: ex, StartEdge: [2]*ssa.BasicBlock{b, b.Succs[0]}, Target: ne, AvoidEdge: toHeader(outer.Header), Explored: &r.PathsExplored})
			r.Check(path == nil, "generation.solved.no-turnover", p.Pos(iff.Pos()), "no turnover after the solved generation", "NextEpoch is reachable after the solved generation was reported")
		}
		if n == 0 {
			r.Bad("generation.solved.leaves", p.Pos(ex.Pos()), "there is no test of generation.Solved after the generation is recorded: a solved trial runs on to the configured maximum")
		}
		_ = leavesLoop
	})

	r.Rule("C20.3", "executor selection covers every EpochExecutorType constant and returns an error otherwise", func() {
		sel := p.Func(PkgE, "epochExecutorForContext")
		r.Fn(FuncName(sel))
		ts := NewTermer(sel)
		consts := p.ConstsOfType(PkgT, "EpochExecutorType")
		covered := map[string]bool{}
		errDefault := false
		// every way a Return can get its operands is looked at separately (a single `return executor, err` over named
		// results is one leaf per switch case; a `return x, nil` inside a case is its own single leaf)
		var leaves []c20RetLeaf
		for _, b := range sel.Blocks {
			if ret, ok := b.Instrs[len(b.Instrs)-1].(*ssa.Return); ok && len(ret.Results) == 2 {
				leaves = append(leaves, c20ReturnLeaves(ret)...)
			}
		}
		// the `found` results of the options lookup
		foundVals := map[ssa.Value]bool{}
		for _, c := range CallsTo(sel, p.Func(PkgT, "FromContext")) {
			if cv, ok := c.(ssa.Value); ok && cv.Referrers() != nil {
				for _, ref := range *cv.Referrers() {
					if x, isX := ref.(*ssa.Extract); isX && x.Index == 1 {
						foundVals[x] = true
					}
				}
			}
		}
		// foundOn: what the guards of a leaf say about `found` (+1 options present, -1 absent, 0 nothing)
		foundOn := func(gs []Guard) int {
			res := 0
			for _, g := range gs {
				c, val := g.Cond, g.True
				for {
					u, isNot := c.(*ssa.UnOp)
					if !isNot || u.Op != token.NOT {
						break
					}
					c, val = u.X, !val
				}
				if foundVals[c] {
					if val {
						res = 1
					} else {
						res = -1
					}
				}
			}
			return res
		}
		lookupBad := ""
		// a lookup of the executor type in a literal map is a type test as well: a hit says the type equals one of the
		// keys (one case per entry), a miss refutes all of them (c20SelectionCases)
		isTypeKey := func(v ssa.Value) bool { return strings.Contains(ts.Of(v).String(), ".EpochExecutorType") }
		type selLeaf struct {
			c20RetLeaf
			c20SelCase
		}
		var cases []selLeaf
		for _, lf := range leaves {
			for _, sc := range c20SelectionCases(lf, ts, isTypeKey) {
				cases = append(cases, selLeaf{lf, sc})
			}
		}
		for _, lf := range cases {
			ret := lf.Ret
			v, e := lf.V, lf.E
			matched := ""
			typeTests, refuted := 0, 0
			if lf.Key != nil {
				typeTests++
				for _, c := range consts {
					if c.Val().ExactString() == lf.Key.Value.ExactString() {
						matched = c.Name()
					}
				}
			}
			if lf.Miss {
				typeTests++
				refuted++
			}
			for _, g := range lf.Guards {
				gt := ts.Of(g.Cond)
				if gt.Op == "bin" && gt.Name == "==" && strings.Contains(gt.String(), ".EpochExecutorType") {
					typeTests++
					if !g.True {
						refuted++
						continue
					}
					for _, c := range consts {
						if strings.Contains(gt.String(), c.Val().ExactString()) {
							matched = c.Name()
						}
					}
				}
			}
			// with the options present the selection looks at the executor type; it gives up without looking only when they are absent
			if f := foundOn(lf.Guards); typeTests == 0 && f != -1 && lookupBad == "" {
				lookupBad = "the return @" + p.Pos(ret.Pos()) + " (" + v.String() + ", " + e.String() + ") is taken without examining the executor type although the options may be present"
			} else if typeTests > 0 && f == -1 && lookupBad == "" {
				lookupBad = "the executor type is examined @" + p.Pos(ret.Pos()) + " only when the options are absent"
			}
			if matched != "" {
				want := strings.TrimPrefix(matched, "EpochExecutorType") + "PopulationEpochExecutor"
				okT := e.Op == "nil" && strings.Contains(v.String(), "genetics."+want)
				r.Check(okT, "executor."+matched, p.Pos(ret.Pos()), matched+" selects "+want, fmt.Sprintf("%s selects %s (error %s), expected a %s", matched, v, e, want))
				covered[matched] = true
			} else if e.Op != "nil" && v.Op == "nil" {
				// error return on the way on which the tests of the executor type failed (the missing-options return is
				// not guarded by any of them and does not count)
				if typeTests > 0 && refuted == typeTests {
					errDefault = true
				}
			}
		}
		for _, c := range consts {
			if !covered[c.Name()] {
				r.Bad("executor."+c.Name(), p.Pos(sel.Pos()), "executor type "+c.Name()+" is not handled by epochExecutorForContext")
			}
		}
		r.Check(lookupBad == "" && len(foundVals) > 0, "executor.options-present", p.Pos(sel.Pos()), "whenever the context carries the options the selection is made on their executor type; the lookup error is returned only when they are absent",
			"the options lookup of the executor selection is not honoured: "+lookupBad+map[bool]string{true: "", false: "the `found` result of neat.FromContext is not used"}[len(foundVals) > 0]+"; every trial fails before its first generation")
		r.Floor("EpochExecutorType constants", len(consts), 2)
		r.Check(errDefault, "executor.default", p.Pos(sel.Pos()), "an unknown executor type yields an error", "an unknown executor type does not yield an error")
		// Execute uses it once per trial and returns its error
		cs := CallsTo(ex, sel)
		selSteps := stepSites(func(in ssa.Instruction) bool {
			c, ok := in.(ssa.CallInstruction)
			return ok && c.Common().StaticCallee() == sel
		})
		r.Check((len(cs) == 1 && len(selSteps) == 0 && !inner.Blocks[cs[0].Block()]) || (len(cs) == 0 && len(selSteps) == 1 && !inner.Blocks[selSteps[0].S.L.Header]), "executor.use", p.Pos(ex.Pos()), "selected once per trial", "the executor is not selected exactly once per trial outside the generation loop")
	})

	r.Rule("C20.5", "what the events carry: the trial value recorded at e.Trials[run] is the one the observer was shown and the generations were appended to, it is fresh in every trial and numbered by the trial counter; the generation record appended to it and shown to the observer is the one the evaluator filled, numbered by the generation counter and the trial counter; the population evaluated and turned over is the one spawned for this trial, and the turnover is told the generation counter", func() {
		_, runPhi, _, okRun := cOuter.Counter(tm)
		_, genPhi, _, okGen := cInner.Counter(tm)
		isCounter := func(v ssa.Value, ph *ssa.Phi, ok bool) bool { return ok && c20Strip(v) == ssa.Value(ph) }
		// the trial value
		// (a variable: a local, or a field of a by-value local struct - c20Place)
		var T c20Place
		for _, s := range findAll(isTrialStore) {
			ld, isLoad := c20Strip(s.(*ssa.Store).Val).(*ssa.UnOp)
			var a c20Place
			if isLoad && ld.Op == token.MUL {
				a, _ = c20PlaceOf(ld.X)
			}
			if !a.valid() {
				r.Bad("carry.trial.recorded", p.Pos(s.Pos()), "the value recorded at e.Trials[run] is not the content of a trial variable: "+tm.Of(s.(*ssa.Store).Val).String())
				continue
			}
			if T.valid() && T != a {
				r.Bad("carry.trial.recorded", p.Pos(s.Pos()), "two different trial variables are recorded")
				continue
			}
			T = a
			r.OK("carry.trial.recorded", p.Pos(s.Pos()), "the content of one trial variable is recorded")
		}
		if !T.valid() {
			r.Undecided("carry.trial", p.Pos(ex.Pos()), "no trial variable identified")
			return
		}
		for _, name := range []string{"TrialRunStarted", "EpochEvaluated", "TrialRunFinished"} {
			for _, s := range findAll(isInvoke(name)) {
				args := s.(ssa.CallInstruction).Common().Args
				shown, okShown := c20Place{}, false
				if len(args) > 0 {
					shown, okShown = c20PlaceOf(args[0])
				}
				r.Check(okShown && shown == T, "carry.trial."+name, p.Pos(s.Pos()), name+" is shown the trial that is recorded",
					name+" is shown another trial value than the one recorded at e.Trials[run]")
			}
		}
		// fresh in every trial: allocated, or overwritten with a fresh literal, inside the trial loop before the generation loop
		// (the allocation that holds the variable - the variable itself or the struct it is a field of - comes into being
		// zeroed each time its Alloc executes)
		fresh := outer.Blocks[T.A.Block()] && !inner.Blocks[T.A.Block()] && T.A.Block().Dominates(inner.Header)
		if !fresh {
			tAddrs, _ := c20PlaceAddrs(T)
			for _, ta := range tAddrs {
				if ta.Referrers() == nil {
					continue
				}
				for _, ref := range *ta.Referrers() {
					if st, ok := ref.(*ssa.Store); ok && st.Addr == ta && st.Parent() == ex && outer.Blocks[st.Block()] && !inner.Blocks[st.Block()] &&
						st.Block().Dominates(inner.Header) && c20FreshStructValue(st.Val, outer, nil) {
						fresh = true
					}
				}
			}
		}
		r.Check(fresh, "carry.trial.fresh", p.Pos(T.A.Pos()), "the trial variable starts empty in every trial",
			"the trial variable is neither allocated nor reset inside the trial loop before the generation loop: a trial starts with the generations of the previous one")
		checkDefs := func(pl c20Place, typ, field string, ph *ssa.Phi, okPh bool, label, what string) {
			a := pl.A
			defs := c20PlaceDefs(pl, p.Field(PkgE, typ, field))
			bad := ""
			n := 0
			for _, d := range defs {
				switch {
				case d.Why != "":
					bad = d.Why
				case d.Val == nil:
					// a whole-value reset without the field: fine when a field store follows; counted below
				case !isCounter(d.Val, ph, okPh):
					got := tm.Of(d.Val).String()
					if isCounter(d.Val, runPhi, okRun) {
						got = "the trial counter"
					} else if isCounter(d.Val, genPhi, okGen) {
						got = "the generation counter"
					}
					bad = typ + "." + field + " is set to " + got + " @" + p.Pos(d.At.Pos())
				default:
					n++
				}
			}
			if bad == "" && n == 0 {
				bad = typ + "." + field + " is never set"
			}
			r.Check(bad == "", label, p.Pos(a.Pos()), typ+"."+field+" is "+what, typ+"."+field+" is not "+what+": "+bad)
		}
		checkDefs(T, "Trial", "Id", runPhi, okRun, "carry.trial.id", "the trial counter")
		// the generation record
		var G *ssa.Alloc
		for _, s := range findAll(isInvoke("GenerationEvaluate")) {
			args := s.(ssa.CallInstruction).Common().Args
			if a := c20AllocOf(args[len(args)-1]); a != nil {
				G = a
			}
		}
		if G == nil {
			r.Undecided("carry.generation", p.Pos(ex.Pos()), "no generation record identified (see generation.record.fresh)")
		} else {
			for _, s := range findAll(isInvoke("EpochEvaluated")) {
				args := s.(ssa.CallInstruction).Common().Args
				r.Check(len(args) > 1 && c20AllocOf(args[1]) == G, "carry.generation.EpochEvaluated", p.Pos(s.Pos()), "the observer is shown the record the evaluator filled",
					"EpochEvaluated is shown another generation record than the one handed to the evaluator")
			}
			for _, s := range findAll(isAppendGen) {
				st := s.(*ssa.Store)
				okApp, why := c20AppendsRecord(st, T, G)
				r.Check(okApp, "carry.generation.append", p.Pos(s.Pos()), "the evaluated record is appended to the generations of the recorded trial", "the append does not add the evaluated record to the recorded trial's generations: "+why)
			}
			checkDefs(c20Place{A: G}, "Generation", "Id", genPhi, okGen, "carry.generation.id", "the generation counter")
			checkDefs(c20Place{A: G}, "Generation", "TrialId", runPhi, okRun, "carry.generation.trial-id", "the trial counter")
		}
		// the population
		isSpawned := func(v ssa.Value) bool {
			alts := tm.Of(v).Alternatives()
			n := 0
			viaTerms := true
			for _, a := range alts {
				if a.Op == "nil" {
					continue
				}
				if !(a.Op == "extract" && a.Idx == 0 && len(a.Args) == 1 && a.Args[0].Op == "call" && a.Args[0].Obj == types.Object(p.Func(PkgG, "NewPopulation").Object())) {
					viaTerms = false
					break
				}
				n++
			}
			if viaTerms && n > 0 {
				return true
			}
			// the population may be kept in a variable that lives in memory (a field of a by-value local struct, a local
			// shared with closures): it is the spawned one when the variable is private, everything ever stored to it is
			// the first result of NewPopulation (or nil), and each such store sits in the block of its call - whenever
			// a population is spawned the variable is updated with it, so after this trial's spawning (exactly once per
			// trial, before the generation loop: trial.NewPopulation) it holds this trial's population
			leaves, through := c20CellOrigins(v)
			if len(through) == 0 {
				return false
			}
			spawnCall := func(x ssa.Value) *ssa.Call {
				e, ok := c20Strip(x).(*ssa.Extract)
				if !ok || e.Index != 0 {
					return nil
				}
				call, ok := e.Tuple.(*ssa.Call)
				if !ok || call.Call.StaticCallee() != p.Func(PkgG, "NewPopulation") {
					return nil
				}
				return call
			}
			n = 0
			for _, lf := range leaves {
				if c20IsNilConst(lf) {
					continue
				}
				if spawnCall(lf) == nil {
					return false
				}
				n++
			}
			for _, st := range through {
				if c20IsNilConst(c20Strip(st.Val)) {
					continue
				}
				call := spawnCall(st.Val)
				if call == nil || call.Block() != st.Block() {
					return false
				}
			}
			return n > 0
		}
		var popEval ssa.Value
		for _, s := range findAll(isInvoke("GenerationEvaluate")) {
			args := s.(ssa.CallInstruction).Common().Args
			if len(args) < 3 {
				continue
			}
			popEval = args[1]
			r.Check(isSpawned(args[1]), "carry.population.evaluate", p.Pos(s.Pos()), "the evaluator receives the population spawned for this trial", "the evaluator receives "+tm.Of(args[1]).String()+", not the population spawned for this trial")
		}
		for _, s := range findAll(isInvoke("NextEpoch")) {
			args := s.(ssa.CallInstruction).Common().Args
			if len(args) < 3 {
				continue
			}
			same := popEval != nil && (c20Strip(args[2]) == c20Strip(popEval) || CanonTerm(tm.Of(args[2])) == CanonTerm(tm.Of(popEval)))
			r.Check(same && isSpawned(args[2]), "carry.population.turnover", p.Pos(s.Pos()), "the population turned over is the one that was evaluated", "NextEpoch turns over "+tm.Of(args[2]).String()+", not the population that was evaluated")
			r.Check(isCounter(args[1], genPhi, okGen), "carry.turnover.generation", p.Pos(s.Pos()), "the turnover is told the generation counter", "NextEpoch is told generation "+tm.Of(args[1]).String()+", not the generation counter")
		}
	})

	r.Rule("C20.4", "the result holder has exactly one slot per executed trial: whatever Execute stores into e.Trials is make(Trials, <bound of the trial loop>), stored before the first trial or only while the holder is nil, and a nil holder never reaches the recording store; every repository caller that hands Execute a holder it built itself sizes it from NumRuns of the options object the call's context carries, and NumRuns is not written between that read and the call (a holder of another length means phantom empty trials in Experiment.Trials, or an index out of range after a trial was evaluated)", func() {
		trialsFld := p.Field(PkgE, "Experiment", "Trials")
		bound, _, _, okC := cOuter.Counter(tm)
		isHolderLoad := func(v ssa.Value) bool {
			u, ok := v.(*ssa.UnOp)
			if !ok || u.Op != token.MUL {
				return false
			}
			fa, ok := u.X.(*ssa.FieldAddr)
			return ok && fieldOf(fa.X.Type(), fa.Field) == trialsFld && tm.Of(fa.X).Op == "recv"
		}
		// (a) inside Execute
		var holderStores []*ssa.Store
		for _, st := range FieldStores(ex, trialsFld) {
			if tm.Of(st.Addr.(*ssa.FieldAddr).X).Op == "recv" {
				holderStores = append(holderStores, st)
			}
		}
		alwaysSized := false
		// lenVsBound: the branch outcome says `len(e.Trials) <op> <bound of the trial loop>` for one of ops
		lenVsBound := func(cond ssa.Value, outcome bool, ops ...token.Token) bool {
			x, y, op, ok := CmpFact(cond, outcome)
			if !ok || !okC {
				return false
			}
			if _, isLenX := c19IsBuiltinCall(x, "len"); !isLenX {
				// `bound <op> len(e.Trials)`: read it the other way round
				x, y = y, x
				switch op {
				case token.LSS:
					op = token.GTR
				case token.GTR:
					op = token.LSS
				case token.LEQ:
					op = token.GEQ
				case token.GEQ:
					op = token.LEQ
				}
			}
			lc, isLen := c19IsBuiltinCall(x, "len")
			if !isLen || len(lc.Call.Args) != 1 || !isHolderLoad(lc.Call.Args[0]) || CanonTerm(tm.Of(y)) != CanonTerm(bound) {
				return false
			}
			for _, o := range ops {
				if o == op {
					return true
				}
			}
			return false
		}
		for _, st := range holderStores {
			v := st.Val
			for {
				ct, ok := v.(*ssa.ChangeType)
				if !ok {
					break
				}
				v = ct.X
			}
			ms, isMake := v.(*ssa.MakeSlice)
			sized := isMake && okC && CanonTerm(tm.Of(ms.Len)) == CanonTerm(bound)
			got := tm.Of(st.Val).String()
			r.Check(sized, "holder.execute.sized", p.Pos(st.Pos()), "Execute sizes the holder with the bound of the trial loop: "+got,
				fmt.Sprintf("Execute replaces the result holder by %s, which does not have one slot per trial of the loop bound %v", got, bound))
			first := !outer.Blocks[st.Block()] && c20Reach(st, outer.Header.Instrs[0])
			whileNil := false
			for _, g := range Guards(st.Block()) {
				if GuardNilness(g, isHolderLoad) == 1 {
					whileNil = true
				}
			}
			r.Check(first || whileNil, "holder.execute.before-trials", p.Pos(st.Pos()), "the holder is replaced only before the first trial or while it is still nil",
				"Execute replaces the result holder after trials may have been recorded in it: their results are lost")
			if sized && !outer.Blocks[st.Block()] && st.Block().Dominates(outer.Header) {
				alwaysSized = true
			}
			// ... or it is replaced exactly when it does not have one slot per trial (len(e.Trials) != bound): whatever
			// the caller passed, the trial loop then runs with a holder of the right length (defect F18)
			if sized && first {
				for _, g := range Guards(st.Block()) {
					if lenVsBound(g.Cond, g.True, token.NEQ, token.LSS) {
						alwaysSized = true
					}
				}
			}
		}
		isHolderStore := func(in ssa.Instruction) bool {
			for _, st := range holderStores {
				if in == ssa.Instruction(st) {
					return true
				}
			}
			return false
		}
		// with no holder at entry and none stored, the holder is still nil: an edge that is taken only when a load of it is non-nil is infeasible
		knownNonNil := func(a, b *ssa.BasicBlock) bool {
			for _, g := range condsAt(a, b) {
				if GuardNilness(g, isHolderLoad) == -1 {
					return true
				}
				// an edge taken only when the holder already has (at least) one slot per trial is not one on which a slot is missing
				if lenVsBound(g.Cond, g.True, token.EQL, token.GEQ) {
					return true
				}
			}
			return false
		}
		for _, s := range findAll(isTrialStore) {
			path := FindPath(p, PathQuery{Fn: ex, Target: func(in ssa.Instruction) bool { return in == s }, Avoid: isHolderStore, AvoidEdge: knownNonNil, Explored: &r.PathsExplored})
			if path != nil {
				r.Bad("holder.execute.allocates", p.Pos(s.Pos()), "an experiment that comes without a holder (or with one that lacks slots) reaches the recording store with e.Trials as it came (index out of range after a trial was evaluated)", path...)
			} else {
				r.OK("holder.execute.allocates", p.Pos(s.Pos()), "an experiment without a holder gets one before the first trial is recorded")
			}
		}
		// (b) the callers in the repository
		n := 0
		for _, fn := range p.SrcFuncs() {
			if fn == ex {
				continue
			}
			for _, c := range CallsTo(fn, ex) {
				n++
				r.Fn(FuncName(fn))
				if alwaysSized {
					r.OK("holder.driver", p.Pos(c.Pos()), "Execute sizes the holder itself before the first trial, whatever the caller passed")
					continue
				}
				c20DriverHolder(p, r, ex, c)
			}
		}
		r.Note("C20.4: %d call(s) of Experiment.Execute in non-test code of the repository", n)
		// Execute is a public method: whatever holder the caller left in the experiment (none, one of an earlier run with
		// another NumRuns), the trial loop must find one slot per trial (defect F18)
		r.Check(alwaysSized, "holder.execute.fits", p.Pos(ex.Pos()), "Execute itself gives the holder one slot per trial: it is sized unconditionally before the trial loop, or replaced exactly when its length differs from the loop bound",
			"Execute keeps whatever non-nil holder the experiment came with: with a holder shorter than the configured number of trials (an experiment re-used with a larger NumRuns, a hand-made holder) trial k is evaluated completely and then the recording store panics (index out of range) - the trial is not recorded, its finish not notified; with a longer one phantom empty trials follow the executed ones")
	})

	r.Rule("C20.6", "Execute does not depend on a champion the evaluator is not obliged to provide: every value Execute loads from Generation.Champion is dereferenced only under a test that it is not nil. Otherwise a generation reported solved by an evaluator that sets only the Solved flag makes Execute panic after the generation was notified: the trial is not recorded, its finish is not notified and no error is returned (defect F17)", func() {
		nL, _ := nilChampionUses(p, r, []*ssa.Function{ex}, "an evaluator that reports a solution by the Solved flag alone (the GenerationEvaluator contract does not demand a champion) makes Execute panic after EpochEvaluated was notified - the trial is not recorded, TrialRunFinished never notified, no error returned")
		r.Note("C20.6: %d load(s) of Generation.Champion in Execute", nL)
	})
}

// c20DriverHolder decides, for one call of Experiment.Execute outside Execute, that the experiment's holder is absent or
// has exactly NumRuns slots of the options the call runs with (see robust_c20.go, fourth round).
func c20DriverHolder(p *Prog, r *Run, ex *ssa.Function, call ssa.CallInstruction) {
	pos := p.Pos(call.Pos())
	trialsFld := p.Field(PkgE, "Experiment", "Trials")
	numRuns := p.Field(PkgT, "Options", "NumRuns")
	optsT := types.Type(p.Named(PkgT, "Options"))
	newCtx := p.Func(PkgT, "NewContext")
	args := call.Common().Args
	tmOf := func(v ssa.Value) string {
		if in, ok := v.(ssa.Instruction); ok && in.Parent() != nil {
			return NewTermer(in.Parent()).Of(v).String()
		}
		return v.String()
	}
	if len(args) < 2 {
		r.Undecided("holder.driver.sized", pos, "Execute is not called as a method with a context argument")
		return
	}
	// the options the call runs with
	ctxCall, ok := c20Origin(args[1]).(*ssa.Call)
	if !ok || ctxCall.Call.StaticCallee() != newCtx || len(ctxCall.Call.Args) != 2 {
		r.Undecided("holder.driver.sized", pos, "the context handed to Execute is not the result of neat.NewContext in the calling function: "+tmOf(args[1]))
		return
	}
	optsE := c20Origin(ctxCall.Call.Args[1])
	// the experiment
	cell := c20CellOf(args[0])
	if cell == nil {
		r.Undecided("holder.driver.sized", pos, "the experiment Execute is called on is not a local variable of the calling function: "+tmOf(args[0]))
		return
	}
	family := c20Family(call.Parent())
	memo := map[*ssa.Function]bool{}
	// who else may write the holder before the call: a repository function that receives the experiment's address
	var problems []string
	type sizing struct {
		ld *ssa.UnOp
		at ssa.Instruction
	}
	var sizingLoads []sizing
	holderDefs := c20HolderDefs(cell, trialsFld)
	trialsWriter := map[*ssa.Function]bool{}
	for _, a := range c20Aliases(cell) {
		if a.Referrers() == nil {
			continue
		}
		for _, ref := range *a.Referrers() {
			ci, isCall := ref.(ssa.CallInstruction)
			if !isCall || ci == call {
				continue
			}
			callee := ci.Common().StaticCallee()
			if callee == ex || !c20FieldWriter(callee, trialsFld, types.Type(p.Named(PkgE, "Experiment")), trialsWriter) {
				continue
			}
			if may, known := c20MayPrecede(ci, call); may || !known {
				problems = append(problems, "the holder can be replaced by "+FuncName(callee)+" @"+p.Pos(ci.Pos())+" before the call")
			}
		}
	}
	for _, d := range holderDefs {
		if d.Why != "" {
			at := ""
			if d.At != nil {
				at = " @" + p.Pos(d.At.Pos())
			}
			problems = append(problems, d.Why+at)
			continue
		}
		if d.Val == nil || c20IsNilConst(d.Val) {
			continue // no holder: Execute allocates it
		}
		if may, known := c20MayPrecede(d.At, call); known && !may {
			continue // assigned only after the call
		}
		v := d.Val
		for {
			ct, isCT := v.(*ssa.ChangeType)
			if !isCT {
				break
			}
			v = ct.X
		}
		ms, isMake := v.(*ssa.MakeSlice)
		if !isMake {
			problems = append(problems, "the holder is "+tmOf(d.Val)+" @"+p.Pos(d.At.Pos())+", not a make(Trials, n)")
			continue
		}
		ln := c20Origin(ms.Len)
		ld, isLoad := ln.(*ssa.UnOp)
		var fa *ssa.FieldAddr
		if isLoad && ld.Op == token.MUL {
			fa, _ = ld.X.(*ssa.FieldAddr)
		}
		if fa == nil || fieldOf(fa.X.Type(), fa.Field) != numRuns {
			problems = append(problems, "the holder @"+p.Pos(d.At.Pos())+" has "+tmOf(ms.Len)+" slots, which is not read from NumRuns of the options Execute runs with")
			continue
		}
		if c20Origin(fa.X) != optsE {
			problems = append(problems, "the holder @"+p.Pos(d.At.Pos())+" is sized from NumRuns of "+tmOf(fa.X)+", Execute runs with the options "+tmOf(ctxCall.Call.Args[1]))
			continue
		}
		sizingLoads = append(sizingLoads, sizing{ld, d.At})
	}
	if len(problems) > 0 {
		r.Bad("holder.driver.sized", pos, "the experiment handed to Execute does not provably have one result slot per trial: "+strings.Join(problems, "; "))
	} else {
		r.OK("holder.driver.sized", pos, "the experiment handed to Execute has no holder yet or one made with NumRuns slots of the options in the call's context")
	}
	// NumRuns settled: no write of NumRuns between the read that sizes the holder and the call
	var writes []ssa.Instruction
	for _, fn := range family {
		Instrs(fn, func(_ *ssa.BasicBlock, _ int, in ssa.Instruction) {
			if c20WritesFieldAt(in, numRuns, optsT) {
				writes = append(writes, in)
				return
			}
			if ci, isCall := in.(ssa.CallInstruction); isCall && in != ssa.Instruction(call) {
				if callee := ci.Common().StaticCallee(); callee != nil && callee != ex && c20FieldWriter(callee, numRuns, optsT, memo) {
					writes = append(writes, in)
				}
			}
		})
	}
	for _, sz := range sizingLoads {
		ld := sz.ld
		// the holder sized here is still the experiment's holder at the call only on paths that do not assign the holder again
		kills := map[ssa.Instruction]bool{}
		for _, d := range holderDefs {
			if d.At != nil && d.At != sz.at {
				kills[d.At] = true
			}
		}
		bad, undecided := "", ""
		for _, w := range writes {
			m1, k1 := c20MayPrecede(ld, w)
			m2, k2 := c20MayPrecedeAvoiding(w, call, kills)
			if !k1 || !k2 {
				undecided = "NumRuns is written @" + p.Pos(w.Pos()) + " inside a function literal whose time of execution is not known"
				continue
			}
			if m1 && m2 && bad == "" {
				bad = "NumRuns is written @" + p.Pos(w.Pos()) + " after the holder was sized from it @" + p.Pos(ld.Pos()) + " and before Execute runs: Execute iterates over the new count with a holder of the old length"
			}
		}
		switch {
		case bad != "":
			r.Bad("holder.driver.numruns-settled", p.Pos(ld.Pos()), bad)
		case undecided != "":
			r.Undecided("holder.driver.numruns-settled", p.Pos(ld.Pos()), undecided)
		default:
			r.OK("holder.driver.numruns-settled", p.Pos(ld.Pos()), fmt.Sprintf("none of the %d write(s) of Options.NumRuns in the calling function lies between the sizing of the holder and the call of Execute", len(writes)))
		}
	}
}

// bodySucc returns the successor of the loop header that lies inside the loop.
func bodySucc(l *Loop) *ssa.BasicBlock {
	for _, s := range l.Header.Succs {
		if l.Blocks[s] && s != l.Header {
			return s
		}
	}
	return l.Header
}
