package nc

import (
	"fmt"
	"strings"

	"golang.org/x/tools/go/ssa"
)

// Rule C17.7 (seed r6 C17/m2): the statement excludes a dependence on "earlier
// unrelated work in the process". The only state the sequential path shares
// with the rest of the process is the global math/rand source; a goroutine
// that draws from it and is still running when the function that started it
// has returned interleaves its draws with whatever runs next - a later
// sequential run from the same seed is no longer a function of the seed.
// Necessary condition, decided for every `go` statement of the library: when
// the started goroutine can reach a draw from the global source, every path
// from the go statement to a return of the starting function passes a
// sync.WaitGroup.Wait (the goroutine announces its end by a deferred Done:
// C16.4). A join written otherwise (counted receives) is not recognised and is
// reported as undecided - fail-closed.
func (r *Run) c17GoroutinesJoined() {
	p := r.P
	nGo, nDraw := 0, 0
	for _, fn := range p.SrcFuncs() {
		// the library: the example programs and the command-line executor are not what the property speaks about
		if fn.Pkg == nil || !(strings.HasPrefix(fn.Pkg.Pkg.Path(), Mod+"/neat") || strings.HasPrefix(fn.Pkg.Pkg.Path(), Mod+"/experiment")) {
			continue
		}
		for _, b := range fn.Blocks {
			for _, in := range b.Instrs {
				g, ok := in.(*ssa.Go)
				if !ok {
					continue
				}
				nGo++
				var root *ssa.Function
				if c := g.Call.StaticCallee(); c != nil {
					root = c
				} else if mc, ok := g.Call.Value.(*ssa.MakeClosure); ok {
					root, _ = mc.Fn.(*ssa.Function)
				}
				id := fmt.Sprintf("goroutine.joined:%s", fn.Name())
				if root == nil {
					r.Undecided(id, p.Pos(g.Pos()), "the function started by the go statement is not known statically")
					continue
				}
				re := p.Reachable([]*ssa.Function{root}, nil)
				draws := ""
				for _, f := range re.Order {
					Instrs(f, func(_ *ssa.BasicBlock, _ int, x ssa.Instruction) {
						if ci, ok := x.(ssa.CallInstruction); ok && draws == "" {
							if callee := ci.Common().StaticCallee(); callee != nil && !InRepoOf(p, callee) && extPkgOf(callee) == "math/rand" && callee.Signature.Recv() == nil {
								draws = "rand." + callee.Name() + " in " + FuncName(f)
							}
						}
					})
					if draws != "" {
						break
					}
				}
				if draws == "" {
					r.OK(id, p.Pos(g.Pos()), "the goroutine draws nothing from the global random source")
					continue
				}
				nDraw++
				isWait := func(x ssa.Instruction) bool {
					ci, ok := x.(ssa.CallInstruction)
					if !ok {
						return false
					}
					n, _ := calleeName(ci.Common())
					return n == "sync.WaitGroup.Wait"
				}
				w := FindPath(p, PathQuery{Fn: fn, StartAfter: g, FlagBlind: true, Avoid: isWait, Target: func(x ssa.Instruction) bool {
					_, isRet := x.(*ssa.Return)
					return isRet
				}})
				r.Check(w == nil, id, p.Pos(g.Pos()), "every path from the go statement to a return of "+fn.Name()+" waits for the goroutines (sync.WaitGroup.Wait); the goroutine draws from the global source ("+draws+")",
					FuncName(fn)+" can return while a goroutine it started is still running, and that goroutine draws from the global random source ("+draws+"): its draws interleave with whatever the process does next, so a later sequential run from the same seed and inputs depends on this earlier, unrelated work", w...)
			}
		}
	}
	r.Floor("go statements in the library", nGo, 1)
	r.Floor("goroutines that draw from the global random source", nDraw, 1)
}
