package nc

import (
	"fmt"
	"go/token"
	"go/types"
	"sort"
	"strings"

	"golang.org/x/tools/go/callgraph"
	"golang.org/x/tools/go/ssa"
)

// WT is one "writes through" fact of a function: executing it may store to
// memory reachable from its parameter Param (index in fn.Params; -1 = a
// package-level variable, -2 = an object of unknown origin).
type WT struct {
	Param int
	What  string // "Type.field", "elem:field", "map", "deref"
	Via   []string
	Pos   token.Pos
}

type rootSet map[int]bool // param index, -1 global, -2 unknown, -3 fresh

const (
	rootGlobal  = -1
	rootUnknown = -2
	rootFresh   = -3
)

// WriteThrough computes, for every repository function in the given set, the
// parameters through which it (transitively) writes.
type WriteThrough struct {
	P     *Prog
	Funcs map[*ssa.Function]bool
	W     map[*ssa.Function][]WT
	ret   map[*ssa.Function][]rootSet // roots of returned pointers, per result index
	sums  *Summaries
}

func NewWriteThrough(p *Prog, funcs []*ssa.Function) *WriteThrough {
	w := &WriteThrough{P: p, Funcs: map[*ssa.Function]bool{}, W: map[*ssa.Function][]WT{}, ret: map[*ssa.Function][]rootSet{}, sums: NewSummaries(p)}
	for _, f := range funcs {
		w.Funcs[f] = true
	}
	w.solve()
	return w
}

// roots of an SSA value inside fn.
func (w *WriteThrough) roots(fn *ssa.Function, v ssa.Value, depth int, seen map[ssa.Value]bool) rootSet {
	out := rootSet{}
	if depth > 30 || seen[v] {
		return out
	}
	seen[v] = true
	add := func(r rootSet) {
		for k := range r {
			out[k] = true
		}
	}
	switch x := v.(type) {
	case *ssa.Parameter:
		for i, p := range fn.Params {
			if p == x {
				out[i] = true
			}
		}
	case *ssa.FreeVar:
		out[rootUnknown] = true
	case *ssa.Global:
		out[rootGlobal] = true
	case *ssa.Alloc, *ssa.MakeSlice, *ssa.MakeMap, *ssa.MakeChan, *ssa.MakeClosure:
		out[rootFresh] = true
	case *ssa.Const, *ssa.Function:
		out[rootFresh] = true
	case *ssa.FieldAddr:
		add(w.roots(fn, x.X, depth+1, seen))
	case *ssa.IndexAddr:
		add(w.roots(fn, x.X, depth+1, seen))
	case *ssa.Field:
		add(w.roots(fn, x.X, depth+1, seen))
	case *ssa.Index:
		add(w.roots(fn, x.X, depth+1, seen))
	case *ssa.Lookup:
		add(w.roots(fn, x.X, depth+1, seen))
	case *ssa.Slice:
		add(w.roots(fn, x.X, depth+1, seen))
	case *ssa.ChangeType:
		add(w.roots(fn, x.X, depth+1, seen))
	case *ssa.Convert:
		add(w.roots(fn, x.X, depth+1, seen))
	case *ssa.MakeInterface:
		add(w.roots(fn, x.X, depth+1, seen))
	case *ssa.ChangeInterface:
		add(w.roots(fn, x.X, depth+1, seen))
	case *ssa.TypeAssert:
		add(w.roots(fn, x.X, depth+1, seen))
	case *ssa.Phi:
		for _, e := range x.Edges {
			add(w.roots(fn, e, depth+1, seen))
		}
	case *ssa.Extract:
		if c, ok := x.Tuple.(*ssa.Call); ok {
			add(w.callRoots(fn, c, x.Index, depth+1, seen))
		} else {
			add(w.roots(fn, x.Tuple, depth+1, seen))
		}
	case *ssa.Next:
		add(w.roots(fn, x.Iter, depth+1, seen))
	case *ssa.Range:
		add(w.roots(fn, x.X, depth+1, seen))
	case *ssa.BinOp:
		out[rootFresh] = true
	case *ssa.UnOp:
		if x.Op != token.MUL {
			out[rootFresh] = true
			break
		}
		// a load: the loaded pointer denotes an object reachable from the holder; when the
		// holder is fresh, what it holds is whatever was stored into that field / passed to its constructor
		holder := w.roots(fn, x.X, depth+1, seen)
		for k := range holder {
			if k != rootFresh {
				out[k] = true
			}
		}
		if holder[rootFresh] {
			if !isPointerLike(x.Type()) {
				out[rootFresh] = true
				break
			}
			got := false
			// local variable in memory: everything stored to it
			if al, ok := x.X.(*ssa.Alloc); ok {
				for _, ref := range *al.Referrers() {
					if st, ok := ref.(*ssa.Store); ok && st.Addr == al {
						add(w.roots(fn, st.Val, depth+1, seen))
						got = true
					}
				}
			}
			if sv := strongUpdate(x); sv != nil {
				// the field was assigned just before in the same block with no call in between:
				// the load yields exactly that value
				add(w.roots(fn, sv, depth+1, seen))
				break
			}
			if fa, ok := x.X.(*ssa.FieldAddr); ok {
				fld := fieldOf(fa.X.Type(), fa.Field)
				// stores to the same field anywhere in this function
				Instrs(fn, func(_ *ssa.BasicBlock, _ int, in ssa.Instruction) {
					if st, ok := in.(*ssa.Store); ok {
						if f2, ok := st.Addr.(*ssa.FieldAddr); ok && fieldOf(f2.X.Type(), f2.Field) == fld {
							add(w.roots(fn, st.Val, depth+1, seen))
							got = true
						}
					}
				})
				// the constructor call that produced the holder: any pointer-like argument may be held
				base := stripPtr(fa.X)
				if c, ok := base.(*ssa.Call); ok {
					for _, a := range c.Call.Args {
						if isPointerLike(a.Type()) {
							add(w.roots(fn, a, depth+1, seen))
						}
					}
					got = true
				}
				if ex, ok := base.(*ssa.Extract); ok {
					if c, ok := ex.Tuple.(*ssa.Call); ok {
						for _, a := range c.Call.Args {
							if isPointerLike(a.Type()) {
								add(w.roots(fn, a, depth+1, seen))
							}
						}
						got = true
					}
				}
			}
			if ia, ok := x.X.(*ssa.IndexAddr); ok {
				// element of a fresh slice: everything stored into elements of that slice value here
				Instrs(fn, func(_ *ssa.BasicBlock, _ int, in ssa.Instruction) {
					if st, ok := in.(*ssa.Store); ok {
						if i2, ok := st.Addr.(*ssa.IndexAddr); ok && i2.X == ia.X {
							add(w.roots(fn, st.Val, depth+1, seen))
							got = true
						}
					}
				})
				// appended elements / slices returned by calls
				if c, ok := stripPtr(ia.X).(*ssa.Call); ok {
					for _, a := range c.Call.Args {
						if isPointerLike(a.Type()) {
							add(w.roots(fn, a, depth+1, seen))
						}
					}
					got = true
				}
				if ph, ok := ia.X.(*ssa.Phi); ok {
					_ = ph
					got = true
					out[rootFresh] = true
				}
			}
			if !got {
				out[rootFresh] = true
			}
			if len(out) == 0 {
				out[rootFresh] = true
			}
		}
	case *ssa.Call:
		add(w.callRoots(fn, x, 0, depth+1, seen))
	default:
		out[rootUnknown] = true
	}
	return out
}

// callRoots: roots of result `idx` of call x.
func (w *WriteThrough) callRoots(fn *ssa.Function, x *ssa.Call, idx int, depth int, seen map[ssa.Value]bool) rootSet {
	out := rootSet{}
	add := func(r rootSet) {
		for k := range r {
			out[k] = true
		}
	}
	if b, ok := x.Call.Value.(*ssa.Builtin); ok {
		switch b.Name() {
		case "append":
			for _, a := range x.Call.Args {
				add(w.roots(fn, a, depth+1, seen))
			}
			out[rootFresh] = true
		default:
			out[rootFresh] = true
		}
		return out
	}
	callees := w.calleesOf(fn, x)
	if len(callees) == 0 {
		// A function outside the repository (or an interface method with no repository implementation):
		// its result may be, or hold, anything reachable from its pointer-like arguments
		// (context.Context.Value returns what WithValue stored; sort.Reverse wraps its argument).
		out[rootFresh] = true
		name, _ := calleeName(&x.Call)
		if externalFresh[name] {
			return out
		}
		args := x.Call.Args
		if x.Call.IsInvoke() {
			args = append([]ssa.Value{x.Call.Value}, args...)
		}
		for _, a := range args {
			if isPointerLike(a.Type()) {
				add(w.roots(fn, a, depth+1, seen))
			}
		}
		return out
	}
	args := x.Call.Args
	if x.Call.IsInvoke() {
		args = append([]ssa.Value{x.Call.Value}, args...)
	}
	for _, callee := range callees {
		rrs, ok := w.ret[callee]
		if !ok {
			if !w.Funcs[callee] {
				sm := w.sums.Ctor(callee)
				if idx == 0 && sm.Why == "" && sm.Fresh {
					out[rootFresh] = true
					continue
				}
				out[rootUnknown] = true
				continue
			}
			out[rootFresh] = true // first iteration of the fixpoint
			continue
		}
		if idx >= len(rrs) {
			out[rootFresh] = true
			continue
		}
		for k := range rrs[idx] {
			if k >= 0 {
				if k < len(args) {
					add(w.roots(fn, args[k], depth+1, seen))
				} else {
					out[rootUnknown] = true
				}
			} else {
				out[k] = true
			}
		}
	}
	return out
}

func (w *WriteThrough) calleesOf(fn *ssa.Function, c ssa.CallInstruction) []*ssa.Function {
	if sc := c.Common().StaticCallee(); sc != nil {
		if sc.Blocks != nil && InRepoOf(w.P, sc) {
			return []*ssa.Function{sc}
		}
		return nil
	}
	var out []*ssa.Function
	if n := w.P.CallGraph().Nodes[fn]; n != nil {
		for _, e := range n.Out {
			if e.Site == c && e.Callee.Func.Blocks != nil && InRepoOf(w.P, e.Callee.Func) {
				out = append(out, e.Callee.Func)
			}
		}
	}
	return out
}

func (w *WriteThrough) solve() {
	var fns []*ssa.Function
	for f := range w.Funcs {
		fns = append(fns, f)
	}
	sort.Slice(fns, func(i, j int) bool { return fns[i].String() < fns[j].String() })
	key := func(t WT) string { return fmt.Sprintf("%d|%s", t.Param, t.What) }
	for iter := 0; iter < 12; iter++ {
		changed := false
		for _, fn := range fns {
			have := map[string]bool{}
			for _, t := range w.W[fn] {
				have[key(t)] = true
			}
			addWT := func(t WT) {
				if !have[key(t)] {
					have[key(t)] = true
					w.W[fn] = append(w.W[fn], t)
					changed = true
				}
			}
			// returned roots, per result
			nres := fn.Signature.Results().Len()
			rrs := make([]rootSet, nres)
			for i := range rrs {
				rrs[i] = rootSet{}
			}
			for _, b := range fn.Blocks {
				if ret, ok := b.Instrs[len(b.Instrs)-1].(*ssa.Return); ok {
					for i, res := range ret.Results {
						if isPointerLike(res.Type()) {
							for k := range w.roots(fn, res, 0, map[ssa.Value]bool{}) {
								rrs[i][k] = true
							}
						}
					}
				}
			}
			old := w.ret[fn]
			if len(old) != len(rrs) {
				changed = true
			} else {
				for i := range rrs {
					if len(old[i]) != len(rrs[i]) {
						changed = true
					}
				}
			}
			w.ret[fn] = rrs
			// direct writes
			for _, e := range Writes(fn) {
				what := e.Kind
				switch e.Kind {
				case "field":
					what = "?." + e.Field.Name()
					if e.Owner != nil {
						what = e.Owner.Obj().Name() + "." + e.Field.Name()
					}
				case "elem":
					if f := ElemOwner(e); f != nil {
						what = "elem:" + f.Name()
					}
				}
				for k := range w.roots(fn, e.Addr, 0, map[ssa.Value]bool{}) {
					if k == rootFresh {
						continue
					}
					addWT(WT{Param: k, What: what, Pos: e.Instr.Pos(), Via: []string{FuncName(fn)}})
				}
			}
			// calls
			Instrs(fn, func(_ *ssa.BasicBlock, _ int, in ssa.Instruction) {
				c, ok := in.(ssa.CallInstruction)
				if !ok {
					return
				}
				if _, isGo := in.(*ssa.Go); isGo {
					// handled like a call: the goroutine body writes through its arguments
				}
				args := c.Common().Args
				if c.Common().IsInvoke() {
					args = append([]ssa.Value{c.Common().Value}, args...)
				}
				name, _ := calleeName(c.Common())
				if b, isB := c.Common().Value.(*ssa.Builtin); isB && b.Name() == "copy" {
					for k := range w.roots(fn, args[0], 0, map[ssa.Value]bool{}) {
						if k != rootFresh {
							addWT(WT{Param: k, What: "elem:copy", Pos: in.Pos(), Via: []string{FuncName(fn)}})
						}
					}
					return
				}
				if name == "sort.Sort" || name == "sort.Stable" || name == "sort.Slice" || name == "sort.Float64s" {
					for k := range w.roots(fn, args[0], 0, map[ssa.Value]bool{}) {
						if k != rootFresh {
							addWT(WT{Param: k, What: "elem:sorted-in-place", Pos: in.Pos(), Via: []string{FuncName(fn)}})
						}
					}
					return
				}
				for _, callee := range w.calleesOf(fn, c) {
					for _, t := range w.W[callee] {
						if t.Param < 0 {
							addWT(WT{Param: t.Param, What: t.What, Pos: t.Pos, Via: append([]string{FuncName(fn)}, t.Via...)})
							continue
						}
						if t.Param >= len(args) {
							continue
						}
						for k := range w.roots(fn, args[t.Param], 0, map[ssa.Value]bool{}) {
							if k == rootFresh {
								continue
							}
							addWT(WT{Param: k, What: t.What, Pos: t.Pos, Via: append([]string{FuncName(fn)}, t.Via...)})
						}
					}
				}
			})
		}
		if !changed {
			break
		}
	}
}

// Describe renders the facts of fn.
func (w *WriteThrough) Describe(fn *ssa.Function) []string {
	var out []string
	for _, t := range w.W[fn] {
		who := "?"
		switch {
		case t.Param >= 0 && t.Param < len(fn.Params):
			who = "param " + fn.Params[t.Param].Name()
		case t.Param == rootGlobal:
			who = "global"
		case t.Param == rootUnknown:
			who = "unknown-origin"
		}
		out = append(out, fmt.Sprintf("%s: %s at %s via %s", who, t.What, w.P.Pos(t.Pos), strings.Join(t.Via, " -> ")))
	}
	sort.Strings(out)
	return out
}

var _ = callgraph.CalleesOf
var _ = types.Typ

// externalFresh: library functions whose result is a new object that does not retain its arguments'
// referents in a way a later store through the result could reach (reviewed one by one).
var externalFresh = map[string]bool{
	"errors.New": true, "fmt.Errorf": true, "fmt.Sprintf": true, "github.com/pkg/errors.New": true,
	"github.com/pkg/errors.Wrap": true, "github.com/pkg/errors.Wrapf": true, "github.com/pkg/errors.Errorf": true,
}

// strongUpdate: ld loads base.f and the same block stores to base.f (same SSA base value, same
// field) earlier with no call or other store through an unknown address in between; returns the stored value.
func strongUpdate(ld *ssa.UnOp) ssa.Value {
	fa, ok := ld.X.(*ssa.FieldAddr)
	if !ok {
		return nil
	}
	b := ld.Block()
	idx := -1
	for i, in := range b.Instrs {
		if in == ssa.Instruction(ld) {
			idx = i
		}
	}
	for i := idx - 1; i >= 0; i-- {
		switch y := b.Instrs[i].(type) {
		case *ssa.Store:
			if f2, ok := y.Addr.(*ssa.FieldAddr); ok && f2.X == fa.X && f2.Field == fa.Field {
				return y.Val
			}
			if f2, ok := y.Addr.(*ssa.FieldAddr); ok && f2.Field != fa.Field {
				continue // a different field
			}
			return nil
		case ssa.CallInstruction:
			if bi, ok := y.Common().Value.(*ssa.Builtin); ok && (bi.Name() == "len" || bi.Name() == "cap") {
				continue
			}
			return nil
		}
	}
	return nil
}
