package nc

import (
	"fmt"
	"go/token"
	"go/types"
	"sort"
	"strings"

	"golang.org/x/tools/go/ssa"
)

// ---------------------------------------------------------------------------
// Writes into the backing array of a slice that are not spelled as a store
//
// wthrough.go sees `s[i] = x`, copy(s, ..) and four sort functions. A slice header that was handed to every
// goroutine shares its backing array, and the array is also written by
//   - append(s, x...) whenever cap(s) > len(s); with s = shared[:0] (the "filter in place" idiom) or
//     shared[:k] it overwrites slots that the other holders of the array still read;
//   - the remaining in-place library algorithms (sort.SliceStable, sort.Ints, slices.Sort*, slices.Reverse, ...);
//   - clear(s) / clear(m) / delete(m, k).
// c16WriteThrough adds those as direct write facts of the function that executes them and lets the shared
// engine propagate them through the call sites like any other store.

// inPlaceLibrary: library functions that permute or overwrite the elements of their first argument.
var inPlaceLibrary = []string{
	"sort.Sort", "sort.Stable", "sort.Slice", "sort.SliceStable", "sort.Float64s", "sort.Ints", "sort.Strings",
	"slices.Sort", "slices.Reverse", "slices.Delete", "slices.Compact", "slices.Insert", "slices.Replace",
}

func isInPlaceLibrary(name string) bool {
	for _, n := range inPlaceLibrary {
		if name == n || strings.HasPrefix(name, n) && strings.HasPrefix(n, "slices.") {
			return true
		}
	}
	return false
}

// fullCapacity: v is a three-index slice expression x[l:h:h] (or slices.Clip(x)); its capacity equals its
// length, so an append with at least one element always reallocates and never writes x's array.
func fullCapacity(v ssa.Value) bool {
	if c, ok := v.(*ssa.Call); ok {
		name, _ := calleeName(c.Common())
		return strings.HasPrefix(name, "slices.Clip")
	}
	s, ok := v.(*ssa.Slice)
	if !ok || s.Max == nil || s.High == nil {
		return false
	}
	return sameInt(s.Max, s.High)
}

// sameInt: two integer values that are equal whenever both are evaluated: the same SSA value, equal
// constants, or len of the same slice value (a slice VALUE never changes its length).
func sameInt(a, b ssa.Value) bool {
	if a == b {
		return true
	}
	if x, okA := constInt(a); okA {
		y, okB := constInt(b)
		return okB && x == y
	}
	ca, okA := a.(*ssa.Call)
	cb, okB := b.(*ssa.Call)
	if okA && okB {
		ba, isA := ca.Call.Value.(*ssa.Builtin)
		bb, isB := cb.Call.Value.(*ssa.Builtin)
		if isA && isB && ba.Name() == "len" && bb.Name() == "len" && ca.Call.Args[0] == cb.Call.Args[0] {
			if _, isSlice := ca.Call.Args[0].Type().Underlying().(*types.Slice); isSlice {
				return true
			}
		}
	}
	return false
}

// appendTarget names what an in-place append writes: "append-in-place:Type.field" when the first argument is the
// plain value of a field (slots beyond the current length only), "append-into-reslice:..." when it is a
// re-slice (slots below the length of the original are overwritten), "append-in-place" otherwise.
func appendTarget(v ssa.Value) string {
	resliced := false
	for {
		switch x := v.(type) {
		case *ssa.Slice:
			resliced = true
			v = x.X
			continue
		case *ssa.ChangeType:
			v = x.X
			continue
		}
		break
	}
	name := ""
	if u, ok := v.(*ssa.UnOp); ok && u.Op == token.MUL {
		if fa, ok := u.X.(*ssa.FieldAddr); ok {
			f := fieldOf(fa.X.Type(), fa.Field)
			name = f.Name()
			if o := ownerOf(fa.X.Type()); o != nil {
				name = o.Obj().Name() + "." + name
			}
		}
	}
	switch {
	case resliced && name != "":
		return "append-into-reslice:" + name
	case resliced:
		return "append-into-reslice"
	case name != "":
		return "append-in-place:" + name
	}
	return "append-in-place"
}

// arrayRoots: whose array does the slice value v denote? WriteThrough.roots answers "what is reachable from
// v", which for append(xs, e) includes everything e points to; the question here is narrower - the identity
// of the backing array - and follows only the values the slice header itself comes from: the first argument
// of append, the operand of a re-slice, the edges of a phi, what was stored into the variable or field the
// header is loaded from (for a field of an object allocated here: the stores of this function to that field
// and the value the constructor summary gives it). Everything else falls back to roots (a superset).
func (w *WriteThrough) arrayRoots(fn *ssa.Function, v ssa.Value, depth int, seen map[ssa.Value]bool) rootSet {
	out := rootSet{}
	if depth > 30 || seen[v] {
		return out
	}
	seen[v] = true
	add := func(r rootSet) {
		for k := range r {
			out[k] = true
		}
	}
	general := func(x ssa.Value) rootSet { return w.roots(fn, x, 0, map[ssa.Value]bool{}) }
	switch x := v.(type) {
	case *ssa.Slice:
		if _, isPtr := x.X.Type().Underlying().(*types.Pointer); isPtr {
			add(general(x.X)) // a slice of an array variable
		} else {
			add(w.arrayRoots(fn, x.X, depth+1, seen))
		}
	case *ssa.ChangeType:
		add(w.arrayRoots(fn, x.X, depth+1, seen))
	case *ssa.MakeSlice, *ssa.Const:
		out[rootFresh] = true
	case *ssa.Phi:
		for _, e := range x.Edges {
			add(w.arrayRoots(fn, e, depth+1, seen))
		}
	case *ssa.Call:
		if b, ok := x.Call.Value.(*ssa.Builtin); ok && b.Name() == "append" {
			add(w.arrayRoots(fn, x.Call.Args[0], depth+1, seen))
			out[rootFresh] = true
		} else {
			add(general(x))
		}
	case *ssa.UnOp:
		if x.Op != token.MUL {
			add(general(x))
			break
		}
		switch a := x.X.(type) {
		case *ssa.Alloc:
			out[rootFresh] = true // the zero value
			for _, ref := range *a.Referrers() {
				switch st := ref.(type) {
				case *ssa.Store:
					if st.Addr == ssa.Value(a) {
						add(w.arrayRoots(fn, st.Val, depth+1, seen))
					}
				case *ssa.UnOp, *ssa.DebugRef:
				default:
					add(general(x)) // the variable's address escapes
				}
			}
		case *ssa.FieldAddr:
			holder := general(a.X)
			for k := range holder {
				if k != rootFresh {
					out[k] = true
				}
			}
			if !holder[rootFresh] {
				break
			}
			fld := fieldOf(a.X.Type(), a.Field)
			Instrs(fn, func(_ *ssa.BasicBlock, _ int, in ssa.Instruction) {
				if st, ok := in.(*ssa.Store); ok {
					if f2, ok := st.Addr.(*ssa.FieldAddr); ok && fieldOf(f2.X.Type(), f2.Field) == fld {
						add(w.arrayRoots(fn, st.Val, depth+1, seen))
					}
				}
			})
			switch base := stripPtr(a.X).(type) {
			case *ssa.Alloc:
				out[rootFresh] = true
			case *ssa.Call:
				known := false
				if callee := base.Call.StaticCallee(); callee != nil && callee.Blocks != nil {
					if sm := w.sums.Ctor(callee); sm.Why == "" && sm.Fresh {
						if t, has := sm.Fields[fld]; !has || t == nil || w.sums.isFreshTerm(t) {
							known = true
							out[rootFresh] = true
						}
					}
				}
				if !known {
					add(general(x))
				}
			default:
				add(general(x))
			}
		default:
			add(general(x))
		}
	default:
		add(general(v))
	}
	return out
}

// inPlaceAppends lists the append calls of fn that may write an array fn did not allocate itself.
func (w *WriteThrough) inPlaceAppends(fn *ssa.Function) (calls []*ssa.Call, roots []rootSet) {
	Instrs(fn, func(_ *ssa.BasicBlock, _ int, in ssa.Instruction) {
		c, ok := in.(*ssa.Call)
		if !ok {
			return
		}
		b, isB := c.Call.Value.(*ssa.Builtin)
		if !isB || b.Name() != "append" || len(c.Call.Args) < 2 || fullCapacity(c.Call.Args[0]) {
			return
		}
		if k, isK := c.Call.Args[1].(*ssa.Const); isK && k.Value == nil {
			return // append(s, nil...) appends nothing
		}
		rs := rootSet{}
		for k := range w.arrayRoots(fn, c.Call.Args[0], 0, map[ssa.Value]bool{}) {
			if k != rootFresh {
				rs[k] = true
			}
		}
		if len(rs) > 0 {
			calls = append(calls, c)
			roots = append(roots, rs)
		}
	})
	return
}

// c16WriteThrough is NewWriteThrough plus the writes described above.
func c16WriteThrough(p *Prog, funcs []*ssa.Function) *WriteThrough {
	w := NewWriteThrough(p, funcs)
	added := false
	add := func(fn *ssa.Function, k int, what string, pos token.Pos) {
		for i, t := range w.W[fn] {
			if t.Param == k && t.What == what {
				if len(t.Via) > 1 { // known so far only through a callee: record that fn performs it itself as well
					w.W[fn][i].Via, w.W[fn][i].Pos = []string{FuncName(fn)}, pos
				}
				return
			}
		}
		w.W[fn] = append(w.W[fn], WT{Param: k, What: what, Pos: pos, Via: []string{FuncName(fn)}})
		added = true
	}
	for _, fn := range funcs {
		calls, roots := w.inPlaceAppends(fn)
		for i, c := range calls {
			for k := range roots[i] {
				add(fn, k, appendTarget(c.Call.Args[0]), c.Pos())
			}
		}
		Instrs(fn, func(_ *ssa.BasicBlock, _ int, in ssa.Instruction) {
			c, ok := in.(ssa.CallInstruction)
			if !ok || len(c.Common().Args) == 0 || c.Common().IsInvoke() {
				return
			}
			name, _ := calleeName(c.Common())
			what := ""
			if b, isB := c.Common().Value.(*ssa.Builtin); isB {
				switch b.Name() {
				case "clear":
					what = "elem:cleared"
				case "delete":
					what = "mapupdate"
				}
			} else if isInPlaceLibrary(name) {
				what = "elem:sorted-in-place"
			}
			if what == "" {
				return
			}
			for k := range w.roots(fn, c.Common().Args[0], 0, map[ssa.Value]bool{}) {
				if k != rootFresh {
					add(fn, k, what, in.Pos())
				}
			}
		})
	}
	if added {
		w.solve() // monotone: keeps every fact it has and carries the new ones to the callers
	}
	// A function literal writes what it captured: the engine roots such a store at "unknown origin" inside the
	// literal and carries it on only when the literal is called from repository code. When the literal is handed
	// to a library function (sort.Slice, rand.Shuffle, sync.Once.Do ...) nobody inherits the fact. The function
	// that creates the closure knows what it bound: the write is through whatever the captured variables hold
	// that the literal writes through. A literal whose value is never used (all its calls were expanded in place
	// by the normaliser, which keeps the declaration alive with `_ = f`) never runs and contributes nothing.
	for round := 0; round < 4; round++ {
		added = false
		for _, fn := range funcs {
			Instrs(fn, func(_ *ssa.BasicBlock, _ int, in ssa.Instruction) {
				mc, ok := in.(*ssa.MakeClosure)
				if !ok || !valueUsed(mc) {
					return
				}
				cf, _ := mc.Fn.(*ssa.Function)
				if cf == nil {
					return
				}
				var bound rootSet
				for _, t := range w.W[cf] {
					if t.Param != rootUnknown {
						continue
					}
					if bound == nil {
						bound = rootSet{}
						through := w.writtenFreeVars(cf)
						for i, b := range mc.Bindings {
							if i >= len(cf.FreeVars) || !through[cf.FreeVars[i]] {
								continue
							}
							for k := range w.roots(fn, b, 0, map[ssa.Value]bool{}) {
								bound[k] = true
							}
							if al, isAl := b.(*ssa.Alloc); isAl { // a variable captured by reference: what it holds
								for _, ref := range *al.Referrers() {
									if st, isSt := ref.(*ssa.Store); isSt && st.Addr == ssa.Value(al) && isPointerLike(st.Val.Type()) {
										for k := range w.roots(fn, st.Val, 0, map[ssa.Value]bool{}) {
											bound[k] = true
										}
									}
								}
							}
						}
					}
					for k := range bound {
						if k == rootFresh {
							continue
						}
						dup := false
						for _, have := range w.W[fn] {
							if have.Param == k && have.What == t.What {
								dup = true
							}
						}
						if !dup {
							w.W[fn] = append(w.W[fn], WT{Param: k, What: t.What, Pos: t.Pos, Via: append([]string{FuncName(fn)}, t.Via...)})
							added = true
						}
					}
				}
			})
		}
		if !added {
			break
		}
		w.solve()
	}
	w.c16PruneAttributedUnknown(funcs)
	return w
}

// valueUsed: some instruction other than a debug reference uses v.
func valueUsed(v ssa.Value) bool {
	refs := v.Referrers()
	if refs == nil {
		return true
	}
	for _, r := range *refs {
		if _, dbg := r.(*ssa.DebugRef); !dbg {
			return true
		}
	}
	return false
}

// writeTargets lists the values through which cf writes: the address of each of its stores and the written
// argument of each of its calls (builtins, in-place library algorithms, repository callees with a write fact
// for that parameter). opaque reports that some callee writes through an object of unknown origin - a write of
// cf that none of the listed values accounts for.
func (w *WriteThrough) writeTargets(cf *ssa.Function) (targets []ssa.Value, opaque bool) {
	for _, e := range Writes(cf) {
		targets = append(targets, e.Addr)
	}
	Instrs(cf, func(_ *ssa.BasicBlock, _ int, in ssa.Instruction) {
		c, ok := in.(ssa.CallInstruction)
		if !ok {
			return
		}
		args := c.Common().Args
		if c.Common().IsInvoke() {
			args = append([]ssa.Value{c.Common().Value}, args...)
		}
		name, _ := calleeName(c.Common())
		if b, isB := c.Common().Value.(*ssa.Builtin); isB {
			switch b.Name() {
			case "append", "copy", "clear", "delete":
				if len(args) > 0 {
					targets = append(targets, args[0])
				}
			}
			return
		}
		if isInPlaceLibrary(name) {
			if len(args) > 0 {
				targets = append(targets, args[0])
			}
			return
		}
		for _, callee := range w.calleesOf(cf, c) {
			for _, t := range w.W[callee] {
				if t.Param >= 0 && t.Param < len(args) {
					targets = append(targets, args[t.Param])
				}
				if t.Param == rootUnknown {
					opaque = true
				}
			}
		}
		if mc, isMC := c.Common().Value.(*ssa.MakeClosure); isMC { // a nested literal called in place
			targets = append(targets, mc.Bindings...)
		}
	})
	return
}

// writtenFreeVars: the captured variables of the function literal cf through which it writes - those from which
// the address of one of its stores (or the written argument of one of its calls) is computed.
func (w *WriteThrough) writtenFreeVars(cf *ssa.Function) map[*ssa.FreeVar]bool {
	targets, _ := w.writeTargets(cf)
	out := map[*ssa.FreeVar]bool{}
	seen := map[ssa.Value]bool{}
	var walk func(v ssa.Value, depth int)
	walk = func(v ssa.Value, depth int) {
		if v == nil || seen[v] || depth > 40 {
			return
		}
		seen[v] = true
		switch x := v.(type) {
		case *ssa.FreeVar:
			out[x] = true
			return
		case *ssa.Alloc:
			for _, ref := range *x.Referrers() {
				if st, ok := ref.(*ssa.Store); ok && st.Addr == ssa.Value(x) {
					walk(st.Val, depth+1)
				}
			}
			return
		case *ssa.MakeClosure:
			for _, b := range x.Bindings {
				walk(b, depth+1)
			}
			return
		}
		if in, ok := v.(ssa.Instruction); ok {
			for _, op := range in.Operands(nil) {
				if op != nil && *op != nil {
					walk(*op, depth+1)
				}
			}
		}
	}
	for _, t := range targets {
		walk(t, 0)
	}
	return out
}

// c16InnovationAppends: an append onto the innovation list may write the list's array in place. That is
// compatible with readers that scan a snapshot without the lock only if (a) the append itself executes with
// the mutex held (two appends would otherwise fill the same slot) and (b) its first argument is the whole
// list, not a re-slice of it: then only slots at or beyond the current length are written, and no snapshot
// taken earlier extends that far.
func (r *Run) c16InnovationAppends(S []*ssa.Function, innovF *types.Var) {
	p := r.P
	for _, fn := range S {
		tm := NewTermer(fn)
		Instrs(fn, func(_ *ssa.BasicBlock, _ int, in ssa.Instruction) {
			c, ok := in.(*ssa.Call)
			if !ok {
				return
			}
			if b, isB := c.Call.Value.(*ssa.Builtin); !isB || b.Name() != "append" || len(c.Call.Args) < 2 {
				return
			}
			v, resliced := c.Call.Args[0], false
			for {
				if s, ok := v.(*ssa.Slice); ok {
					v, resliced = s.X, true
					continue
				}
				break
			}
			u, ok := v.(*ssa.UnOp)
			if !ok || u.Op != token.MUL {
				return
			}
			fa, ok := u.X.(*ssa.FieldAddr)
			if !ok || fieldOf(fa.X.Type(), fa.Field) != innovF {
				return
			}
			if fullCapacity(c.Call.Args[0]) {
				return // always reallocates
			}
			base := tm.Of(fa.X).String()
			held, path := r.lockHeldAt(fn, tm, base+".mutex", c)
			switch {
			case resliced:
				r.Bad(fn.Name()+".innovations.append", p.Pos(c.Pos()), FuncName(fn)+" appends onto a re-slice of the innovation list: the elements overwrite slots that goroutines scanning an earlier snapshot still read")
			case !held:
				r.Bad(fn.Name()+".innovations.append", p.Pos(c.Pos()), "append onto Population.innovations without "+base+".mutex in "+FuncName(fn)+": two goroutines fill the same slot of the shared array", path...)
			default:
				r.OK(fn.Name()+".innovations.append", p.Pos(c.Pos()), "append onto the whole list with "+base+".mutex held: only slots beyond every snapshot are written")
			}
		})
	}
}

// ---------------------------------------------------------------------------
// C16.8: a number is issued in one indivisible step

// ctrAccess is one use of the address of a counter field.
type ctrAccess struct {
	fn   *ssa.Function
	fa   *ssa.FieldAddr
	ref  ssa.Instruction
	kind string // add | load | store | swap | cas | atomic-other | plain-read | plain-write | escape
}

func (a ctrAccess) reads() bool  { return a.kind != "store" && a.kind != "plain-write" }
func (a ctrAccess) writes() bool { return a.kind != "load" && a.kind != "plain-read" }

// atomicKind classifies a sync/atomic function or method by what it does to its operand.
func atomicKind(c ssa.CallInstruction) string {
	callee := c.Common().StaticCallee()
	if callee == nil || callee.Pkg == nil || callee.Pkg.Pkg.Path() != "sync/atomic" {
		return ""
	}
	n := callee.Name()
	switch {
	case strings.HasPrefix(n, "CompareAndSwap"):
		return "cas"
	case strings.HasPrefix(n, "Add"):
		return "add"
	case strings.HasPrefix(n, "Load"):
		return "load"
	case strings.HasPrefix(n, "Store"):
		return "store"
	case strings.HasPrefix(n, "Swap"):
		return "swap"
	}
	return "atomic-other"
}

func counterAccesses(S []*ssa.Function, f *types.Var) []ctrAccess {
	var out []ctrAccess
	for _, fn := range S {
		Instrs(fn, func(_ *ssa.BasicBlock, _ int, in ssa.Instruction) {
			fa, ok := in.(*ssa.FieldAddr)
			if !ok || fieldOf(fa.X.Type(), fa.Field) != f {
				return
			}
			for _, ref := range *fa.Referrers() {
				a := ctrAccess{fn: fn, fa: fa, ref: ref, kind: "escape"}
				switch x := ref.(type) {
				case *ssa.DebugRef:
					continue
				case *ssa.UnOp:
					if x.Op == token.MUL {
						a.kind = "plain-read"
					}
				case *ssa.Store:
					if x.Addr == ssa.Value(fa) {
						a.kind = "plain-write"
					}
				case ssa.CallInstruction:
					if k := atomicKind(x); k != "" && len(x.Common().Args) > 0 && x.Common().Args[0] == ssa.Value(fa) {
						a.kind = k
					}
				}
				out = append(out, a)
			}
		})
	}
	return out
}

// c16MutexRegime: every access to the counter in the goroutines' call tree executes with the mutex of the
// object that holds the counter, and within one function no Unlock of that mutex lies between a read of the
// counter and a later write of it (the read-modify-write is one critical section). Under that discipline the
// accesses need not be atomic operations at all.
func (r *Run) c16MutexRegime(acc []ctrAccess) bool {
	if len(acc) == 0 {
		return false
	}
	tms := map[*ssa.Function]*Termer{}
	for _, a := range acc {
		if a.kind == "escape" {
			return false
		}
		tm := tms[a.fn]
		if tm == nil {
			tm = NewTermer(a.fn)
			tms[a.fn] = tm
		}
		if held, _ := r.lockHeldAt(a.fn, tm, tm.Of(a.fa.X).String()+".mutex", a.ref); !held {
			return false
		}
	}
	for _, rd := range acc {
		if !rd.reads() {
			continue
		}
		for _, wr := range acc {
			if wr.fn != rd.fn || !wr.writes() || wr.ref == rd.ref {
				continue
			}
			tm := tms[rd.fn]
			mt := tm.Of(rd.fa.X).String() + ".mutex"
			split := false
			Instrs(rd.fn, func(_ *ssa.BasicBlock, _ int, in ssa.Instruction) {
				c, ok := in.(*ssa.Call)
				if !ok || split || !isMutexCall(c, "Unlock") || tm.Of(c.Call.Args[0]).String() != mt {
					return
				}
				toU := FindPath(r.P, PathQuery{Fn: rd.fn, StartAfter: rd.ref, Target: func(x ssa.Instruction) bool { return x == ssa.Instruction(c) }, FlagBlind: true, Explored: &r.PathsExplored})
				toW := FindPath(r.P, PathQuery{Fn: rd.fn, StartAfter: c, Target: func(x ssa.Instruction) bool { return x == wr.ref }, FlagBlind: true, Explored: &r.PathsExplored})
				if toU != nil && toW != nil {
					split = true
				}
			})
			if split {
				return false
			}
		}
	}
	return true
}

// counterLeaves: the accesses to counter f on which the value v depends (through conversions, arithmetic,
// phis and local variables).
func counterLeaves(v ssa.Value, f *types.Var, seen map[ssa.Value]bool, out *[]ssa.Instruction) {
	if v == nil || seen[v] {
		return
	}
	seen[v] = true
	onF := func(a ssa.Value) bool {
		fa, ok := a.(*ssa.FieldAddr)
		return ok && fieldOf(fa.X.Type(), fa.Field) == f
	}
	switch x := v.(type) {
	case *ssa.Convert:
		counterLeaves(x.X, f, seen, out)
	case *ssa.ChangeType:
		counterLeaves(x.X, f, seen, out)
	case *ssa.MakeInterface:
		counterLeaves(x.X, f, seen, out)
	case *ssa.BinOp:
		counterLeaves(x.X, f, seen, out)
		counterLeaves(x.Y, f, seen, out)
	case *ssa.Phi:
		for _, e := range x.Edges {
			counterLeaves(e, f, seen, out)
		}
	case *ssa.Extract:
		counterLeaves(x.Tuple, f, seen, out)
	case *ssa.UnOp:
		if x.Op != token.MUL {
			counterLeaves(x.X, f, seen, out)
			return
		}
		if onF(x.X) {
			*out = append(*out, x)
			return
		}
		if al, ok := x.X.(*ssa.Alloc); ok {
			for _, ref := range *al.Referrers() {
				if st, ok := ref.(*ssa.Store); ok && st.Addr == ssa.Value(al) {
					counterLeaves(st.Val, f, seen, out)
				}
			}
		}
	case *ssa.Call:
		if atomicKind(x) != "" && len(x.Call.Args) > 0 && onF(x.Call.Args[0]) {
			*out = append(*out, x)
		}
	}
}

func stripConv(v ssa.Value) ssa.Value {
	for {
		switch x := v.(type) {
		case *ssa.Convert:
			v = x.X
		case *ssa.ChangeType:
			v = x.X
		default:
			return v
		}
	}
}

// advancesFrom: nv is old + c or c + old with a constant c > 0.
func advancesFrom(nv, old ssa.Value) bool {
	b, ok := stripConv(nv).(*ssa.BinOp)
	if !ok || b.Op != token.ADD {
		return false
	}
	x, y := stripConv(b.X), stripConv(b.Y)
	if _, isK := x.(*ssa.Const); isK {
		x, y = y, x
	}
	k, isK := constInt(y)
	return isK && k > 0 && x == stripConv(old)
}

// casSucceeded: the guard says that the compare-and-swap c returned true.
func casSucceeded(g Guard, c ssa.Value) bool {
	cond, want := g.Cond, g.True
	for {
		if u, ok := cond.(*ssa.UnOp); ok && u.Op == token.NOT {
			cond, want = u.X, !want
			continue
		}
		break
	}
	if cond == c {
		return want
	}
	if x, y, op, ok := CmpFact(g.Cond, g.True); ok && x == c {
		if k, isK := y.(*ssa.Const); isK && k.Value != nil && k.Value.Kind().String() == "Bool" {
			isTrue := k.Value.ExactString() == "true"
			return op == token.EQL && isTrue || op == token.NEQ && !isTrue
		}
	}
	return false
}

// confirms: c compares the counter with the very value that the read lf produced and installs a larger one.
func confirms(c *ssa.Call, lf ssa.Instruction) bool {
	v, ok := lf.(ssa.Value)
	return ok && len(c.Call.Args) == 3 && stripConv(c.Call.Args[1]) == v && advancesFrom(c.Call.Args[2], c.Call.Args[1])
}

// confirmedThroughFlag: the retry loop keeps the outcome of the compare-and-swap in a variable
// (`for !done { old := load; num = old+1; done = cas(old, num) }; return num`). The return is guarded by the
// flag phi being true; every edge of that phi carries either the constant false or the result of a
// compare-and-swap; the returned value is a phi of the SAME block, so on each edge it receives the value that
// belongs to the same pass through the loop as the flag's. It is enough that on every edge on which the flag
// can be true, the value depends on the counter only through the read which that edge's compare-and-swap
// confirmed (or through atomic adds).
func confirmedThroughFlag(res ssa.Value, retBlock *ssa.BasicBlock, f *types.Var) bool {
	// the returned value, below conversions and arithmetic with constants
	v := res
	for {
		switch x := v.(type) {
		case *ssa.Convert:
			v = x.X
			continue
		case *ssa.ChangeType:
			v = x.X
			continue
		case *ssa.BinOp:
			if _, isK := x.Y.(*ssa.Const); isK {
				v = x.X
				continue
			}
			if _, isK := x.X.(*ssa.Const); isK {
				v = x.Y
				continue
			}
		}
		break
	}
	rp, ok := v.(*ssa.Phi)
	if !ok {
		return false
	}
	for _, g := range Guards(retBlock) {
		fl, whenTrue, ok := boolFlagOf(g.Cond)
		if !ok || g.True != whenTrue {
			continue
		}
		ph := fl.(*ssa.Phi)
		if ph.Block() != rp.Block() || len(ph.Edges) != len(rp.Edges) {
			continue
		}
		all := true
		for i, e := range ph.Edges {
			if IsConstBool(e, false) {
				continue // the flag is not true when control arrives over this edge
			}
			c, isCall := e.(*ssa.Call)
			if !isCall || atomicKind(c) != "cas" {
				all = false
				break
			}
			var leaves []ssa.Instruction
			counterLeaves(rp.Edges[i], f, map[ssa.Value]bool{}, &leaves)
			for _, lf := range leaves {
				if lc, isC := lf.(*ssa.Call); isC && atomicKind(lc) == "add" {
					continue
				}
				if !confirms(c, lf) {
					all = false
				}
			}
		}
		if all {
			return true
		}
	}
	return false
}

// c16CounterIssue: the rule body of C16.8.
func (r *Run) c16CounterIssue(S []*ssa.Function, re *Reach) {
	p := r.P
	issuers := 0
	for _, name := range []string{"nextInnovNum", "nextNodeId"} {
		f := p.Field(PkgG, "Population", name)
		acc := counterAccesses(S, f)
		if r.c16MutexRegime(acc) {
			r.OK("issue:"+name, "-", "every access to "+name+" in the goroutines' call tree runs under the population's mutex, read and write of one issue in the same critical section")
			issuers++
			continue
		}
		byFn := map[*ssa.Function][]ctrAccess{}
		var order []*ssa.Function
		for _, a := range acc {
			if _, ok := byFn[a.fn]; !ok {
				order = append(order, a.fn)
			}
			byFn[a.fn] = append(byFn[a.fn], a)
		}
		for _, fn := range order {
			via := strings.Join(re.Chain(fn), " -> ")
			id := "issue:" + fn.Name() + "." + name
			good := true
			bad := func(pos token.Pos, msg string) {
				good = false
				r.Bad(id, p.Pos(pos), msg+" (in "+FuncName(fn)+", reached from the reproduction goroutines via "+via+")")
			}
			var cas []*ssa.Call
			for _, a := range byFn[fn] {
				switch a.kind {
				case "store", "swap", "atomic-other", "plain-write":
					bad(a.ref.Pos(), name+" is overwritten by a separate "+a.kind+": between the read that the new value was computed from and this write another goroutine can advance the counter, so two goroutines obtain the same number and the counter can move backwards - every single access being atomic does not make the read-modify-write indivisible")
				case "escape":
					bad(a.ref.Pos(), "the address of "+name+" is used other than as the operand of a sync/atomic operation; what is done to the counter through it is not known")
				case "cas":
					c := a.ref.(*ssa.Call)
					cas = append(cas, c)
					if len(c.Call.Args) != 3 || !advancesFrom(c.Call.Args[2], c.Call.Args[1]) {
						bad(c.Pos(), "a compare-and-swap on "+name+" does not install expected-value + positive constant: the counter is not advanced from the value it was compared with")
					}
				}
			}
			// what the function hands out
			nLeaves := 0
			for _, b := range fn.Blocks {
				ret, ok := b.Instrs[len(b.Instrs)-1].(*ssa.Return)
				if !ok {
					continue
				}
				for _, res := range ret.Results {
					var leaves []ssa.Instruction
					counterLeaves(res, f, map[ssa.Value]bool{}, &leaves)
					for _, lf := range leaves {
						nLeaves++
						kind := "plain-read"
						if c, isC := lf.(*ssa.Call); isC {
							kind = atomicKind(c)
						}
						switch kind {
						case "add":
							// the result of the indivisible add: no other call can have received it
						case "load", "plain-read":
							confirmed := false
							for _, c := range cas {
								if !confirms(c, lf) {
									continue
								}
								for _, g := range effGuards(b, lf.(ssa.Value)) {
									if casSucceeded(g, c) {
										confirmed = true
									}
								}
							}
							if !confirmed {
								confirmed = confirmedThroughFlag(res, b, f)
							}
							if !confirmed {
								bad(ret.Pos(), "the number returned is computed from a separate read of "+name+" ("+p.Pos(lf.Pos())+") that no successful compare-and-swap from that very value confirms: two goroutines that read the counter at the same moment return the same number")
							}
						default:
							// swap / cas result / other: reported above where relevant
							if kind != "cas" {
								bad(ret.Pos(), "the number returned is derived from a "+kind+" on "+name)
							}
						}
					}
				}
			}
			if nLeaves > 0 {
				issuers++
			}
			if good {
				if nLeaves > 0 {
					r.OK(id, p.Pos(fn.Pos()), "every number returned comes from one atomic add on "+name+" (or from a read confirmed by a successful compare-and-swap that advances the counter); no separate store")
				} else {
					r.OK(id, p.Pos(fn.Pos()), name+" is only read, or advanced by an indivisible operation; nothing is issued from it here")
				}
			}
		}
	}
	r.Floor("functions issuing numbers from the shared counters in the goroutine call tree", issuers, 2)
}

// ---------------------------------------------------------------------------
// C16.9: the spawner itself runs concurrently with the goroutines it has already started

// spawnWindow: the instructions of fn that can execute after some `go` statement of fn and before wg.Wait
// returns - while goroutines started earlier are running.
func spawnWindow(fn *ssa.Function, gos []*ssa.Go) []ssa.Instruction {
	isWait := func(in ssa.Instruction) bool {
		c, ok := in.(ssa.CallInstruction)
		if !ok {
			return false
		}
		n, _ := calleeName(c.Common())
		return n == "sync.WaitGroup.Wait"
	}
	in := map[ssa.Instruction]bool{}
	var order []ssa.Instruction
	seen := map[*ssa.BasicBlock]bool{}
	var walk func(b *ssa.BasicBlock, from int)
	walk = func(b *ssa.BasicBlock, from int) {
		for i := from; i < len(b.Instrs); i++ {
			x := b.Instrs[i]
			if isWait(x) {
				return
			}
			if !in[x] {
				in[x] = true
				order = append(order, x)
			}
		}
		for _, s := range b.Succs {
			if !seen[s] {
				seen[s] = true
				walk(s, 0)
			}
		}
	}
	for _, g := range gos {
		walk(g.Block(), instrIndex(g)+1)
	}
	return order
}

func (r *Run) c16SpawnerWindow(par *ssa.Function, gos []*ssa.Go, innovF *types.Var) {
	p := r.P
	win := spawnWindow(par, gos)
	inWin := map[ssa.Instruction]bool{}
	for _, x := range win {
		inWin[x] = true
	}
	// repository functions the spawner calls inside the window
	probe := NewWriteThrough(p, nil)
	var callees []*ssa.Function
	for _, x := range win {
		c, ok := x.(ssa.CallInstruction)
		if !ok {
			continue
		}
		if _, isGo := x.(*ssa.Go); isGo {
			continue
		}
		callees = append(callees, probe.calleesOf(par, c)...)
	}
	re2 := p.Reachable(callees, nil)
	S2 := re2.RepoFuncs()
	wt := c16WriteThrough(p, append(append([]*ssa.Function{}, S2...), par))
	good := true
	bad := func(id string, pos token.Pos, msg string, path ...string) {
		good = false
		r.Bad(id, p.Pos(pos), msg+"; the spawner executes this while the goroutines it started earlier are running (no happens-before edge until wg.Wait returns)", path...)
	}
	who := func(k int) string {
		switch {
		case k >= 0 && k < len(par.Params):
			return par.Params[k].Name()
		case k == rootGlobal:
			return "<global>"
		}
		return "<unknown-origin>"
	}
	nonFresh := func(rs rootSet) []int {
		var ks []int
		for k := range rs {
			if k != rootFresh {
				ks = append(ks, k)
			}
		}
		sort.Ints(ks)
		return ks
	}
	nAdd := 0
	for _, x := range win {
		switch in := x.(type) {
		case *ssa.Store:
			if _, local := in.Addr.(*ssa.Alloc); local {
				continue
			}
			for _, k := range nonFresh(wt.roots(par, in.Addr, 0, map[ssa.Value]bool{})) {
				bad("spawner.store:"+who(k), in.Pos(), "the spawning loop stores into memory reachable from "+who(k))
			}
		case *ssa.MapUpdate:
			for _, k := range nonFresh(wt.roots(par, in.Map, 0, map[ssa.Value]bool{})) {
				bad("spawner.store:"+who(k), in.Pos(), "the spawning loop updates a map reachable from "+who(k))
			}
		case ssa.CallInstruction:
			if _, isGo := x.(*ssa.Go); isGo {
				continue
			}
			name, _ := calleeName(in.Common())
			if name == "sync.WaitGroup.Add" {
				nAdd++
			}
			args := in.Common().Args
			if in.Common().IsInvoke() {
				args = append([]ssa.Value{in.Common().Value}, args...)
			}
			if b, isB := in.Common().Value.(*ssa.Builtin); isB {
				var rs rootSet
				switch {
				case b.Name() == "append" && len(args) >= 2 && !fullCapacity(args[0]):
					rs = wt.arrayRoots(par, args[0], 0, map[ssa.Value]bool{})
				case b.Name() == "copy" || b.Name() == "clear" || b.Name() == "delete":
					rs = wt.roots(par, args[0], 0, map[ssa.Value]bool{})
				}
				for _, k := range nonFresh(rs) {
					bad("spawner.store:"+who(k), in.Pos(), "the spawning loop writes ("+b.Name()+") the array or map reachable from "+who(k))
				}
				continue
			}
			if isInPlaceLibrary(name) && len(args) > 0 {
				for _, k := range nonFresh(wt.roots(par, args[0], 0, map[ssa.Value]bool{})) {
					bad("spawner.store:"+who(k), in.Pos(), "the spawning loop reorders ("+name+") a list reachable from "+who(k))
				}
				continue
			}
			for _, callee := range wt.calleesOf(par, in) {
				for _, t := range wt.W[callee] {
					if t.Param < 0 {
						bad("spawner.call:"+callee.Name()+"|"+who(t.Param)+"|"+t.What, t.Pos, "the spawning loop calls "+FuncName(callee)+", which writes "+t.What+" of "+who(t.Param)+" via "+strings.Join(t.Via, " -> "))
						continue
					}
					if t.Param >= len(args) {
						continue
					}
					for _, k := range nonFresh(wt.roots(par, args[t.Param], 0, map[ssa.Value]bool{})) {
						bad("spawner.call:"+callee.Name()+"|"+who(k)+"|"+t.What, t.Pos, "the spawning loop calls "+FuncName(callee)+", which writes "+t.What+" of memory reachable from "+who(k)+" via "+strings.Join(t.Via, " -> "))
					}
				}
			}
		}
	}
	// the state the goroutines synchronise on is accessed by the spawner under the same discipline
	counters := map[*types.Var]bool{p.Field(PkgG, "Population", "nextInnovNum"): true, p.Field(PkgG, "Population", "nextNodeId"): true}
	scan := func(fn *ssa.Function, only map[ssa.Instruction]bool) {
		tm := NewTermer(fn)
		Instrs(fn, func(_ *ssa.BasicBlock, _ int, in ssa.Instruction) {
			fa, ok := in.(*ssa.FieldAddr)
			if !ok {
				return
			}
			fld := fieldOf(fa.X.Type(), fa.Field)
			if fld != innovF && !counters[fld] {
				return
			}
			for _, ref := range *fa.Referrers() {
				if only != nil && !only[ref] {
					continue
				}
				if _, dbg := ref.(*ssa.DebugRef); dbg {
					continue
				}
				if fld == innovF {
					if held, path := r.lockHeldAt(fn, tm, tm.Of(fa.X).String()+".mutex", ref); !held {
						bad("spawner."+fn.Name()+".innovations", ref.Pos(), "Population.innovations is accessed in "+FuncName(fn)+" without the mutex: it races with the append in StoreInnovation", path...)
					}
					continue
				}
				c, isC := ref.(ssa.CallInstruction)
				if !isC || atomicKind(c) == "" || atomicKind(c) == "store" || atomicKind(c) == "swap" {
					bad("spawner."+fn.Name()+"."+fld.Name(), ref.Pos(), fld.Name()+" is read or written in "+FuncName(fn)+" other than by an atomic load/add: it races with (or undoes) the atomic adds of the goroutines")
				}
			}
		})
	}
	scan(par, inWin)
	for _, fn := range S2 {
		r.Fn(FuncName(fn))
		scan(fn, nil)
	}
	if good {
		r.OK("spawner.window", p.Pos(par.Pos()), fmt.Sprintf("between a go statement and wg.Wait the spawner executes %d instruction(s) and %d repository function(s): no store into memory it shares with the goroutines, no unsynchronised access to the innovation list or the counters", len(win), len(S2)))
	}
	_ = nAdd
	r.Floor("instructions inside the concurrency window of the spawner", len(win), 1)
}

// ---------------------------------------------------------------------------
// C16.4 (additions): the counts of the hand-over protocol
//
// The collector receives only after wg.Wait (wg.wait-dominates). Under that discipline three counts have to
// agree with the number of goroutines started, or the epoch either hangs or runs ahead of its goroutines:
//
//	wg.add-count      each started goroutine is counted exactly once: Add(1) on every pass that reaches the go
//	                  statement, or one Add(len(list)) in front of a loop that starts one goroutine per element.
//	                  Add(0) lets Wait return at once (the channel is closed under the senders, babies are read
//	                  while goroutines run); Add(2) never lets it return.
//	chan.capacity     the result channel buffers one result per goroutine: a goroutine calls Done only after its
//	                  send, nobody receives before Wait, so a send that blocks blocks the whole epoch.
//	chan.closed       a receive loop that ends on "channel closed" (range) needs the close in front of it.
func (r *Run) c16HandOverCounts(par *ssa.Function, gos []*ssa.Go) {
	p := r.P
	tp := NewTermer(par)
	loops := Loops(par)
	dominates := func(a, b ssa.Instruction) bool {
		return a.Block() == b.Block() && instrIndex(a) < instrIndex(b) || a.Block() != b.Block() && a.Block().Dominates(b.Block())
	}
	adds := CallsNamed(par, "sync.WaitGroup.Add")
	for _, g := range gos {
		list := ""
		if len(g.Call.Args) > 1 {
			if a := tp.Of(g.Call.Args[1]); a.Op == "elem" {
				list = a.Args[0].String()
			}
		}
		gl := InnermostLoop(loops, g.Block())
		everyPass := func() bool { // the go statement runs on every pass of its loop, which runs once per element of list
			if gl == nil || list == "" || !loopRangesOver(tp, gl, list) {
				return false
			}
			for _, lt := range gl.Latch {
				if !(g.Block() == lt || g.Block().Dominates(lt)) {
					return false
				}
			}
			for b := range gl.Blocks {
				for _, s := range b.Succs {
					if !gl.Blocks[s] && b != gl.Header {
						return false
					}
				}
			}
			return true
		}
		okCount, why := false, "no wg.Add precedes the go statement"
		if len(adds) == 1 && dominates(adds[0], g) {
			c := adds[0]
			delta := c.Common().Args[len(c.Common().Args)-1]
			cl := InnermostLoop(loops, c.Block())
			k, isK := constInt(delta)
			switch {
			case cl == gl && isK && k == 1:
				// counted on this pass: the go statement must follow on every path
				path := FindPath(p, PathQuery{Fn: par, StartAfter: c, FlagBlind: true, Explored: &r.PathsExplored,
					Target: func(in ssa.Instruction) bool {
						if IsReturn(in) {
							return true
						}
						return gl != nil && in.Block() == gl.Header && instrIndex(in) == 0
					},
					Avoid: func(in ssa.Instruction) bool { return in == ssa.Instruction(g) }})
				if path == nil {
					okCount = true
				} else {
					why = "after wg.Add(1) a path reaches the next pass or a return without starting the goroutine: Wait never returns"
				}
			case cl == gl:
				why = fmt.Sprintf("each pass adds %s to the wait group but starts one goroutine", tp.Of(delta).String())
			case gl != nil && (cl == nil || !cl.Blocks[g.Block()] || cl != gl) && !gl.Blocks[c.Block()]:
				dt := tp.Of(delta).String()
				if list != "" && dt == "len("+list+")" && everyPass() {
					okCount = true
				} else {
					why = "wg.Add(" + dt + ") in front of the loop does not equal the number of goroutines the loop starts (one per element of " + list + " on every pass)"
				}
			default:
				why = "the wg.Add that precedes the go statement is neither Add(1) on the same pass nor Add(len(list)) in front of the loop"
			}
		} else if len(adds) > 1 {
			why = fmt.Sprintf("%d wg.Add calls: a goroutine may be counted more than once", len(adds))
		}
		r.Check(okCount, "wg.add-count", p.Pos(g.Pos()), "every started goroutine is counted exactly once", why+" - Wait returns before the goroutines are done (results are read and the channel closed under them) or never")
		// the channel handed to the goroutine
		var mk *ssa.MakeChan
		for _, a := range g.Call.Args {
			if m, ok := stripPtr(a).(*ssa.MakeChan); ok {
				mk = m
			}
		}
		if mk == nil {
			r.Bad("chan.capacity", p.Pos(g.Pos()), "the result channel handed to the goroutine is not made in this function; its capacity is unknown")
			continue
		}
		st := tp.Of(mk.Size)
		okCap := list != "" && st.String() == "len("+list+")"
		if b, isB := mk.Size.(*ssa.BinOp); isB && b.Op == token.ADD && list != "" {
			if k, isK := constInt(b.Y); isK && k >= 0 && tp.Of(b.X).String() == "len("+list+")" {
				okCap = true
			}
			if k, isK := constInt(b.X); isK && k >= 0 && tp.Of(b.Y).String() == "len("+list+")" {
				okCap = true
			}
		}
		r.Check(okCap, "chan.capacity", p.Pos(mk.Pos()), "the result channel buffers one result per element of "+list,
			"the result channel has capacity "+st.String()+", not (at least) one slot per goroutine: a goroutine that blocks in its send never reaches wg.Done, and the collector receives only after wg.Wait - the epoch hangs")
		// close before a receive loop that ends on close
		Instrs(par, func(_ *ssa.BasicBlock, _ int, in ssa.Instruction) {
			u, ok := in.(*ssa.UnOp)
			if !ok || u.Op != token.ARROW || !u.CommaOk || stripPtr(u.X) != ssa.Value(mk) {
				return
			}
			closed := false
			Instrs(par, func(_ *ssa.BasicBlock, _ int, in2 ssa.Instruction) {
				if c, ok := in2.(*ssa.Call); ok {
					if b, isB := c.Call.Value.(*ssa.Builtin); isB && b.Name() == "close" && stripPtr(c.Call.Args[0]) == ssa.Value(mk) && dominates(c, u) {
						closed = true
					}
				}
			})
			r.Check(closed, "chan.closed", p.Pos(u.Pos()), "close(resChan) precedes the receive loop that ends when the channel is closed",
				"the receive loop ends only when the channel is closed, and no close precedes it: after the last result the collector blocks forever")
		})
	}
}

// c16UnpublishedFresh: the field store e writes into an object allocated in fn itself that no call received
// before the store (so no other goroutine can hold it yet).
func c16UnpublishedFresh(p *Prog, fn *ssa.Function, e Effect) bool {
	fa, ok := e.Addr.(*ssa.FieldAddr)
	if !ok {
		return false
	}
	base := fa.X
	for {
		if ct, isCT := base.(*ssa.ChangeType); isCT {
			base = ct.X
			continue
		}
		break
	}
	al, isAlloc := base.(*ssa.Alloc)
	if !isAlloc {
		return false
	}
	st, _ := e.Instr.(*ssa.Store)
	if st == nil {
		return false
	}
	for _, ref := range *al.Referrers() {
		switch x := ref.(type) {
		case *ssa.FieldAddr:
		case *ssa.Return:
		case ssa.CallInstruction:
			// handed to a call: only harmless when that happens after the store on every path
			in := x.(ssa.Instruction)
			if in.Block() == st.Block() {
				for _, y := range st.Block().Instrs {
					if y == in {
						return false
					}
					if y == ssa.Instruction(st) {
						break
					}
				}
			} else if !st.Block().Dominates(in.Block()) {
				return false
			}
		case *ssa.Store:
			if x.Val == ssa.Value(al) {
				if x.Block() == st.Block() {
					for _, y := range st.Block().Instrs {
						if y == ssa.Instruction(x) {
							return false
						}
						if y == ssa.Instruction(st) {
							break
						}
					}
				} else if !st.Block().Dominates(x.Block()) {
					return false
				}
			}
		case *ssa.MakeInterface, *ssa.Phi, *ssa.MakeClosure:
			return false
		}
	}
	return true
}

// ---------------------------------------------------------------------------
// Function literals that are created, kept in memory private to one invocation and called by the function that
// created them (a local table of closures, a slice of steps run by one loop)
//
// The engine roots a store that a literal performs through a captured variable at "unknown origin" and hands
// that fact to every repository caller of the literal. The creator of the literal knows better: it bound the
// variables, and c16WriteThrough has already added the write under the roots of what it bound. When the call
// site provably invokes only literals made by this very invocation, and the literal writes through nothing of
// unknown origin except what it captured, the "unknown origin" fact carries no information beyond the bound one
// and is dropped. Everything else (a literal that arrives from a field, a parameter or a global; a literal
// that reassigns a captured variable; a callee of the literal that itself writes through something unknown)
// keeps the fact.

// typeHoldsFunc: a value of type t is, or contains by value, a function value.
func typeHoldsFunc(t types.Type, depth int) bool {
	if depth > 6 {
		return true
	}
	switch x := t.Underlying().(type) {
	case *types.Signature:
		return true
	case *types.Struct:
		for i := 0; i < x.NumFields(); i++ {
			if typeHoldsFunc(x.Field(i).Type(), depth+1) {
				return true
			}
		}
	case *types.Array:
		return typeHoldsFunc(x.Elem(), depth+1)
	case *types.Interface:
		return true
	}
	return false
}

// privateRegion: addr points into a local variable (an Alloc of this function, possibly through field and
// element addresses and slices of it) whose address never leaves the function: it is only loaded from, stored
// to, indexed, sliced and measured. Returns the variable.
func privateRegion(addr ssa.Value) *ssa.Alloc {
	v := addr
	for depth := 0; depth < 20; depth++ {
		switch x := v.(type) {
		case *ssa.FieldAddr:
			v = x.X
			continue
		case *ssa.IndexAddr:
			v = x.X
			continue
		case *ssa.Slice:
			v = x.X
			continue
		case *ssa.Alloc:
			if regionStaysPrivate(x, 0, map[ssa.Value]bool{}) {
				return x
			}
		}
		break
	}
	return nil
}

func regionStaysPrivate(v ssa.Value, depth int, seen map[ssa.Value]bool) bool {
	if seen[v] {
		return true
	}
	seen[v] = true
	if depth > 20 || v.Referrers() == nil {
		return false
	}
	for _, ref := range *v.Referrers() {
		switch x := ref.(type) {
		case *ssa.DebugRef:
		case *ssa.FieldAddr, *ssa.IndexAddr, *ssa.Slice:
			if !regionStaysPrivate(x.(ssa.Value), depth+1, seen) {
				return false
			}
		case *ssa.UnOp:
			if x.Op != token.MUL {
				return false
			}
			// a load copies what the region holds; the copy is a value, not the region
		case *ssa.Store:
			if x.Val == v {
				return false // the address itself is stored somewhere
			}
		case *ssa.Call:
			b, isB := x.Call.Value.(*ssa.Builtin)
			if !isB || b.Name() != "len" && b.Name() != "cap" {
				return false
			}
		default:
			return false
		}
	}
	return true
}

// regionStores: the values stored anywhere into the region of al.
func regionStores(al *ssa.Alloc) []ssa.Value {
	var out []ssa.Value
	seen := map[ssa.Value]bool{}
	var walk func(v ssa.Value)
	walk = func(v ssa.Value) {
		if seen[v] || v.Referrers() == nil {
			return
		}
		seen[v] = true
		for _, ref := range *v.Referrers() {
			switch x := ref.(type) {
			case *ssa.FieldAddr, *ssa.IndexAddr, *ssa.Slice:
				walk(x.(ssa.Value))
			case *ssa.Store:
				if x.Addr == v {
					out = append(out, x.Val)
				}
			}
		}
	}
	walk(al)
	return out
}

// privateMap: m is a map made by this function that is only updated, read, ranged over and measured.
func privateMap(m ssa.Value) *ssa.MakeMap {
	mk, ok := m.(*ssa.MakeMap)
	if !ok || mk.Referrers() == nil {
		return nil
	}
	for _, ref := range *mk.Referrers() {
		switch x := ref.(type) {
		case *ssa.DebugRef, *ssa.Lookup, *ssa.Range:
		case *ssa.MapUpdate:
			if x.Map != ssa.Value(mk) {
				return nil
			}
		case *ssa.Call:
			b, isB := x.Call.Value.(*ssa.Builtin)
			if !isB || b.Name() != "len" {
				return nil
			}
		default:
			return nil
		}
	}
	return mk
}

// localFuncOrigins: the function values that v (a function value, or an aggregate holding some) can be,
// provided every one of them was produced by this invocation of the function and reached v only through
// registers and private memory. ok=false: v may (also) be something else.
func localFuncOrigins(v ssa.Value, depth int, seen map[ssa.Value]bool, out *[]ssa.Value) bool {
	if seen[v] {
		return true
	}
	seen[v] = true
	if depth > 30 {
		return false
	}
	fromMap := func(m ssa.Value) bool {
		mk := privateMap(m)
		if mk == nil {
			return false
		}
		for _, ref := range *mk.Referrers() {
			if mu, isMU := ref.(*ssa.MapUpdate); isMU && typeHoldsFunc(mu.Value.Type(), 0) {
				if !localFuncOrigins(mu.Value, depth+1, seen, out) {
					return false
				}
			}
		}
		return true
	}
	switch x := v.(type) {
	case *ssa.MakeClosure, *ssa.Function:
		*out = append(*out, v)
		return true
	case *ssa.Const:
		return x.Value == nil // nil: the call panics, nothing is written
	case *ssa.Phi:
		for _, e := range x.Edges {
			if !localFuncOrigins(e, depth+1, seen, out) {
				return false
			}
		}
		return true
	case *ssa.Field:
		return localFuncOrigins(x.X, depth+1, seen, out)
	case *ssa.Index:
		return localFuncOrigins(x.X, depth+1, seen, out)
	case *ssa.ChangeType:
		return localFuncOrigins(x.X, depth+1, seen, out)
	case *ssa.Lookup:
		return fromMap(x.X)
	case *ssa.Extract:
		if nx, isNext := x.Tuple.(*ssa.Next); isNext && !nx.IsString {
			if rg, isRange := nx.Iter.(*ssa.Range); isRange {
				return fromMap(rg.X)
			}
		}
		if lk, isLookup := x.Tuple.(*ssa.Lookup); isLookup && lk.CommaOk {
			return fromMap(lk.X)
		}
		return false
	case *ssa.UnOp:
		if x.Op != token.MUL {
			return false
		}
		al := privateRegion(x.X)
		if al == nil {
			return false
		}
		for _, sv := range regionStores(al) {
			if typeHoldsFunc(sv.Type(), 0) {
				if !localFuncOrigins(sv, depth+1, seen, out) {
					return false
				}
			}
		}
		return true
	}
	return false
}

// captureReadOnly: the literal cf only reads the variables it captured (it neither assigns them nor lets their
// address travel), so at every call they hold a value the creator stored. A bound-method wrapper captures the
// receiver by value.
func captureReadOnly(cf *ssa.Function) bool {
	if cf.Synthetic != "" {
		return true
	}
	for _, fv := range cf.FreeVars {
		if fv.Referrers() == nil {
			return false
		}
		for _, ref := range *fv.Referrers() {
			switch x := ref.(type) {
			case *ssa.DebugRef:
			case *ssa.UnOp:
				if x.Op != token.MUL {
					return false
				}
			default:
				return false
			}
		}
	}
	return true
}

// c16TransparentClosure: whatever the literal cf writes through an object of unknown origin, it writes through
// a captured variable: with the captured variables taken out, no written address (and no written argument of a
// call) has an unknown root, and no callee of cf contributes an unknown-origin write of its own.
func (w *WriteThrough) c16TransparentClosure(cf *ssa.Function) bool {
	if len(cf.FreeVars) == 0 || !captureReadOnly(cf) {
		return false
	}
	targets, opaque := w.writeTargets(cf)
	if opaque {
		return false
	}
	for _, t := range targets {
		seen := map[ssa.Value]bool{}
		for _, fv := range cf.FreeVars {
			seen[fv] = true // roots() passes over a value it has seen: the captured variables contribute nothing
		}
		if w.roots(cf, t, 0, seen)[rootUnknown] {
			return false
		}
	}
	return true
}

// bindingsSettled: every variable that the closure mc captured by reference is assigned only by the creating
// function itself: besides loads and stores there, it is captured only by literals that do not assign it.
func bindingsSettled(mc *ssa.MakeClosure) bool {
	for _, b := range mc.Bindings {
		al, isAlloc := b.(*ssa.Alloc)
		if !isAlloc {
			continue // captured by value
		}
		for _, ref := range *al.Referrers() {
			switch x := ref.(type) {
			case *ssa.DebugRef:
			case *ssa.UnOp:
				if x.Op != token.MUL {
					return false
				}
			case *ssa.Store:
				if x.Addr != ssa.Value(al) {
					return false
				}
			case *ssa.MakeClosure:
				cf, _ := x.Fn.(*ssa.Function)
				if cf == nil || !captureReadOnly(cf) {
					return false
				}
			default:
				return false
			}
		}
	}
	return true
}

// c16AttributedCallees: the callees of the call c in fn whose unknown-origin writes are fully attributed by
// the bindings of closures that fn itself made (see the section comment).
func (w *WriteThrough) c16AttributedCallees(fn *ssa.Function, c ssa.CallInstruction) map[*ssa.Function]bool {
	com := c.Common()
	if com.IsInvoke() || com.StaticCallee() != nil {
		// a literal called in place is a static call of a MakeClosure
		mc, isMC := com.Value.(*ssa.MakeClosure)
		if !isMC {
			return nil
		}
		cf, _ := mc.Fn.(*ssa.Function)
		if cf != nil && bindingsSettled(mc) && w.c16TransparentClosure(cf) {
			return map[*ssa.Function]bool{cf: true}
		}
		return nil
	}
	var origins []ssa.Value
	if !localFuncOrigins(com.Value, 0, map[ssa.Value]bool{}, &origins) {
		return nil
	}
	out := map[*ssa.Function]bool{}
	rejected := map[*ssa.Function]bool{}
	for _, o := range origins {
		mc, isMC := o.(*ssa.MakeClosure)
		if !isMC {
			continue
		}
		cf, _ := mc.Fn.(*ssa.Function)
		if cf == nil {
			continue
		}
		if mc.Parent() == fn && bindingsSettled(mc) && w.c16TransparentClosure(cf) {
			out[cf] = true
		} else {
			rejected[cf] = true
		}
	}
	for cf := range rejected {
		delete(out, cf)
	}
	return out
}

// c16PruneAttributedUnknown removes the unknown-origin facts that have no derivation left once the calls
// described above stop contributing: a least fixpoint over "this fact is justified" - the function performs
// the write itself, or a callee's justified unknown-origin fact arrives through a call that is not attributed,
// or a callee writes through a parameter whose argument has an unknown root, or a closure made here writes
// through a binding with an unknown root.
func (w *WriteThrough) c16PruneAttributedUnknown(funcs []*ssa.Function) {
	attributed := map[ssa.CallInstruction]map[*ssa.Function]bool{}
	any := false
	for _, fn := range funcs {
		Instrs(fn, func(_ *ssa.BasicBlock, _ int, in ssa.Instruction) {
			if c, ok := in.(ssa.CallInstruction); ok {
				if m := w.c16AttributedCallees(fn, c); len(m) > 0 {
					attributed[c] = m
					any = true
				}
			}
		})
	}
	if !any {
		return
	}
	just := map[*ssa.Function]map[string]bool{}
	for _, fn := range funcs {
		just[fn] = map[string]bool{}
	}
	boundUnknown := map[*ssa.MakeClosure]bool{}
	boundKnown := map[*ssa.MakeClosure]bool{}
	closureBindsUnknown := func(fn *ssa.Function, mc *ssa.MakeClosure, cf *ssa.Function) bool {
		if boundKnown[mc] {
			return boundUnknown[mc]
		}
		boundKnown[mc] = true
		through := w.writtenFreeVars(cf)
		for i, b := range mc.Bindings {
			if i >= len(cf.FreeVars) || !through[cf.FreeVars[i]] {
				continue
			}
			if w.roots(fn, b, 0, map[ssa.Value]bool{})[rootUnknown] {
				boundUnknown[mc] = true
			}
			if al, isAl := b.(*ssa.Alloc); isAl {
				for _, ref := range *al.Referrers() {
					if st, isSt := ref.(*ssa.Store); isSt && st.Addr == ssa.Value(al) && isPointerLike(st.Val.Type()) {
						if w.roots(fn, st.Val, 0, map[ssa.Value]bool{})[rootUnknown] {
							boundUnknown[mc] = true
						}
					}
				}
			}
		}
		return boundUnknown[mc]
	}
	derivable := func(fn *ssa.Function, what string) bool {
		found := false
		Instrs(fn, func(_ *ssa.BasicBlock, _ int, in ssa.Instruction) {
			if found {
				return
			}
			if mc, ok := in.(*ssa.MakeClosure); ok && valueUsed(mc) {
				if cf, _ := mc.Fn.(*ssa.Function); cf != nil {
					for _, t := range w.W[cf] {
						if t.Param == rootUnknown && t.What == what && closureBindsUnknown(fn, mc, cf) {
							found = true
						}
					}
				}
				return
			}
			c, ok := in.(ssa.CallInstruction)
			if !ok {
				return
			}
			args := c.Common().Args
			if c.Common().IsInvoke() {
				args = append([]ssa.Value{c.Common().Value}, args...)
			}
			for _, callee := range w.calleesOf(fn, c) {
				for _, t := range w.W[callee] {
					if t.What != what {
						continue
					}
					switch {
					case t.Param == rootUnknown:
						if !attributed[c][callee] && (!w.Funcs[callee] || just[callee][what]) {
							found = true
						}
					case t.Param >= 0 && t.Param < len(args):
						if w.roots(fn, args[t.Param], 0, map[ssa.Value]bool{})[rootUnknown] {
							found = true
						}
					}
				}
			}
		})
		return found
	}
	for changed := true; changed; {
		changed = false
		for _, fn := range funcs {
			for _, t := range w.W[fn] {
				if t.Param != rootUnknown || just[fn][t.What] {
					continue
				}
				if len(t.Via) <= 1 || derivable(fn, t.What) {
					just[fn][t.What] = true
					changed = true
				}
			}
		}
	}
	for _, fn := range funcs {
		kept := w.W[fn][:0:0]
		for _, t := range w.W[fn] {
			if t.Param == rootUnknown && !just[fn][t.What] {
				continue
			}
			kept = append(kept, t)
		}
		w.W[fn] = kept
	}
}
