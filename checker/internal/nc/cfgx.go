package nc

import (
	"fmt"
	"go/constant"
	"go/token"
	"go/types"
	"sort"
	"strings"

	"golang.org/x/tools/go/ssa"
)

// ---------------------------------------------------------------------------
// Instruction helpers

// Instrs calls f for every instruction of fn.
func Instrs(fn *ssa.Function, f func(b *ssa.BasicBlock, i int, in ssa.Instruction)) {
	for _, b := range fn.Blocks {
		for i, in := range b.Instrs {
			f(b, i, in)
		}
	}
}

// CallsTo lists the call instructions in fn whose static callee is target.
func CallsTo(fn *ssa.Function, target *ssa.Function) []ssa.CallInstruction {
	var out []ssa.CallInstruction
	Instrs(fn, func(_ *ssa.BasicBlock, _ int, in ssa.Instruction) {
		if c, ok := in.(ssa.CallInstruction); ok {
			if c.Common().StaticCallee() == target {
				out = append(out, c)
			}
		}
	})
	return out
}

// CallsNamed lists calls whose callee renders as name (see calleeName):
// used for interface methods ("iface.Innovations") and external functions
// ("rand.Float64", "sort.Sort").
func CallsNamed(fn *ssa.Function, name string) []ssa.CallInstruction {
	var out []ssa.CallInstruction
	Instrs(fn, func(_ *ssa.BasicBlock, _ int, in ssa.Instruction) {
		if c, ok := in.(ssa.CallInstruction); ok {
			if n, _ := calleeName(c.Common()); n == name {
				out = append(out, c)
			}
		}
	})
	return out
}

// FieldStores lists the stores in fn to the given field.
func FieldStores(fn *ssa.Function, fld *types.Var) []*ssa.Store {
	var out []*ssa.Store
	Instrs(fn, func(_ *ssa.BasicBlock, _ int, in ssa.Instruction) {
		if st, ok := in.(*ssa.Store); ok {
			if fa, ok := st.Addr.(*ssa.FieldAddr); ok && fieldOf(fa.X.Type(), fa.Field) == fld {
				out = append(out, st)
			}
		}
	})
	return out
}

// StoredField returns the field a store writes, or nil.
func StoredField(st *ssa.Store) *types.Var {
	if fa, ok := st.Addr.(*ssa.FieldAddr); ok {
		return fieldOf(fa.X.Type(), fa.Field)
	}
	return nil
}

// IsConstBool reports whether v is the boolean constant b.
func IsConstBool(v ssa.Value, b bool) bool {
	c, ok := v.(*ssa.Const)
	if !ok || c.Value == nil || c.Value.Kind() != constant.Bool {
		return false
	}
	return constant.BoolVal(c.Value) == b
}

func instrIndex(in ssa.Instruction) int {
	for i, x := range in.Block().Instrs {
		if x == in {
			return i
		}
	}
	return -1
}

// ---------------------------------------------------------------------------
// Guards from the dominator tree

// Guard is a branch condition known to have the given outcome.
type Guard struct {
	Cond ssa.Value
	True bool
	At   *ssa.BasicBlock // the block ending in the If
}

func edgeDominates(d, s, b *ssa.BasicBlock) bool {
	// does the CFG edge d->s dominate block b?
	if !(s == b || s.Dominates(b)) {
		return false
	}
	for _, p := range s.Preds {
		if p == d {
			continue
		}
		if !s.Dominates(p) {
			return false
		}
	}
	return true
}

// Guards returns the branch outcomes that hold whenever b executes (path-
// insensitive: only edges that dominate b).
func Guards(b *ssa.BasicBlock) []Guard {
	var out []Guard
	for x := b; x != nil; {
		d := x.Idom()
		if d == nil {
			break
		}
		if iff, ok := d.Instrs[len(d.Instrs)-1].(*ssa.If); ok {
			t, f := d.Succs[0], d.Succs[1]
			if t != f {
				if edgeDominates(d, t, b) {
					out = append(out, Guard{iff.Cond, true, d})
				} else if edgeDominates(d, f, b) {
					out = append(out, Guard{iff.Cond, false, d})
				}
			}
		}
		x = d
	}
	return out
}

// ---------------------------------------------------------------------------
// Natural loops

type Loop struct {
	Header *ssa.BasicBlock
	Blocks map[*ssa.BasicBlock]bool
	Latch  []*ssa.BasicBlock
}

// Loops finds the natural loops of fn (merged per header).
func Loops(fn *ssa.Function) []*Loop {
	byHeader := map[*ssa.BasicBlock]*Loop{}
	var order []*ssa.BasicBlock
	for _, b := range fn.Blocks {
		for _, s := range b.Succs {
			if s.Dominates(b) { // back edge b->s
				l := byHeader[s]
				if l == nil {
					l = &Loop{Header: s, Blocks: map[*ssa.BasicBlock]bool{s: true}}
					byHeader[s] = l
					order = append(order, s)
				}
				l.Latch = append(l.Latch, b)
				// collect body: nodes reaching b without passing s
				stack := []*ssa.BasicBlock{b}
				for len(stack) > 0 {
					x := stack[len(stack)-1]
					stack = stack[:len(stack)-1]
					if l.Blocks[x] {
						continue
					}
					l.Blocks[x] = true
					stack = append(stack, x.Preds...)
				}
			}
		}
	}
	var out []*Loop
	for _, h := range order {
		out = append(out, byHeader[h])
	}
	return out
}

// InnermostLoop returns the smallest loop containing b, or nil.
func InnermostLoop(loops []*Loop, b *ssa.BasicBlock) *Loop {
	var best *Loop
	for _, l := range loops {
		if l.Blocks[b] && (best == nil || len(l.Blocks) < len(best.Blocks)) {
			best = l
		}
	}
	return best
}

// OuterLoops returns the loops containing b from innermost to outermost.
func OuterLoops(loops []*Loop, b *ssa.BasicBlock) []*Loop {
	var out []*Loop
	for _, l := range loops {
		if l.Blocks[b] {
			out = append(out, l)
		}
	}
	sort.Slice(out, func(i, j int) bool { return len(out[i].Blocks) < len(out[j].Blocks) })
	return out
}

// ---------------------------------------------------------------------------
// Flag-sensitive path search
//
// The repository threads decisions through local boolean/int flags (skip,
// found, linkExists, done, excessGenesSwitch ...). After SSA construction such
// a flag is a phi of constants, so "the append is reachable only when the scan
// found nothing" is not a dominance fact. The search below walks CFG paths
// while tracking the constant value every phi takes on the path walked, and
// prunes the infeasible side of a branch whose condition is decided by those
// values. It never prunes a side it cannot decide, so it over-approximates
// the feasible paths (sound for "no path exists" claims).

type envVal struct {
	known  bool
	c      constant.Value // nil means the nil pointer/interface when isNil
	isNil  bool
	nonNil bool
	sym    string // symbolic identity: a load of a never-stored field path of a parameter (two such loads are equal)
}

// symOf: "pN.F.G" when v loads a field path rooted at a parameter and no
// instruction of the function stores to the last field of the path.
func symOf(v ssa.Value) string {
	u, ok := v.(*ssa.UnOp)
	if !ok || u.Op != token.MUL {
		return ""
	}
	fa, ok := u.X.(*ssa.FieldAddr)
	if !ok {
		return ""
	}
	fn := u.Parent()
	if fn == nil {
		return ""
	}
	last := fieldOf(fa.X.Type(), fa.Field)
	path := last.Name()
	x := fa.X
	for depth := 0; depth < 6; depth++ {
		switch b := x.(type) {
		case *ssa.Parameter:
			if len(FieldStores(fn, last)) > 0 {
				return ""
			}
			return b.Name() + "." + path
		case *ssa.UnOp:
			if b.Op != token.MUL {
				return ""
			}
			fa2, ok := b.X.(*ssa.FieldAddr)
			if !ok {
				return ""
			}
			f2 := fieldOf(fa2.X.Type(), fa2.Field)
			if len(FieldStores(fn, f2)) > 0 {
				return ""
			}
			path = f2.Name() + "." + path
			x = fa2.X
		default:
			return ""
		}
	}
	return ""
}

type pathEnv map[ssa.Value]envVal

func (e pathEnv) key() string {
	var parts []string
	for v, x := range e {
		if !x.known {
			continue
		}
		s := v.Name() + "="
		switch {
		case x.isNil:
			s += "nil"
		case x.nonNil:
			s += "nonnil"
		case x.c == nil:
			s += "sym:" + x.sym
		default:
			s += x.c.ExactString()
		}
		parts = append(parts, s)
	}
	sort.Strings(parts)
	return strings.Join(parts, ",")
}

func (e pathEnv) clone() pathEnv {
	n := make(pathEnv, len(e))
	for k, v := range e {
		n[k] = v
	}
	return n
}

func (e pathEnv) eval(v ssa.Value) envVal {
	switch x := v.(type) {
	case *ssa.Const:
		if x.Value == nil {
			switch x.Type().Underlying().(type) {
			case *types.Pointer, *types.Interface, *types.Slice, *types.Map, *types.Signature:
				return envVal{known: true, isNil: true}
			}
			return envVal{}
		}
		return envVal{known: true, c: x.Value}
	case *ssa.Alloc, *ssa.MakeSlice, *ssa.MakeMap, *ssa.MakeInterface, *ssa.MakeClosure, *ssa.Function:
		return envVal{known: true, nonNil: true}
	}
	if r, ok := e[v]; ok && r.known {
		return r
	}
	if s := symOf(v); s != "" {
		return envVal{known: true, sym: s}
	}
	switch x := v.(type) {
	case *ssa.UnOp:
		if x.Op == token.NOT {
			r := e.eval(x.X)
			if r.known && r.c != nil && r.c.Kind() == constant.Bool {
				return envVal{known: true, c: constant.MakeBool(!constant.BoolVal(r.c))}
			}
		}
	case *ssa.BinOp:
		a, b := e.eval(x.X), e.eval(x.Y)
		if a.known && b.known {
			if a.sym != "" || b.sym != "" {
				if a.sym != "" && a.sym == b.sym {
					switch x.Op {
					case token.EQL, token.LEQ, token.GEQ:
						return envVal{known: true, c: constant.MakeBool(true)}
					case token.NEQ, token.LSS, token.GTR:
						return envVal{known: true, c: constant.MakeBool(false)}
					}
				}
				return envVal{}
			}
			if (a.isNil || a.nonNil) && (b.isNil || b.nonNil) {
				if a.nonNil && b.nonNil {
					return envVal{}
				}
				eq := a.isNil && b.isNil
				switch x.Op {
				case token.EQL:
					return envVal{known: true, c: constant.MakeBool(eq)}
				case token.NEQ:
					return envVal{known: true, c: constant.MakeBool(!eq)}
				}
				return envVal{}
			}
			if a.c != nil && b.c != nil {
				switch x.Op {
				case token.EQL, token.NEQ, token.LSS, token.LEQ, token.GTR, token.GEQ:
					if a.c.Kind() == b.c.Kind() || (isNum(a.c) && isNum(b.c)) {
						return envVal{known: true, c: constant.MakeBool(constant.Compare(a.c, x.Op, b.c))}
					}
				case token.LAND, token.LOR:
				}
			}
		}
	}
	return envVal{}
}

func isNum(c constant.Value) bool {
	return c.Kind() == constant.Int || c.Kind() == constant.Float
}

// assume records that cond evaluated to outcome on the path.
func (e pathEnv) assume(cond ssa.Value, outcome bool) {
	e[cond] = envVal{known: true, c: constant.MakeBool(outcome)}
	switch x := cond.(type) {
	case *ssa.UnOp:
		if x.Op == token.NOT {
			e.assume(x.X, !outcome)
		}
	case *ssa.BinOp:
		// x == const / x != const  with a decided outcome pins x
		if x.Op == token.EQL || x.Op == token.NEQ {
			pin := (x.Op == token.EQL) == outcome
			for _, pr := range [][2]ssa.Value{{x.X, x.Y}, {x.Y, x.X}} {
				if c, ok := pr[1].(*ssa.Const); ok {
					if _, isC := pr[0].(*ssa.Const); isC {
						continue
					}
					if c.Value == nil {
						switch c.Type().Underlying().(type) {
						case *types.Pointer, *types.Interface, *types.Slice, *types.Map, *types.Signature:
							if pin {
								e[pr[0]] = envVal{known: true, isNil: true}
							} else {
								e[pr[0]] = envVal{known: true, nonNil: true}
							}
						}
					} else if pin {
						e[pr[0]] = envVal{known: true, c: c.Value}
					}
				}
			}
		}
	}
}

// PathQuery describes a search for a feasible CFG path.
type PathQuery struct {
	Fn *ssa.Function
	// Start: the search begins right after instruction StartAfter, or, if
	// StartEdge is set, by taking the edge StartEdge[0] -> StartEdge[1], or at
	// the function entry when both are nil.
	StartAfter ssa.Instruction
	StartEdge  [2]*ssa.BasicBlock
	// StartAssume lets the caller fix the outcome of the branch condition at the start edge.
	// Target: reaching an instruction for which this returns true ends the search successfully.
	Target func(in ssa.Instruction) bool
	// TargetEdge (optional): taking this edge ends the search successfully.
	TargetEdge func(from, to *ssa.BasicBlock) bool
	// Avoid: paths are cut at instructions for which this returns true.
	Avoid func(in ssa.Instruction) bool
	// AvoidEdge: paths never take these edges.
	AvoidEdge func(from, to *ssa.BasicBlock) bool
	// FlagBlind disables the constant tracking (plain reachability).
	FlagBlind bool
	// Explored is incremented per visited state.
	Explored *int
	// NonNil / IsNil: values assumed non-nil / nil on every path (e.g. "with an observer").
	NonNil []ssa.Value
	IsNil  []ssa.Value
	// Assume: branch outcomes known to hold where the search starts (the case of a block reached through a
	// disjunction that the caller is looking at, GuardCases). A condition recomputed on the way is forgotten as usual.
	Assume []Guard
}

// FindPath returns a witness path (rendered blocks) or nil when no feasible path exists.
func FindPath(p *Prog, q PathQuery) []string {
	type state struct {
		b   *ssa.BasicBlock
		idx int
		env pathEnv
		par *stateNode
	}
	_ = state{}
	seen := map[string]bool{}
	var found *stateNode

	var walkBlock func(b *ssa.BasicBlock, from *ssa.BasicBlock, startIdx int, env pathEnv, par *stateNode) bool
	walkBlock = func(b *ssa.BasicBlock, from *ssa.BasicBlock, startIdx int, env pathEnv, par *stateNode) bool {
		node := &stateNode{b: b, par: par}
		if startIdx == 0 {
			// entering the block: bind phis from the edge taken, forget values recomputed here
			if !q.FlagBlind {
				newVals := map[ssa.Value]envVal{}
				for _, in := range b.Instrs {
					phi, ok := in.(*ssa.Phi)
					if !ok {
						break
					}
					if from != nil {
						for i, pr := range b.Preds {
							if pr == from {
								newVals[phi] = env.eval(phi.Edges[i])
								break
							}
						}
					}
				}
				for _, in := range b.Instrs {
					if v, ok := in.(ssa.Value); ok {
						delete(env, v)
					}
				}
				for k, v := range newVals {
					if v.known {
						env[k] = v
					}
				}
			}
			k := fmt.Sprintf("%d|", b.Index)
			if !q.FlagBlind {
				k += env.key()
			}
			if seen[k] {
				return false
			}
			seen[k] = true
			if q.Explored != nil {
				*q.Explored++
			}
		}
		for i := startIdx; i < len(b.Instrs); i++ {
			in := b.Instrs[i]
			if q.Target != nil && q.Target(in) {
				node.hit = in
				found = node
				return true
			}
			if q.Avoid != nil && q.Avoid(in) {
				return false
			}
		}
		// successors
		last := b.Instrs[len(b.Instrs)-1]
		type nxt struct {
			s       *ssa.BasicBlock
			assume  bool
			outcome bool
		}
		var nexts []nxt
		switch t := last.(type) {
		case *ssa.If:
			dec := envVal{}
			if !q.FlagBlind {
				dec = env.eval(t.Cond)
			}
			if dec.known && dec.c != nil && dec.c.Kind() == constant.Bool {
				if constant.BoolVal(dec.c) {
					nexts = append(nexts, nxt{b.Succs[0], true, true})
				} else {
					nexts = append(nexts, nxt{b.Succs[1], true, false})
				}
			} else {
				nexts = append(nexts, nxt{b.Succs[0], true, true}, nxt{b.Succs[1], true, false})
			}
		default:
			for _, s := range b.Succs {
				nexts = append(nexts, nxt{s, false, false})
			}
		}
		for _, n := range nexts {
			if q.AvoidEdge != nil && q.AvoidEdge(b, n.s) {
				continue
			}
			if q.TargetEdge != nil && q.TargetEdge(b, n.s) {
				found = &stateNode{b: n.s, par: node}
				return true
			}
			e2 := env
			if !q.FlagBlind {
				e2 = env.clone()
				if n.assume {
					if iff, ok := last.(*ssa.If); ok {
						e2.assume(iff.Cond, n.outcome)
					}
				}
			}
			if walkBlock(n.s, b, 0, e2, node) {
				return true
			}
		}
		return false
	}

	env := pathEnv{}
	for _, v := range q.NonNil {
		env[v] = envVal{known: true, nonNil: true}
	}
	for _, v := range q.IsNil {
		env[v] = envVal{known: true, isNil: true}
	}
	if !q.FlagBlind {
		for _, g := range q.Assume {
			env.assume(g.Cond, g.True)
		}
	}
	switch {
	case q.StartAfter != nil:
		b := q.StartAfter.Block()
		walkBlock(b, nil, instrIndex(q.StartAfter)+1, env, nil)
	case q.StartEdge[0] != nil:
		from, to := q.StartEdge[0], q.StartEdge[1]
		if iff, ok := from.Instrs[len(from.Instrs)-1].(*ssa.If); ok && !q.FlagBlind && from.Succs[0] != from.Succs[1] {
			env.assume(iff.Cond, from.Succs[0] == to)
		}
		walkBlock(to, from, 0, env, &stateNode{b: from})
	default:
		walkBlock(q.Fn.Blocks[0], nil, 0, env, nil)
	}
	if found == nil {
		return nil
	}
	var blocks []*stateNode
	for n := found; n != nil; n = n.par {
		blocks = append([]*stateNode{n}, blocks...)
	}
	var out []string
	for _, n := range blocks {
		out = append(out, describeBlock(p, n.b, n.hit))
	}
	return out
}

type stateNode struct {
	b   *ssa.BasicBlock
	par *stateNode
	hit ssa.Instruction
}

func describeBlock(p *Prog, b *ssa.BasicBlock, hit ssa.Instruction) string {
	pos := token.NoPos
	for _, in := range b.Instrs {
		if in.Pos().IsValid() {
			pos = in.Pos()
			break
		}
	}
	s := fmt.Sprintf("block %d (%s) %s", b.Index, b.Comment, p.Pos(pos))
	if hit != nil {
		s += " -> " + hit.String() + " @" + p.Pos(hit.Pos())
	}
	return s
}

// ReachesWithout reports whether a feasible path exists from just after
// `from` to an instruction satisfying target that avoids `avoid`.
func ReachesWithout(p *Prog, fn *ssa.Function, from ssa.Instruction, target, avoid func(ssa.Instruction) bool, explored *int) []string {
	return FindPath(p, PathQuery{Fn: fn, StartAfter: from, Target: target, Avoid: avoid, Explored: explored})
}

// IsReturn is a Target predicate.
func IsReturn(in ssa.Instruction) bool { _, ok := in.(*ssa.Return); return ok }
