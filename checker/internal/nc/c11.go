package nc

import (
	"fmt"
	"go/token"
	"go/types"
	"strings"

	"golang.org/x/tools/go/ssa"
)

func init() { register("C11", C11) }

// appendCall: v = append(base, elems...) with the elements passed as a
// literal vararg slice; returns base and the element values.
func appendCall(v ssa.Value) (base ssa.Value, elems []ssa.Value, ok bool) {
	c, isCall := v.(*ssa.Call)
	if !isCall {
		return nil, nil, false
	}
	b, isB := c.Call.Value.(*ssa.Builtin)
	if !isB || b.Name() != "append" || len(c.Call.Args) != 2 {
		return nil, nil, false
	}
	base = c.Call.Args[0]
	sl, isSl := c.Call.Args[1].(*ssa.Slice)
	if !isSl {
		return base, nil, true // append(a, b...)
	}
	al, isAl := sl.X.(*ssa.Alloc)
	if !isAl {
		return base, nil, true
	}
	for _, ref := range *al.Referrers() {
		if ia, isIA := ref.(*ssa.IndexAddr); isIA {
			for _, r2 := range *ia.Referrers() {
				if st, isSt := r2.(*ssa.Store); isSt {
					elems = append(elems, st.Val)
				}
			}
		}
	}
	return base, elems, true
}

// C11 — a phenotype expresses exactly the enabled part of its genome.
func C11(p *Prog, r *Run) {
	r.Explanation = "Decided: (1) Genesis provenance on every path of its loops: one NewNNodeCopy(node, node.Trait) per genome node, appended to the all-list always, to the input list exactly for Input/Bias nodes and to the output list exactly for Output nodes, recorded as the node's PhenotypeAnalogue; one NewLinkWithTrait(gene trait, gene weight, analogue of in-node, analogue of out-node, gene recurrence) per gene, exactly when the gene is enabled, appended once to the target's Incoming and once to the source's Outgoing; control nodes only for enabled modules, wired to the analogues of the listed inputs/outputs; the network is assembled from exactly those lists and stored as the genome's phenotype; (2) Organism.Phenotype builds the network iff the cache is empty and stores it, UpdatePhenotype always rebuilds; (3) NodeCount = len(allNodes)+len(controlNodes), LinkCount sums Incoming of the base nodes plus Incoming and Outgoing of the control nodes, Complexity is their sum; (4) the graph view delegates to edgeBetween with the right direction flag and iterates allNodesMIMO, Node returns the node found by the id lookup in allNodesMIMO (the nodeWithID helper or the same search written out / inlined) or nil, From/To return graph.Empty for an absent id; (5) no method with a gonum interface result wraps a possibly-nil pointer (typed nil); (6) From/To list a control node exactly when the scan of its links finds the id, for every control node and every present node; (7) Genesis fails only for a genome without genes or without output nodes; (8) From lists the OutNode of every Outgoing link and To the InNode of every Incoming link of the node (one listing per link, whole list, before any result), and edgeBetween for two ordinary nodes returns nil only after a list holding every link of the asked direction was scanned to its end with every candidate mismatching (directed u->v; undirected both directions). (9) when exactly one id is an ordinary node edgeBetween answers nil only after the matching link list of the control node selected by the other id (Incoming for node->module, Outgoing for module->node; both for an undirected query) was compared completely, or all control nodes were looked at; every link edgeBetween returns was compared equal at its far end with the right id and, for a directed query, leads from u to v; HasEdgeFromTo/HasEdgeBetween/Weight answer `the lookup found a link` (Weight with that link's weight); Nodes lists every element of allNodesMIMO once; nodeWithID returns only a node whose id matched (also where it records the position of the match and returns the element there) and, where that helper exists, answers nil only after the whole of allNodesMIMO was compared without a match; the node lists of Genesis start empty, the plain network is built only without control genes, and every module link is appended once to the control node's own list. Not decided: that the link returned for a pair joined by several links (parallel forward and recurrent genes) is a particular one of them; uniqueness of node ids is assumed."
	gen := p.Func(PkgG, "Genome.Genesis")
	r.Fn(FuncName(gen))
	tm := NewTermer(gen)
	nnCopy := p.Func(PkgN, "NewNNodeCopy")
	linkWT := p.Func(PkgN, "NewLinkWithTrait")
	newNet := p.Func(PkgN, "NewNetwork")
	newMod := p.Func(PkgN, "NewModularNetwork")
	cInput := p.Const(PkgN, "InputNeuron").Val().ExactString()
	cOutput := p.Const(PkgN, "OutputNeuron").Val().ExactString()
	cBias := p.Const(PkgN, "BiasNeuron").Val().ExactString()

	sums := NewSummaries(p)
	r.Rule("C11.1", "Genesis provenance: nodes, links (enabled genes only) and control nodes are built from the genome as stated, on every path of the three loops; the node lists start empty; the network without control nodes is built only for a genome without control genes; every module link is attached once, on the control node's side", func() {
		nets := append(CallsTo(gen, newNet), CallsTo(gen, newMod)...)
		if len(nets) != 2 {
			r.Undecided("Genesis.assembly", p.Pos(gen.Pos()), fmt.Sprintf("%d network constructor calls, expected NewNetwork and NewModularNetwork", len(nets)))
			return
		}
		plain := nets[0].Common().Args
		mod := nets[1].Common().Args
		// the three lists: loop-carried locals (header phis) or fields of a privately held struct-valued local (robust_c11.go)
		locals := structLocals(gen)
		loops := Loops(gen)
		inV := c11ListVarOf(gen, locals, loops, plain[0])
		outV := c11ListVarOf(gen, locals, loops, plain[1])
		allV := c11ListVarOf(gen, locals, loops, plain[2])
		if inV == nil || outV == nil || allV == nil {
			r.Undecided("Genesis.lists", p.Pos(nets[0].Pos()), "the node lists passed to NewNetwork are not loop-carried lists")
			return
		}
		r.Check(inV.final(mod[0]) && outV.final(mod[1]) && allV.final(mod[2]), "Genesis.assembly.same-lists", p.Pos(nets[1].Pos()), "modular and plain networks get the same three node lists", "NewModularNetwork is not given the same in/out/all lists as NewNetwork")
		r.Check(isParamIdx(tm.Of(plain[3]), 1) && isParamIdx(tm.Of(mod[4]), 1), "Genesis.assembly.id", p.Pos(nets[0].Pos()), "network id from the parameter", "the network id is not the netId parameter")
		// the four lists start empty and change only by appends (which the path rules below tie to the nodes): a list
		// made with a length holds nil nodes in front of the expressed ones
		emptyStart := ""
		for i, lv := range []*c11ListVar{inV, outV, allV} {
			if s := lv.startsEmpty(tm); s != "" {
				emptyStart = fmt.Sprintf("%s list starts as %s", []string{"input", "output", "all-nodes"}[i], s)
			}
		}
		for _, f := range phiWeb(mod[3]).Feeders {
			if _, _, isApp := appendCall(f); isApp {
				continue
			}
			if !c11IsEmptyList(f) {
				emptyStart = fmt.Sprintf("control-node list starts as %s", tm.Of(f))
			}
		}
		r.Check(emptyStart == "", "Genesis.lists.empty-start", p.Pos(gen.Pos()), "the input, output, all-nodes and control-node lists start empty and only grow by appends", "a node list of the network does not start empty ("+emptyStart+"): the network gets entries that are no expressed genome node")
		// the plain constructor (a network without control nodes) is used only for a genome without modules
		cw := phiWeb(mod[3])
		isCtl := func(v ssa.Value) bool {
			if ph, ok := v.(*ssa.Phi); ok && cw.Phis[ph] {
				return true
			}
			return tm.Of(v).String() == "recv.ControlGenes"
		}
		plainOnly := false
		for _, g := range Guards(nets[0].Block()) {
			if assertsEmptyLen(g.Cond, g.True, isCtl) {
				plainOnly = true
			}
		}
		r.Check(plainOnly, "Genesis.assembly.plain-without-modules", p.Pos(nets[0].Pos()), "NewNetwork (no control nodes) only when the genome has no control genes", "the network without control nodes is built although the genome may have control genes: enabled modules are not expressed")
		// --- node loop
		nodeLoop := inV.loop
		if nodeLoop == nil || outV.loop != nodeLoop || allV.loop != nodeLoop {
			r.Undecided("Genesis.node-loop", p.Pos(gen.Pos()), "the three lists are not carried by one loop")
			return
		}
		paths, _ := EnumIterPaths(gen, nodeLoop, 200)
		r.PathsExplored += len(paths)
		n := 0
		for _, ip := range paths {
			if ip.End != "back" {
				continue
			}
			n++
			lbl := "Genesis.node.path[" + pathKey(ip) + "]"
			pos := p.Pos(firstPos(ip))
			var copies []ssa.CallInstruction
			var analogue *ssa.Store
			for _, b := range ip.Blocks[:len(ip.Blocks)-1] {
				for _, in := range b.Instrs {
					if c, ok := in.(ssa.CallInstruction); ok && c.Common().StaticCallee() == nnCopy {
						copies = append(copies, c)
					}
					if st, ok := in.(*ssa.Store); ok {
						if f := StoredField(st); f != nil && f.Name() == "PhenotypeAnalogue" {
							analogue = st
						}
					}
				}
			}
			if len(copies) != 1 {
				r.Bad(lbl, pos, fmt.Sprintf("%d node copies per genome node", len(copies)), ip.Describe(p)...)
				continue
			}
			node := copies[0].Value()
			a := callArgTerms(tm, copies[0].Common())
			okArgs := a[0].String() == "recv.Nodes[*]" && a[1].String() == "recv.Nodes[*].Trait"
			// the role tests of the path, in whatever way the comparison is spelled (operands in either order,
			// `==` taken or `!=` not taken and the reverse): CmpFact states each outcome as a comparison that holds
			isIn, isOut := false, false
			notRole := map[string]bool{} // roles excluded on this path
			for _, g := range ip.Conds {
				x, y, op, isCmp := CmpFact(g.Cond, g.True)
				if !isCmp || (op != token.EQL && op != token.NEQ) {
					continue
				}
				xt, yt := tm.Of(x), tm.Of(y)
				if yt.String() == "recv.Nodes[*].NeuronType" {
					xt, yt = yt, xt
				}
				if xt.String() != "recv.Nodes[*].NeuronType" {
					continue
				}
				if op == token.NEQ {
					notRole[yt.String()] = true
					continue
				}
				switch yt.String() {
				case cInput, cBias:
					isIn = true
				case cOutput:
					isOut = true
				}
			}
			cAll, okAll := allV.appended(ip, node)
			cIn, okIn := inV.appended(ip, node)
			cOut, okOut := outV.appended(ip, node)
			okAn := analogue != nil && analogue.Val == node && tm.Of(analogue.Addr.(*ssa.FieldAddr).X).String() == "recv.Nodes[*]"
			// completeness: a path that skips the input (output) list must have ruled out the input and bias (output) roles
			if !cIn && !(notRole[cInput] && notRole[cBias]) {
				okIn = false
			}
			if !cOut && !notRole[cOutput] && !isIn {
				okOut = false
			}
			ok := okArgs && cAll && okAll && okIn && okOut && cIn == isIn && cOut == isOut && okAn
			r.Check(ok, lbl, pos, fmt.Sprintf("node copied once; all-list +1; input list %v; output list %v; analogue recorded", cIn, cOut),
				fmt.Sprintf("node copy args ok=%v; all-list appended=%v(ok=%v); input list appended=%v but role is input/bias=%v; output list appended=%v but role is output=%v; analogue recorded=%v", okArgs, cAll, okAll, cIn, isIn, cOut, isOut, okAn), ip.Describe(p)...)
		}
		r.Floor("node-loop paths", n, 3)

		// --- gene loop
		lcs := CallsTo(gen, linkWT)
		if len(lcs) != 1 {
			r.Bad("Genesis.gene.link", p.Pos(gen.Pos()), fmt.Sprintf("%d NewLinkWithTrait calls, expected one per gene", len(lcs)))
			return
		}
		lc := lcs[0]
		geneLoop := InnermostLoop(Loops(gen), lc.Block())
		if geneLoop == nil {
			r.Bad("Genesis.gene.loop", p.Pos(lc.Pos()), "links are not created in a loop over the genes")
			return
		}
		a := callArgTerms(tm, lc.Common())
		g := "recv.Genes[*].Link"
		want := []string{g + ".Trait", g + ".ConnectionWeight", g + ".InNode.PhenotypeAnalogue", g + ".OutNode.PhenotypeAnalogue", g + ".IsRecurrent"}
		for i, w := range want {
			r.Check(a[i].String() == w, fmt.Sprintf("Genesis.gene.link.arg%d", i), p.Pos(lc.Pos()), "link argument "+w, fmt.Sprintf("argument %d of the expressed link is %s, expected %s", i, a[i], w))
		}
		gpaths, _ := EnumIterPaths(gen, geneLoop, 200)
		r.PathsExplored += len(gpaths)
		n = 0
		for _, ip := range gpaths {
			if ip.End != "back" {
				continue
			}
			n++
			lbl := "Genesis.gene.path[" + pathKey(ip) + "]"
			pos := p.Pos(firstPos(ip))
			enabled := false
			for _, gd := range ip.Conds {
				if gt := tm.Of(gd.Cond); gt.String() == "recv.Genes[*].IsEnabled" && gd.True {
					enabled = true
				}
			}
			made := ip.OnPath(lc)
			nIn, nOut := 0, 0
			okStores := true
			for _, b := range ip.Blocks[:len(ip.Blocks)-1] {
				for _, in := range b.Instrs {
					st, ok := in.(*ssa.Store)
					if !ok {
						continue
					}
					f := StoredField(st)
					if f == nil || (f.Name() != "Incoming" && f.Name() != "Outgoing") {
						continue
					}
					// the node may be named through the link just built (newLink.OutNode): read through the constructor
					holder := c11ViaCtor(sums, gen, tm.Of(st.Addr.(*ssa.FieldAddr).X)).String()
					base, elems, isApp := appendCall(st.Val)
					okOne := isApp && len(elems) == 1 && elems[0] == lc.Value() && c11ViaCtor(sums, gen, tm.Of(base)).String() == holder+"."+f.Name()
					if f.Name() == "Incoming" {
						nIn++
						okOne = okOne && holder == g+".OutNode.PhenotypeAnalogue"
					} else {
						nOut++
						okOne = okOne && holder == g+".InNode.PhenotypeAnalogue"
					}
					if !okOne {
						okStores = false
					}
				}
			}
			if enabled {
				r.Check(made && nIn == 1 && nOut == 1 && okStores, lbl, pos, "enabled gene: one link, appended once to the target's Incoming and once to the source's Outgoing",
					fmt.Sprintf("enabled gene: link created=%v, Incoming appends=%d, Outgoing appends=%d, wired to the right nodes=%v", made, nIn, nOut, okStores), ip.Describe(p)...)
			} else {
				r.Check(!made && nIn == 0 && nOut == 0, lbl, pos, "disabled gene: contributes nothing",
					fmt.Sprintf("a gene that is not known to be enabled on this path contributes: link created=%v, Incoming appends=%d, Outgoing appends=%d", made, nIn, nOut), ip.Describe(p)...)
			}
		}
		r.Floor("gene-loop paths", n, 2)

		// --- control genes
		okCG := 0
		for _, c := range CallsTo(gen, nnCopy) {
			ct := tm.Of(c.Value())
			if !strings.HasPrefix(ct.Args[0].String(), "recv.ControlGenes[*]") {
				continue
			}
			okCG++
			en := false
			for _, gd := range Guards(c.Block()) {
				if tm.Of(gd.Cond).String() == "recv.ControlGenes[*].IsEnabled" && gd.True {
					en = true
				}
			}
			r.Check(en, "Genesis.module.enabled", p.Pos(c.Pos()), "control nodes only for enabled modules", "a control node is created for a module that is not known to be enabled")
			r.Check(ct.Args[0].String() == "recv.ControlGenes[*].ControlNode" && ct.Args[1].String() == "recv.ControlGenes[*].ControlNode.Trait", "Genesis.module.copy", p.Pos(c.Pos()), "copy of the module's control node", "the control node is copied from "+ct.Args[0].String())
			// appended to the control list handed to NewModularNetwork
			app := false
			if cV := c11ListVarOf(gen, locals, loops, mod[3]); cV != nil {
				// the list is carried by a loop (in whatever way the loop is written, and wherever in the iteration
				// the append stands): every iteration that builds the control node leaves the list as
				// append(<list at the start of the iteration>, node), every other iteration leaves it alone
				cpaths, _ := EnumIterPaths(gen, cV.loop, 200)
				r.PathsExplored += len(cpaths)
				nMade := 0
				app = true
				for _, ip := range cpaths {
					if ip.End != "back" {
						continue
					}
					changed, okApp := cV.appended(ip, c.Value())
					if ip.OnPath(c) {
						nMade++
						app = app && changed && okApp
					} else if changed {
						// another control node's iteration: its own instance of the rule decides it
						other := false
						for _, c2 := range CallsTo(gen, nnCopy) {
							if c2 != c && ip.OnPath(c2) {
								other = true
							}
						}
						app = app && other
					}
				}
				app = app && nMade > 0
			} else if ph, ok := mod[3].(*ssa.Phi); ok {
				for _, e := range ph.Edges {
					if _, elems, isApp := appendCall(e); isApp && len(elems) == 1 && elems[0] == c.Value() {
						app = true
					}
				}
			}
			r.Check(app, "Genesis.module.listed", p.Pos(c.Pos()), "the control node is listed in the network's control nodes", "the control node is not added to the list given to NewModularNetwork")
		}
		r.Floor("control-node copies", okCG, 1)
		newLink := p.Func(PkgN, "NewLink")
		nIn, nOut := 0, 0
		// wired: on every iteration that builds the module link c it is appended exactly once, to the list `want` of the
		// control node copy, and to no other link list (a module is wired on the control node's side only)
		wired := func(c ssa.CallInstruction, want string) bool {
			l := InnermostLoop(Loops(gen), c.Block())
			if l == nil {
				return false
			}
			ipaths, _ := EnumIterPaths(gen, l, 200)
			r.PathsExplored += len(ipaths)
			n := 0
			for _, ip := range ipaths {
				if ip.End != "back" || !ip.OnPath(c) {
					continue
				}
				n++
				cnt := 0
				for _, b := range ip.Blocks[:len(ip.Blocks)-1] {
					for _, in := range b.Instrs {
						st, ok := in.(*ssa.Store)
						if !ok {
							continue
						}
						f := StoredField(st)
						if f == nil || (f.Name() != "Incoming" && f.Name() != "Outgoing") {
							continue
						}
						cnt++
						holder := c11ViaCtor(sums, gen, tm.Of(st.Addr.(*ssa.FieldAddr).X))
						base, elems, isApp := appendCall(st.Val)
						if f.Name() != want || !isCallTo(holder, nnCopy) || len(holder.Args) == 0 || !strings.HasPrefix(holder.Args[0].String(), "recv.ControlGenes[*]") ||
							!isApp || len(elems) != 1 || elems[0] != c.Value() || c11ViaCtor(sums, gen, tm.Of(base)).String() != holder.String()+"."+want {
							return false
						}
					}
				}
				if cnt != 1 {
					return false
				}
			}
			return n > 0
		}
		for _, c := range CallsTo(gen, newLink) {
			a := callArgTerms(tm, c.Common())
			l := strings.TrimSuffix(a[0].String(), ".ConnectionWeight")
			switch {
			case strings.Contains(l, ".Incoming[*]"):
				nIn++
				ok := a[1].String() == l+".InNode.PhenotypeAnalogue" && isCallTo(a[2], nnCopy) && a[3].String() == "false"
				r.Check(ok, "Genesis.module.input-link", p.Pos(c.Pos()), "module input: analogue of the listed input -> control node", "module input link is "+a[1].String()+" -> "+a[2].String())
				r.Check(wired(c, "Incoming"), "Genesis.module.input-wired", p.Pos(c.Pos()), "the module input link is appended once to the control node's Incoming list and to no other list", "the module input link is not appended exactly once to the Incoming list of the control node copy (and to nothing else): the module's input is missing from the graph view, or listed on the wrong side")
			case strings.Contains(l, ".Outgoing[*]"):
				nOut++
				ok := isCallTo(a[1], nnCopy) && a[2].String() == l+".OutNode.PhenotypeAnalogue" && a[3].String() == "false"
				r.Check(ok, "Genesis.module.output-link", p.Pos(c.Pos()), "module output: control node -> analogue of the listed output", "module output link is "+a[1].String()+" -> "+a[2].String())
				r.Check(wired(c, "Outgoing"), "Genesis.module.output-wired", p.Pos(c.Pos()), "the module output link is appended once to the control node's Outgoing list and to no other list", "the module output link is not appended exactly once to the Outgoing list of the control node copy (and to nothing else): the module's output is missing from the graph view, or listed on the wrong side")
			default:
				r.Bad("Genesis.module.link", p.Pos(c.Pos()), "a module link built from "+l)
			}
		}
		r.Check(nIn == 1 && nOut == 1, "Genesis.module.links", p.Pos(gen.Pos()), "one input and one output wiring loop", fmt.Sprintf("%d input and %d output wiring sites", nIn, nOut))
		// phenotype stored and returned
		var stored *ssa.Store
		for _, st := range FieldStores(gen, p.Field(PkgG, "Genome", "Phenotype")) {
			stored = st
		}
		okRet := false
		for _, b := range gen.Blocks {
			if ret, ok := b.Instrs[len(b.Instrs)-1].(*ssa.Return); ok && stored != nil && ret.Results[0] == stored.Val && tm.Of(ret.Results[1]).Op == "nil" {
				okRet = true
			}
		}
		r.Check(okRet, "Genesis.result", p.Pos(gen.Pos()), "the assembled network is stored as the phenotype and returned", "the network returned is not the one stored as the genome's phenotype")
	})

	r.Rule("C11.7", "Genesis fails only for a genome without connection genes or without output nodes; whether genes are enabled never makes it fail", func() {
		nets := CallsTo(gen, newNet)
		if len(nets) != 1 {
			r.Undecided("Genesis.failure", p.Pos(gen.Pos()), fmt.Sprintf("%d NewNetwork calls; the output list cannot be identified", len(nets)))
			return
		}
		r.c11GenesisFailures(gen, tm, nets[0].Common().Args[1])
	})

	r.Rule("C11.2", "organism cache: Phenotype() expresses the genome iff nothing is cached and keeps the result; UpdatePhenotype always rebuilds", func() {
		ph := p.Func(PkgG, "Organism.Phenotype")
		up := p.Func(PkgG, "Organism.UpdatePhenotype")
		r.Fn(FuncName(ph), FuncName(up))
		tp := NewTermer(ph)
		cache := p.Field(PkgG, "Organism", "orgPhenotype")
		cs := CallsTo(ph, gen)
		ok := len(cs) == 1
		if ok {
			g := false
			for _, gd := range Guards(cs[0].Block()) {
				// nothing cached: `orgPhenotype == nil` taken or `!= nil` not taken, either operand order
				if x, y, isEq := eqCond(tp, gd); isEq && ((x.String() == "recv.orgPhenotype" && y.Op == "nil") || (y.String() == "recv.orgPhenotype" && x.Op == "nil")) {
					g = true
				}
			}
			st := FieldStores(ph, cache)
			ok = g && len(st) == 1 && tp.Of(st[0].Val).Op == "extract" && tp.Of(st[0].Val).Args[0].V == cs[0].Value()
			a := callArgTerms(tp, cs[0].Common())
			ok = ok && a[0].String() == "recv.Genotype"
		}
		r.Check(ok, "Organism.Phenotype", p.Pos(ph.Pos()), "Genesis under orgPhenotype == nil, result cached", "Phenotype() does not build and cache the network exactly when nothing is cached")
		tu := NewTermer(up)
		cu := CallsTo(up, gen)
		okU := len(cu) == 1 && len(Guards(cu[0].Block())) == 0
		if okU {
			okU = false
			for _, st := range FieldStores(up, cache) {
				if v := tu.Of(st.Val); v.Op == "extract" && v.Args[0].V == cu[0].Value() {
					okU = true
				}
			}
		}
		r.Check(okU, "Organism.UpdatePhenotype", p.Pos(up.Pos()), "always rebuilds and stores", "UpdatePhenotype does not unconditionally rebuild the cached network")
	})

	r.Rule("C11.8", "no stale phenotype (a method that changes the structure of its receiver genome drops the cached network - defect F19): the network cached in Genome.Phenotype is written only by Genesis (the network it just built) or cleared; a function that expresses a genome and afterwards changes the genome's genes or nodes clears the cache (or expresses it again) before it returns - otherwise NewOrganism adopts a network that lacks the change and Organism.Phenotype() never rebuilds it", func() {
		r.c11StaleCache(gen)
	})

	r.Rule("C11.3", "counts: NodeCount = base + control nodes; LinkCount = Σ Incoming of base nodes + Σ (Incoming+Outgoing) of control nodes; Complexity is their sum", func() {
		nc := p.Func(PkgN, "Network.NodeCount")
		lc := p.Func(PkgN, "Network.LinkCount")
		cx := p.Func(PkgN, "Network.Complexity")
		r.Fn(FuncName(nc), FuncName(lc), FuncName(cx))
		// The returned values are computed as symbolic sums (robust_c11.go): whatever way the sum is written -
		// two returns under an emptiness test or one accumulator, `x += a; x += b` or `x += a + b`, a guard
		// around the loop over a possibly empty list or none, the cached field or a local as accumulator - the
		// result must be exactly the wanted addends, each once; one may be missing only where its list is empty.
		whyN := c11ReturnIs(nc, NewTermer(nc), nil, []c11Want{
			{"len(recv.allNodes)", "recv.allNodes"},
			{"len(recv.controlNodes)", "recv.controlNodes"},
		})
		r.Check(whyN == "", "NodeCount", p.Pos(nc.Pos()), "len(allNodes) + len(controlNodes)", "NodeCount is not len(allNodes)+len(controlNodes): "+whyN)
		whyL := c11ReturnIs(lc, NewTermer(lc), p.Field(PkgN, "Network", "numLinks"), []c11Want{
			{"Σ len(recv.allNodes[*].Incoming)", "recv.allNodes"},
			{"Σ len(recv.controlNodes[*].Incoming)", "recv.controlNodes"},
			{"Σ len(recv.controlNodes[*].Outgoing)", "recv.controlNodes"},
		})
		r.Check(whyL == "", "LinkCount", p.Pos(lc.Pos()), "Σ Incoming(base) + Σ Incoming,Outgoing(control), from 0", "LinkCount is not Σ len(Incoming) over all base nodes + Σ (len(Incoming)+len(Outgoing)) over all control nodes, counted from 0 (each link of a base node is counted once, on its target): "+whyL)
		tc := NewTermer(cx)
		okC := false
		for _, b := range cx.Blocks {
			if ret, ok := b.Instrs[len(b.Instrs)-1].(*ssa.Return); ok {
				s := tc.Of(ret.Results[0]).String()
				okC = s == "(Network.NodeCount(recv)+Network.LinkCount(recv))" || s == "(Network.LinkCount(recv)+Network.NodeCount(recv))"
			}
		}
		r.Check(okC, "Complexity", p.Pos(cx.Pos()), "NodeCount()+LinkCount()", "Complexity is not NodeCount()+LinkCount()")
	})

	r.Rule("C11.4", "graph view delegation: Edge, WeightedEdge, Weight, HasEdgeFromTo use the directed lookup, HasEdgeBetween the undirected one, and answer exactly `a link was found` (Weight: with the weight of that link); Node/Nodes cover allNodesMIMO (every element once; a node is returned only for its own id, and nil only when no element has the id); From/To return graph.Empty for an absent id", func() {
		eb := p.Func(PkgN, "Network.edgeBetween")
		// A query delegates either to edgeBetween(u, v, <direction>) itself or to another query of the same
		// direction that does (HasEdgeFromTo as `n.Edge(u, v) != nil`, Weight through WeightedEdge), with its two
		// ids in order: the lookup that decides the answer is then still edgeBetween(u, v, <direction>).
		queries := map[string]string{"Edge": "true", "WeightedEdge": "true", "Weight": "true", "HasEdgeFromTo": "true", "HasEdgeBetween": "false"}
		idsInOrder := func(tf *Termer, c ssa.CallInstruction) bool {
			a := callArgTerms(tf, c.Common())
			return len(a) >= 3 && a[0].Op == "recv" && isParamIdx(a[1], 1) && isParamIdx(a[2], 2)
		}
		direct := map[string]bool{}
		for name, directed := range queries {
			fn := p.Func(PkgN, "Network."+name)
			tf := NewTermer(fn)
			if cs := CallsTo(fn, eb); len(cs) == 1 {
				a := callArgTerms(tf, cs[0].Common())
				direct[name] = idsInOrder(tf, cs[0]) && a[3].String() == directed
			}
		}
		for name, directed := range queries {
			fn := p.Func(PkgN, "Network."+name)
			r.Fn(FuncName(fn))
			tf := NewTermer(fn)
			ok := direct[name]
			if !ok && len(CallsTo(fn, eb)) == 0 {
				n := 0
				for peer, d := range queries {
					if peer == name {
						continue
					}
					for _, c := range CallsTo(fn, p.Func(PkgN, "Network."+peer)) {
						n++
						ok = d == directed && direct[peer] && idsInOrder(tf, c)
					}
				}
				ok = ok && n == 1
			}
			r.Check(ok, "graph."+name, p.Pos(fn.Pos()), "edgeBetween(u, v, "+directed+")", name+" does not delegate to edgeBetween(u, v, "+directed+") with its two ids in order")
		}
		// The node lookup: the pinned helper nodeWithID, or - where a refactoring replaced it by a new helper that
		// the normaliser inlined, or wrote the search out - a result variable that receives nil or the element of
		// allNodesMIMO whose id was compared equal with the id parameter (robust_c11.go, c11Lookup).
		nw := p.FuncOpt(PkgN, "Network.nodeWithID")
		nodeFn := p.Func(PkgN, "Network.Node")
		lkNode := newC11Lookup(nodeFn, NewTermer(nodeFn), nw)
		if nw != nil {
			tn := NewTermer(nw)
			okN := false
			for _, b := range nw.Blocks {
				if ret, ok := b.Instrs[len(b.Instrs)-1].(*ssa.Return); ok {
					if t := tn.Of(ret.Results[0]); t.String() == "recv.allNodesMIMO[*]" {
						okN = true
					}
				}
			}
			r.Check(okN, "graph.nodeWithID", p.Pos(nw.Pos()), "searches allNodesMIMO", "nodeWithID does not search the list that includes the control nodes")
			// ... and returns an element only where that element's id was compared equal with the id asked for
			lkw := newC11Lookup(nw, tn, nil)
			okM := true
			for _, b := range nw.Blocks {
				ret, ok := b.Instrs[len(b.Instrs)-1].(*ssa.Return)
				if !ok || len(ret.Results) != 1 {
					continue
				}
				var visit func(v ssa.Value, conds []Guard, d int)
				visit = func(v ssa.Value, conds []Guard, d int) {
					if c11IsNilConst(v) {
						return
					}
					if ph, isPhi := v.(*ssa.Phi); isPhi && d < 6 {
						for i, e := range ph.Edges {
							visit(e, c11EdgeConds(ph.Block().Preds[i], ph.Block()), d+1)
						}
						return
					}
					if !lkw.matchedElem(v, conds) {
						okM = false
					}
				}
				visit(ret.Results[0], Guards(b), 0)
			}
			r.Check(okM, "graph.nodeWithID.match", p.Pos(nw.Pos()), "a node is returned only where its id was compared equal with the id asked for", "nodeWithID can return a node whose id was not compared equal with the id asked for: Node/From/To answer for another node")
			// ... and answers nil only after the whole list was compared without a match (robust_c11.go)
			explored := 0
			whyC, witC := c11LookupComplete(p, nw, tn, &explored)
			r.PathsExplored += explored
			r.Check(whyC == "", "graph.nodeWithID.complete", p.Pos(nw.Pos()), "nil is answered only after every element of allNodesMIMO was compared with the id asked for and found different",
				"nodeWithID can answer nil although allNodesMIMO holds a node with the id asked for ("+whyC+"): Node reports a present node as absent, From/To answer graph.Empty for it", witC...)
		} else {
			// no such helper in this tree: each of Node, From and To must carry the search itself
			var missing []string
			for _, name := range []string{"Node", "From", "To"} {
				fn := p.Func(PkgN, "Network."+name)
				if len(newC11Lookup(fn, NewTermer(fn), nil).inlineLookups()) == 0 {
					missing = append(missing, name)
				}
			}
			r.Check(len(missing) == 0, "graph.nodeWithID", p.Pos(nodeFn.Pos()), "no nodeWithID helper: Node, From and To each search allNodesMIMO for the id themselves",
				"there is no nodeWithID helper and no search of allNodesMIMO (the list that includes the control nodes) for the id parameter is found in: "+strings.Join(missing, ", "))
		}
		r.Fn(FuncName(nodeFn))
		okNode, whyNode := lkNode.returnsLookup()
		r.Check(okNode, "graph.Node", p.Pos(nodeFn.Pos()), "returns the node found in allNodesMIMO, or nil", "Node does not return the node with the given id looked up in allNodesMIMO (or nil): "+whyNode)
		nodes := p.Func(PkgN, "Network.Nodes")
		okNs := false
		tns := NewTermer(nodes)
		Instrs(nodes, func(_ *ssa.BasicBlock, _ int, in ssa.Instruction) {
			if st, ok := in.(*ssa.Store); ok {
				if _, isIA := st.Addr.(*ssa.IndexAddr); isIA && strings.Contains(tns.Of(st.Val).String(), "recv.allNodesMIMO[*]") {
					okNs = true
				}
			}
		})
		r.Check(okNs, "graph.Nodes", p.Pos(nodes.Pos()), "lists allNodesMIMO", "Nodes() does not list allNodesMIMO")
		for _, name := range []string{"From", "To"} {
			fn := p.Func(PkgN, "Network."+name)
			tf := NewTermer(fn)
			lk := newC11Lookup(fn, tf, nw)
			okE := false
			// one result per return instruction, or per edge entering a return block that several results share
			// (the body moved into a new helper and inlined again: robust_c11.go, c11Results)
			for _, res := range c11Results(fn, 0) {
				isEmpty := false
				if mi, ok := res.v.(*ssa.MakeInterface); ok {
					if c, ok := mi.X.(*ssa.Const); ok {
						if nt, ok := c.Type().(*types.Named); ok && nt.Obj().Pkg() != nil && nt.Obj().Pkg().Path() == "gonum.org/v1/gonum/graph" {
							isEmpty = true // the constant graph.Empty
						}
					}
				}
				if isEmpty {
					for _, gd := range res.conds {
						// the lookup found nothing: `node == nil` taken, or `node != nil` not taken, either operand order
						if lk.absent(gd) {
							okE = true
						}
					}
				}
			}
			r.Check(okE, "graph."+name+".absent", p.Pos(fn.Pos()), "graph.Empty for an absent id", name+" does not return graph.Empty for an absent node id")
			side, end := "Outgoing", "OutNode"
			if name == "To" {
				side, end = "Incoming", "InNode"
			}
			okS := false
			Instrs(fn, func(_ *ssa.BasicBlock, _ int, in ssa.Instruction) {
				if st, ok := in.(*ssa.Store); ok {
					if _, isIA := st.Addr.(*ssa.IndexAddr); isIA {
						if s := tf.Of(st.Val).String(); strings.HasSuffix(s, "."+side+"[*]."+end) {
							okS = true
						}
					}
				}
			})
			r.Check(okS, "graph."+name+".neighbours", p.Pos(fn.Pos()), "collects "+end+" of every "+side+" link", name+" does not collect the "+end+" of every "+side+" link of the node")
		}
		r.c11NodesComplete()
		r.c11QueryResults()
	})

	r.Rule("C11.6", "graph lookups: edgeBetween compares every node with both ids independently (self-loop queries) and scans until both are found; From/To list every control node that has the id at the far end of one of its links; From/To list the far end of EVERY Outgoing/Incoming link of the node; for two ordinary nodes edgeBetween answers nil only after a complete scan, in which every candidate mismatched, of a list that holds every link of the asked direction; with one ordinary node it answers nil only after the matching link list of the control node with the other id (or all control nodes) was compared completely; it returns a link only where that link was found to join the two ids in the asked direction", func() {
		r.c11GraphLookups()
		r.c11NeighbourLists()
		r.c11OrdinaryScans()
		r.c11ControlScans()
		r.c11PositiveAnswers()
	})

	r.Rule("C11.5", "no typed-nil interface results: a pointer is converted to a gonum interface result only where it is known to be non-nil", func() {
		n := 0
		check := func(prog *Prog, fn *ssa.Function) (bad []string) {
			res := fn.Signature.Results()
			for i := 0; i < res.Len(); i++ {
				if _, isI := res.At(i).Type().Underlying().(*types.Interface); !isI || typeShort(res.At(i).Type()) == "error" {
					continue
				}
				for _, b := range fn.Blocks {
					ret, ok := b.Instrs[len(b.Instrs)-1].(*ssa.Return)
					if !ok {
						continue
					}
					var visit func(v ssa.Value, at *ssa.BasicBlock, depth int)
					visit = func(v ssa.Value, at *ssa.BasicBlock, depth int) {
						if depth > 4 {
							return
						}
						switch x := v.(type) {
						case *ssa.Phi:
							for j, e := range x.Edges {
								visit(e, x.Block().Preds[j], depth+1)
							}
						case *ssa.MakeInterface:
							if _, isPtr := x.X.Type().Underlying().(*types.Pointer); !isPtr {
								return
							}
							// only pointers that can be nil by construction: results of repository
							// functions that have a `return nil` path (lookups such as nodeWithID, edgeBetween)
							if !mayReturnNil(x.X) {
								return
							}
							n++
							if nonNilAt(x.X, x.Block()) || nonNilAt(x.X, at) {
								return
							}
							bad = append(bad, prog.Pos(x.Pos()))
						}
					}
					visit(ret.Results[i], b, 0)
				}
			}
			return bad
		}
		for _, fn := range p.SrcFuncs() {
			if fn.Pkg == nil || fn.Pkg.Pkg.Path() != PkgN || fn.Signature.Recv() == nil {
				continue
			}
			for _, pos := range check(p, fn) {
				r.Bad(fn.Name()+".typed-nil", pos, FuncName(fn)+" wraps a possibly-nil pointer in its interface result: for an absent node/edge the caller's `== nil` test is false")
			}
		}
		r.OK("typed-nil.scan", "neat/network", fmt.Sprintf("%d pointer-to-interface conversions reaching an interface result, all guarded by a nil test", n))
		r.Floor("pointer-to-interface result conversions", n, 1)
		if p.Fix != nil {
			if ffn := p.Fix.FuncOpt("typednil", "Store.Get"); ffn != nil && len(check(p.Fix, ffn)) > 0 {
				r.Note("positive fixture typednil.Store.Get reported")
			} else {
				r.add("rule-inert", "fixture:typednil", "-", "the typed-nil rule did not report its fixture", nil)
			}
		}
	})
}

// mayReturnNil: v is the result of a call to a function with a body in which some return yields nil, or the
// result variable (phi) of such a lookup inlined / written out in place: one of its inputs is nil or such a call.
func mayReturnNil(v ssa.Value) bool {
	if ph, isPhi := v.(*ssa.Phi); isPhi {
		// the result variable of a lookup that was inlined or written out: nil on some path by construction
		return c11PhiMayBeNil(ph)
	}
	var c *ssa.Call
	idx := 0
	switch x := v.(type) {
	case *ssa.Call:
		c = x
	case *ssa.Extract:
		c, _ = x.Tuple.(*ssa.Call)
		idx = x.Index
	}
	if c == nil {
		return false
	}
	callee := c.Call.StaticCallee()
	if callee == nil || callee.Blocks == nil {
		return false
	}
	for _, b := range callee.Blocks {
		if ret, ok := b.Instrs[len(b.Instrs)-1].(*ssa.Return); ok && idx < len(ret.Results) {
			var hasNil func(v ssa.Value, d int) bool
			hasNil = func(v ssa.Value, d int) bool {
				if k, ok := v.(*ssa.Const); ok && k.Value == nil {
					return true
				}
				if ph, ok := v.(*ssa.Phi); ok && d < 4 {
					for _, e := range ph.Edges {
						if hasNil(e, d+1) {
							return true
						}
					}
				}
				return false
			}
			if hasNil(ret.Results[idx], 0) {
				return true
			}
		}
	}
	return false
}

// nonNilAt: v is known non-nil in block b (allocation, or a dominating nil test).
func nonNilAt(v ssa.Value, b *ssa.BasicBlock) bool {
	switch v.(type) {
	case *ssa.Alloc, *ssa.MakeInterface, *ssa.Function, *ssa.MakeClosure:
		return true
	}
	for _, g := range Guards(b) {
		bo, ok := g.Cond.(*ssa.BinOp)
		if !ok {
			continue
		}
		var other ssa.Value
		if bo.X == v {
			other = bo.Y
		} else if bo.Y == v {
			other = bo.X
		} else {
			continue
		}
		if c, isC := other.(*ssa.Const); isC && c.Value == nil {
			if (bo.Op.String() == "!=" && g.True) || (bo.Op.String() == "==" && !g.True) {
				return true
			}
		}
	}
	return false
}

func keysOf(m map[string]bool) []string {
	var out []string
	for k := range m {
		out = append(out, k)
	}
	return out
}

// c11StaleCache: see rule C11.8. Found by a seeding sub-agent as a genuine defect of the pinned tree (F15):
// mutateAddLink expressed a fresh genome for its recurrence test, inserted the new gene and left the network
// without that gene in Genome.Phenotype, which NewOrganism adopts as the organism's phenotype.
func (r *Run) c11StaleCache(gen *ssa.Function) {
	p := r.P
	cache := p.Field(PkgG, "Genome", "Phenotype")
	writers := map[*ssa.Function]bool{}
	for _, n := range []string{"Genome.geneInsert", "Genome.nodeInsert", "Genome.addNode", "Genome.addNodes"} {
		if f := p.FuncOpt(PkgG, n); f != nil {
			writers[f] = true
		}
	}
	lists := map[*types.Var]bool{}
	for _, n := range []string{"Genes", "Nodes", "ControlGenes"} {
		lists[p.Field(PkgG, "Genome", n)] = true
	}
	enabled := p.Field(PkgG, "Gene", "IsEnabled")
	isNil := func(v ssa.Value) bool { k, ok := v.(*ssa.Const); return ok && k.Value == nil }
	nStores, nSites := 0, 0
	for _, fn := range p.SrcFuncs() {
		if fn.Pkg == nil || fn.Pkg.Pkg.Path() != PkgG {
			continue
		}
		// who writes the cache, and what
		for _, st := range FieldStores(fn, cache) {
			nStores++
			if isNil(st.Val) {
				r.OK("cache-writer:"+FuncName(fn), p.Pos(st.Pos()), "the cached network is cleared")
				continue
			}
			okW := fn == gen
			if okW {
				// the network Genesis assembled in this call
				c, isCall := st.Val.(*ssa.Call)
				if ph, isPhi := st.Val.(*ssa.Phi); isPhi {
					okW = true
					for _, e := range ph.Edges {
						if _, ok := e.(*ssa.Call); !ok {
							okW = false
						}
					}
				} else {
					okW = isCall && c != nil
				}
			}
			r.Check(okW, "cache-writer:"+FuncName(fn), p.Pos(st.Pos()), "Genesis caches the network it built", FuncName(fn)+" stores a network into Genome.Phenotype that Genesis did not just build from this genome")
		}
		if fn == gen {
			continue
		}
		for _, gc := range CallsTo(fn, gen) {
			x := gc.Common().Args[0]
			clears := func(in ssa.Instruction) bool {
				if st, ok := in.(*ssa.Store); ok && StoredField(st) == cache && isNil(st.Val) && st.Addr.(*ssa.FieldAddr).X == x {
					return true
				}
				if c, ok := in.(ssa.CallInstruction); ok && c.Common().StaticCallee() == gen && len(c.Common().Args) > 0 && c.Common().Args[0] == x {
					return true
				}
				return false
			}
			var changes []ssa.Instruction
			Instrs(fn, func(_ *ssa.BasicBlock, _ int, in ssa.Instruction) {
				switch y := in.(type) {
				case ssa.CallInstruction:
					if writers[y.Common().StaticCallee()] && len(y.Common().Args) > 0 && y.Common().Args[0] == x {
						changes = append(changes, in)
					}
				case *ssa.Store:
					f := StoredField(y)
					if f == enabled || (lists[f] && y.Addr.(*ssa.FieldAddr).X == x) {
						changes = append(changes, in)
					}
				}
			})
			for _, ch := range changes {
				// only changes that can happen after the genome was expressed
				after := ch.Block() == gc.Block() && instrIndex(ch) > instrIndex(gc) || ch.Block() != gc.Block() && (gc.Block().Dominates(ch.Block()) || reachesBlock(gc.Block(), ch.Block()))
				if !after {
					continue
				}
				nSites++
				r.CallSites++
				path := FindPath(p, PathQuery{Fn: fn, FlagBlind: true, StartAfter: ch, Target: IsReturn, Avoid: clears})
				r.Check(path == nil, "stale:"+FuncName(fn), p.Pos(ch.Pos()), "after this change of the expressed genome the cached network is cleared or rebuilt on every path to a return",
					FuncName(fn)+" expresses the genome (Genesis caches the network in Genome.Phenotype) and changes the genome afterwards, but can return without clearing the cache: NewOrganism adopts the stale network and the organism is evaluated on a phenotype that lacks the change", path...)
			}
		}
		r.Fn(FuncName(fn))
	}
	// (b) whoever changes an EXISTING genome drops its cache (defect F19): a method that inserts a gene or node into
	// its receiver, replaces one of its lists or switches one of its genes on or off reaches no return with a cache
	// that was filled before the change - a clear (or a fresh Genesis) follows the change on every path, or a clear
	// dominates it and the method never expresses the genome itself. NewOrganism adopts the cache and
	// mutateAddLink consults it; nothing else tells them that it is out of date.
	nCh := 0
	for _, fn := range p.SrcFuncs() {
		if fn.Pkg == nil || fn.Pkg.Pkg.Path() != PkgG || fn == gen || writers[fn] || fn.Signature.Recv() == nil || len(fn.Params) == 0 || fn.Synthetic != "" {
			continue
		}
		if pt, ok := fn.Signature.Recv().Type().(*types.Pointer); !ok || pt.Elem().String() != PkgG+".Genome" {
			continue
		}
		x := ssa.Value(fn.Params[0])
		tmx := NewTermer(fn)
		clears := func(in ssa.Instruction) bool {
			if st, ok := in.(*ssa.Store); ok && StoredField(st) == cache && isNil(st.Val) && st.Addr.(*ssa.FieldAddr).X == x {
				return true
			}
			if c, ok := in.(ssa.CallInstruction); ok && c.Common().StaticCallee() == gen && len(c.Common().Args) > 0 && c.Common().Args[0] == x {
				return true
			}
			return false
		}
		expresses := len(CallsTo(fn, gen)) > 0
		var clearStores []*ssa.Store
		for _, st := range FieldStores(fn, cache) {
			if isNil(st.Val) && st.Addr.(*ssa.FieldAddr).X == x {
				clearStores = append(clearStores, st)
			}
		}
		var changes []ssa.Instruction
		Instrs(fn, func(_ *ssa.BasicBlock, _ int, in ssa.Instruction) {
			switch y := in.(type) {
			case ssa.CallInstruction:
				if writers[y.Common().StaticCallee()] && len(y.Common().Args) > 0 && y.Common().Args[0] == x {
					changes = append(changes, in)
				}
			case *ssa.Store:
				f := StoredField(y)
				fa, _ := y.Addr.(*ssa.FieldAddr)
				if fa == nil {
					return
				}
				if lists[f] && fa.X == x {
					changes = append(changes, in)
				}
				if f == enabled && c11IsRecvGene(tmx.Of(fa.X), 0) {
					changes = append(changes, in)
				}
			}
		})
		for _, ch := range changes {
			nCh++
			dominated := false
			if !expresses {
				for _, st := range clearStores {
					if (st.Block() == ch.Block() && instrIndex(st) < instrIndex(ch)) || (st.Block() != ch.Block() && st.Block().Dominates(ch.Block())) {
						dominated = true
					}
				}
			}
			var path []string
			if !dominated {
				path = FindPath(p, PathQuery{Fn: fn, FlagBlind: true, StartAfter: ch, Target: IsReturn, Avoid: clears})
			}
			r.Check(dominated || path == nil, "cache-dropped:"+FuncName(fn), p.Pos(ch.Pos()), "this change of the receiver genome is accompanied by dropping (or rebuilding) its cached network",
				FuncName(fn)+" changes the structure of its receiver (a gene or node inserted, a gene switched on or off) and can return with Genome.Phenotype still holding the network built before the change: NewOrganism adopts it (the organism is evaluated on a phenotype that does not express its genome) and mutateAddLink consults it for its recurrence test (a node added meanwhile has no counterpart in it)", path...)
		}
		r.Fn(FuncName(fn))
	}
	r.Floor("changes of an existing genome by its own methods", nCh, 6)
	r.Floor("stores to Genome.Phenotype", nStores, 1)
	r.Note("C11.8: %d change(s) of a genome after its expression inside one function", nSites)
}

// c11IsRecvGene: the term denotes (possibly) an element of the receiver's gene list: recv.Genes[*], or a merge one
// of whose alternatives is such an element. A copy made from such an element (a constructor call) is not one.
func c11IsRecvGene(t *Term, depth int) bool {
	if t == nil || depth > 6 {
		return false
	}
	switch t.Op {
	case "elem":
		if len(t.Args) > 0 && t.Args[0].Op == "field" && t.Args[0].Name == "Genes" && len(t.Args[0].Args) > 0 && t.Args[0].Args[0].Op == "recv" {
			return true
		}
	case "phi", "loop":
		for _, a := range t.Args {
			if c11IsRecvGene(a, depth+1) {
				return true
			}
		}
	}
	return false
}
