package nc

import (
	"golang.org/x/tools/go/ssa"
)

// Guard cases: the reaching condition of a block as a disjunction.
//
// Guards(b) lists the branch outcomes that hold on EVERY way to b - the
// conditions of edges that dominate b. A block reached through a compound
// condition written with `||` (or the body two sibling branches were merged
// into, `if a || (b && c) { shared; if a {..} else {..} }`) has no dominating
// edge for that condition, so Guards says nothing about it and a rule cannot
// tell the alternatives apart.
//
// GuardCases(b) states the same knowledge as a disjunction of conjunctions:
// every execution that reaches b satisfies ALL outcomes of at least one case,
// and the cases are pairwise different in at least one outcome taken on the
// way. It is computed along the dominator chain b = x0, x1 = idom(x0), ...:
// for the step d = idom(x) -> x
//
//   - when one out-edge of d dominates b the step contributes that outcome
//     (exactly what Guards does);
//   - otherwise the simple paths from d to the FIRST visit of x are
//     enumerated (blocks that x dominates cannot lie on them, d is not
//     re-entered); every path contributes the conjunction of the branch
//     outcomes taken on it. The region between d and x must be acyclic, so
//     every condition on such a path is evaluated once; conditions computed
//     in d or above are not recomputed before b is reached (any cycle through
//     x and a strict dominator D of d passes d).
//
// and the cases of b are the products of the steps' alternatives. Outcomes are
// resolved into atomic ones (resolveGuards: negations, materialised
// short-circuit phis). A conjunction that holds the same condition (SSA value)
// with both outcomes is dropped - it is no execution. Two alternatives that
// differ only in the outcome of one condition are merged into one without it,
// and an alternative that contains another one is dropped (both are
// identities of propositional logic, so the disjunction stays EXACT); this
// removes what does not matter for reaching b (`if debug { log }` on the way).
//
// within (optional) limits the case analysis to the steps whose deciding block
// d lies in a region - for a rule about one iteration of a loop: the loop's
// blocks. Steps outside contribute their dominating edge only, as in Guards (a
// disjunction tested before the loop does not tell iterations apart).
//
// exact=false: a step could not be enumerated (cyclic region, too many paths);
// that step then contributes nothing, i.e. the cases are still implied by
// reaching b but say less than they could (as Guards would).
func GuardCases(b *ssa.BasicBlock, within map[*ssa.BasicBlock]bool) (cases [][]Guard, exact bool) {
	const maxCases = 64
	exact = true
	cases = [][]Guard{nil}
	for x := b; x != nil; {
		d := x.Idom()
		if d == nil {
			break
		}
		alts, ok := stepAlternatives(d, x, b, within != nil && !within[d])
		if !ok {
			exact = false
			alts = [][]Guard{nil}
		}
		var next [][]Guard
		for _, c := range cases {
			for _, a := range alts {
				m, feasible := mergeConj(c, a)
				if feasible {
					next = append(next, m)
				}
			}
		}
		next = simplifyDNF(next)
		if len(next) > maxCases {
			// keep what was known so far, ignore this step
			exact = false
		} else {
			cases = next
		}
		x = d
	}
	return cases, exact
}

// stepAlternatives: the alternatives of the step d = idom(x) -> x (see GuardCases).
func stepAlternatives(d, x, b *ssa.BasicBlock, dominatingOnly bool) ([][]Guard, bool) {
	iff, isIf := d.Instrs[len(d.Instrs)-1].(*ssa.If)
	if !isIf || len(d.Succs) != 2 || d.Succs[0] == d.Succs[1] {
		return [][]Guard{nil}, true
	}
	if edgeDominates(d, d.Succs[0], b) {
		return [][]Guard{resolveGuards([]Guard{{iff.Cond, true, d}})}, true
	}
	if edgeDominates(d, d.Succs[1], b) {
		return [][]Guard{resolveGuards([]Guard{{iff.Cond, false, d}})}, true
	}
	if dominatingOnly {
		return [][]Guard{nil}, true
	}
	// region: blocks from which x is reached without passing d, x's own subtree excluded
	region := map[*ssa.BasicBlock]bool{}
	stack := []*ssa.BasicBlock{x}
	for len(stack) > 0 {
		y := stack[len(stack)-1]
		stack = stack[:len(stack)-1]
		for _, p := range y.Preds {
			if p == d || region[p] || p == x || x.Dominates(p) {
				continue
			}
			region[p] = true
			stack = append(stack, p)
		}
	}
	const maxPaths = 256
	var alts [][]Guard
	ok := true
	onPath := map[*ssa.BasicBlock]bool{}
	var walk func(y *ssa.BasicBlock, conds []Guard)
	walk = func(y *ssa.BasicBlock, conds []Guard) {
		if !ok {
			return
		}
		if y == x {
			if len(alts) >= maxPaths {
				ok = false
				return
			}
			r := resolveGuards(conds)
			if m, feasible := mergeConj(nil, r); feasible {
				alts = append(alts, m)
			}
			return
		}
		if y != d && !region[y] {
			return // cannot reach x (or only through d again)
		}
		if onPath[y] {
			ok = false // a cycle between d and x
			return
		}
		onPath[y] = true
		defer func() { onPath[y] = false }()
		if yi, isIf := y.Instrs[len(y.Instrs)-1].(*ssa.If); isIf && len(y.Succs) == 2 && y.Succs[0] != y.Succs[1] {
			walk(y.Succs[0], append(append([]Guard{}, conds...), Guard{yi.Cond, true, y}))
			walk(y.Succs[1], append(append([]Guard{}, conds...), Guard{yi.Cond, false, y}))
			return
		}
		for _, s := range y.Succs {
			walk(s, conds)
		}
	}
	walk(d, nil)
	if !ok || len(alts) == 0 {
		return nil, false
	}
	return simplifyDNF(alts), true
}

// mergeConj: the conjunction of two conjunctions; feasible=false when a condition occurs with both outcomes.
func mergeConj(a, b []Guard) ([]Guard, bool) {
	out := make([]Guard, 0, len(a)+len(b))
	val := map[ssa.Value]bool{}
	for _, g := range append(append([]Guard{}, a...), b...) {
		if v, has := val[g.Cond]; has {
			if v != g.True {
				return nil, false
			}
			continue
		}
		if c, isC := g.Cond.(*ssa.Const); isC {
			if IsConstBool(c, !g.True) {
				return nil, false
			}
			if IsConstBool(c, g.True) {
				continue
			}
		}
		val[g.Cond] = g.True
		out = append(out, g)
	}
	return out, true
}

// simplifyDNF: (A && c) || (A && !c) = A and A || (A && B) = A, applied until nothing changes.
func simplifyDNF(alts [][]Guard) [][]Guard {
	asMap := func(a []Guard) map[ssa.Value]bool {
		m := map[ssa.Value]bool{}
		for _, g := range a {
			m[g.Cond] = g.True
		}
		return m
	}
	for changed := true; changed; {
		changed = false
	outer:
		for i := 0; i < len(alts); i++ {
			mi := asMap(alts[i])
			for j := 0; j < len(alts); j++ {
				if i == j {
					continue
				}
				mj := asMap(alts[j])
				// absorption: alts[i] contains alts[j]
				if len(mj) <= len(mi) {
					sub := true
					for c, v := range mj {
						if w, has := mi[c]; !has || w != v {
							sub = false
							break
						}
					}
					if sub {
						alts = append(alts[:i:i], alts[i+1:]...)
						changed = true
						break outer
					}
				}
				// resolution: same conditions, exactly one with the opposite outcome
				if len(mi) == len(mj) && i < j {
					var diff ssa.Value
					n, same := 0, true
					for c, v := range mi {
						w, has := mj[c]
						if !has {
							same = false
							break
						}
						if w != v {
							n++
							diff = c
						}
					}
					if same && n == 1 {
						var merged []Guard
						for _, g := range alts[i] {
							if g.Cond != diff {
								merged = append(merged, g)
							}
						}
						alts[i] = merged
						alts = append(alts[:j:j], alts[j+1:]...)
						changed = true
						break outer
					}
				}
			}
		}
	}
	return alts
}

// caseContradicts: some condition (SSA value) of a has the opposite outcome in b.
func caseContradicts(a, b []Guard) bool {
	_, feasible := mergeConj(a, b)
	return !feasible
}

// mayBeInCase: block x can execute in an execution that satisfies the case k -
// unless every way to x takes some branch the other way than k does. Fails
// open on purpose: what cannot be excluded is "in the case".
func mayBeInCase(x *ssa.BasicBlock, k []Guard, within map[*ssa.BasicBlock]bool) bool {
	cases, _ := GuardCases(x, within)
	for _, c := range cases {
		if !caseContradicts(c, k) {
			return true
		}
	}
	return false
}

// mustBeInCase: whenever x executes all outcomes of k (those listed in need) hold.
func mustBeInCase(x *ssa.BasicBlock, need []Guard, within map[*ssa.BasicBlock]bool) bool {
	cases, _ := GuardCases(x, within)
	if len(cases) == 0 {
		return true // x is unreachable
	}
	for _, c := range cases {
		m := map[ssa.Value]bool{}
		for _, g := range c {
			m[g.Cond] = g.True
		}
		for _, g := range need {
			if v, has := m[g.Cond]; !has || v != g.True {
				return false
			}
		}
	}
	return true
}
