package nc

import (
	"fmt"
	"go/constant"
	"go/token"
	"sort"
	"strings"

	"golang.org/x/tools/go/ssa"
)

// Engine H — affine bookkeeping. Lin is an integer-linear expression over
// named atoms; equality is syntactic after normalisation (no solver).
type Lin struct {
	C int64
	T map[string]int64
}

func linConst(c int64) Lin { return Lin{C: c, T: map[string]int64{}} }
func linAtom(a string) Lin { return Lin{T: map[string]int64{a: 1}} }

func (a Lin) Add(b Lin, sign int64) Lin {
	out := Lin{C: a.C + sign*b.C, T: map[string]int64{}}
	for k, v := range a.T {
		out.T[k] += v
	}
	for k, v := range b.T {
		out.T[k] += sign * v
	}
	for k, v := range out.T {
		if v == 0 {
			delete(out.T, k)
		}
	}
	return out
}

func (a Lin) IsZero() bool { return a.C == 0 && len(a.T) == 0 }

func (a Lin) Equal(b Lin) bool { return a.Add(b, -1).IsZero() }

func (a Lin) String() string {
	var ks []string
	for k := range a.T {
		ks = append(ks, k)
	}
	sort.Strings(ks)
	var parts []string
	for _, k := range ks {
		parts = append(parts, fmt.Sprintf("%+d*%s", a.T[k], k))
	}
	if a.C != 0 || len(parts) == 0 {
		parts = append(parts, fmt.Sprintf("%+d", a.C))
	}
	return strings.Join(parts, " ")
}

// pathState evaluates SSA integer values along one path as Lin expressions.
// Loads of struct fields become atoms "<address term>@<version>", the version
// counting the stores to that field seen so far on the path, so that a
// read-modify-write `x.f = x.f - k` is recognised as a change of -k.
type pathState struct {
	tm      *Termer
	ip      *IterPath
	version map[string]int // address term -> number of stores so far
	loadVer map[ssa.Value]int
	extra   map[ssa.Value]Lin // values pinned by the caller (e.g. header phis)
}

func newPathState(tm *Termer, ip *IterPath) *pathState {
	return &pathState{tm: tm, ip: ip, version: map[string]int{}, loadVer: map[ssa.Value]int{}, extra: map[ssa.Value]Lin{}}
}

// observe must be called for every instruction of the path in order.
func (ps *pathState) observe(in ssa.Instruction) {
	switch x := in.(type) {
	case *ssa.UnOp:
		if x.Op == token.MUL {
			if _, ok := x.X.(*ssa.FieldAddr); ok {
				ps.loadVer[x] = ps.version[ps.tm.Of(x.X).String()]
			}
		}
	case *ssa.Store:
		if _, ok := x.Addr.(*ssa.FieldAddr); ok {
			ps.version[ps.tm.Of(x.Addr).String()]++
		}
	}
}

func (ps *pathState) lin(v ssa.Value, depth int) Lin {
	if depth > 40 {
		return linAtom("?deep")
	}
	if l, ok := ps.extra[v]; ok {
		return l
	}
	switch x := v.(type) {
	case *ssa.Const:
		if x.Value != nil && x.Value.Kind() == constant.Int {
			n, _ := constant.Int64Val(x.Value)
			return linConst(n)
		}
	case *ssa.Phi:
		r := ps.ip.ResolveAt(x)
		if r != ssa.Value(x) {
			return ps.lin(r, depth+1)
		}
		return linAtom("phi:" + x.Name())
	case *ssa.BinOp:
		switch x.Op {
		case token.ADD:
			return ps.lin(x.X, depth+1).Add(ps.lin(x.Y, depth+1), 1)
		case token.SUB:
			return ps.lin(x.X, depth+1).Add(ps.lin(x.Y, depth+1), -1)
		case token.MUL:
			a, b := ps.lin(x.X, depth+1), ps.lin(x.Y, depth+1)
			if len(a.T) == 0 {
				a, b = b, a
			}
			if len(b.T) == 0 {
				out := Lin{C: a.C * b.C, T: map[string]int64{}}
				for k, v := range a.T {
					out.T[k] = v * b.C
				}
				return out
			}
		}
		return linAtom("(" + ps.lin(x.X, depth+1).String() + x.Op.String() + ps.lin(x.Y, depth+1).String() + ")")
	case *ssa.UnOp:
		if x.Op == token.MUL {
			if _, ok := x.X.(*ssa.FieldAddr); ok {
				return linAtom(fmt.Sprintf("%s@%d", ps.tm.Of(x.X).String(), ps.loadVer[x]))
			}
			return linAtom(ps.tm.Of(x).String())
		}
		if x.Op == token.SUB {
			return linConst(0).Add(ps.lin(x.X, depth+1), -1)
		}
	case *ssa.Convert:
		return ps.lin(x.X, depth+1)
	case *ssa.ChangeType:
		return ps.lin(x.X, depth+1)
	}
	return linAtom(ps.tm.Of(v).String())
}

// Lin evaluates v.
func (ps *pathState) Lin(v ssa.Value) Lin { return ps.lin(v, 0) }

// current atom of a field address (what a load at this point of the path would yield).
func (ps *pathState) currentAtom(addr ssa.Value) Lin {
	s := ps.tm.Of(addr).String()
	return linAtom(fmt.Sprintf("%s@%d", s, ps.version[s]))
}

// linStatic evaluates an integer SSA value as a Lin without path knowledge:
// field loads are atoms named by their address term, phis are opaque. inline
// may expand calls (e.g. a getter) into a Lin.
func linStatic(tm *Termer, v ssa.Value, inline func(*ssa.Call) (Lin, bool), depth int) Lin {
	if depth > 30 {
		return linAtom("?deep")
	}
	switch x := v.(type) {
	case *ssa.Const:
		if x.Value != nil && x.Value.Kind() == constant.Int {
			n, _ := constant.Int64Val(x.Value)
			return linConst(n)
		}
	case *ssa.BinOp:
		switch x.Op {
		case token.ADD:
			return linStatic(tm, x.X, inline, depth+1).Add(linStatic(tm, x.Y, inline, depth+1), 1)
		case token.SUB:
			return linStatic(tm, x.X, inline, depth+1).Add(linStatic(tm, x.Y, inline, depth+1), -1)
		}
	case *ssa.Call:
		if inline != nil {
			if l, ok := inline(x); ok {
				return l
			}
		}
	case *ssa.Convert:
		return linStatic(tm, x.X, inline, depth+1)
	case *ssa.ChangeType:
		return linStatic(tm, x.X, inline, depth+1)
	}
	return linAtom(tm.Of(v).String())
}

// ineqAsLin turns an integer comparison with the given outcome into "L >= 0".
func ineqAsLin(op token.Token, a, b Lin, outcome bool) (Lin, bool) {
	if !outcome {
		switch op {
		case token.GEQ:
			op = token.LSS
		case token.GTR:
			op = token.LEQ
		case token.LSS:
			op = token.GEQ
		case token.LEQ:
			op = token.GTR
		default:
			return Lin{}, false
		}
	}
	switch op {
	case token.GEQ:
		return a.Add(b, -1), true
	case token.GTR:
		return a.Add(b, -1).Add(linConst(1), -1), true
	case token.LEQ:
		return b.Add(a, -1), true
	case token.LSS:
		return b.Add(a, -1).Add(linConst(1), -1), true
	}
	return Lin{}, false
}
