package nc

import (
	"fmt"
	"os"
	"path/filepath"
	"strings"

	"golang.org/x/tools/go/packages"
	"golang.org/x/tools/go/ssa"
	"golang.org/x/tools/go/ssa/ssautil"
)

// Fix is the separately loaded program of positive fixtures: tiny packages
// that each contain one instance of a pattern a zero-count rule must report.
// A rule that stays silent on its fixture is inert and fails the check.
var fixPrefix = "neatcheck/testdata/fixtures/"

// LoadFixtures loads every package under dir into p.Fix.
func (p *Prog) LoadFixtures(dir string) error {
	ents, err := os.ReadDir(dir)
	if err != nil {
		return fmt.Errorf("fixtures: %w", err)
	}
	var pats []string
	for _, e := range ents {
		if e.IsDir() {
			pats = append(pats, "./"+e.Name())
		}
	}
	if len(pats) == 0 {
		return fmt.Errorf("fixtures: no fixture packages under %s", dir)
	}
	cfg := &packages.Config{Mode: packages.LoadSyntax, Dir: dir, Env: loadEnv()}
	pkgs, err := packages.Load(cfg, pats...)
	if err != nil {
		return fmt.Errorf("fixtures: %w", err)
	}
	for _, pk := range pkgs {
		for _, e := range pk.Errors {
			return fmt.Errorf("fixture %s: %s", pk.PkgPath, e)
		}
	}
	prog, ssaPkgs := ssautil.AllPackages(pkgs, ssa.InstantiateGenerics)
	prog.Build()
	fp := &Prog{Dir: dir, Tier: p.Tier, Pkgs: pkgs, SSA: prog, Fset: p.Fset,
		ByPath: map[string]*packages.Package{}, SSAPk: map[string]*ssa.Package{}, Fixtures: map[string]*ssa.Package{}}
	for i, pk := range pkgs {
		name := pk.PkgPath
		if j := strings.LastIndex(name, "/"); j >= 0 {
			name = name[j+1:]
		}
		fp.ByPath[name] = pk
		fp.SSAPk[name] = ssaPkgs[i]
		fp.Fset = pk.Fset
	}
	p.Fix = fp
	_ = filepath.Join
	return nil
}
