package nc

import (
	"go/token"

	"golang.org/x/tools/go/ssa"
)

// Correlated-phi narrowing.
//
// `v, ok := lookup()` / `x, err := build()` followed by `if ok {…}` / `if err != nil { return }`
// leaves, after SSA construction (and after the normaliser inlined a helper), two phis in one
// block whose edges are correlated: on the edges where `ok` receives true, `v` receives the
// found element. A use of v in a block that is dominated by the outcome `ok == true` can only
// see the alternatives of those edges. NarrowAt returns the alternatives of v that are feasible
// at block `at`, using only branch outcomes that dominate `at` (Guards) and sibling phis of the
// same block whose incoming value on an edge is a constant that contradicts the outcome.
// It over-approximates: an edge is dropped only when a sibling proves it infeasible.
func NarrowAt(v ssa.Value, at *ssa.BasicBlock) []ssa.Value {
	seen := map[ssa.Value]bool{}
	var out []ssa.Value
	var visit func(x ssa.Value, d int)
	gs := Guards(at)
	visit = func(x ssa.Value, d int) {
		if seen[x] {
			return
		}
		seen[x] = true
		if ct, ok := x.(*ssa.ChangeType); ok {
			visit(ct.X, d)
			return
		}
		ph, ok := x.(*ssa.Phi)
		if !ok || d > 8 {
			out = append(out, x)
			return
		}
		// a list that grows around a loop (`l = append(l, e)`) is one value, not a choice between its stages
		for _, e := range ph.Edges {
			if base, _, isApp := appendCall(e); isApp && base == ssa.Value(ph) {
				out = append(out, x)
				return
			}
		}
		feasible := FeasibleEdges(ph, gs)
		n := 0
		for i, e := range ph.Edges {
			if feasible[i] {
				n++
				visit(e, d+1)
			}
		}
		if n == 0 {
			// contradictory guards: the block is unreachable; report everything
			for _, e := range ph.Edges {
				visit(e, d+1)
			}
		}
	}
	visit(v, 0)
	return out
}

// FeasibleEdges: which incoming edges of phi ph are compatible with the branch outcomes gs, judged by the
// constants that sibling phis of the same block receive on those edges.
func FeasibleEdges(ph *ssa.Phi, gs []Guard) []bool {
	feasible := make([]bool, len(ph.Edges))
	for i := range feasible {
		feasible[i] = true
	}
	{
		for _, in := range ph.Block().Instrs {
			q, isPhi := in.(*ssa.Phi)
			if !isPhi {
				break
			}
			// (q == ph: an outcome about the phi itself, e.g. `rec != nil`, rules out its own nil edges)
			for _, g := range gs {
				want, kind := guardOn(g, q)
				if kind == "" {
					continue
				}
				for i, e := range q.Edges {
					c, isC := e.(*ssa.Const)
					switch kind {
					case "bool":
						if isC && c.Value != nil && IsConstBool(c, !want) {
							feasible[i] = false
						}
					case "nil":
						isNil := isC && c.Value == nil
						definitelyNonNil := false
						switch y := e.(type) {
						case *ssa.Alloc, *ssa.MakeInterface, *ssa.MakeSlice, *ssa.MakeMap, *ssa.MakeClosure:
							definitelyNonNil = true
						case *ssa.Call:
							if n, _ := calleeName(&y.Call); nonNilErrorMakers[n] {
								definitelyNonNil = true
							}
						}
						if !definitelyNonNil && !isC && i < len(q.Block().Preds) {
							// the edge leaves a block that is only reached with `e != nil` decided (the `if err != nil
							// { r = nil; break }` exit of an expanded helper): SSA values do not change, so e is non-nil here
							pred := q.Block().Preds[i]
							pgs := Guards(pred)
							if iff, isIf := pred.Instrs[len(pred.Instrs)-1].(*ssa.If); isIf && pred.Succs[0] != pred.Succs[1] {
								pgs = append(pgs[:len(pgs):len(pgs)], Guard{iff.Cond, pred.Succs[0] == q.Block(), pred})
							}
							for _, pg := range pgs {
								if GuardNilness(pg, func(v ssa.Value) bool { return v == e }) == -1 {
									definitelyNonNil = true
								}
							}
						}
						if want && definitelyNonNil { // outcome says nil
							feasible[i] = false
						}
						if !want && isNil { // outcome says non-nil
							feasible[i] = false
						}
					}
				}
			}
		}
	}
	return feasible
}

// guardOn: does guard g fix the value of phi q? Returns (true-or-nil outcome, "bool"|"nil") or kind "".
func guardOn(g Guard, q *ssa.Phi) (bool, string) {
	if g.Cond == ssa.Value(q) {
		return g.True, "bool"
	}
	switch c := g.Cond.(type) {
	case *ssa.UnOp:
		if c.Op == token.NOT && c.X == ssa.Value(q) {
			return !g.True, "bool"
		}
	case *ssa.BinOp:
		if c.Op != token.EQL && c.Op != token.NEQ {
			return false, ""
		}
		x, y := c.X, c.Y
		if k, ok := x.(*ssa.Const); ok && k.Value == nil {
			x, y = y, x
		}
		k, ok := y.(*ssa.Const)
		if !ok || x != ssa.Value(q) {
			return false, ""
		}
		if k.Value == nil {
			// q == nil (true edge) means nil
			return (c.Op == token.EQL) == g.True, "nil"
		}
		if IsConstBool(k, true) || IsConstBool(k, false) {
			val := IsConstBool(k, true)
			return ((c.Op == token.EQL) == g.True) == val, "bool"
		}
	}
	return false, ""
}

// OnlyAt returns the single feasible alternative of v at block `at`, or nil when there are several.
func OnlyAt(v ssa.Value, at *ssa.BasicBlock) ssa.Value {
	alts := NarrowAt(v, at)
	if len(alts) == 1 {
		return alts[0]
	}
	return nil
}

// library functions that never return a nil error
var nonNilErrorMakers = map[string]bool{
	"fmt.Errorf": true, "errors.New": true,
	"github.com/pkg/errors.New": true, "github.com/pkg/errors.Errorf": true,
}
