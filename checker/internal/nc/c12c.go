package nc

import (
	"fmt"
	"go/token"
	"go/types"
	"sort"
	"strings"

	"golang.org/x/tools/go/ssa"
)

// C12.8 - a sweep of the fast solver computes its result from the loaded sensors and the topology only.
//
// The property quantifies over input vectors, and a solver instance is evaluated many times (one network,
// many sensor loads, RecursiveSteps / ForwardSteps / Relax in any order). Two kinds of per-neuron run-time
// state could carry one evaluation into the next and are decided here:
//
//  (A) accumulators. A sweep that adds into X[k] (`X[k] = X[k] + e`) without clearing X[k] first in that very
//      call computes sum + (whatever X[k] held at entry). X[k] must therefore be 0 at entry for every neuron
//      that is evaluated, on every error-free history. That is the case iff the array starts zeroed (it is
//      only ever assigned a fresh make) and EVERY function of the package that stores a non-zero value into
//      X restores 0 there before each of its non-error returns: the same index again, or a complete counted
//      loop over (at least) the non-sensor neurons [sensorNeuronCount, totalNeuronCount). A zeroing in Flush
//      does not count: nothing obliges a caller to flush between two evaluations.
//
//  (B) recursion flags. recursiveActivateNode branches on per-neuron boolean arrays. The one that makes it
//      return without evaluating (the memo: "this neuron already has its value") must, at the first recursive
//      call of every RecursiveSteps, be true exactly on the sensors and false on every other neuron - set in
//      that very call: a stale `true` returns the value of the previous evaluation, a `false` on a sensor
//      overwrites the loaded input by activation(bias). Any other flag (the cycle marker) must be false on the
//      non-sensor neurons at that point: reset there, or never left true by any writer on a non-error return.
//
// Error returns are exempt everywhere: an activation error depends on the activation type of a neuron, not on
// the inputs, so the sweep that follows fails as well and no result is read.

type c12Hist struct {
	p      *Prog
	fields map[*types.Var]bool // fields of FastModularNetworkSolver
	funcs  []*ssa.Function     // source functions of the network package
	kindOf map[string]string   // field name -> bound kind
}

func c12NewHist(p *Prog) *c12Hist {
	h := &c12Hist{p: p, fields: map[*types.Var]bool{}, kindOf: map[string]string{
		"biasNeuronCount": "bias", "inputNeuronCount": "input", "sensorNeuronCount": "sensor",
		"outputNeuronCount": "output", "totalNeuronCount": "total",
	}}
	for _, f := range p.Fields(PkgN, "FastModularNetworkSolver") {
		h.fields[f] = true
	}
	for _, fn := range p.SrcFuncs() {
		if fn.Pkg != nil && fn.Pkg.Pkg.Path() == PkgN {
			h.funcs = append(h.funcs, fn)
		} else if fn.Parent() != nil {
			top := fn
			for top.Parent() != nil {
				top = top.Parent()
			}
			if top.Pkg != nil && top.Pkg.Pkg.Path() == PkgN {
				h.funcs = append(h.funcs, fn)
			}
		}
	}
	// A helper that does not exist in the pinned tree is expanded at its call sites by the normaliser and is judged
	// there, as part of its callers; its own declaration, which nothing refers to any more, is never executed.
	pinned := PinnedFuncs()
	kept := h.funcs[:0:0]
	for _, fn := range h.funcs {
		if p.expandedAway(fn, pinned) {
			continue
		}
		kept = append(kept, fn)
	}
	h.funcs = kept
	return h
}

// solverField: t is the value of a field of the solver (whatever the solver value is called).
func (h *c12Hist) solverField(t *Term) *types.Var {
	if t == nil || t.Op != "field" {
		return nil
	}
	if v, ok := t.Obj.(*types.Var); ok && h.fields[v] {
		return v
	}
	return nil
}

// arrayOf: which solver array does base denote? direct is false when it is reached through a re-slicing
// (indices are shifted then) or only on some alternatives.
func (h *c12Hist) arrayOf(tm *Termer, base ssa.Value) (fld *types.Var, direct bool) {
	alts := tm.Of(base).Alternatives()
	direct = true
	for _, a := range alts {
		var f *types.Var
		d := true
		for a != nil && a.Op == "slice" && len(a.Args) > 0 {
			a, d = a.Args[0], false
		}
		f = h.solverField(a)
		if f == nil {
			direct = false
			continue
		}
		if _, isSlice := f.Type().Underlying().(*types.Slice); !isSlice {
			direct = false
			continue
		}
		if fld == nil {
			fld = f
		} else if fld != f {
			return nil, false
		}
		if !d {
			direct = false
		}
	}
	return fld, direct && fld != nil
}

// kind classifies an index bound: "0", "bias", "sensor" (also bias+input), "total" (also the length of a solver
// array, all of which are allocated with totalNeuronCount elements), "?" otherwise.
func (h *c12Hist) kind(tm *Termer, v ssa.Value) string {
	if k, ok := constInt(v); ok {
		if k == 0 {
			return "0"
		}
		return "?"
	}
	return h.kindT(tm.Of(v))
}

func (h *c12Hist) kindT(t *Term) string {
	alts := t.Alternatives()
	if len(alts) != 1 {
		k := ""
		for _, a := range alts {
			ka := h.kindT(a)
			if k == "" {
				k = ka
			} else if k != ka {
				return "?"
			}
		}
		if k == "" {
			return "?"
		}
		return k
	}
	t = alts[0]
	switch t.Op {
	case "const":
		if t.Name == "0" {
			return "0"
		}
	case "field":
		if f := h.solverField(t); f != nil {
			if k, ok := h.kindOf[f.Name()]; ok {
				return k
			}
		}
	case "bin":
		if t.Name == "+" && len(t.Args) == 2 {
			a, b := h.kindT(t.Args[0]), h.kindT(t.Args[1])
			if (a == "bias" && b == "input") || (a == "input" && b == "bias") {
				return "sensor"
			}
			if a == "0" {
				return b
			}
			if b == "0" {
				return a
			}
		}
	case "len":
		if f := h.solverField(t.Args[0]); f != nil && h.perNeuron(f) {
			return "total"
		}
	}
	return "?"
}

// perNeuron: every assignment of the field in the package is make(.., n) with n the very value that the same
// function stores into totalNeuronCount.
func (h *c12Hist) perNeuron(f *types.Var) bool {
	if ok, _ := h.freshZero(f); !ok {
		return false
	}
	var total *types.Var
	for g := range h.fields {
		if g.Name() == "totalNeuronCount" {
			total = g
		}
	}
	if total == nil {
		return false
	}
	for _, fn := range h.funcs {
		for _, st := range FieldStores(fn, f) {
			mk := st.Val.(*ssa.MakeSlice)
			same := false
			for _, ts := range FieldStores(fn, total) {
				if ts.Val == mk.Len {
					same = true
				}
			}
			if !same {
				return false
			}
		}
	}
	return true
}

// freshZero: the array field f is only ever assigned a freshly made (hence zeroed) slice.
func (h *c12Hist) freshZero(f *types.Var) (bool, string) {
	n := 0
	for _, fn := range h.funcs {
		for _, st := range FieldStores(fn, f) {
			n++
			if _, isMake := st.Val.(*ssa.MakeSlice); !isMake {
				return false, fmt.Sprintf("%s assigns the array at %s from a value that is not a fresh make", FuncName(fn), h.p.Pos(st.Pos()))
			}
		}
	}
	if n == 0 {
		return false, "no assignment of the array was found"
	}
	return true, ""
}

func c12IsZeroVal(v ssa.Value) bool { return c12ZeroConst(v) || IsConstBool(v, false) }

// c12Write is one write into a solver array.
type c12Write struct {
	In   ssa.Instruction
	Idx  ssa.Value // nil: not a single known element
	Zero bool      // stores the zero value
}

// writes lists the element writes of fn into array field f.
func (h *c12Hist) writes(fn *ssa.Function, tm *Termer, f *types.Var) []c12Write {
	var out []c12Write
	Instrs(fn, func(_ *ssa.BasicBlock, _ int, in ssa.Instruction) {
		switch x := in.(type) {
		case *ssa.Store:
			ia, ok := x.Addr.(*ssa.IndexAddr)
			if !ok {
				return
			}
			g, direct := h.arrayOf(tm, ia.X)
			if g != f {
				return
			}
			w := c12Write{In: in, Zero: c12IsZeroVal(x.Val)}
			if direct {
				w.Idx = ia.Index
			}
			out = append(out, w)
		case *ssa.Call:
			b, ok := x.Call.Value.(*ssa.Builtin)
			if !ok || len(x.Call.Args) == 0 {
				return
			}
			switch b.Name() {
			case "copy":
				if g, _ := h.arrayOf(tm, x.Call.Args[0]); g == f {
					out = append(out, c12Write{In: in})
				}
			}
		}
	})
	return out
}

// c12OnAllPaths: inside loop l, every way from block `from` to the next iteration (or out of the loop) passes block b.
func c12OnAllPaths(l *Loop, from, b *ssa.BasicBlock) bool {
	if from == b {
		return true
	}
	seen := map[*ssa.BasicBlock]bool{}
	var walk func(x *ssa.BasicBlock) bool
	walk = func(x *ssa.BasicBlock) bool {
		if x == b {
			return true
		}
		if !l.Blocks[x] || x == l.Header {
			return false // left the loop or started the next iteration without b
		}
		if seen[x] {
			return true
		}
		seen[x] = true
		if len(x.Succs) == 0 {
			return false
		}
		for _, s := range x.Succs {
			if !walk(s) {
				return false
			}
		}
		return true
	}
	return walk(from)
}

// c12CmpCtr states a branch outcome (or a boolean value that is true) as `ctr op other`.
func c12CmpCtr(cond ssa.Value, outcome bool, ctr ssa.Value) (other ssa.Value, op token.Token, ok bool) {
	x, y, op, ok := CmpFact(cond, outcome)
	if !ok {
		return nil, 0, false
	}
	if x == ctr {
		return y, op, true
	}
	if y == ctr {
		op = map[token.Token]token.Token{token.EQL: token.EQL, token.NEQ: token.NEQ, token.LSS: token.GTR, token.GTR: token.LSS, token.LEQ: token.GEQ, token.GEQ: token.LEQ}[op]
		return x, op, true
	}
	return nil, 0, false
}

// c12Range is a complete counted loop `for i := lo; i < hi; i++` in which array[i] receives a value in every
// iteration (Cond "all") or in every iteration with i < sensorNeuronCount ("lt") / i >= sensorNeuronCount ("ge").
type c12Range struct {
	Loop   *Loop
	In     ssa.Instruction
	Lo, Hi string // bound kinds
	Cond   string // all | lt | ge
	Val    string // false | true | ltS (the value of i < sensorNeuronCount) | zero (numeric 0) | ?
}

// rangeWrite recognises w (a store array[idx] = v inside a loop) as a c12Range.
func (h *c12Hist) rangeWrite(tm *Termer, loops []*Loop, w c12Write) (*c12Range, string) {
	st, ok := w.In.(*ssa.Store)
	if !ok || w.Idx == nil {
		return nil, "not a store to a single element of the array itself"
	}
	b := st.Block()
	l := InnermostLoop(loops, b)
	if l == nil {
		return nil, "a store outside any loop sets a single element"
	}
	cl, ok := c13CountedLoopOf(l)
	if !ok {
		return nil, "the enclosing loop is not a loop counting up by one with a single exit test"
	}
	if w.Idx != ssa.Value(cl.Phi) {
		return nil, "the element index is not the loop counter"
	}
	rg := &c12Range{Loop: l, In: w.In, Cond: "all", Val: "?"}
	for _, v := range cl.Inits {
		k := h.kind(tm, v)
		if rg.Lo == "" {
			rg.Lo = k
		} else if rg.Lo != k {
			rg.Lo = "?"
		}
	}
	rg.Hi = h.kind(tm, cl.Bound)
	// guards inside the iteration
	var inner []Guard
	for _, g := range Guards(b) {
		if !l.Blocks[g.At] {
			continue
		}
		if g.At == cl.Test {
			continue // the loop test itself
		}
		inner = append(inner, g)
	}
	from := cl.Stay
	switch len(inner) {
	case 0:
	case 1:
		g := inner[0]
		other, op, ok := c12CmpCtr(g.Cond, g.True, cl.Phi)
		if !ok || h.kind(tm, other) != "sensor" {
			return nil, "the store is conditional on something other than the counter's side of sensorNeuronCount"
		}
		switch op {
		case token.LSS:
			rg.Cond = "lt"
		case token.GEQ:
			rg.Cond = "ge"
		default:
			return nil, "the store is conditional on a comparison with sensorNeuronCount that does not split sensors from the other neurons"
		}
		if g.True {
			from = g.At.Succs[0]
		} else {
			from = g.At.Succs[1]
		}
		if !edgeDominates(cl.Test, cl.Stay, g.At) || !c12OnAllPaths(l, cl.Stay, g.At) {
			return nil, "the test that guards the store is not evaluated in every iteration"
		}
	default:
		return nil, "the store is nested under several conditions inside the loop"
	}
	if !edgeDominates(cl.Test, cl.Stay, b) || !c12OnAllPaths(l, from, b) {
		return nil, "the store is not executed in every iteration"
	}
	if il := InnermostLoop(loops, b); il == nil || il.Header != l.Header {
		return nil, "the store lies in a nested loop"
	}
	switch {
	case IsConstBool(st.Val, false):
		rg.Val = "false"
	case IsConstBool(st.Val, true):
		rg.Val = "true"
	case c12ZeroConst(st.Val):
		rg.Val = "zero"
	default:
		if other, op, ok := c12CmpCtr(st.Val, true, cl.Phi); ok && op == token.LSS && h.kind(tm, other) == "sensor" {
			rg.Val = "ltS"
		}
	}
	return rg, ""
}

// c12ErrorReturn: ret hands a non-nil error to the caller.
func c12ErrorReturn(ret *ssa.Return) bool {
	if len(ret.Results) == 0 {
		return false
	}
	ev := ret.Results[len(ret.Results)-1]
	if !types.Identical(ev.Type(), types.Universe.Lookup("error").Type()) {
		return false
	}
	gs := Guards(ret.Block())
	nonNil := func(v ssa.Value) bool {
		if c, isC := v.(*ssa.Const); isC && c.Value == nil {
			return false
		}
		if definitelyNonNil(v) {
			return true
		}
		if u, isU := v.(*ssa.UnOp); isU && u.Op == token.MUL {
			if _, isG := u.X.(*ssa.Global); isG {
				return true // a package-level error value (ErrNet...)
			}
		}
		for _, g := range gs {
			if GuardNilness(g, func(x ssa.Value) bool { return x == v }) == -1 {
				return true
			}
		}
		return false
	}
	if nonNil(ev) {
		return true
	}
	alts := NarrowAt(ev, ret.Block())
	if len(alts) == 0 {
		return false
	}
	for _, a := range alts {
		if !nonNil(a) {
			return false
		}
	}
	return true
}

// c12Left is one way a function hands back an array that it left non-zero.
type c12Left struct {
	Store ssa.Instruction
	Ret   *ssa.Return
}

// restoresZero decides the writer discipline for fn and array f: on every path from a non-zero write into f to a
// non-error return, the element is zeroed again - by a zero store with the same index value (of the same
// iteration), or by a complete zeroing range that covers all non-sensor neurons. Calls are not followed: a callee
// that writes f is a writer of its own and is held to the same discipline.
func (h *c12Hist) restoresZero(fn *ssa.Function, f *types.Var) []c12Left {
	tm := NewTermer(fn)
	ws := h.writes(fn, tm, f)
	if len(ws) == 0 {
		return nil
	}
	loops := Loops(fn)
	cover := map[*ssa.BasicBlock]*Loop{} // header of a covering zero loop
	zeroAt := map[ssa.Instruction]c12Write{}
	for _, w := range ws {
		if !w.Zero {
			continue
		}
		zeroAt[w.In] = w
		if rg, _ := h.rangeWrite(tm, loops, w); rg != nil && rg.Cond != "lt" && rg.Hi == "total" && (rg.Lo == "0" || rg.Lo == "bias" || rg.Lo == "sensor") {
			cover[rg.Loop.Header] = rg.Loop
		}
	}
	var out []c12Left
	for _, w := range ws {
		if w.Zero {
			continue
		}
		var defLoop *Loop
		if di, ok := w.Idx.(ssa.Instruction); ok && w.Idx != nil {
			defLoop = InnermostLoop(loops, di.Block())
		}
		type state struct {
			b     *ssa.BasicBlock
			valid bool
		}
		seen := map[state]bool{}
		var bad *ssa.Return
		var scan func(b *ssa.BasicBlock, from int, valid bool)
		scan = func(b *ssa.BasicBlock, from int, valid bool) {
			if bad != nil {
				return
			}
			for _, in := range b.Instrs[from:] {
				if z, ok := zeroAt[in]; ok && valid && w.Idx != nil && z.Idx == w.Idx {
					return
				}
				if ret, ok := in.(*ssa.Return); ok {
					if !c12ErrorReturn(ret) {
						bad = ret
					}
					return
				}
			}
			for _, s := range b.Succs {
				if l := cover[s]; l != nil && !l.Blocks[b] {
					continue // a complete zeroing range follows on this edge
				}
				v := valid
				if defLoop != nil && s == defLoop.Header {
					v = false // the index value belongs to the iteration that ends here
				}
				k := state{s, v}
				if seen[k] {
					continue
				}
				seen[k] = true
				scan(s, 0, v)
			}
		}
		scan(w.In.Block(), instrIndex(w.In)+1, true)
		if bad != nil {
			out = append(out, c12Left{Store: w.In, Ret: bad})
		}
	}
	return out
}

// disciplined: array f is zero whenever no function of the package is running, on every error-free history.
func (h *c12Hist) disciplined(f *types.Var) (bool, string) {
	if ok, why := h.freshZero(f); !ok {
		return false, why
	}
	for _, fn := range h.funcs {
		if left := h.restoresZero(fn, f); len(left) > 0 {
			l := left[0]
			return false, fmt.Sprintf("%s stores a non-zero value into %s at %s and can return at %s (not an error return) without setting that element back to zero",
				FuncName(fn), f.Name(), h.p.Pos(l.Store.Pos()), h.p.Pos(l.Ret.Pos()))
		}
	}
	return true, ""
}

// writersOf names the functions of the package with non-zero writes into f.
func (h *c12Hist) writersOf(f *types.Var) []string {
	var out []string
	for _, fn := range h.funcs {
		for _, w := range h.writes(fn, NewTermer(fn), f) {
			if !w.Zero {
				out = append(out, FuncName(fn))
				break
			}
		}
	}
	return out
}

// accumulates lists the arrays fn adds into without having cleared the element before in the same call
// (`X[k] = X[k] + e`), with the first such store of each.
func (h *c12Hist) accumulates(fn *ssa.Function) (map[*types.Var]*ssa.Store, []*types.Var) {
	tm := NewTermer(fn)
	loops := Loops(fn)
	res := map[*types.Var]*ssa.Store{}
	var order []*types.Var
	Instrs(fn, func(b *ssa.BasicBlock, _ int, in ssa.Instruction) {
		st, ok := in.(*ssa.Store)
		if !ok {
			return
		}
		ia, ok := st.Addr.(*ssa.IndexAddr)
		if !ok {
			return
		}
		f, direct := h.arrayOf(tm, ia.X)
		if f == nil {
			return
		}
		add, ok := st.Val.(*ssa.BinOp)
		if !ok || add.Op != token.ADD {
			return
		}
		self := false
		for _, o := range []ssa.Value{add.X, add.Y} {
			ld, ok := o.(*ssa.UnOp)
			if !ok || ld.Op != token.MUL {
				continue
			}
			ia2, ok := ld.X.(*ssa.IndexAddr)
			if !ok {
				continue
			}
			if ia2 == ia {
				self = true
				continue
			}
			// `x[k] = x[k] + e` written out: the same array, and an index of the same origin (two loads of conn.TargetIndex)
			if f2, d2 := h.arrayOf(tm, ia2.X); f2 == f && d2 == direct && CanonTerm(tm.Of(ia2.X)) == CanonTerm(tm.Of(ia.X)) &&
				(ia2.Index == ia.Index || CanonTerm(tm.Of(ia2.Index)) == CanonTerm(tm.Of(ia.Index))) {
				self = true
			}
		}
		if !self {
			return
		}
		// cleared before, in this call, for this very element?
		var defLoop *Loop
		if di, ok := ia.Index.(ssa.Instruction); ok {
			defLoop = InnermostLoop(loops, di.Block())
		}
		for _, w := range h.writes(fn, tm, f) {
			if !w.Zero || !direct || w.Idx != ia.Index {
				continue
			}
			zb := w.In.Block()
			before := (zb == b && instrIndex(w.In) < instrIndex(in)) || (zb != b && zb.Dominates(b))
			if before && (defLoop == nil || defLoop.Blocks[zb]) {
				return
			}
		}
		if _, dup := res[f]; !dup {
			res[f] = st
			order = append(order, f)
		}
	})
	return res, order
}

// flagReset evaluates what RecursiveSteps (rs) has stored into flag array f for the sensors and for the other
// neurons when the first call of the recursion (ra) starts: "true", "false" or "?" (left from earlier calls).
func (h *c12Hist) flagReset(rs, ra *ssa.Function, f *types.Var) (sensors, others string, why string) {
	sensors, others = "?", "?"
	tm := NewTermer(rs)
	loops := Loops(rs)
	calls := CallsTo(rs, ra)
	if len(calls) == 0 {
		return sensors, others, "RecursiveSteps does not call the recursion"
	}
	afterCall := func(in ssa.Instruction) bool {
		for _, c := range calls {
			cb := c.Block()
			if cb == in.Block() {
				if instrIndex(c) < instrIndex(in) {
					return true
				}
			} else if cb.Dominates(in.Block()) {
				return true
			}
		}
		return false
	}
	var evs []*c12Range
	for _, w := range h.writes(rs, tm, f) {
		if afterCall(w.In) {
			continue
		}
		rg, msg := h.rangeWrite(tm, loops, w)
		if rg == nil {
			return "?", "?", fmt.Sprintf("the write at %s is not understood: %s", h.p.Pos(w.In.Pos()), msg)
		}
		for _, c := range calls {
			if rg.Loop.Blocks[c.Block()] || !rg.Loop.Header.Dominates(c.Block()) {
				return "?", "?", fmt.Sprintf("the loop around the write at %s is not completed before every call of the recursion", h.p.Pos(w.In.Pos()))
			}
		}
		if rg.Lo == "?" || rg.Lo == "" || (rg.Hi != "total" && rg.Hi != "sensor") || rg.Val == "?" || rg.Val == "zero" {
			return "?", "?", fmt.Sprintf("the loop around the write at %s runs from %q to %q and stores %q, which is not understood", h.p.Pos(w.In.Pos()), rg.Lo, rg.Hi, rg.Val)
		}
		evs = append(evs, rg)
	}
	if len(evs) == 0 {
		return sensors, others, "RecursiveSteps does not write the array before it starts the recursion"
	}
	before := func(a, b ssa.Instruction) bool {
		if a.Block() == b.Block() {
			return instrIndex(a) < instrIndex(b)
		}
		return a.Block().Dominates(b.Block())
	}
	sort.SliceStable(evs, func(i, j int) bool { return before(evs[i].In, evs[j].In) })
	for _, e := range evs {
		onS, onO := "false", "false"
		switch e.Val {
		case "true":
			onS, onO = "true", "true"
		case "ltS":
			onS, onO = "true", "false"
		}
		// sensors [0, sensorNeuronCount)
		if e.Cond != "ge" && e.Lo != "sensor" {
			if e.Lo == "0" {
				sensors = onS
			} else if sensors != onS {
				sensors = "?"
			}
		}
		// the others [sensorNeuronCount, totalNeuronCount)
		if e.Cond != "lt" && e.Hi == "total" {
			others = onO
		}
	}
	return sensors, others, ""
}

// c12History implements C12.8.
func (r *Run) c12History(act *ssa.Function) {
	p := r.P
	h := c12NewHist(p)
	fs := p.Func(PkgN, "FastModularNetworkSolver.forwardStep")
	ra := p.Func(PkgN, "FastModularNetworkSolver.recursiveActivateNode")
	rs := p.Func(PkgN, "FastModularNetworkSolver.RecursiveSteps")
	r.Fn(FuncName(fs), FuncName(ra), FuncName(rs))

	// (A) accumulators that must be zero at entry
	nAcc := 0
	for _, fn := range []*ssa.Function{fs, ra} {
		first, order := h.accumulates(fn)
		for _, f := range order {
			nAcc++
			label := "accumulator.clean:" + fn.Name() + "." + f.Name()
			pos := p.Pos(first[f].Pos())
			ok, why := h.disciplined(f)
			r.Check(ok, label, pos,
				fmt.Sprintf("%s adds into %s without clearing it first; the array is only ever assigned a fresh make and every writer (%s) sets what it wrote back to 0 before each non-error return, so it is zero whenever a sweep starts", fn.Name(), f.Name(), strings.Join(h.writersOf(f), ", ")),
				fmt.Sprintf("%s adds into %s[k] without clearing it first in the same call, so %s must be zero for every evaluated neuron whenever it starts - but %s. After such a call (no Flush is required between two evaluations) the next %s computes activation(stale value + weighted sum): e.g. LoadSensors, RecursiveSteps, LoadSensors, ForwardSteps(depth) returns outputs that differ from the feed-forward value", fn.Name(), f.Name(), f.Name(), why, fn.Name()))
		}
	}
	r.Floor("arrays a sweep of the fast solver adds into without clearing them itself", nAcc, 1)

	// (B) flags the recursion branches on
	flags, _ := h.recFlags(ra, act)
	nMemo := 0
	for _, u := range flags {
		sensors, others, why := h.flagReset(rs, ra, u.F)
		pos := p.Pos(rs.Pos())
		if u.Memo {
			nMemo++
			ok := sensors == "true" && others == "false"
			if why == "" && !ok {
				why = fmt.Sprintf("before the first recursive call RecursiveSteps has set %s to %s for the sensors and to %s for the other neurons (\"?\" = whatever the previous call left)", u.F.Name(), sensors, others)
			}
			r.Check(ok, "recursive.memo-reset:"+u.F.Name(), pos,
				fmt.Sprintf("every RecursiveSteps sets %s[i] = (i < sensorNeuronCount) for all neurons before its first recursive call", u.F.Name()),
				fmt.Sprintf("recursiveActivateNode returns without evaluating a neuron whose %s flag is set, so at the first recursive call of EVERY RecursiveSteps the flag must be true exactly for the sensors and false for every other neuron, established in that very call; here: %s. A flag left set by the previous evaluation makes LoadSensors(x1), RecursiveSteps, LoadSensors(x2), RecursiveSteps return the outputs for x1", u.F.Name(), why))
			continue
		}
		if others == "false" && sensors != "true" {
			r.OK("recursive.flag-reset:"+u.F.Name(), pos, fmt.Sprintf("every RecursiveSteps clears %s for all non-sensor neurons before its first recursive call", u.F.Name()))
			continue
		}
		ok, why2 := h.disciplined(u.F)
		r.Check(ok, "recursive.flag-reset:"+u.F.Name(), pos,
			fmt.Sprintf("%s starts cleared and every writer clears what it set before each non-error return, so it is false whenever RecursiveSteps starts", u.F.Name()),
			fmt.Sprintf("recursiveActivateNode branches on %s[adjacent]; the flag must be false for every non-sensor neuron when a RecursiveSteps starts its recursion, but it is neither cleared there (%s) nor kept clear by its writers (%s): a flag left set by an earlier evaluation makes the recursion treat a forward link as recurrent and use the previous activation of its source", u.F.Name(), why, why2))
	}
	r.Floor("memo flags of the recursive activation", nMemo, 1)
}

// c12FlagUse is a per-neuron boolean array of the solver that the recursion branches on.
type c12FlagUse struct {
	F    *types.Var
	Memo bool // the recursion returns without evaluating when F[currentNode] is set
}

// flagLoad: cond is (a negation of) a load F[idx] of a boolean solver array.
func (h *c12Hist) flagLoad(tm *Termer, cond ssa.Value) (f *types.Var, idx ssa.Value, neg bool, ok bool) {
	c, neg := c13StripNot(cond)
	ld, isLd := c.(*ssa.UnOp)
	if !isLd || ld.Op != token.MUL {
		return nil, nil, false, false
	}
	ia, isIA := ld.X.(*ssa.IndexAddr)
	if !isIA {
		return nil, nil, false, false
	}
	f, direct := h.arrayOf(tm, ia.X)
	if f == nil || !direct {
		return nil, nil, false, false
	}
	if sl, isSl := f.Type().Underlying().(*types.Slice); !isSl || !types.Identical(sl.Elem().Underlying(), types.Typ[types.Bool]) {
		return nil, nil, false, false
	}
	return f, ia.Index, neg, true
}

// c12After: instruction a is executed before b whenever b is (same block earlier, or a dominating block).
func c12Before(a, b ssa.Instruction) bool {
	if a.Block() == b.Block() {
		return instrIndex(a) < instrIndex(b)
	}
	return a.Block().Dominates(b.Block())
}

// recFlags lists the flag arrays recursion ra branches on and marks the memo: a flag F such that some return of ra
// that hands back success without having passed the activation call (act) lies under F[currentNode] == true.
// stray is a non-error return that is neither behind the activation call nor under such a flag: a way to report
// success for a neuron without evaluating it.
func (h *c12Hist) recFlags(ra, act *ssa.Function) (flags []*c12FlagUse, stray *ssa.Return) {
	tm := NewTermer(ra)
	byField := map[*types.Var]*c12FlagUse{}
	for _, b := range ra.Blocks {
		if len(b.Instrs) == 0 {
			continue
		}
		iff, ok := b.Instrs[len(b.Instrs)-1].(*ssa.If)
		if !ok {
			continue
		}
		if f, _, _, ok := h.flagLoad(tm, iff.Cond); ok && byField[f] == nil {
			u := &c12FlagUse{F: f}
			byField[f] = u
			flags = append(flags, u)
		}
	}
	var self ssa.Value
	if len(ra.Params) > 1 {
		self = ra.Params[1]
	}
	acts := CallsTo(ra, act)
	for _, b := range ra.Blocks {
		if len(b.Instrs) == 0 {
			continue
		}
		ret, ok := b.Instrs[len(b.Instrs)-1].(*ssa.Return)
		if !ok || c12ErrorReturn(ret) {
			continue
		}
		evaluated := false
		for _, c := range acts {
			if c12Before(c, ret) {
				evaluated = true
			}
		}
		if evaluated {
			continue
		}
		under := false
		for _, g := range Guards(b) {
			if f, idx, neg, ok := h.flagLoad(tm, g.Cond); ok && idx == self && g.True != neg && byField[f] != nil {
				byField[f].Memo = true
				under = true
			}
		}
		if !under && stray == nil {
			stray = ret
		}
	}
	return flags, stray
}
