package nc

import (
	"go/constant"
	"go/token"
	"go/types"
	"sort"
	"strings"

	"golang.org/x/tools/go/ssa"
)

// Engine E — wire-format slot maps.
//
// A *slot* is a position in a text line (index of a formatting verb, index
// into a split line) or a key of a map[string]interface{} document. Writers
// map source fields to slots, readers map slots to the fields of the object
// they build. The rules in c15.go compare the two maps.

// fmtCall is one call of a fmt print/scan function with its variadic
// arguments resolved.
type fmtCall struct {
	Call      ssa.CallInstruction
	Kind      string // printf print println scanf scanln scan sprintf
	Format    string
	Formats   []string // every constant the format operand can be (more than one when it is a phi of constants)
	HasFormat bool
	Stream    ssa.Value
	Args      []ssa.Value // the operands (interface wrappers removed)
}

var fmtKinds = map[string]string{
	"fmt.Fprintf": "printf", "fmt.Fprint": "print", "fmt.Fprintln": "println",
	"fmt.Sprintf": "sprintf", "fmt.Fscanf": "scanf", "fmt.Fscanln": "scanln", "fmt.Fscan": "scan",
	"fmt.Sscanf": "sscanf",
}

// variadicArgs resolves the elements of the []any slice passed as the last argument.
func variadicArgs(v ssa.Value) ([]ssa.Value, bool) {
	if c, ok := v.(*ssa.Const); ok && c.Value == nil {
		return nil, true
	}
	sl, ok := v.(*ssa.Slice)
	if !ok {
		return nil, false
	}
	al, ok := sl.X.(*ssa.Alloc)
	if !ok {
		return nil, false
	}
	arr, ok := deref(al.Type()).Underlying().(*types.Array)
	if !ok {
		return nil, false
	}
	out := make([]ssa.Value, arr.Len())
	for _, ref := range *al.Referrers() {
		ia, ok := ref.(*ssa.IndexAddr)
		if !ok {
			continue
		}
		c, ok := ia.Index.(*ssa.Const)
		if !ok || c.Value == nil {
			return nil, false
		}
		i, _ := constant.Int64Val(c.Value)
		for _, r2 := range *ia.Referrers() {
			if st, ok := r2.(*ssa.Store); ok && st.Addr == ia {
				val := st.Val
				if mi, ok := val.(*ssa.MakeInterface); ok {
					val = mi.X
				}
				if out[i] != nil {
					return nil, false
				}
				out[i] = val
			}
		}
	}
	for _, x := range out {
		if x == nil {
			return nil, false
		}
	}
	return out, true
}

// constFormats resolves a format operand to the set of constant strings it can
// be: a constant, or a (nested) phi all of whose leaves are constant strings
// (`format := "%g "; if last { format = "%g" }`).
func constFormats(v ssa.Value) ([]string, bool) {
	var out []string
	seen := map[ssa.Value]bool{}
	var visit func(v ssa.Value) bool
	visit = func(v ssa.Value) bool {
		if seen[v] {
			return true
		}
		seen[v] = true
		switch x := v.(type) {
		case *ssa.Const:
			if x.Value == nil || x.Value.Kind() != constant.String {
				return false
			}
			s := constant.StringVal(x.Value)
			for _, o := range out {
				if o == s {
					return true
				}
			}
			out = append(out, s)
			return true
		case *ssa.Phi:
			for _, e := range x.Edges {
				if !visit(e) {
					return false
				}
			}
			return true
		}
		return false
	}
	if !visit(v) || len(out) == 0 {
		return nil, false
	}
	return out, true
}

// fmtCalls lists the fmt print/scan calls of fn in block/instruction order.
// A call whose format is not one constant is reported as undecided.
func fmtCalls(fn *ssa.Function) (out []fmtCall, undecided []ssa.CallInstruction) {
	return fmtCallsAlt(fn, false)
}

// fmtCallsAlt: with alt, a format operand that is a phi of constant strings is
// accepted; the call is listed once with all alternatives in Formats (Format
// is the first one). Callers that pass alt must decide every alternative.
func fmtCallsAlt(fn *ssa.Function, alt bool) (out []fmtCall, undecided []ssa.CallInstruction) {
	Instrs(fn, func(_ *ssa.BasicBlock, _ int, in ssa.Instruction) {
		c, ok := in.(ssa.CallInstruction)
		if !ok {
			return
		}
		name, _ := calleeName(c.Common())
		kind, ok := fmtKinds[name]
		if !ok {
			return
		}
		args := c.Common().Args
		fc := fmtCall{Call: c, Kind: kind}
		i := 0
		if kind != "sprintf" {
			fc.Stream = args[0]
			i = 1
		}
		if kind == "printf" || kind == "scanf" || kind == "sprintf" || kind == "sscanf" {
			fs, isC := constFormats(args[i])
			if !isC || (len(fs) > 1 && !alt) {
				undecided = append(undecided, c)
				return
			}
			fc.Format, fc.Formats, fc.HasFormat = fs[0], fs, true
			i++
		}
		va, ok := variadicArgs(args[i])
		if !ok {
			undecided = append(undecided, c)
			return
		}
		fc.Args = va
		out = append(out, fc)
	})
	return
}

// fmtItem is a verb or a literal of a format string.
type fmtItem struct {
	Verb    byte   // 0 for a literal
	Flags   string // width/precision/flags between % and the verb
	Literal string
}

func parseFormat(f string) []fmtItem {
	var out []fmtItem
	lit := ""
	for i := 0; i < len(f); i++ {
		if f[i] != '%' {
			lit += string(f[i])
			continue
		}
		if i+1 < len(f) && f[i+1] == '%' {
			lit += "%"
			i++
			continue
		}
		if lit != "" {
			out = append(out, fmtItem{Literal: lit})
			lit = ""
		}
		j := i + 1
		for j < len(f) && !((f[j] >= 'a' && f[j] <= 'z') || (f[j] >= 'A' && f[j] <= 'Z')) {
			j++
		}
		if j >= len(f) {
			out = append(out, fmtItem{Literal: f[i:]})
			return out
		}
		out = append(out, fmtItem{Verb: f[j], Flags: f[i+1 : j]})
		i = j
	}
	if lit != "" {
		out = append(out, fmtItem{Literal: lit})
	}
	return out
}

func verbsOf(items []fmtItem) []fmtItem {
	var out []fmtItem
	for _, it := range items {
		if it.Verb != 0 {
			out = append(out, it)
		}
	}
	return out
}

// verbFaithful reports whether printing a value of type t with the verb and
// scanning it back with the same verb restores the value exactly.
func verbFaithful(it fmtItem, t types.Type) (bool, string) {
	if it.Flags != "" {
		return false, "the verb carries width/precision/flags (%" + it.Flags + string(it.Verb) + "): digits are cut or padded"
	}
	b, ok := t.Underlying().(*types.Basic)
	if !ok {
		return false, "operand is not a basic value"
	}
	switch {
	case b.Info()&types.IsFloat != 0:
		if it.Verb == 'g' || it.Verb == 'v' {
			return true, ""
		}
		return false, "a float is written with %" + string(it.Verb) + ", which does not print the shortest representation that reads back exactly (only %g / %v do)"
	case b.Info()&types.IsInteger != 0:
		if it.Verb == 'd' || it.Verb == 'v' {
			return true, ""
		}
		return false, "an integer is written with %" + string(it.Verb)
	case b.Info()&types.IsBoolean != 0:
		if it.Verb == 't' || it.Verb == 'v' {
			return true, ""
		}
		return false, "a boolean is written with %" + string(it.Verb)
	case b.Info()&types.IsString != 0:
		if it.Verb == 's' || it.Verb == 'v' {
			return true, ""
		}
		return false, "a string is written with %" + string(it.Verb)
	}
	return false, "unsupported operand type " + t.String()
}

// mapWrites lists the `m[key] = v` updates of fn with constant string keys, per map value.
type mapWrite struct {
	In  *ssa.MapUpdate
	Key string
	Val ssa.Value
}

func mapWrites(fn *ssa.Function) (out []mapWrite, dynamic []*ssa.MapUpdate) {
	Instrs(fn, func(_ *ssa.BasicBlock, _ int, in ssa.Instruction) {
		mu, ok := in.(*ssa.MapUpdate)
		if !ok {
			return
		}
		k := mu.Key
		if mi, ok := k.(*ssa.MakeInterface); ok {
			k = mi.X
		}
		c, ok := k.(*ssa.Const)
		if !ok || c.Value == nil || c.Value.Kind() != constant.String {
			dynamic = append(dynamic, mu)
			return
		}
		v := mu.Value
		if mi, ok := v.(*ssa.MakeInterface); ok {
			v = mi.X
		}
		out = append(out, mapWrite{mu, constant.StringVal(c.Value), v})
	})
	return
}

// slotRef identifies the wire slot a reader-side leaf term stands for.
type slotRef struct {
	Slot string // "#3" for positional slots, "key" for document keys
	Elem bool   // the leaf is an element of the (list-valued) slot
}

// slotFinder resolves reader-side leaves to slots.
type slotFinder struct {
	allocSlot map[*ssa.Alloc]string // scan targets that are local variables
	splitOf   func(t *Term) bool    // t is the split line (positional slots by constant index)
	docParam  func(t *Term) bool    // t is the document map (key slots)
}

// leafSlot: is t (after removing conversions, type assertions and the first
// result of the parsing helpers) a direct read of one slot?
func (sf *slotFinder) direct(t *Term) (slotRef, bool) {
	for depth := 0; t != nil && depth < 12; depth++ {
		switch t.Op {
		case "conv", "assert", "iface":
			t = t.Args[0]
			continue
		case "extract":
			if t.Idx == 0 && t.Args[0].Op == "call" && isParser(t.Args[0].Name) {
				t = t.Args[0].Args[0]
				continue
			}
			return slotRef{}, false
		case "call":
			if isParser(t.Name) && len(t.Args) > 0 {
				t = t.Args[0]
				continue
			}
			return slotRef{}, false
		case "const":
			if u, ok := t.V.(*ssa.UnOp); ok && u.Op == token.MUL {
				if al, ok := u.X.(*ssa.Alloc); ok {
					if s, ok := sf.allocSlot[al]; ok {
						return slotRef{Slot: s}, true
					}
				}
			}
			return slotRef{}, false
		case "elem":
			if sf.splitOf != nil && sf.splitOf(t.Args[0]) && len(t.Args) > 1 && t.Args[1].Op == "const" {
				return slotRef{Slot: "#" + t.Args[1].Name}, true
			}
			// element of a list-valued slot
			if r, ok := sf.direct(t.Args[0]); ok && !r.Elem {
				r.Elem = true
				return r, true
			}
			return slotRef{}, false
		case "next":
			// range over a list-valued slot: value component
			if t.Idx == 2 || t.Idx == 1 {
				if r, ok := sf.direct(t.Args[0]); ok && !r.Elem {
					r.Elem = true
					return r, true
				}
			}
			return slotRef{}, false
		case "lookup":
			if sf.docParam != nil && sf.docParam(t.Args[0]) && t.Args[1].Op == "const" {
				return slotRef{Slot: strings.Trim(t.Args[1].Name, `"`)}, true
			}
			// key of an element document: list-slot/key
			if r, ok := sf.direct(t.Args[0]); ok && r.Elem && t.Args[1].Op == "const" {
				return slotRef{Slot: r.Slot + "/" + strings.Trim(t.Args[1].Name, `"`), Elem: true}, true
			}
			return slotRef{}, false
		}
		return slotRef{}, false
	}
	return slotRef{}, false
}

// isParser: value-preserving text/dynamic-value parsers; argument 0 is the parsed value.
func isParser(name string) bool {
	switch name {
	case "strconv.ParseInt", "strconv.Atoi", "strconv.ParseFloat", "strconv.ParseBool",
		"cast.ToIntE", "cast.ToInt64E", "cast.ToFloat64E", "cast.ToBoolE", "cast.ToStringE", "cast.ToSliceE",
		"cast.ToInt", "cast.ToInt64", "cast.ToFloat64", "cast.ToBool", "cast.ToString", "cast.ToSlice":
		return true
	}
	return false
}

// parserWidthOK: a parser that narrows the value (ParseInt bit size, ParseFloat 32, ToFloat32, ToInt8 ...) loses information.
func narrowingParsers(t *Term, want types.Type) []string {
	var out []string
	t.Walk(func(x *Term) bool {
		if x.Op != "call" {
			return true
		}
		switch x.Name {
		case "strconv.ParseFloat":
			if len(x.Args) == 2 && x.Args[1].Op == "const" && x.Args[1].Name != "64" {
				out = append(out, "strconv.ParseFloat with bit size "+x.Args[1].Name)
			}
		case "strconv.ParseInt":
			// the writers print integers with %d / strconv.Itoa: decimal text. Parsed in another base the same digits
			// are another number (every id above 9 changes); base 0 reads plain decimal digits as decimal.
			if len(x.Args) == 3 && x.Args[1].Op == "const" && x.Args[1].Name != "10" && x.Args[1].Name != "0" {
				out = append(out, "strconv.ParseInt with base "+x.Args[1].Name+" for a number written in decimal")
			}
			if len(x.Args) == 3 && x.Args[2].Op == "const" {
				bits := x.Args[2].Name
				need := 64
				if b, ok := want.Underlying().(*types.Basic); ok {
					switch b.Kind() {
					case types.Int8, types.Uint8:
						need = 8
					case types.Int16, types.Uint16:
						need = 16
					case types.Int32, types.Uint32:
						need = 32
					case types.Int:
						need = 32 // ids are written from int; 32 bits is what the reader has always accepted
					}
				}
				n := 0
				for _, ch := range bits {
					n = n*10 + int(ch-'0')
				}
				if n != 0 && n < need {
					out = append(out, "strconv.ParseInt with bit size "+bits+" for a value of type "+want.String())
				}
			}
		case "cast.ToFloat32E", "cast.ToFloat32", "cast.ToInt8E", "cast.ToInt16E", "cast.ToInt32E", "cast.ToInt8", "cast.ToInt16", "cast.ToInt32":
			out = append(out, x.Name+" narrows the value")
		}
		return true
	})
	sort.Strings(out)
	return out
}

// selectorBody checks that fn (id, list) returns nil or the element of its
// list parameter whose Id field equals its id parameter.
func selectorByIdOK(p *Prog, fn *ssa.Function) (bool, string) {
	if fn == nil || fn.Blocks == nil || len(fn.Params) != 2 {
		return false, "unexpected signature"
	}
	tm := NewTermer(fn)
	nonNil := 0
	for _, b := range fn.Blocks {
		ret, ok := b.Instrs[len(b.Instrs)-1].(*ssa.Return)
		if !ok {
			continue
		}
		for _, alt := range tm.Of(ret.Results[0]).Alternatives() {
			if alt.Op == "nil" {
				continue
			}
			isElem := (alt.Op == "elem" && isParamIdx(alt.Args[0], 1)) || (alt.Op == "next" && isParamIdx(alt.Args[0], 1))
			if !isElem {
				return false, "returns " + alt.String() + ", not an element of the list"
			}
			nonNil++
			guarded := false
			for _, g := range Guards(b) {
				// the fact that holds on the way to the return is `element.Id == id`, however the test is spelled
				// (`id == e.Id`, `!(e.Id != id)`, the else branch of `e.Id != id`)
				cx, cy, op, okc := CmpFact(g.Cond, g.True)
				if !okc || op != token.EQL {
					continue
				}
				l, rr := tm.Of(cx), tm.Of(cy)
				if isParamIdx(rr, 0) {
					l, rr = rr, l
				}
				if isParamIdx(l, 0) && rr.Op == "field" && rr.Name == "Id" && len(rr.Args) > 0 && rr.Args[0].String() == alt.String() {
					guarded = true
				}
			}
			if !guarded {
				return false, "the returned element is not selected by element.Id == id"
			}
		}
	}
	if nonNil == 0 {
		return false, "never returns an element"
	}
	return true, ""
}
