package nc

import (
	"fmt"
	"go/constant"
	"go/token"
	"strings"

	"golang.org/x/tools/go/ssa"
)

// countedLoop recognises `for i := 0; i < bound; i++` and returns the counter
// phi and the bound. The counter may only be advanced by +1 on every latch.
func countedLoop(l *Loop) (ctr *ssa.Phi, bound ssa.Value, ok bool) {
	iff, isIf := l.Header.Instrs[len(l.Header.Instrs)-1].(*ssa.If)
	if !isIf || len(l.Header.Succs) != 2 {
		return nil, nil, false
	}
	// one successor of the header test stays in the loop, the other leaves it; the loop is continued exactly
	// when counter < bound, however the comparison is spelled (`n > i`, `!(i >= n)`, successors exchanged)
	var stay bool
	switch {
	case l.Blocks[l.Header.Succs[0]] && !l.Blocks[l.Header.Succs[1]]:
		stay = true
	case !l.Blocks[l.Header.Succs[0]] && l.Blocks[l.Header.Succs[1]]:
		stay = false
	default:
		return nil, nil, false
	}
	x, y, isLess := c13LessThan(iff.Cond, stay)
	if !isLess {
		return nil, nil, false
	}
	ph, isPhi := x.(*ssa.Phi)
	if !isPhi || ph.Block() != l.Header {
		return nil, nil, false
	}
	for i, e := range ph.Edges {
		pred := l.Header.Preds[i]
		if l.Blocks[pred] {
			if !c13IsPlusOne(e, ph) {
				return nil, nil, false
			}
		} else {
			c, isC := e.(*ssa.Const)
			if !isC || c.Value == nil || c.Value.Kind() != constant.Int || c.Int64() != 0 {
				return nil, nil, false
			}
		}
	}
	if y == ssa.Value(ph) {
		return nil, nil, false
	}
	return ph, y, true
}

// c12StepLoop decides that fn performs `bound` calls of step: the only call of
// step sits in a loop counting 0..bound-1, the loop is left before exhaustion
// only when the step failed (or, when relaxedExit, when it reported relaxed),
// and no return outside the loop is reachable except under bound == 0.
func (r *Run) c12StepLoop(fn, step *ssa.Function, boundParam int, relaxedExit bool, label string) {
	p := r.P
	r.Fn(FuncName(fn))
	pos := p.Pos(fn.Pos())
	var why string
	cs := CallsTo(fn, step)
	if len(cs) != 1 {
		r.Bad(label+".single-site", pos, fmt.Sprintf("%s calls %s at %d sites; the step count is decided for one call inside the counting loop only (a second site performs a different number of sweeps)", fn.Name(), step.Name(), len(cs)))
		return
	}
	call := cs[0]
	loops := Loops(fn)
	l := InnermostLoop(loops, call.Block())
	if l == nil {
		r.Bad(label+".loop", pos, fn.Name()+" does not call "+step.Name()+" in a loop")
		return
	}
	_, bound, ok := countedLoop(l)
	tm := NewTermer(fn)
	if !ok || !isParamIdx(tm.Of(bound), boundParam) {
		r.Bad(label+".count", p.Pos(call.Pos()), "the loop around "+step.Name()+" does not count 0, 1, .. up to the requested number of steps")
		return
	}
	r.OK(label+".count", p.Pos(call.Pos()), "one "+step.Name()+" per value of the counter 0..steps-1")
	// the call is executed on every iteration: its block is not behind a branch inside the loop
	okEvery := true
	for _, g := range Guards(call.Block()) {
		if l.Blocks[g.At] && g.At != l.Header {
			okEvery = false
		}
	}
	r.Check(okEvery, label+".every-iteration", p.Pos(call.Pos()), "the step is taken on every iteration", "the step is skipped on some iterations (it is behind a branch inside the loop)")
	// exits
	cv := call.Value()
	isExtract := func(v ssa.Value, idx int) bool {
		e, ok := v.(*ssa.Extract)
		return ok && e.Index == idx && e.Tuple == ssa.Value(cv)
	}
	okExits := true
	for b := range l.Blocks {
		if b == l.Header {
			continue
		}
		for si, s := range b.Succs {
			if l.Blocks[s] {
				continue
			}
			iff, isIf := b.Instrs[len(b.Instrs)-1].(*ssa.If)
			if !isIf {
				okExits, why = false, "unconditional exit from the step loop at "+p.Pos(b.Instrs[len(b.Instrs)-1].Pos())
				continue
			}
			outcome := si == 0
			// err != nil holds on the exit edge (any spelling: `nil != err`, `!(err == nil)`, successors exchanged)
			if GuardNilness(Guard{Cond: iff.Cond, True: outcome, At: b}, func(v ssa.Value) bool { return isExtract(v, 1) }) == -1 {
				continue
			}
			if x, y, op, isCmp := CmpFact(iff.Cond, outcome); isCmp && op == token.NEQ && isExtract(y, 1) {
				if k, isK := x.(*ssa.Const); isK && k.Value == nil {
					continue
				}
			}
			if relaxedExit {
				if c, neg := c13StripNot(iff.Cond); isExtract(c, 0) && outcome != neg {
					continue
				}
			}
			okExits, why = false, "the step loop is left early at "+p.Pos(iff.Pos())+" for a reason other than a failed step"
			if relaxedExit {
				why += " or a relaxed network"
			}
		}
	}
	r.Check(okExits, label+".exits", p.Pos(call.Pos()), "the loop ends early only on error"+map[bool]string{true: " or when the step reports a relaxed network", false: ""}[relaxedExit], why)
	// returns outside the loop
	okRet := true
	for _, b := range fn.Blocks {
		if l.Blocks[b] || len(b.Instrs) == 0 {
			continue
		}
		if _, isRet := b.Instrs[len(b.Instrs)-1].(*ssa.Return); !isRet {
			continue
		}
		if l.Header.Dominates(b) {
			continue
		}
		zero := false
		for _, g := range Guards(b) {
			// steps == 0 holds here (`0 == steps`, `!(steps != 0)` not taken, ...)
			if x, y, op, isCmp := CmpFact(g.Cond, g.True); isCmp && op == token.EQL && isParamIdx(tm.Of(x), boundParam) {
				if k, isK := constInt(y); isK && k == 0 {
					zero = true
				}
			}
		}
		if !zero {
			okRet = false
			why = "return at " + p.Pos(b.Instrs[len(b.Instrs)-1].Pos()) + " bypasses the step loop"
		}
	}
	r.Check(okRet, label+".no-bypass", pos, "every return is inside or after the step loop (or rejects steps == 0)", why)
}

// c12RelaxFlag decides the accumulation of forwardStep's relaxed flag.
func (r *Run) c12RelaxFlag() {
	p := r.P
	fs := p.Func(PkgN, "FastModularNetworkSolver.forwardStep")
	r.Fn(FuncName(fs))
	tm := NewTermer(fs)
	pos := p.Pos(fs.Pos())
	loops := Loops(fs)

	// tolerance comparison: returns +1 for "within tolerance", -1 for "exceeds", 0 otherwise
	var tol func(v ssa.Value, d int) int
	absDiff := func(t *Term) bool {
		if t.Op != "call" || !strings.HasSuffix(t.Name, "math.Abs") || len(t.Args) != 1 {
			return false
		}
		d := t.Args[0]
		if d.Op != "bin" || d.Name != "-" {
			return false
		}
		ia, _, okA := elemOfField(d.Args[0], "neuronSignals")
		ib, _, okB := elemOfField(d.Args[1], "neuronSignalsBeingProcessed")
		if !okA || !okB {
			ia, _, okA = elemOfField(d.Args[1], "neuronSignals")
			ib, _, okB = elemOfField(d.Args[0], "neuronSignalsBeingProcessed")
		}
		return okA && okB && ia == ib
	}
	tol = func(v ssa.Value, d int) int {
		if d > 6 {
			return 0
		}
		switch x := v.(type) {
		case *ssa.UnOp:
			if x.Op == token.NOT {
				return -tol(x.X, d+1)
			}
		case *ssa.BinOp:
			a, b := tm.Of(x.X), tm.Of(x.Y)
			op := x.Op
			if isParamIdx(a, 1) && absDiff(b) {
				a, b = b, a
				switch op {
				case token.GTR:
					op = token.LSS
				case token.GEQ:
					op = token.LEQ
				case token.LSS:
					op = token.GTR
				case token.LEQ:
					op = token.GEQ
				}
			}
			if absDiff(a) && isParamIdx(b, 1) {
				switch op {
				case token.GTR, token.GEQ:
					return -1
				case token.LSS, token.LEQ:
					return 1
				}
			}
		}
		return 0
	}

	// the loop whose body stores neuronSignals[i] under maxAllowedSignalDelta > 0
	var flag *ssa.Phi
	var loop *Loop
	for _, l := range loops {
		for _, ph := range HeaderPhis(l) {
			if ph.Type().String() != "bool" {
				continue
			}
			commits := false
			for b := range l.Blocks {
				for _, in := range b.Instrs {
					if st, ok := in.(*ssa.Store); ok {
						if ia, ok := st.Addr.(*ssa.IndexAddr); ok && tm.Of(ia.X).String() == "recv.neuronSignals" {
							commits = true
						}
					}
				}
			}
			if commits {
				flag, loop = ph, l
			}
		}
	}
	if flag == nil {
		r.Bad("relaxed-flag", pos, "forwardStep carries no boolean relaxed flag through the loop that commits the signals; the accumulation rule cannot be matched")
		return
	}
	// initial value: true
	okInit := true
	for i, e := range flag.Edges {
		if !loop.Blocks[loop.Header.Preds[i]] && !IsConstBool(e, true) {
			okInit = false
		}
	}
	r.Check(okInit, "relaxed-flag.init", p.Pos(flag.Pos()), "the flag starts as true", "the relaxed flag does not start as true")

	// next value on the back edges: leaves of the phi tree
	type leaf struct {
		v    ssa.Value
		pred *ssa.BasicBlock
	}
	var leaves []leaf
	seen := map[*ssa.Phi]bool{flag: true}
	var walk func(v ssa.Value, pred *ssa.BasicBlock)
	walk = func(v ssa.Value, pred *ssa.BasicBlock) {
		if ph, ok := v.(*ssa.Phi); ok && ph != flag && loop.Blocks[ph.Block()] {
			if seen[ph] {
				return
			}
			seen[ph] = true
			for i, e := range ph.Edges {
				walk(e, ph.Block().Preds[i])
			}
			return
		}
		leaves = append(leaves, leaf{v, pred})
	}
	for i, e := range flag.Edges {
		if loop.Blocks[loop.Header.Preds[i]] {
			walk(e, loop.Header.Preds[i])
		}
	}
	guardedBy := func(b *ssa.BasicBlock, pred func(g Guard) bool) bool {
		for _, g := range Guards(b) {
			if pred(g) {
				return true
			}
		}
		return false
	}
	okMono, clears := true, false
	var why string
	for _, lf := range leaves {
		if IsConstBool(lf.v, false) {
			// cleared: fine; is it cleared because the tolerance was exceeded?
			if guardedBy(lf.pred, func(g Guard) bool { t := tol(g.Cond, 0); return (t < 0 && g.True) || (t > 0 && !g.True) }) {
				clears = true
			}
			continue
		}
		if lf.v == ssa.Value(flag) {
			continue
		}
		underFlag := guardedBy(lf.pred, func(g Guard) bool { return g.Cond == ssa.Value(flag) && g.True })
		t := tol(lf.v, 0)
		if t > 0 {
			clears = true
		}
		if underFlag && t > 0 {
			continue
		}
		okMono = false
		if t > 0 {
			why = "the relaxed flag is overwritten with the tolerance test of the current neuron at " + p.Pos(lf.v.Pos()) + " even when an earlier neuron exceeded the tolerance (the flag must stay false once cleared)"
		} else {
			why = "the relaxed flag receives " + tm.Of(lf.v).String() + " at " + p.Pos(lf.v.Pos()) + "; it may only be cleared, or keep its value, once a neuron exceeded the tolerance"
		}
	}
	r.Check(okMono, "relaxed-flag.monotone", p.Pos(flag.Pos()), "once cleared the flag stays false for the rest of the sweep", why)
	r.Check(clears, "relaxed-flag.cleared", p.Pos(flag.Pos()), "the flag is cleared when |signal[i] - pending[i]| exceeds maxAllowedSignalDelta for the neuron i being committed", "the relaxed flag is never cleared by a |signal[i]-pending[i]| > maxAllowedSignalDelta test on the neuron being committed")

	// every neuron that is committed is tested: an iteration that overwrites neuronSignals[i] evaluates the tolerance
	// test of that neuron, unless the flag is already known to be cleared on that path (short-circuit)
	okEvery, whyEvery := true, ""
	if paths, complete := EnumIterPaths(fs, loop, 256); !complete {
		okEvery, whyEvery = false, "too many paths through one iteration of the committing loop"
	} else {
		for _, ip := range paths {
			if ip.End != "back" {
				continue
			}
			commits, tested, cleared := false, false, false
			for _, b := range ip.Blocks {
				for _, in := range b.Instrs {
					if st, ok := in.(*ssa.Store); ok {
						if ia, ok := st.Addr.(*ssa.IndexAddr); ok && tm.Of(ia.X).String() == "recv.neuronSignals" {
							commits = true
						}
					}
					if v, ok := in.(ssa.Value); ok && tol(v, 0) != 0 {
						tested = true
					}
				}
			}
			for _, g := range ip.Conds {
				c, out := g.Cond, g.True
				for {
					if u, isU := c.(*ssa.UnOp); isU && u.Op == token.NOT {
						c, out = u.X, !out
						continue
					}
					break
				}
				if c == ssa.Value(flag) && !out {
					cleared = true
				}
				// no tolerance asked for: under maxAllowedSignalDelta <= 0 nothing is tested (the untested arm);
				// `!(delta > 0)` says the same for every value a tolerance can take (a float comparison is not negated by CmpFact)
				if bo, isB := c.(*ssa.BinOp); isB && !out && isParamIdx(tm.Of(bo.X), 1) && c12ZeroConst(bo.Y) && (bo.Op == token.GTR || bo.Op == token.GEQ) {
					cleared = true
				}
				if x, y, op, ok := CmpFact(g.Cond, g.True); ok && isParamIdx(tm.Of(x), 1) {
					k, isK := constInt(y)
					if ((isK && k == 0) || c12ZeroConst(y)) && (op == token.LEQ || op == token.LSS || op == token.EQL) {
						cleared = true
					}
				}
			}
			if commits && !tested && !cleared {
				okEvery = false
				var cs []string
				for _, g := range ip.Conds {
					cs = append(cs, fmt.Sprintf("%s is %v", tm.Of(g.Cond), g.True))
				}
				whyEvery = "an iteration commits neuronSignals[i] without evaluating the |old-new| > maxAllowedSignalDelta test of that neuron while the flag may still be true (path on which " + strings.Join(cs, ", ") + "): a neuron that still moves does not keep the network from being reported relaxed, and Relax returns before the wave has arrived"
			}
		}
	}
	r.Check(okEvery, "relaxed-flag.every-neuron", p.Pos(flag.Pos()), "every neuron whose signal is committed is subjected to the tolerance test (or the flag is already cleared)", whyEvery)

	// the old signal is read before it is overwritten
	okOrder := true
	Instrs(fs, func(b *ssa.BasicBlock, i int, in ssa.Instruction) {
		if !loop.Blocks[b] {
			return
		}
		st, ok := in.(*ssa.Store)
		if !ok {
			return
		}
		ia, ok := st.Addr.(*ssa.IndexAddr)
		if !ok || tm.Of(ia.X).String() != "recv.neuronSignals" {
			return
		}
		// every load of recv.neuronSignals[...] in the loop must come before this store
		Instrs(fs, func(b2 *ssa.BasicBlock, j int, in2 ssa.Instruction) {
			if !loop.Blocks[b2] {
				return
			}
			ld, ok := in2.(*ssa.UnOp)
			if !ok || ld.Op != token.MUL {
				return
			}
			ia2, ok := ld.X.(*ssa.IndexAddr)
			if !ok || tm.Of(ia2.X).String() != "recv.neuronSignals" {
				return
			}
			after := b2 == b && j > i
			if b2 != b {
				// can the store's block reach the load within the same iteration?
				seen := map[*ssa.BasicBlock]bool{}
				stack := []*ssa.BasicBlock{b}
				for len(stack) > 0 {
					x := stack[len(stack)-1]
					stack = stack[:len(stack)-1]
					for _, s := range x.Succs {
						if s == loop.Header || !loop.Blocks[s] || seen[s] {
							continue
						}
						seen[s] = true
						stack = append(stack, s)
					}
				}
				after = seen[b2]
			}
			if after {
				okOrder = false
			}
		})
	})
	r.Check(okOrder, "relaxed-flag.old-signal", pos, "the previous signal is read before it is overwritten", "the tolerance test reads neuronSignals[i] after it has been overwritten with the new value (the difference is always 0)")

	// the returned value on the success path is the flag
	okRet := false
	for _, b := range fs.Blocks {
		ret, ok := b.Instrs[len(b.Instrs)-1].(*ssa.Return)
		if !ok || len(ret.Results) != 2 {
			continue
		}
		w := phiWeb(ret.Results[0])
		if w.Phis[flag] || ret.Results[0] == ssa.Value(flag) {
			okRet = true
		}
	}
	r.Check(okRet, "relaxed-flag.returned", pos, "forwardStep returns the accumulated flag", "forwardStep does not return the accumulated relaxed flag")

	// A loop that moves the new activations into neuronSignals without carrying the flag reports "relaxed" whatever
	// changed. That is right only when no tolerance was asked for: such a loop must lie under
	// maxAllowedSignalDelta <= 0. Taken for a positive tolerance it makes Relax stop after its first step.
	okArm, whyArm := true, ""
	for _, l := range loops {
		if l == loop {
			continue
		}
		var commit *ssa.Store
		for b := range l.Blocks {
			if il := InnermostLoop(loops, b); il == nil || il.Header != l.Header {
				continue
			}
			for _, in := range b.Instrs {
				if st, ok := in.(*ssa.Store); ok {
					if ia, ok := st.Addr.(*ssa.IndexAddr); ok && tm.Of(ia.X).String() == "recv.neuronSignals" {
						commit = st
					}
				}
			}
		}
		if commit == nil {
			continue
		}
		under := false
		for _, g := range Guards(l.Header) {
			if x, y, op, ok := CmpFact(g.Cond, g.True); ok && isParamIdx(tm.Of(x), 1) {
				if k, isK := constInt(y); isK && k == 0 && (op == token.LEQ || op == token.LSS || op == token.EQL) {
					under = true
				}
			}
		}
		if !under {
			okArm, whyArm = false, "the loop at "+p.Pos(commit.Pos())+" stores the new signals without testing their change and is not confined to maxAllowedSignalDelta <= 0"
		}
	}
	r.Check(okArm, "relaxed-flag.untested-arm", pos, "signals are committed without the change test only under maxAllowedSignalDelta <= 0", whyArm+": with a positive tolerance forwardStep then reports a relaxed network after any step and Relax returns the signals of its first step")
}

// c12ZeroConst: v is the numeric constant 0 (of any numeric type).
func c12ZeroConst(v ssa.Value) bool {
	c, ok := v.(*ssa.Const)
	if !ok || c.Value == nil {
		return false
	}
	switch c.Value.Kind() {
	case constant.Int, constant.Float:
		return constant.Sign(c.Value) == 0
	}
	return false
}

// c12RecursiveReset decides that the accumulator the recursive activation sums
// into starts at zero for every neuron it evaluates: either recursiveActivateNode
// stores 0 into processed[node] (the same index value the sums use) on every
// path to the summation loop and outside of it, or RecursiveSteps clears
// processed[i] for every i in 0..totalNeuronCount-1 before its first call of
// recursiveActivateNode (each neuron is summed at most once per RecursiveSteps,
// the activated flags see to that). Without either, a second evaluation on the
// same solver adds the new weighted sum on top of the previous one.
func (r *Run) c12RecursiveReset(ra *ssa.Function, sums []*ssa.Store) {
	p := r.P
	const label = "fast.recursive.reset"
	if len(sums) == 0 {
		r.Bad(label, p.Pos(ra.Pos()), "no summation site of the recursive activation was recognised, so the reset of its accumulator cannot be placed")
		return
	}
	isAcc := func(tm *Termer, st *ssa.Store) (*ssa.IndexAddr, bool) {
		ia, ok := st.Addr.(*ssa.IndexAddr)
		if !ok || tm.Of(ia.X).String() != "recv.neuronSignalsBeingProcessed" {
			return nil, false
		}
		return ia, true
	}
	// (a) local reset
	tm := NewTermer(ra)
	loops := Loops(ra)
	local := false
	Instrs(ra, func(b *ssa.BasicBlock, _ int, in ssa.Instruction) {
		st, ok := in.(*ssa.Store)
		if !ok || !c12ZeroConst(st.Val) {
			return
		}
		ia, ok := isAcc(tm, st)
		if !ok {
			return
		}
		all := true
		for _, s := range sums {
			sia := s.Addr.(*ssa.IndexAddr)
			l := InnermostLoop(loops, s.Block())
			if sia.Index != ia.Index || b == s.Block() || !b.Dominates(s.Block()) || (l != nil && l.Blocks[b]) {
				all = false
			}
		}
		if all {
			local = true
		}
	})
	if local {
		r.OK(label, p.Pos(ra.Pos()), "processed[node] = 0 before the incoming signals of node are summed")
		return
	}
	// (b) global reset in RecursiveSteps before the first recursive call
	rs := p.Func(PkgN, "FastModularNetworkSolver.RecursiveSteps")
	global := false
	if rs != nil {
		tg := NewTermer(rs)
		gl := Loops(rs)
		calls := CallsTo(rs, ra)
		Instrs(rs, func(b *ssa.BasicBlock, _ int, in ssa.Instruction) {
			st, ok := in.(*ssa.Store)
			if !ok || !c12ZeroConst(st.Val) {
				return
			}
			ia, ok := isAcc(tg, st)
			if !ok {
				return
			}
			l := InnermostLoop(gl, b)
			if l == nil {
				return
			}
			ctr, bound, ok := countedLoop(l)
			if !ok || ia.Index != ssa.Value(ctr) || tg.Of(bound).String() != "recv.totalNeuronCount" {
				return
			}
			// executed on every iteration, and the loop cannot be left except by exhaustion
			for _, g := range Guards(b) {
				if l.Blocks[g.At] && g.At != l.Header {
					return
				}
			}
			for x := range l.Blocks {
				if x == l.Header {
					continue
				}
				for _, s := range x.Succs {
					if !l.Blocks[s] {
						return
					}
				}
			}
			// the loop is complete before any recursive activation starts
			okCalls := len(calls) > 0
			for _, c := range calls {
				if l.Blocks[c.Block()] || !l.Header.Dominates(c.Block()) {
					okCalls = false
				}
			}
			if okCalls {
				global = true
			}
		})
	}
	r.Check(global, label, p.Pos(ra.Pos()), "RecursiveSteps clears processed[i] for every neuron before the recursion starts",
		"the accumulator neuronSignalsBeingProcessed[node] is not set to 0 before recursiveActivateNode sums the incoming signals of node (neither there, on every path to the summation, nor for all neurons in RecursiveSteps): from the second evaluation on the same solver every neuron reached through the recursion adds its weighted sum to the stale sum of the previous evaluation")
}
