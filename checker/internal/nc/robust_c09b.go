package nc

import (
	"fmt"
	"go/constant"
	"go/token"
	"go/types"
	"sort"
	"strings"

	"golang.org/x/tools/go/ssa"
)

// ---------------------------------------------------------------------------------------------------------------
// C09.2 - the age adjustment and the sharing of the fitness, decided per path of one iteration.
//
// The statement fixes what an organism's fitness is when adjustFitness is done with it:
//
//	f1 = stagnated ? f0 * 0.01 : f0              stagnated  <=>  Age - AgeOfLastImprovement + 1 - DropOffAge >= 0
//	f2 = young     ? f1 * AgeSignificance : f1   young      <=>  10 - Age >= 0
//	f3 = f2 < 0    ? c : f2                      c a non-negative constant
//	f  = f3 / float64(len(Organisms))
//
// Whether the code keeps the intermediate values in the organism (`org.Fitness = org.Fitness * 0.01`, four stores)
// or in a local that is stored once at the end (a helper working on a parameter, a chain of phis after inlining)
// is not part of that. Both are read the same way here: every acyclic path through one iteration of the organism
// loop is enumerated; on a path every phi has one value and every load of the organism's fitness yields what the
// path stored there last (or f0, the fitness the iteration found), so the fitness the path leaves behind is ONE
// expression over f0, and the branch outcomes of the path are facts about such expressions. The path is accepted
// when its outcomes decide the three conditions above and its expression is the formula evaluated under them.
// A stage applied without its test, under another test, under an additional test, in another order, with another
// factor, or skipped on some path, gives a path whose expression differs from the formula - and is reported under
// the obligation of that stage.
//
// The analysis declines (and the store-by-store rules of c09.go / robust_c09.go decide instead) when the loop holds
// something it cannot evaluate: a call into the repository or through a function value, an inner loop, a fitness
// store to another organism than the one of the iteration.
// ---------------------------------------------------------------------------------------------------------------

// fxExpr is the value of an expression on one path: "init" is the content of the cell at the start of the
// iteration, "const" a constant, "bin" an arithmetic operation, "leaf" anything else (named by its origin term).
type fxExpr struct {
	Op   string
	Name string
	K    constant.Value
	A, B *fxExpr
}

func (e *fxExpr) String() string {
	if e == nil {
		return "?"
	}
	switch e.Op {
	case "init":
		return "f0"
	case "bin":
		return "(" + e.A.String() + e.Name + e.B.String() + ")"
	}
	return e.Name
}

func fxSame(a, b *fxExpr) bool { return a != nil && b != nil && a.String() == b.String() }

func (e *fxExpr) isLeaf(name string) bool { return e != nil && e.Op == "leaf" && e.Name == name }

// fxMulBy: e is x*f or f*x for an operand f satisfying isF; returns x.
func fxMulBy(e *fxExpr, isF func(*fxExpr) bool) (*fxExpr, bool) {
	if e == nil || e.Op != "bin" || e.Name != "*" {
		return nil, false
	}
	switch {
	case isF(e.B) && !isF(e.A):
		return e.A, true
	case isF(e.A) && !isF(e.B):
		return e.B, true
	}
	return nil, false
}

// fxPath evaluates values on one path of one iteration with respect to one memory cell (a field of the element
// the iteration works on).
type fxPath struct {
	tm     *Termer
	ip     *IterPath
	cell   string // origin term of the cell's address
	pos    map[*ssa.BasicBlock]int
	stores []*ssa.Store // the stores to the cell on the path, in path order
	why    string       // set when something on the path cannot be evaluated
}

func newFxPath(tm *Termer, ip *IterPath, cell string, cellStores []*ssa.Store) *fxPath {
	fp := &fxPath{tm: tm, ip: ip, cell: cell, pos: map[*ssa.BasicBlock]int{}}
	n := len(ip.Blocks)
	if ip.End == "back" {
		n--
	}
	for i, b := range ip.Blocks[:n] {
		if _, twice := fp.pos[b]; twice {
			fp.why = "the iteration contains an inner loop"
		}
		fp.pos[b] = i
	}
	for _, st := range cellStores {
		if _, on := fp.pos[st.Block()]; on {
			fp.stores = append(fp.stores, st)
		}
	}
	sort.SliceStable(fp.stores, func(i, j int) bool { return fp.before(fp.stores[i], fp.stores[j]) })
	return fp
}

func (fp *fxPath) before(a, b ssa.Instruction) bool {
	pa, pb := fp.pos[a.Block()], fp.pos[b.Block()]
	if pa != pb {
		return pa < pb
	}
	return instrIndex(a) < instrIndex(b)
}

// final: what the cell holds at the end of the path.
func (fp *fxPath) final() *fxExpr {
	if len(fp.stores) == 0 {
		return &fxExpr{Op: "init"}
	}
	return fp.eval(fp.stores[len(fp.stores)-1].Val, 0)
}

func (fp *fxPath) eval(v ssa.Value, depth int) *fxExpr {
	if depth > 60 {
		fp.why = "an expression is too deep"
		return &fxExpr{Op: "leaf", Name: "?deep"}
	}
	v = fp.ip.ResolveAt(v)
	switch x := v.(type) {
	case *ssa.Const:
		if t := constTerm(x); t != nil && x.Value != nil {
			return &fxExpr{Op: "const", Name: t.Name, K: x.Value}
		}
	case *ssa.UnOp:
		if x.Op == token.MUL && fp.tm.Of(x.X).String() == fp.cell {
			if _, on := fp.pos[x.Block()]; !on {
				break // read outside the iteration: not the cell of this iteration
			}
			var last *ssa.Store
			for _, st := range fp.stores {
				if fp.before(st, x) {
					last = st
				}
			}
			if last == nil {
				return &fxExpr{Op: "init"}
			}
			return fp.eval(last.Val, depth+1)
		}
		if x.Op == token.SUB {
			return &fxExpr{Op: "bin", Name: "-", A: &fxExpr{Op: "const", Name: "0", K: constant.MakeInt64(0)}, B: fp.eval(x.X, depth+1)}
		}
	case *ssa.BinOp:
		switch x.Op {
		case token.ADD, token.SUB, token.MUL, token.QUO:
			return &fxExpr{Op: "bin", Name: x.Op.String(), A: fp.eval(x.X, depth+1), B: fp.eval(x.Y, depth+1)}
		}
	}
	name := fp.tm.Of(v).String()
	if strings.Contains(name, fp.cell) {
		// something computed from the cell that is not followed: never equal to anything the formula names
		name = "?(" + name + ")"
	}
	return &fxExpr{Op: "leaf", Name: name}
}

// fxTest is a branch outcome of the path, stated as a comparison the condition makes when it is TRUE, and whether it
// held on the path (so that the complement of a floating-point ordering never has to be spelled).
type fxTest struct {
	X, Y  ssa.Value
	Op    token.Token
	Holds bool
	G     Guard
}

// tests: the branch outcomes of the path taken inside the iteration (the header's own test is not one of them).
func (fp *fxPath) tests(header *ssa.BasicBlock) []fxTest {
	var out []fxTest
	for _, g := range fp.ip.Conds {
		if g.At == header {
			continue
		}
		if x, y, op, ok := CmpFact(g.Cond, true); ok {
			out = append(out, fxTest{x, y, op, g.True, g})
		} else if x, y, op, ok := CmpFact(g.Cond, false); ok {
			out = append(out, fxTest{x, y, op, !g.True, g})
		}
	}
	return out
}

func c09IsIntValue(v ssa.Value) bool {
	b, ok := v.Type().Underlying().(*types.Basic)
	return ok && b.Info()&types.IsInteger != 0
}

// c09IntCondLin: the integer comparison cond having the given outcome, as "L >= 0" - an equivalence, so that the
// other outcome is -L-1 >= 0. A left operand `debt` that is X, replaced by a constant c exactly when X == 0 (the
// repository's `debt := X; if debt == 0 { debt = 1 }; if debt >= 1`), is decided by case analysis on the two phi
// edges and stated over X.
func c09IntCondLin(tm *Termer, inline func(*ssa.Call) (Lin, bool), cond ssa.Value, outcome bool) (Lin, bool) {
	try := func(outcome bool) (Lin, bool) {
		cx, cy, cop, ok := CmpFact(cond, outcome)
		if !ok || !c09IsIntValue(cx) || !c09IsIntValue(cy) {
			return Lin{}, false
		}
		if _, isPhi := cx.(*ssa.Phi); !isPhi {
			if _, yPhi := cy.(*ssa.Phi); yPhi {
				cx, cy, cop = cy, cx, mirrorCmp(cop)
			}
		}
		ph, isPhi := cx.(*ssa.Phi)
		if !isPhi {
			return ineqAsLin(cop, linStatic(tm, cx, inline, 0), linStatic(tm, cy, inline, 0), true)
		}
		if len(ph.Edges) != 2 {
			return Lin{}, false
		}
		for i := 0; i < 2; i++ {
			c, isC := ph.Edges[i].(*ssa.Const)
			x := ph.Edges[1-i]
			if !isC || c.Value == nil || c.Value.Kind() != constant.Int {
				continue
			}
			zeroGuard := false
			for _, pg := range Guards(ph.Block().Preds[i]) {
				if zx, zy, zop, ok := CmpFact(pg.Cond, pg.True); ok && zop == token.EQL && zx == x && IsConstIntValue(zy, 0) {
					zeroGuard = true
				}
			}
			// the other edge must be the one on which X is not zero: it leaves the block that made the test
			if !zeroGuard || !c09OtherEdgeIsNonZero(ph, 1-i, x) {
				continue
			}
			lx := linStatic(tm, x, inline, 0)
			ly := linStatic(tm, cy, inline, 0)
			onX, ok1 := ineqAsLin(cop, lx, ly, true)                  // cond(X) as L >= 0
			onC, ok2 := ineqAsLin(cop, linConst(c.Int64()), ly, true) // cond(c)
			if !ok1 || !ok2 || len(onC.T) != 0 {
				continue
			}
			k := lx.Add(onX, -1) // onX = X - k >= 0
			if len(k.T) != 0 {
				continue
			}
			switch {
			case onC.C >= 0 && k.C == 1: // X >= 1, and X == 0 (replaced by a constant that passes)  =>  X >= 0
				return lx, true
			case k.C <= 0 && onC.C >= 0: // X >= k contains 0, and the replacement passes as well
				return onX, true
			case k.C == 0 && onC.C < 0: // X >= 0 without 0: the replacement fails the test
				return lx.Add(linConst(1), -1), true
			case k.C >= 1 && onC.C < 0: // X >= k does not contain 0 and the replacement fails
				return onX, true
			}
		}
		return Lin{}, false
	}
	if l, ok := try(outcome); ok {
		return l, true
	}
	if l, ok := try(!outcome); ok {
		return linConst(-1).Add(l, -1), true
	}
	return Lin{}, false
}

// c09OtherEdgeIsNonZero: edge i of the two-way phi carries x itself and comes from where `x == 0` was tested and
// found false (or from the testing block directly), i.e. the phi is x unless x is zero.
func c09OtherEdgeIsNonZero(ph *ssa.Phi, i int, x ssa.Value) bool {
	if ph.Edges[i] != x {
		return false
	}
	pred := ph.Block().Preds[i]
	gs := append([]Guard{}, Guards(pred)...)
	if iff, ok := pred.Instrs[len(pred.Instrs)-1].(*ssa.If); ok && len(pred.Succs) == 2 && pred.Succs[0] != pred.Succs[1] {
		gs = append(gs, Guard{iff.Cond, pred.Succs[0] == ph.Block(), pred})
	}
	for _, g := range gs {
		if zx, zy, zop, ok := CmpFact(g.Cond, g.True); ok && zop == token.NEQ && zx == x && IsConstIntValue(zy, 0) {
			return true
		}
	}
	return false
}

// c09Pipeline is the outcome of the per-path analysis: one verdict per stage.
type c09Pipeline struct {
	Decided bool
	Why     string // why the analysis declined
	Paths   int
	Fail    map[string]string // stage -> what is wrong (absent: the stage is as the formula says on every path)
	Pos     map[string]token.Pos
}

const (
	c09StShare = "share"
	c09StStag  = "stagnation"
	c09StBoost = "youth-boost"
	c09StClamp = "non-negative"
)

func (r *Run) c09FitnessPipeline(fn *ssa.Function, tm *Termer, loops []*Loop, inline func(*ssa.Call) (Lin, bool)) *c09Pipeline {
	p := r.P
	out := &c09Pipeline{Fail: map[string]string{}, Pos: map[string]token.Pos{}}
	decline := func(why string) *c09Pipeline { out.Decided, out.Why = false, why; return out }
	const fT, nT, aT = "recv.Organisms[*].Fitness", "float64(len(recv.Organisms))", "p1.AgeSignificance"
	fit := p.Field(PkgG, "Organism", "Fitness")
	sts := FieldStores(fn, fit)
	if len(sts) == 0 {
		return decline("no organism's fitness is written")
	}
	var l *Loop
	for _, st := range sts {
		sl := InnermostLoop(loops, st.Block())
		if sl == nil || (l != nil && sl != l) {
			return decline("the fitness is not written in one loop over the organisms")
		}
		l = sl
		if tm.Of(st.Addr).String() != fT {
			return decline("a fitness other than that of an organism of the species is written")
		}
	}
	if !loopRangesOver(tm, l, "recv.Organisms") {
		return decline("the loop that writes the fitness does not range over the organisms of the species")
	}
	if len(OuterLoops(loops, l.Header)) > 1 {
		return decline("the organism loop is nested in another loop")
	}
	for _, g := range Guards(l.Header) {
		if !l.Blocks[g.At] {
			return decline("the organism loop runs only under " + tm.Of(g.Cond).String())
		}
	}
	// the organism of the iteration: every access to the cell goes through the same element of the list
	var org ssa.Value
	sameOrg := func(a, b ssa.Value) bool {
		if a == b {
			return true
		}
		la, okA := a.(*ssa.UnOp)
		lb, okB := b.(*ssa.UnOp)
		if !okA || !okB || la.Op != token.MUL || lb.Op != token.MUL {
			return false
		}
		ia, okA := la.X.(*ssa.IndexAddr)
		ib, okB := lb.X.(*ssa.IndexAddr)
		return okA && okB && ia.Index == ib.Index && tm.Of(ia.X).String() == tm.Of(ib.X).String()
	}
	bad := ""
	Instrs(fn, func(b *ssa.BasicBlock, _ int, in ssa.Instruction) {
		if !l.Blocks[b] || bad != "" {
			return
		}
		switch x := in.(type) {
		case *ssa.FieldAddr:
			if fieldOf(x.X.Type(), x.Field) != fit {
				return
			}
			if tm.Of(x).String() != fT {
				bad = "the loop reads the fitness of " + tm.Of(x.X).String()
				return
			}
			if org == nil {
				org = x.X
			} else if !sameOrg(org, x.X) {
				bad = "the loop accesses the fitness of more than one organism per iteration"
			}
		case ssa.CallInstruction:
			c := x.Common()
			if _, isB := c.Value.(*ssa.Builtin); isB {
				return
			}
			callee := c.StaticCallee()
			if callee == nil {
				bad = "the loop makes a dynamic call at " + p.Pos(in.Pos())
			} else if callee.Pkg != nil && strings.HasPrefix(callee.Pkg.Pkg.Path(), Mod) {
				bad = "the loop calls " + FuncName(callee)
			}
		}
	})
	if bad != "" {
		return decline(bad)
	}
	paths, complete := EnumIterPaths(fn, l, 400)
	if !complete {
		return decline("too many paths through one iteration")
	}
	r.PathsExplored += len(paths)
	wantStag := linAtom("recv.Age").Add(linAtom("recv.AgeOfLastImprovement"), -1).Add(linConst(1), 1).Add(linAtom("p1.DropOffAge"), -1)
	wantYoung := linConst(10).Add(linAtom("recv.Age"), -1)
	neg := func(l Lin) Lin { return linConst(-1).Add(l, -1) }
	fail := func(stage, why string, at token.Pos) {
		if _, dup := out.Fail[stage]; !dup {
			out.Fail[stage], out.Pos[stage] = why, at
		}
	}
	isInit := func(e *fxExpr) bool { return e != nil && e.Op == "init" }
	isPenalty := func(e *fxExpr) bool {
		if e == nil || e.Op != "const" || e.K == nil {
			return false
		}
		f, _ := constant.Float64Val(constant.ToFloat(e.K))
		return f == 0.01
	}
	for _, ip := range paths {
		if ip.End != "back" {
			if len(ip.Blocks) > 2 || ip.Blocks[0] != l.Header {
				fail(c09StShare, "the loop over the organisms can be left before every organism was visited", firstPos(ip))
			}
			continue
		}
		fp := newFxPath(tm, ip, fT, sts)
		final := fp.final()
		tests := fp.tests(l.Header)
		if fp.why != "" {
			return decline(fp.why)
		}
		out.Paths++
		at := firstPos(ip)
		if len(fp.stores) > 0 {
			at = fp.stores[len(fp.stores)-1].Pos()
		}
		// the integer facts of the path, and which of the two age conditions they decide
		var ints []string
		stag, young := 0, 0 // +1 holds, -1 does not hold, 0 not decided by the path, 2 contradictory
		note := func(cur *int, v int) {
			if *cur != 0 && *cur != v {
				*cur = 2
			} else {
				*cur = v
			}
		}
		seen := map[ssa.Value]bool{}
		for _, g := range ip.Conds {
			if g.At == l.Header || seen[g.Cond] {
				continue
			}
			L, ok := c09IntCondLin(tm, inline, g.Cond, g.True)
			if !ok {
				continue
			}
			seen[g.Cond] = true
			ints = append(ints, L.String()+" >= 0")
			switch {
			case L.Equal(wantStag):
				note(&stag, 1)
			case L.Equal(neg(wantStag)):
				note(&stag, -1)
			case L.Equal(wantYoung):
				note(&young, 1)
			case L.Equal(neg(wantYoung)):
				note(&young, -1)
			}
		}
		known := "the integer tests passed on that path: " + strings.Join(ints, "; ")
		if len(ints) == 0 {
			known = "no integer test is passed on that path"
		}
		// (4) shared last
		if final.Op != "bin" || final.Name != "/" || !final.B.isLeaf(nT) {
			fail(c09StShare, "a path through the iteration leaves the organism's fitness as "+final.String()+", which is not a quotient by the number of organisms of the species", at)
			continue
		}
		x := final.A
		// (3) negative values replaced
		var y *fxExpr
		if x.Op == "const" {
			if f, _ := constant.Float64Val(constant.ToFloat(x.K)); f < 0 {
				fail(c09StClamp, "a path replaces the fitness by the negative constant "+x.Name, at)
				continue
			}
			for _, t := range tests {
				if (t.Op == token.LSS || t.Op == token.LEQ) && t.Holds && constTermOf(t.Y) != nil && constTermOf(t.Y).Name == "0" {
					if e := fp.eval(t.X, 0); y == nil || !isInit(e) {
						y = e
					}
				}
			}
			if y == nil {
				fail(c09StClamp, "a path replaces the fitness by the constant "+x.Name+" without having found it negative", at)
				continue
			}
		} else {
			tested := false
			for _, t := range tests {
				if (t.Op == token.LSS || t.Op == token.LEQ) && !t.Holds && constTermOf(t.Y) != nil && constTermOf(t.Y).Name == "0" && fxSame(fp.eval(t.X, 0), x) {
					tested = true
				}
			}
			if !tested {
				fail(c09StClamp, "a path shares the fitness "+x.String()+" without having tested that very value for being negative (a negative one must be replaced by a non-negative constant first)", at)
				continue
			}
			y = x
		}
		if fp.why != "" {
			return decline(fp.why)
		}
		// (2) youth boost
		z, boosted := fxMulBy(y, func(e *fxExpr) bool { return e.isLeaf(aT) })
		if !boosted {
			z = y
		}
		switch {
		case young == 0 || young == 2:
			fail(c09StBoost, "a path through the iteration does not decide whether the species is young (10 - Age >= 0) and leaves "+y.String()+" before the replacement of negative values; "+known, at)
			continue
		case boosted != (young == 1):
			fail(c09StBoost, fmt.Sprintf("on a path on which `10 - Age >= 0` is %v the fitness before the replacement of negative values is %s (boost applied: %v); the boost by AgeSignificance belongs to exactly the species with Age <= 10", young == 1, y.String(), boosted), at)
			continue
		}
		// (1) stagnation penalty
		w, penalised := fxMulBy(z, isPenalty)
		if !penalised {
			w = z
		}
		if !isInit(w) {
			fail(c09StStag, "before the youth boost the fitness is "+z.String()+" on some path; expected the fitness the organism came with (f0), or 0.01 of it for a stagnant species", at)
			continue
		}
		switch {
		case stag == 0 || stag == 2:
			fail(c09StStag, fmt.Sprintf("a path through the iteration (penalty applied: %v) does not decide the condition Age - AgeOfLastImprovement + 1 - DropOffAge >= 0 (%s >= 0); %s", penalised, wantStag.String(), known), at)
			continue
		case penalised != (stag == 1):
			fail(c09StStag, fmt.Sprintf("on a path on which `%s >= 0` is %v the penalty (fitness * 0.01) is applied: %v", wantStag.String(), stag == 1, penalised), at)
			continue
		}
	}
	if out.Paths == 0 {
		return decline("no path through an iteration of the organism loop")
	}
	out.Decided = true
	return out
}

// c10OrderPreservingByPaths (C10.4): the fitness update `st` of adjustFitness, whose value is not one of the forms
// the store-by-store rule knows (fitness*c, fitness/n, a constant under fitness < c), keeps the order of distinct
// positive fitness values. Decided on the paths of one iteration of the loop around the store, with the evaluation
// of fxPath: on every path that reaches the store the value stored is a chain of scalings
//
//	e ::= f0 | e * k | k * e | e / k        k a positive constant or a quantity that is not computed from the fitness
//	    | c                                 a constant, on a path that has found a chain value e' < c' (or <=), c' <= 0
//
// (f0: the fitness the iteration found in the organism; a positive f0 never takes a path of the last kind), and
// every branch outcome of the path inside the iteration either does not depend on the organism (it selects the same
// chain for all organisms of the species) or is such a test of a chain value against a constant <= 0 (which all
// positive values pass alike). Then two organisms with distinct positive fitness values receive the same chain.
func c10OrderPreservingByPaths(fn *ssa.Function, tm *Termer, st *ssa.Store, cell string) (bool, string) {
	loops := Loops(fn)
	l := InnermostLoop(loops, st.Block())
	if l == nil {
		return false, "not written in a loop over the organisms"
	}
	fld := StoredField(st)
	if fld == nil {
		return false, "not a field store"
	}
	var cellStores []*ssa.Store
	for _, o := range FieldStores(fn, fld) {
		if !l.Blocks[o.Block()] {
			continue
		}
		if tm.Of(o.Addr).String() != cell {
			return false, "the loop also writes " + tm.Of(o.Addr).String()
		}
		cellStores = append(cellStores, o)
	}
	bad := ""
	Instrs(fn, func(b *ssa.BasicBlock, _ int, in ssa.Instruction) {
		if !l.Blocks[b] || bad != "" {
			return
		}
		if ci, ok := in.(ssa.CallInstruction); ok {
			c := ci.Common()
			if _, isB := c.Value.(*ssa.Builtin); isB {
				return
			}
			if callee := c.StaticCallee(); callee == nil || (callee.Pkg != nil && strings.HasPrefix(callee.Pkg.Pkg.Path(), Mod)) {
				bad = "the loop makes a call that is not followed"
			}
		}
	})
	if bad != "" {
		return false, bad
	}
	paths, complete := EnumIterPaths(fn, l, 400)
	if !complete {
		return false, "too many paths through one iteration"
	}
	elem := strings.TrimSuffix(cell, ".Fitness")
	n := 0
	for _, ip := range paths {
		if !ip.OnPath(st) {
			continue
		}
		fp := newFxPath(tm, ip, cell, cellStores)
		tests := fp.tests(l.Header)
		// nonPositive: the path has found e < c' (or <=) for a chain value e and a constant c' <= 0; or has found the
		// contrary - either way a test that all positive values pass alike
		var isChain func(e *fxExpr, depth int) bool
		factor := func(e *fxExpr) bool {
			switch e.Op {
			case "const":
				f, _ := constant.Float64Val(constant.ToFloat(e.K))
				return f > 0
			case "leaf":
				return !strings.HasPrefix(e.Name, "?") && !strings.Contains(e.Name, elem)
			}
			return false
		}
		signTest := func(t fxTest, mustHold bool) bool {
			if t.Op != token.LSS && t.Op != token.LEQ {
				return false
			}
			k, isK := t.Y.(*ssa.Const)
			if !isK || k.Value == nil || (mustHold && !t.Holds) {
				return false
			}
			if f, _ := constant.Float64Val(constant.ToFloat(k.Value)); f > 0 {
				return false
			}
			e := fp.eval(t.X, 0)
			return e.Op != "const" && isChain(e, 0)
		}
		isChain = func(e *fxExpr, depth int) bool {
			if e == nil || depth > 40 {
				return false
			}
			switch e.Op {
			case "init":
				return true
			case "const":
				for _, t := range tests {
					if signTest(t, true) {
						return true
					}
				}
				return false
			case "bin":
				switch e.Name {
				case "*":
					return (factor(e.B) && isChain(e.A, depth+1)) || (factor(e.A) && isChain(e.B, depth+1))
				case "/":
					return factor(e.B) && isChain(e.A, depth+1)
				}
			}
			return false
		}
		val := fp.eval(st.Val, 0)
		if fp.why != "" {
			return false, fp.why
		}
		if !isChain(val, 0) {
			return false, "on a path it is set to " + val.String() + ", which is not the organism's fitness scaled by positive factors"
		}
		for _, t := range tests {
			if !l.Blocks[t.G.At] {
				continue
			}
			if !strings.Contains(tm.Of(t.G.Cond).String(), elem) {
				continue // the same outcome for every organism of the species
			}
			if !signTest(t, false) {
				return false, "the scaling is selected per organism by " + tm.Of(t.G.Cond).String()
			}
		}
		n++
	}
	if n == 0 {
		return false, "no path of an iteration reaches the update"
	}
	return true, fmt.Sprintf("on each of the %d paths that reach it: the fitness scaled by positive factors, the same for every organism; a constant only where the value was found <= 0", n)
}
