package nc

import (
	"fmt"
	"go/constant"
	"go/token"
	"go/types"
	"strings"

	"golang.org/x/tools/go/ssa"
)

func init() { register("C07", C07) }

// cursorFamily: all integer SSA values connected to the indexes used to read
// `list` (a field load such as recv.Genes) through phis and ±const steps.
func cursorFamily(fn *ssa.Function, tm *Termer, listTerm string) map[ssa.Value]bool {
	fam := map[ssa.Value]bool{}
	var work []ssa.Value
	Instrs(fn, func(_ *ssa.BasicBlock, _ int, in ssa.Instruction) {
		if ia, ok := in.(*ssa.IndexAddr); ok && tm.Of(ia.X).String() == listTerm {
			if _, isC := ia.Index.(*ssa.Const); !isC {
				work = append(work, ia.Index)
			}
		}
	})
	for len(work) > 0 {
		v := work[len(work)-1]
		work = work[:len(work)-1]
		if fam[v] {
			continue
		}
		fam[v] = true
		switch x := v.(type) {
		case *ssa.Phi:
			for _, e := range x.Edges {
				if _, isC := e.(*ssa.Const); !isC {
					work = append(work, e)
				}
			}
		case *ssa.BinOp:
			if x.Op == token.ADD || x.Op == token.SUB {
				if _, isC := x.Y.(*ssa.Const); isC {
					work = append(work, x.X)
				}
			}
		}
		// forward: values derived from v by ±const or phi
		if refs := v.Referrers(); refs != nil {
			for _, ref := range *refs {
				switch y := ref.(type) {
				case *ssa.Phi:
					work = append(work, y)
				case *ssa.BinOp:
					if (y.Op == token.ADD || y.Op == token.SUB) && y.X == v {
						if _, isC := y.Y.(*ssa.Const); isC {
							work = append(work, y)
						}
					}
				}
			}
		}
	}
	return fam
}

// exhaustedBy: does the branch outcome g say that a cursor of fam ran off its
// list (forward: c >= len(list) / !(c < len(list)); backward: c < 0 / !(c >= 0))?
func exhaustedBy(tm *Termer, g Guard, fam map[ssa.Value]bool, listTerm string) bool {
	// the outcome as a fact `c rel y` about a cursor c of the family, whatever the spelling of the test
	// (operands exchanged, complement under `!`, branches exchanged)
	c, y, set, ok := c07FactAboutX(g.Cond, g.True, func(v ssa.Value) bool { return fam[v] })
	if !ok || fam[y] {
		return false
	}
	// the fact is about the index the list is read at: index = c + off (off = 0 when the cursor is the index itself;
	// -1 for a version of a cursor that counts the genes left, ...)
	off, okOff := tm.c07CurOf(listTerm).Off(c)
	if !okOff {
		return false
	}
	if tm.Of(y).String() == "len("+listTerm+")" {
		// forward: the outcome excludes c < len (c >= len, c == len, c > len)
		return off == 0 && set&c07RelLT == 0
	}
	if k, isK := c07Int(y); isK {
		// backward: the outcome implies index < 0 (index < k with k <= 0; index <= k or index == k with k <= -1)
		k += off
		return (k <= 0 && set == c07RelLT) || (k <= -1 && set&c07RelGT == 0)
	}
	return false
}

// inRangeBy: does the branch outcome g say that a cursor of fam is still inside its list (forward: c < len(list);
// backward: c >= 0, c > -1)? `c != len(list)` / `c != -1` count as well: for a cursor that starts inside-or-at-the-end
// and moves by one step per iteration under this very test they are the same fact (the callers prove start and step).
// This is NOT the complement of exhaustedBy: `c > len` refused says c <= len, which is not "inside".
func inRangeBy(tm *Termer, g Guard, fam map[ssa.Value]bool, listTerm string) bool {
	cur := tm.c07CurOf(listTerm)
	return c07InRangeFactOff(tm, g, func(v ssa.Value) bool { return fam[v] }, listTerm, cur.Off)
}

// c07InRangeFact is inRangeBy for a cursor value picked by a predicate that identifies a VERSION of the cursor
// variable (e.g. "resolves, on this path, to the value the cursor has at the start of the iteration").
func c07InRangeFact(tm *Termer, g Guard, is func(ssa.Value) bool, listTerm string) bool {
	bias := tm.c07BiasOf(listTerm)
	return c07InRangeFactOff(tm, g, is, listTerm, func(ssa.Value) (int64, bool) { return bias, true })
}

// c07InRangeFactOff: offOf gives, for the operand picked, the constant with index = operand + off.
func c07InRangeFactOff(tm *Termer, g Guard, is func(ssa.Value) bool, listTerm string, offOf func(ssa.Value) (int64, bool)) bool {
	c, y, set, ok := c07FactAboutX(g.Cond, g.True, is)
	if !ok || is(y) {
		return false
	}
	off, okOff := offOf(c)
	if !okOff {
		return false
	}
	if tm.Of(y).String() == "len("+listTerm+")" {
		return off == 0 && (set == c07RelLT || set == c07RelLT|c07RelGT)
	}
	if k, isK := c07Int(y); isK {
		k += off
		return (k >= 0 && set&c07RelLT == 0) || (k >= -1 && set == c07RelGT) || (k == -1 && set == c07RelLT|c07RelGT)
	}
	return false
}

// trichotomyInfeasible: the path takes a==b false, a<b false and b<a (or a>b) false on the same operands.
func trichotomyInfeasible(conds []Guard) bool {
	type key struct{ a, b ssa.Value }
	rel := map[key]map[string]bool{}
	for _, g := range conds {
		b, ok := g.Cond.(*ssa.BinOp)
		if !ok || g.True {
			continue
		}
		a, c, op := b.X, b.Y, b.Op
		name := ""
		switch op {
		case token.EQL:
			name = "eq"
		case token.LSS:
			name = "lt"
		case token.GTR:
			name = "gt"
		default:
			continue
		}
		k := key{a, c}
		if _, ok := rel[key{c, a}]; ok {
			k = key{c, a}
			if name == "lt" {
				name = "gt"
			} else if name == "gt" {
				name = "lt"
			}
		}
		if rel[k] == nil {
			rel[k] = map[string]bool{}
		}
		rel[k][name] = true
	}
	for _, m := range rel {
		if m["eq"] && m["lt"] && m["gt"] {
			return true
		}
	}
	return false
}

// relInfeasible: the branch outcomes of the path contradict each other as
// order relations on the same pair of operands (a<b false together with a>=b
// false; ==,<,> all false; ...). Operands are identified by SSA value, or by
// their term when both are plain memory loads (the same field path read twice).
func relInfeasible(tm *Termer, conds []Guard) bool {
	const lt, eq, gt = 1, 2, 4
	keyOf := func(v ssa.Value) string {
		if u, ok := v.(*ssa.UnOp); ok && u.Op == token.MUL {
			s := tm.Of(v).String()
			if !strings.Contains(s, "φ") && !strings.Contains(s, "loop") {
				return "T:" + s
			}
		}
		if c, ok := v.(*ssa.Const); ok {
			return "C:" + tm.Of(c).String()
		}
		if c, ok := v.(*ssa.Call); ok {
			if b, isB := c.Call.Value.(*ssa.Builtin); isB && b.Name() == "len" {
				s := tm.Of(v).String()
				if !strings.Contains(s, "φ") && !strings.Contains(s, "loop") {
					return "T:" + s
				}
			}
		}
		return fmt.Sprintf("V:%p", v)
	}
	allowed := map[string]int{}
	for _, g := range conds {
		// the outcome as a relation that holds (c07Fact: `!` removed, constants on the right); lt/eq/gt are the c07Rel* bits
		bx, by, set, ok := c07Fact(g.Cond, g.True)
		if !ok {
			continue
		}
		ka, kb := keyOf(bx), keyOf(by)
		k := ka + "|" + kb
		if _, ok := allowed[kb+"|"+ka]; ok {
			k = kb + "|" + ka
			// mirror the relation
			m := 0
			if set&lt != 0 {
				m |= gt
			}
			if set&gt != 0 {
				m |= lt
			}
			if set&eq != 0 {
				m |= eq
			}
			set = m
		}
		if prev, ok := allowed[k]; ok {
			allowed[k] = prev & set
		} else {
			allowed[k] = set
		}
		if allowed[k] == 0 {
			return true
		}
	}
	return false
}

func constInt(v ssa.Value) (int64, bool) {
	c, ok := v.(*ssa.Const)
	if !ok || c.Value == nil {
		return 0, false
	}
	if c.Value.Kind().String() == "Int" {
		return c.Int64(), true
	}
	if c.Value.Kind().String() == "Float" {
		f := c.Float64()
		if f == float64(int64(f)) {
			return int64(f), true
		}
	}
	return 0, false
}

// C07 — compatibility distance.
func C07(p *Prog, r *Run) {
	r.Explanation = "Decided on compatibility/compatLinear/compatFast: (1) the method dispatch reaches the linear walk exactly for the `linear` option value and the fast walk otherwise (a call through a function value picked beforehand is read as one invocation per function it can hold, under the outcomes of the edge that picked it; forwarding wrappers are looked through); (2) every float division whose denominator is a loop counter starting at 0 is dominated by a test that the counter is positive (never NaN); (3) merge-walk exhaustion: every way out of the walk either has both cursors exhausted, or has one exhausted and adds the remainder of the other list to the distance; (4) per-step accounting over every acyclic path of one loop iteration: a step that advances one cursor adds exactly one unit (one coefficient) of disjoint-or-excess and nothing else, the step that advances both adds no unit, counts one match and accumulates |m1-m2| of the two current genes, no step leaves both cursors in place; in the linear walk a unit is 'excess' exactly when the other list is exhausted, in the fast walk unit kind and next switch state follow the 4-state table (judged for every state the outcomes of a path leave possible; a unit kind or next state looked up in a package-level table counts only when that table is proved constant: no pointers in its type, filled with constants by the package initialiser, written or address-taken nowhere else in the program); the merge loop may be followed by tail loops that each walk the rest of one list (each judged on its own: entered only with the other list exhausted, one unit per remaining gene, left only with the list exhausted, continuing cursor and count of the walk), or the remainder may be added in one piece (len-cursor) behind the loop; (4b) start state: all counters 0, cursors on the first gene in walking direction (a cursor may be the index itself or the number of genes left; every cursor fact is read as a fact about the index the list is read at); (4c) result: on every way from the end of the walk to a return the value returned is DisjointCoeff*D + ExcessCoeff*E (+ MutdiffCoeff*MD/M exactly when genes matched) over the final counters, nothing else added, subtracted or rescaled; (4d) a return in front of the walk happens only for an empty gene list and yields ExcessCoeff times the genes of the other list; (5) both methods read only the three coefficients, InnovationNum and MutationNum and write nothing; (6) the coefficients read are the configured ones: nothing in the library overwrites them in an Options object it was handed, a loader fills them only from its input. In the fast walk an unmatched step advances the list whose current innovation number is larger. Not decided: equality of the two methods' values for all pairs (implied by 3-4 only informally), floating-point summation order."
	comp := p.Func(PkgG, "Genome.compatibility")
	lin := p.Func(PkgG, "Genome.compatLinear")
	fast := p.Func(PkgG, "Genome.compatFast")
	r.Fn(FuncName(comp), FuncName(lin), FuncName(fast))

	r.Rule("C07.1", "dispatch: compatibility calls the linear walk exactly for the `linear` method constant and the fast walk otherwise", func() {
		r.c07Dispatch()
	})

	r.Rule("C07.2", "guarded division: a float division by a counter that starts at 0 is dominated by a positivity test of that counter", func() {
		n := 0
		for _, fn := range []*ssa.Function{lin, fast} {
			tm := NewTermer(fn)
			Instrs(fn, func(b *ssa.BasicBlock, _ int, in ssa.Instruction) {
				bo, ok := in.(*ssa.BinOp)
				if !ok || bo.Op != token.QUO {
					return
				}
				if bt, ok := bo.Type().Underlying().(*types.Basic); !ok || bt.Info()&types.IsFloat == 0 {
					return
				}
				den := bo.Y
				if cv, ok := den.(*ssa.Convert); ok {
					den = cv.X
				}
				if _, isC := den.(*ssa.Const); isC {
					return
				}
				n++
				guarded := false
				for _, g := range Guards(b) {
					// n > 0, n != 0, n >= 1 in any spelling (0 < n, !(n <= 0), !(n == 0), !(n < 1), ...)
					if c07NonZeroBy(g.Cond, g.True, den) {
						guarded = true
					}
				}
				r.Check(guarded, fn.Name()+".division", p.Pos(bo.Pos()), "division by "+tm.Of(den).String()+" is reached only when it is positive",
					"division by "+tm.Of(den).String()+" is not guarded by a non-zero test: with no matching genes the distance is 0/0 = NaN")
			})
		}
		r.Floor("float divisions by a counter", n, 2)
	})

	walk := func(fn *ssa.Function, kind string) {
		tm := NewTermer(fn)
		loops := Loops(fn)
		fam1 := cursorFamily(fn, tm, "recv.Genes")
		fam2 := cursorFamily(fn, tm, "p1.Genes")
		// one merge loop, possibly followed by tail loops that each walk the rest of ONE list
		// (loop fission by phase: `for i1<n1 && i2<n2 {compare}; for ; i2<n2; i2++ {excess++}; for ; i1<n1; i1++ {excess++}`)
		l, tails, whyLoops := c07SplitLoops(loops, fam1, fam2)
		if l == nil {
			r.Undecided(fn.Name()+".loop", p.Pos(fn.Pos()), whyLoops)
			return
		}
		if len(fam1) == 0 || len(fam2) == 0 {
			r.Undecided(fn.Name()+".cursors", p.Pos(fn.Pos()), "cannot find the two list cursors")
			return
		}
		var c1, c2 *ssa.Phi
		for _, ph := range HeaderPhis(l) {
			if fam1[ph] {
				c1 = ph
			}
			if fam2[ph] {
				c2 = ph
			}
		}
		if c1 == nil || c2 == nil || c1 == c2 {
			r.Undecided(fn.Name()+".cursors", p.Pos(fn.Pos()), "the two cursors are not distinct loop-carried variables")
			return
		}
		// index cursor or count cursor: how each cursor variable relates to the index its list is read at
		tm.c07cur = map[string]*c07Cur{"recv.Genes": c07CursorInfo(fn, tm, "recv.Genes", c1), "p1.Genes": c07CursorInfo(fn, tm, "p1.Genes", c2)}
		for _, lt := range []string{"recv.Genes", "p1.Genes"} {
			if ci := tm.c07cur[lt]; ci != nil && ci.Why != "" {
				r.Undecided(fn.Name()+".cursors", p.Pos(fn.Pos()), "cannot relate a cursor to the genes it stands for: "+ci.Why)
				return
			}
		}
		// accumulators
		opt := func(name string) *types.Var { return p.Field(PkgT, "Options", name) }
		var dCnt, eCnt, mCnt, mdAcc, costAcc *ssa.Phi
		isOptField := func(v ssa.Value, f *types.Var) bool {
			t := tm.Of(v)
			return t.Op == "field" && t.Obj == f
		}
		// roleOf: how is the loop-carried value (or values merged from it) used after the loop / inside?
		roleOf := func(ph *ssa.Phi) string {
			role := ""
			seen := map[ssa.Value]bool{}
			var visit func(v ssa.Value, depth int)
			visit = func(v ssa.Value, depth int) {
				if seen[v] || depth > 6 || v.Referrers() == nil {
					return
				}
				seen[v] = true
				for _, ref := range *v.Referrers() {
					switch y := ref.(type) {
					case *ssa.Phi:
						visit(y, depth+1)
					case *ssa.Convert:
						visit(y, depth+1)
					case *ssa.BinOp:
						other := y.X
						if other == v {
							other = y.Y
						}
						switch y.Op {
						case token.MUL:
							if isOptField(other, opt("DisjointCoeff")) {
								role = "disjoint"
							} else if isOptField(other, opt("ExcessCoeff")) {
								role = "excess"
							} else if isOptField(other, opt("MutdiffCoeff")) {
								role = "mutdiff"
							}
						case token.QUO:
							if y.Y == v {
								role = "matching"
							} else {
								// numerator of the mean: either mutdiff itself or mutdiff*coeff
								if role == "" {
									role = "mutdiff"
								}
							}
						case token.ADD:
							// the unit added may reach the addition through a phi (a helper that returns the coefficient)
							if c07AllFeeders(other, func(f ssa.Value) bool {
								return isOptField(f, opt("DisjointCoeff")) || isOptField(f, opt("ExcessCoeff"))
							}) {
								role = "cost"
							} else {
								visit(y, depth+1) // the accumulated value flows on
							}
						case token.SUB:
							if y.X == v {
								visit(y, depth+1)
							}
						}
					}
				}
			}
			visit(ph, 0)
			return role
		}
		for _, ph := range HeaderPhis(l) {
			if fam1[ph] || fam2[ph] {
				continue
			}
			switch roleOf(ph) {
			case "disjoint":
				dCnt = ph
			case "excess":
				eCnt = ph
			case "matching":
				mCnt = ph
			case "mutdiff":
				mdAcc = ph
			case "cost":
				costAcc = ph
			}
		}
		// (the excess counter need not be carried by the merge loop itself: when the excess genes are counted
		// behind the loop it stays at its initial constant here; the exit obligations below then decide)
		if mCnt == nil || mdAcc == nil || (kind == "linear" && dCnt == nil) || (kind == "fast" && costAcc == nil) {
			r.Undecided(fn.Name()+".accumulators", p.Pos(fn.Pos()), fmt.Sprintf("cannot identify the accumulators (disjoint=%v excess=%v matching=%v mutdiff=%v cost=%v)", dCnt != nil, eCnt != nil, mCnt != nil, mdAcc != nil, costAcc != nil))
			return
		}
		paths, complete := EnumIterPaths(fn, l, 400)
		if !complete {
			r.Undecided(fn.Name()+".paths", p.Pos(fn.Pos()), "too many paths through one iteration")
			return
		}
		r.PathsExplored += len(paths)
		// the switch variable of the fast walk
		var sw *ssa.Phi
		if kind == "fast" {
			for _, ph := range HeaderPhis(l) {
				if ph == c1 || ph == c2 || ph == mCnt || ph == mdAcc || ph == costAcc {
					continue
				}
				if bt, ok := ph.Type().Underlying().(*types.Basic); ok && bt.Info()&types.IsInteger != 0 {
					sw = ph
				}
			}
		}
		if kind == "fast" {
			r.Check(sw != nil, fn.Name()+".state", p.Pos(fn.Pos()), "an integer state distinguishes `first gene`, `excess on list 1`, `excess on list 2` and `no more excess`",
				"the backward walk carries no integer state that tells excess genes on either list from disjoint ones (one flag is not enough: a mismatch on the other list than the one holding the excess tail ends the excess region)")
		}
		// tail loops behind the merge loop: each is judged on its own (one obligation per tail loop); the lists
		// whose remainder a sound tail loop counts are what an exit of the merge loop may rely on
		var tailInfo *c07Tails
		if len(tails) > 0 {
			mainAcc := eCnt
			if kind == "fast" {
				mainAcc = costAcc
			}
			tailInfo = r.c07CheckTails(fn, tm, kind, l, tails, fam1, fam2, c1, c2, mainAcc, paths, roleOf,
				func(v ssa.Value) bool { return isOptField(v, opt("DisjointCoeff")) },
				func(v ssa.Value) bool { return isOptField(v, opt("ExcessCoeff")) })
		}
		fwdInv := map[int]bool{}
		if kind == "linear" {
			fwdInv[1] = c07ForwardInvariant(tm, l, paths, c1, "recv.Genes")
			fwdInv[2] = c07ForwardInvariant(tm, l, paths, c2, "p1.Genes")
		}
		nBack, nExit := 0, 0
		for _, ip := range paths {
			if relInfeasible(tm, ip.Conds) {
				continue
			}
			steps := func(ph *ssa.Phi, next ssa.Value) (int, bool) {
				if ph == nil {
					return 0, true // not carried by this loop: unchanged on every path
				}
				adds, subs, ok := ip.Delta(next, ph)
				if !ok {
					return 0, false
				}
				n := 0
				for _, a := range adds {
					k, isK := c07PathInt(ip, a)
					if !isK {
						return 0, false
					}
					n += int(k)
				}
				for _, s := range subs {
					k, isK := c07PathInt(ip, s)
					if !isK {
						return 0, false
					}
					n -= int(k)
				}
				return n, true
			}
			label := fmt.Sprintf("%s.path[%s]", fn.Name(), pathKey(ip))
			pos := p.Pos(firstPos(ip))
			switch ip.End {
			case "back":
				nBack++
				a1, ok1 := steps(c1, ip.NextValue(c1))
				a2, ok2 := steps(c2, ip.NextValue(c2))
				if !ok1 || !ok2 {
					r.Undecided(label, pos, "cannot decompose the cursor updates on this path")
					continue
				}
				// walking direction: both lists are sorted by innovation number, the linear walk merges them from the
				// front (+1 per step), the fast walk from the back (-1 per step); a step the other way revisits or
				// skips genes (and the per-step rules below - which gene is the unmatched one - presuppose the direction)
				wantDir := 1
				if kind == "fast" {
					wantDir = -1
				}
				if a1*wantDir < 0 || a2*wantDir < 0 {
					r.Bad(label, pos, fmt.Sprintf("an iteration moves the cursors by (%+d,%+d), against the walking direction (%+d) of the %s walk: genes are revisited or skipped", a1, a2, wantDir, kind), ip.Describe(p)...)
					continue
				}
				if a1 < 0 {
					a1 = -a1
				}
				if a2 < 0 {
					a2 = -a2
				}
				m, okm := steps(mCnt, ip.NextValue(mCnt))
				mdAdds, _, okmd := ip.Delta(ip.NextValue(mdAcc), mdAcc)
				units, unitKind, oku := 0, "", true
				if kind == "linear" {
					d, okd := steps(dCnt, ip.NextValue(dCnt))
					var eNext ssa.Value
					if eCnt != nil {
						eNext = ip.NextValue(eCnt)
					}
					e, oke := steps(eCnt, eNext)
					oku = okd && oke
					units = d + e
					if d == 1 {
						unitKind = "disjoint"
					}
					if e == 1 {
						unitKind = "excess"
					}
				} else {
					adds, subs, okc := ip.Delta(ip.NextValue(costAcc), costAcc)
					oku = okc && len(subs) == 0
					// the operand as computed on this path (a phi of coefficients resolves to the one chosen here)
					pre := &IterPath{Blocks: ip.Blocks[:len(ip.Blocks)-1], End: "partial"}
					for _, a := range adds {
						a = pre.Resolve(a)
						switch {
						case isOptField(a, opt("DisjointCoeff")):
							units++
							unitKind = "disjoint"
						case isOptField(a, opt("ExcessCoeff")):
							units++
							unitKind = "excess"
						default:
							oku = false
						}
					}
				}
				if !okm || !okmd || !oku {
					r.Undecided(label, pos, "cannot decompose the accumulator updates on this path")
					continue
				}
				hasAbs := false
				for _, a := range mdAdds {
					t := tm.Of(a)
					if t.Op == "call" && t.Name == "math.Abs" && strings.Contains(t.String(), "recv.Genes[*].MutationNum") && strings.Contains(t.String(), "p1.Genes[*].MutationNum") && strings.Contains(t.String(), "-") {
						hasAbs = true
					} else if c07AbsByHand(tm, ip, a) {
						hasAbs = true
					}
				}
				// what the branch outcomes of this path say about the two current innovation numbers
				innovRel := c07InnovRel(tm, ip.Conds)
				switch {
				case a1 == 1 && a2 == 1:
					ok := units == 0 && m == 1 && len(mdAdds) == 1 && hasAbs
					// and the step is taken only for equal innovation numbers
					// (`==` taken, or `<` and `>` both refused: the outcomes leave only equality)
					eq := innovRel == c07RelEQ
					r.Check(ok && eq, label, pos, "matching step: both cursors advance, one match counted, |m1-m2| accumulated, no disjoint/excess unit",
						fmt.Sprintf("step advancing both cursors: units=%d matches=%d mutdiff-terms=%d abs=%v guarded-by-equal-innovation=%v; expected 0,1,1,true,true", units, m, len(mdAdds), hasAbs, eq), ip.Describe(p)...)
				case a1+a2 == 1:
					ok := units == 1 && m == 0 && len(mdAdds) == 0
					detail := fmt.Sprintf("step advancing one cursor adds %d unit(s) [%s], %d match(es), %d mutdiff term(s); expected exactly one disjoint-or-excess unit and nothing else", units, unitKind, m, len(mdAdds))
					if ok && kind == "linear" {
						// excess iff the other list is exhausted on this path
						otherEx := false
						for _, g := range ip.Conds {
							if a1 == 1 && exhaustedBy(tm, g, fam2, "p1.Genes") || a2 == 1 && exhaustedBy(tm, g, fam1, "recv.Genes") {
								otherEx = true
							}
						}
						if (unitKind == "excess") != otherEx {
							ok = false
							detail = fmt.Sprintf("a gene is counted as %s although the other list is exhausted=%v on this path", unitKind, otherEx)
						}
						// disjoint step direction: the smaller innovation number advances
						if ok && unitKind == "disjoint" {
							dir := (a1 == 1 && innovRel == c07RelLT) || (a2 == 1 && innovRel == c07RelGT)
							if !dir {
								ok = false
								detail = "a disjoint step does not advance the list whose current innovation number is smaller"
							}
						}
					}
					if ok && kind == "fast" && sw != nil {
						// 4-state table
						// (read from the outcomes of every test of the switch on this path, in any spelling; where the
						// outcomes leave several states possible - the unit and the next state are looked up in a constant
						// table at the state, or several states are handled alike - the path is judged for each of them)
						states := c07StatesOnPath(p, ip, sw)
						nv := ip.NextValue(sw)
						own := int64(1)
						if a2 == 1 {
							own = 2
						}
						if len(states) == 0 {
							ok = false
							detail = "cannot determine the excess/disjoint switch state on this path"
						}
						for _, cur := range states {
							if !ok {
								break
							}
							nx, isK := c07Int(nv)
							if !isK && nv == ssa.Value(sw) {
								nx, isK = cur, true // unchanged on this path
							}
							if !isK {
								// looked up in a constant table at the current state
								if val, okV := c07TableEval(p, ip, nv, sw, cur); okV && val.Kind() == constant.Int {
									nx, isK = constant.Int64Val(val)
								}
							}
							if !isK {
								ok = false
								detail = fmt.Sprintf("cannot determine the next excess/disjoint switch state on this path (state %d)", cur)
								break
							}
							wantKind, wantNext := "disjoint", int64(3)
							switch cur {
							case 0:
								wantKind, wantNext = "excess", own
							case own:
								wantKind, wantNext = "excess", own
							}
							if unitKind != wantKind || nx != wantNext {
								ok = false
								detail = fmt.Sprintf("switch state %d, list %d advances: counted as %s, next state %d; the table requires %s and next state %d", cur, own, unitKind, nx, wantKind, wantNext)
							}
						}
						// direction: the backward walk steps over the gene with the larger innovation number (it has no partner on the other list)
						if ok && !((a1 == 1 && innovRel == c07RelGT) || (a2 == 1 && innovRel == c07RelLT)) {
							ok = false
							detail = "an unmatched step of the backward walk does not advance the list whose current innovation number is larger: the gene stepped over may still have a partner further down the other list"
						}
					}
					r.Check(ok, label, pos, fmt.Sprintf("single step: one %s unit, no match", unitKind), detail, ip.Describe(p)...)
				case a1 == 0 && a2 == 0:
					r.Bad(label, pos, "an iteration can return to the loop head without advancing either cursor (no progress, or a gene that is neither matched nor counted)", ip.Describe(p)...)
				default:
					r.Bad(label, pos, fmt.Sprintf("an iteration advances the cursors by (%d,%d)", a1, a2), ip.Describe(p)...)
				}
				if kind == "fast" && sw != nil && a1 == 1 && a2 == 1 {
					nx, isK := c07Int(ip.NextValue(sw))
					r.Check(isK && nx == 3, label+".switch", pos, "a match ends the excess region (state 3)", "after a matching pair the switch state is not 3: later unmatched genes would be counted as excess")
				}
			case "exit", "return":
				nExit++
				ex1, ex2 := false, false
				for _, g := range ip.Conds {
					if exhaustedBy(tm, g, fam1, "recv.Genes") {
						ex1 = true
					}
					if exhaustedBy(tm, g, fam2, "p1.Genes") {
						ex2 = true
					}
				}
				if ex1 && ex2 {
					r.OK(label, pos, "the walk ends with both lists exhausted")
					continue
				}
				// remainder accounting: on every feasible way from this exit to the function result, the value
				// returned is the cost accumulator plus exactly one term float64(cursor+1)*DisjointCoeff over the
				// cursor of the list that is not exhausted (the term may sit in the loop body before the break, in
				// the exit block, or behind a test after the loop - the path decides, not the block it is written in)
				accounted := false
				why := ""
				if costAcc != nil {
					accounted, why = c07RemainderOnAllPaths(fn, tm, ip, costAcc, fam1, fam2, func(v ssa.Value) bool { return isOptField(v, opt("DisjointCoeff")) })
				}
				if !accounted && (ex1 || ex2) && eCnt != nil && ip.ExitTo != nil {
					// forward form: excess += float64(len(other) - otherCursor)
					otherFam, otherLen := fam2, "len(p1.Genes)"
					if ex2 {
						otherFam, otherLen = fam1, "len(recv.Genes)"
					}
					var cand []ssa.Instruction
					cand = append(cand, ip.Blocks[len(ip.Blocks)-2].Instrs...)
					if len(ip.ExitTo.Preds) == 1 {
						cand = append(cand, ip.ExitTo.Instrs...)
					}
					for _, in := range cand {
						bo, ok := in.(*ssa.BinOp)
						if !ok || bo.Op != token.ADD {
							continue
						}
						sub0 := &IterPath{Blocks: ip.Blocks[:len(ip.Blocks)-1], End: "partial"}
						for _, pr := range [][2]ssa.Value{{bo.X, bo.Y}, {bo.Y, bo.X}} {
							if sub0.Resolve(pr[0]) != ssa.Value(eCnt) {
								continue
							}
							cv, ok := pr[1].(*ssa.Convert)
							if !ok {
								continue
							}
							sb, ok := cv.X.(*ssa.BinOp)
							if ok && sb.Op == token.SUB && tm.Of(sb.X).String() == otherLen && otherFam[sb.Y] {
								accounted = true
							}
						}
					}
				}
				if !accounted && kind == "linear" && ip.End == "exit" && tailInfo == nil {
					// the remainder added in one piece somewhere behind the loop
					var whyF string
					accounted, whyF = c07ForwardRemainderOnAllPaths(fn, tm, ip, eCnt, c1, c2, fwdInv, func(v ssa.Value) bool { return isOptField(v, opt("ExcessCoeff")) })
					if why == "" {
						why = whyF
					}
				}
				if !accounted && tailInfo != nil && ip.End == "exit" && ex1 != ex2 {
					// tail-loop form: a sound tail loop over the list that is NOT exhausted lies on every way from this exit to the result
					rest := 1
					if ex1 {
						rest = 2
					}
					if tl := tailInfo.ByList[rest]; tl != nil && tailInfo.OK && c07Unavoidable(ip.ExitTo, tl.Header) {
						accounted = true
					} else {
						why = fmt.Sprintf(" (no sound tail loop over list %d lies on every way from this exit to the result)", rest)
					}
				}
				if accounted {
					r.OK(label, pos, "the walk ends with one list exhausted and adds the remainder of the other list to the distance")
				} else {
					r.Bad(label, pos, fmt.Sprintf("the walk can end with list1 exhausted=%v, list2 exhausted=%v and without accounting for the remaining genes: they are neither matched nor counted%s", ex1, ex2, why), ip.Describe(p)...)
				}
			}
		}
		w := &c07Walk{Fn: fn, Kind: kind, Main: l, Tails: tails, C1: c1, C2: c2, D: dCnt, E: eCnt, M: mCnt, MD: mdAcc, Cost: costAcc, State: sw, Fam1: fam1, Fam2: fam2,
			IsDc: func(v ssa.Value) bool { return isOptField(v, opt("DisjointCoeff")) },
			IsEc: func(v ssa.Value) bool { return isOptField(v, opt("ExcessCoeff")) },
			IsMc: func(v ssa.Value) bool { return isOptField(v, opt("MutdiffCoeff")) }}
		if tailInfo != nil {
			w.TailAcc = tailInfo.Last
		}
		r.c07CheckResult(w, tm, paths)
		r.c07CheckStart(w, tm, paths)
		r.c07CheckEarlyReturns(w, tm)
		r.c07CheckGenes(w, tm, paths)
		r.Floor(fn.Name()+" iteration paths", nBack, 3)
		r.Floor(fn.Name()+" exit paths", nExit, 1)
	}
	r.Rule("C07.3+4.linear", "linear walk: exhaustion on every exit and per-step accounting on every path of one iteration", func() { walk(lin, "linear") })
	r.Rule("C07.3+4.fast", "fast walk: exhaustion/remainder on every exit, per-step accounting and the 4-state excess/disjoint table on every path of one iteration", func() { walk(fast, "fast") })

	r.Rule("C07.5", "same inputs: both walks read only the three coefficients, InnovationNum and MutationNum of the genes, and write nothing", func() {
		allowed := map[string]bool{"Options.DisjointCoeff": true, "Options.ExcessCoeff": true, "Options.MutdiffCoeff": true,
			"Gene.InnovationNum": true, "Gene.MutationNum": true, "Genome.Genes": true}
		for _, fn := range []*ssa.Function{lin, fast} {
			ok := true
			Instrs(fn, func(_ *ssa.BasicBlock, _ int, in ssa.Instruction) {
				if fa, isFA := in.(*ssa.FieldAddr); isFA {
					k := ownerOf(fa.X.Type()).Obj().Name() + "." + fieldOf(fa.X.Type(), fa.Field).Name()
					if !allowed[k] && p.c07InConstTable(fa, 0) {
						return // an entry of a constant table (or of a local copy of one): a constant, not an input
					}
					if !allowed[k] {
						r.Bad(fn.Name()+".reads:"+k, p.Pos(fa.Pos()), fn.Name()+" reads "+k+", which is not part of the compatibility formula")
						ok = false
					}
				}
			})
			if w := Writes(fn); len(w) > 0 {
				r.Bad(fn.Name()+".writes", p.Pos(w[0].Instr.Pos()), fn.Name()+" writes memory; the distance must be a pure function of the two genomes and the coefficients")
				ok = false
			}
			for _, c := range []string{"rand.Float64", "rand.Intn"} {
				if len(CallsNamed(fn, c)) > 0 {
					r.Bad(fn.Name()+".random", p.Pos(fn.Pos()), fn.Name()+" draws random numbers")
					ok = false
				}
			}
			if ok {
				r.OK(fn.Name()+".inputs", p.Pos(fn.Pos()), "reads only {coefficients, InnovationNum, MutationNum}; no writes")
			}
		}
	})

	r.Rule("C07.6", "configured coefficients: the three coefficients both walks read are the configured values - no function of the library overwrites DisjointCoeff/ExcessCoeff/MutdiffCoeff of an Options object it was handed, and where a loader fills a fresh Options the value stored neither depends on another option field nor is stored under a test of a coefficient", func() {
		r.c07Coefficients()
	})
}

// c07Coefficients implements C07.6. The distance is excess_coeff*E + disjoint_coeff*D + mutdiff_coeff*W for the
// coefficients of the configuration; the walks read them from *Options, so every write to these fields anywhere in
// the library is part of the formula. A write is the configuration itself only when it fills the object under
// construction (allocated in the same function) with a value read from the input; rewriting a coefficient of an
// existing object, deriving one coefficient from another option, or replacing it under a test of its own value
// (`if c.ExcessCoeff == 0 { c.ExcessCoeff = c.DisjointCoeff }`: an explicit 0 cannot be told from an omitted one)
// makes the value used differ from the one configured.
func (r *Run) c07Coefficients() {
	p := r.P
	coeff := map[*types.Var]bool{
		p.Field(PkgT, "Options", "DisjointCoeff"): true,
		p.Field(PkgT, "Options", "ExcessCoeff"):   true,
		p.Field(PkgT, "Options", "MutdiffCoeff"):  true,
	}
	optsT := p.Named(PkgT, "Options")
	isCoeff := func(f *types.Var) bool { return coeff[f] }
	isOptionsField := func(f *types.Var) bool {
		for i := 0; i < optsT.Underlying().(*types.Struct).NumFields(); i++ {
			if optsT.Underlying().(*types.Struct).Field(i) == f {
				return true
			}
		}
		return false
	}
	fresh := func(v ssa.Value) bool {
		for {
			if ct, ok := v.(*ssa.ChangeType); ok {
				v = ct.X
				continue
			}
			break
		}
		_, ok := v.(*ssa.Alloc)
		return ok
	}
	nWrites, nBad := 0, 0
	for _, fn := range p.SrcFuncs() {
		fn := fn
		Instrs(fn, func(b *ssa.BasicBlock, _ int, in ssa.Instruction) {
			st, ok := in.(*ssa.Store)
			if !ok {
				return
			}
			if f := StoredField(st); f != nil && coeff[f] {
				nWrites++
				fa := st.Addr.(*ssa.FieldAddr)
				construct := "coefficients.write:" + fn.Name() + "." + f.Name()
				setter := false
				if !fresh(fa.X) {
					// a setter: the object is a parameter, the value comes from the caller, and every caller inside
					// the library hands in the object it is constructing (no caller at all: public API or a helper
					// that normalisation inlined - the user/loader is then the one who configures)
					if prm := c07ParamRoot(fa.X); prm != nil && c07ReachesParam(st.Val) && c07CallersPassFresh(p, fn, prm, 0) {
						setter = true
					}
				}
				switch {
				case !fresh(fa.X) && !setter:
					nBad++
					r.Bad(construct, p.Pos(st.Pos()), FuncName(fn)+" overwrites "+f.Name()+" of an Options object it did not create: the coefficient the compatibility walks read is then not the configured one")
				case c07ReadsField(st.Val, isOptionsField):
					nBad++
					r.Bad(construct, p.Pos(st.Pos()), FuncName(fn)+" stores into "+f.Name()+" a value derived from another option field: the coefficient used is not the configured one")
				default:
					cond := false
					for _, g := range Guards(b) {
						if c07ReadsField(g.Cond, isCoeff) {
							cond = true
						}
					}
					if cond {
						nBad++
						r.Bad(construct, p.Pos(st.Pos()), FuncName(fn)+" replaces "+f.Name()+" under a test of a coefficient value: a configured boundary value (0) cannot be told from an omitted one and is silently changed")
					} else {
						r.OK(construct, p.Pos(st.Pos()), "fills "+f.Name()+" of the Options object under construction from the input")
					}
				}
				return
			}
			// whole-object assignment *opts = ... through a pointer the function did not allocate
			if pt, ok := st.Addr.Type().Underlying().(*types.Pointer); ok && types.Identical(pt.Elem(), optsT) && !fresh(st.Addr) {
				nWrites++
				nBad++
				r.Bad("coefficients.write:"+fn.Name()+".*Options", p.Pos(st.Pos()), FuncName(fn)+" overwrites a whole Options object it did not create (and with it the configured coefficients)")
			}
		})
	}
	r.c07CoefficientKeys(coeff)
	if nBad == 0 {
		r.OK("coefficients.writers", "-", fmt.Sprintf("%d write(s) to the three coefficients in the library, all of them fill a fresh Options object from the input", nWrites))
	}
}

func pathKey(ip *IterPath) string {
	var s []string
	for _, b := range ip.Blocks {
		s = append(s, fmt.Sprint(b.Index))
	}
	return ip.End + ":" + strings.Join(s, ">")
}

func firstPos(ip *IterPath) token.Pos {
	for i := len(ip.Blocks) - 1; i >= 0; i-- {
		for _, in := range ip.Blocks[i].Instrs {
			if in.Pos().IsValid() {
				return in.Pos()
			}
		}
	}
	return token.NoPos
}

// c07Dispatch implements C07.1 (shared with C08: the distance speciate compares with the threshold is this function).
func (r *Run) c07Dispatch() {
	p := r.P
	comp := p.Func(PkgG, "Genome.compatibility")
	lin := p.Func(PkgG, "Genome.compatLinear")
	fast := p.Func(PkgG, "Genome.compatFast")
	r.Fn(FuncName(comp))
	tm := NewTermer(comp)
	cl := p.Const(PkgT, "GenomeCompatibilityMethodLinear")
	_ = p.Const(PkgT, "GenomeCompatibilityMethodFast")
	// the walks compatibility executes, however the callee is written (static call, forwarding wrapper, function value
	// picked beforehand: one invocation per function the value can hold, under the outcomes of the edge that picked it)
	invs := c07Invocations(comp, map[*ssa.Function]bool{lin: true, fast: true})
	var ll, ff []c07Invocation
	for _, iv := range invs {
		switch iv.Target {
		case lin:
			ll = append(ll, iv)
		case fast:
			ff = append(ff, iv)
		default:
			r.Bad("compatibility.calls", p.Pos(iv.Call.Pos()), "compatibility calls "+iv.What+", which cannot be resolved to one of the two walks")
			return
		}
	}
	if len(ll) != 1 || len(ff) != 1 {
		r.Bad("compatibility.calls", p.Pos(comp.Pos()), fmt.Sprintf("compatibility calls compatLinear %d times and compatFast %d times, expected one each", len(ll), len(ff)))
		return
	}
	side := func(iv c07Invocation) (isLinear, ok bool) {
		for _, g := range iv.Conds {
			t := tm.Of(g.Cond)
			if t.Op == "bin" && (t.Name == "==" || t.Name == "!=") && strings.Contains(t.String(), ".GenCompatMethod") && strings.Contains(t.String(), cl.Val().ExactString()) {
				return (t.Name == "==") == g.True, true
			}
		}
		return false, false
	}
	l, ok1 := side(ll[0])
	f, ok2 := side(ff[0])
	r.Check(ok1 && l, "compatibility.linear", p.Pos(ll[0].Call.Pos()), "compatLinear is reached exactly under GenCompatMethod == linear", "compatLinear is not selected by GenCompatMethod == "+cl.Val().ExactString())
	r.Check(ok2 && !f, "compatibility.fast", p.Pos(ff[0].Call.Pos()), "compatFast is reached otherwise", "compatFast is not the alternative of the linear method")
	isWalkResult := func(v ssa.Value) bool {
		return v == ll[0].Call.Value() || v == ff[0].Call.Value()
	}
	for _, iv := range []c07Invocation{ll[0], ff[0]} {
		c := iv.Call
		okA := len(iv.Args) == 3
		if okA {
			a := []*Term{tm.Of(iv.Args[0]), tm.Of(iv.Args[1]), tm.Of(iv.Args[2])}
			okA = a[0].Op == "recv" && isParamIdx(a[1], 1) && isParamIdx(a[2], 2)
		}
		retOK := false
		for _, b := range comp.Blocks {
			if ret, ok := b.Instrs[len(b.Instrs)-1].(*ssa.Return); ok {
				if ret.Results[0] == c.Value() {
					retOK = true
				}
				// through a result variable: the call's value is one of the values merged into what is returned
				// (every other value merged in is judged by compatibility.other-result below)
				for _, f := range phiWeb(ret.Results[0]).Feeders {
					if f == c.Value() {
						retOK = true
					}
				}
			}
		}
		r.Check(okA && retOK, "compatibility.passes:"+iv.Target.Name(), p.Pos(c.Pos()), "same genomes and options passed on, result returned", "the walk is not called with (g, og, opts) or its result is not what compatibility returns")
	}
	// no other result: every return yields the result of a walk; a constant 0 is acceptable only
	// for the very same genome object (pointer identity) - genome ids are not unique (every species
	// numbers its babies 0,1,2,..), so equal ids say nothing about the genes
	for _, b := range comp.Blocks {
		ret, ok := b.Instrs[len(b.Instrs)-1].(*ssa.Return)
		if !ok {
			continue
		}
		w := phiWeb(ret.Results[0])
		vals := append([]ssa.Value{}, w.Feeders...)
		for _, c := range w.Consts {
			vals = append(vals, c)
		}
		for _, v := range vals {
			if isWalkResult(v) {
				continue
			}
			same := false
			if c, isC := v.(*ssa.Const); isC && tm.Of(c).String() == "0" {
				for _, g := range Guards(b) {
					gt := tm.Of(g.Cond)
					if gt.Op == "bin" && gt.Name == "==" && g.True && ((gt.Args[0].Op == "recv" && isParamIdx(gt.Args[1], 1)) || (gt.Args[1].Op == "recv" && isParamIdx(gt.Args[0], 1))) {
						same = true
					}
				}
			}
			r.Check(same, "compatibility.other-result", p.Pos(ret.Pos()), "a shortcut result 0 is returned only for the same genome object", "compatibility returns "+tm.Of(v).String()+" without walking the genes under a condition other than `g == og`: the distance is then not the formula value (genome ids are not unique across species, equal ids do not mean equal genes)")
		}
	}
}
