package nc

import (
	"go/token"
	"go/types"

	"golang.org/x/tools/go/ssa"
)

// Robustness helpers of C06 (second round).

// c06SameValue: a and b denote the same run-time value: the same SSA value, or two loads of the same element
// (same slice value, same index value) / of the same field of the same object. Loads of a field are only identified
// when fn never stores to that field, so that no write can separate the two reads.
func c06SameValue(fn *ssa.Function, a, b ssa.Value, depth int) bool {
	a, b = stripPtr(a), stripPtr(b)
	if a == b {
		return true
	}
	if depth > 4 {
		return false
	}
	la, okA := a.(*ssa.UnOp)
	lb, okB := b.(*ssa.UnOp)
	if !okA || !okB || la.Op != token.MUL || lb.Op != token.MUL {
		return false
	}
	switch xa := la.X.(type) {
	case *ssa.IndexAddr:
		xb, ok := lb.X.(*ssa.IndexAddr)
		return ok && xa.Index == xb.Index && c06SameValue(fn, xa.X, xb.X, depth+1)
	case *ssa.FieldAddr:
		xb, ok := lb.X.(*ssa.FieldAddr)
		if !ok || xa.Field != xb.Field || !c06SameValue(fn, xa.X, xb.X, depth+1) {
			return false
		}
		f := fieldOf(xa.X.Type(), xa.Field)
		return f != nil && len(FieldStores(fn, f)) == 0
	}
	return false
}

// c06IsFieldLoad: v is a load of field f of (a value equal to) base.
func c06IsFieldLoad(fn *ssa.Function, v ssa.Value, f *types.Var, base ssa.Value) bool {
	u, ok := stripPtr(v).(*ssa.UnOp)
	if !ok || u.Op != token.MUL {
		return false
	}
	fa, ok := u.X.(*ssa.FieldAddr)
	if !ok || fieldOf(fa.X.Type(), fa.Field) != f {
		return false
	}
	return c06SameValue(fn, fa.X, base, 0)
}

// c06WholeListLoop: loop l visits every index of list exactly once, in order, and idx is the index of the current
// iteration: the header test `ctr < len(list)` is the only way out of the loop, the counter starts at 0 and advances
// by one on every back edge (three-clause form: ctr is the header phi starting at 0; range form: ctr is phi+1 with
// the phi starting at -1).
func c06WholeListLoop(fn *ssa.Function, l *Loop, list, idx ssa.Value) bool {
	if l == nil || len(l.Header.Instrs) == 0 || len(l.Header.Succs) != 2 {
		return false
	}
	for b := range l.Blocks {
		for _, s := range b.Succs {
			if !l.Blocks[s] && b != l.Header {
				return false // break / return inside the body: coverage is not complete
			}
		}
	}
	iff, ok := l.Header.Instrs[len(l.Header.Instrs)-1].(*ssa.If)
	if !ok || !l.Blocks[l.Header.Succs[0]] || l.Blocks[l.Header.Succs[1]] {
		return false
	}
	cmp, ok := iff.Cond.(*ssa.BinOp)
	if !ok || cmp.Op != token.LSS || cmp.X != idx {
		return false
	}
	ln, ok := cmp.Y.(*ssa.Call)
	if !ok || len(ln.Call.Args) != 1 {
		return false
	}
	if bi, isB := ln.Call.Value.(*ssa.Builtin); !isB || bi.Name() != "len" || !c06SameValue(fn, ln.Call.Args[0], list, 0) {
		return false
	}
	var ph *ssa.Phi
	var first int64
	var step ssa.Value
	switch x := idx.(type) {
	case *ssa.Phi:
		ph, first = x, 0
	case *ssa.BinOp:
		p2, isPhi := x.X.(*ssa.Phi)
		if k, isK := constInt(x.Y); !isPhi || x.Op != token.ADD || !isK || k != 1 {
			return false
		}
		ph, first, step = p2, -1, x
	default:
		return false
	}
	if ph.Block() != l.Header {
		return false
	}
	for i, e := range ph.Edges {
		if l.Blocks[l.Header.Preds[i]] {
			if step != nil && e != step {
				return false
			}
			if step == nil && !c13IsPlusOne(e, ph) {
				return false
			}
		} else if k, isK := constInt(e); !isK || k != first {
			return false
		}
	}
	return true
}

// c06NodeRegistered decides the obligation "the node copy made by call c = NewNNodeCopy(src, …) is registered in
// a node map under its own id". Accepted shapes, each of which implies map[copy.Id] == copy:
//
//	(A) m[copy.Id] = copy
//	(B) m[src.Id]  = copy            when the constructor summary says copy.Id <- src.Id and fn never stores to NNode.Id
//	(C) the copy is stored into a list L (L[i] = copy / L = append(L, copy)) and, after the loop that fills L,
//	    a loop over every index j of L executes m[L[j].Id] = L[j] in every iteration (fn never stores to NNode.Id)
func c06NodeRegistered(p *Prog, sums *Summaries, fn *ssa.Function, c ssa.CallInstruction) bool {
	idF := p.Field(PkgN, "NNode", "Id")
	cp := c.Value()
	if cp == nil {
		return false
	}
	idStable := len(FieldStores(fn, idF)) == 0
	// copy.Id <- src.Id according to the constructor
	ctorCopiesId := false
	if callee := c.Common().StaticCallee(); callee != nil && len(c.Common().Args) > 0 {
		if sm := sums.Ctor(callee); sm.Why == "" && sm.Fresh {
			ctorCopiesId = isFieldOfBase(sm.Fields[idF], idF, &Term{Op: "param", Idx: 0})
		}
	}
	// the lists that receive the copy
	holders := map[ssa.Value]bool{}
	for _, ref := range *cp.Referrers() {
		if st, ok := ref.(*ssa.Store); ok && st.Val == ssa.Value(cp) {
			if ia, ok := st.Addr.(*ssa.IndexAddr); ok {
				holders[stripPtr(ia.X)] = true
			}
		}
	}
	loops := Loops(fn)
	fill := InnermostLoop(loops, c.Block())
	if fill != nil {
		for _, ph := range HeaderPhis(fill) {
			for _, e := range ph.Edges {
				if base, elems, ok := appendCall(e); ok && base == ssa.Value(ph) && len(elems) == 1 && elems[0] == ssa.Value(cp) {
					holders[ph] = true
				}
			}
		}
	}
	found := false
	Instrs(fn, func(b *ssa.BasicBlock, _ int, in ssa.Instruction) {
		mu, ok := in.(*ssa.MapUpdate)
		if !ok || found {
			return
		}
		if mu.Value == ssa.Value(cp) {
			switch {
			case c06IsFieldLoad(fn, mu.Key, idF, cp): // (A)
				found = true
			case ctorCopiesId && idStable && c06IsFieldLoad(fn, mu.Key, idF, c.Common().Args[0]): // (B)
				found = true
			}
			return
		}
		// (C)
		ld, ok := stripPtr(mu.Value).(*ssa.UnOp)
		if !ok || ld.Op != token.MUL || !idStable {
			return
		}
		ia, ok := ld.X.(*ssa.IndexAddr)
		if !ok || !holders[stripPtr(ia.X)] || !c06IsFieldLoad(fn, mu.Key, idF, ld) {
			return
		}
		reg := InnermostLoop(loops, b)
		if reg == nil || reg.Blocks[c.Block()] || !c06WholeListLoop(fn, reg, ia.X, ia.Index) {
			return
		}
		for _, lt := range reg.Latch {
			if !(b == lt || b.Dominates(lt)) {
				return // not executed in every iteration
			}
		}
		// the registration loop starts after the list has been filled
		if fill != nil {
			if fill.Blocks[reg.Header] || !fill.Header.Dominates(reg.Header) {
				return
			}
		} else if !c.Block().Dominates(reg.Header) {
			return
		}
		found = true
	})
	return found
}

// c06FeasibleEdges refines FeasibleEdges (narrow.go) for nested result pairs. After the normaliser inlined a helper
// that itself propagates the error of an inlined helper (`x, err := inner(); if err != nil { return nil, err }`),
// the outer result phis receive, on the error edge, the INNER error phi instead of a constant or an Errorf call:
//
//	r0 = phi [E: nil,  S: list]      r1 = phi [E: innerErr, S: nil]      with E guarded by innerErr != nil
//
// Under the outcome `r1 == nil` the edge E is infeasible because innerErr is known non-nil where the edge starts.
// An edge is dropped only when a sibling phi that the guards say is nil receives on that edge a value that is
// non-nil at the predecessor: a branch outcome dominating the predecessor says so, or all its alternatives that are
// feasible there are allocations / non-nil error makers.
func c06FeasibleEdges(ph *ssa.Phi, gs []Guard) []bool {
	feasible := FeasibleEdges(ph, gs)
	for _, in := range ph.Block().Instrs {
		q, isPhi := in.(*ssa.Phi)
		if !isPhi {
			break
		}
		for _, g := range gs {
			want, kind := guardOn(g, q)
			if kind != "nil" || !want {
				continue
			}
			for i, e := range q.Edges {
				if feasible[i] && c06NonNilAt(e, ph.Block().Preds[i]) {
					feasible[i] = false
				}
			}
		}
	}
	return feasible
}

// c06NonNilAt: value v is certainly non-nil whenever block b is executed.
func c06NonNilAt(v ssa.Value, b *ssa.BasicBlock) bool {
	if _, ok := v.(*ssa.Const); ok {
		return false
	}
	for _, g := range Guards(b) {
		bin, ok := g.Cond.(*ssa.BinOp)
		if !ok || (bin.Op != token.EQL && bin.Op != token.NEQ) {
			continue
		}
		x, y := bin.X, bin.Y
		if k, isK := x.(*ssa.Const); isK && k.Value == nil {
			x, y = y, x
		}
		if k, isK := y.(*ssa.Const); isK && k.Value == nil && x == v && (bin.Op == token.NEQ) == g.True {
			return true
		}
	}
	alts := NarrowAt(v, b)
	if len(alts) == 0 {
		return false
	}
	for _, a := range alts {
		switch y := a.(type) {
		case *ssa.Alloc, *ssa.MakeInterface, *ssa.MakeSlice, *ssa.MakeMap, *ssa.MakeClosure:
		case *ssa.Call:
			if n, _ := calleeName(&y.Call); !nonNilErrorMakers[n] {
				return false
			}
		default:
			return false
		}
	}
	return true
}

// ---- fifth round: element contents of a slice field whose value reaches the field store through phis ----

// c06SliceLeaf is one alternative of a slice value: the value itself and the block in which this alternative is
// committed (the predecessor of the phi edge that carries it, or the block of the store for a direct value).
type c06SliceLeaf struct {
	v  ssa.Value
	at *ssa.BasicBlock
	// edge guard: when `at` ends in the If whose successor is the phi's block, the outcome taken on that edge
	edge *Guard
}

func c06SliceLeaves(v ssa.Value, at *ssa.BasicBlock, edge *Guard, seen map[ssa.Value]bool, out *[]c06SliceLeaf) bool {
	for {
		switch x := v.(type) {
		case *ssa.Slice:
			v = x.X
			continue
		case *ssa.ChangeType:
			v = x.X
			continue
		}
		break
	}
	if ph, ok := v.(*ssa.Phi); ok {
		if seen[ph] {
			return false // a loop-carried slice is not a finite choice of alternatives
		}
		if len(seen) > 8 {
			return false
		}
		seen[ph] = true
		for i, e := range ph.Edges {
			pred := ph.Block().Preds[i]
			var taken *Guard
			if iff, isIf := pred.Instrs[len(pred.Instrs)-1].(*ssa.If); isIf && pred.Succs[0] != pred.Succs[1] {
				taken = &Guard{Cond: iff.Cond, True: pred.Succs[0] == ph.Block(), At: pred}
			}
			if !c06SliceLeaves(e, pred, taken, seen, out) {
				return false
			}
		}
		return true
	}
	*out = append(*out, c06SliceLeaf{v: v, at: at, edge: edge})
	return true
}

// c06CtorElems: the element contents of slice field f of the object that constructor fn returns, as a term over
// fn's parameters - like Summary.Elems, but also when the slice that is filled reaches the field store through phis
// (`x.F = helper(t)` with the helper inlined: `F = phi[nil, make]`) or when the object comes from a nested
// constructor call. It claims, for every alternative of the stored value:
//   - a fresh make whose fill (a copy from a slice of the make's own length into the make or a re-slice of it that
//     starts at element 0, or indexed stores) is executed whenever that alternative is chosen (the fill's block
//     dominates the block where the alternative is committed); the fill's contents are the result;
//   - or nil, chosen only where the object whose slice is copied in the other alternatives is known to be nil
//     (a dominating branch outcome `X == nil`, any spelling) - so a nil result never stands for a lost copy.
//
// Any other alternative (a shared slice, a loop-carried value, a make that is not certainly filled) gives no
// result; why says which.
func c06CtorElems(sums *Summaries, fn *ssa.Function, f *types.Var, depth int) (el *Term, why string) {
	if fn == nil || fn.Blocks == nil {
		return nil, "no body"
	}
	if depth > 4 {
		return nil, "constructor chain too deep"
	}
	sm := sums.Ctor(fn)
	if sm.Why != "" {
		return nil, sm.Why
	}
	if e := sm.Elems[f]; e != nil {
		return e, ""
	}
	tm := NewTermer(fn)
	// the returned objects
	var bases []ssa.Value
	var collect func(v ssa.Value, d int)
	collect = func(v ssa.Value, d int) {
		v = stripPtr(v)
		if c, ok := v.(*ssa.Const); ok && c.Value == nil {
			return
		}
		if ph, ok := v.(*ssa.Phi); ok && d < 4 {
			for _, e := range ph.Edges {
				collect(e, d+1)
			}
			return
		}
		for _, x := range bases {
			if x == v {
				return
			}
		}
		bases = append(bases, v)
	}
	for _, b := range fn.Blocks {
		if r, ok := b.Instrs[len(b.Instrs)-1].(*ssa.Return); ok && len(r.Results) > 0 {
			collect(r.Results[0], 0)
		}
	}
	var alts []*Term
	add := func(t *Term) {
		for _, a := range alts {
			if a.String() == t.String() {
				return
			}
		}
		alts = append(alts, t)
	}
	for _, base := range bases {
		var stores []*ssa.Store
		Instrs(fn, func(_ *ssa.BasicBlock, _ int, in ssa.Instruction) {
			if st, ok := in.(*ssa.Store); ok {
				if fa, isFA := st.Addr.(*ssa.FieldAddr); isFA && stripPtr(fa.X) == base && fieldOf(fa.X.Type(), fa.Field) == f {
					stores = append(stores, st)
				}
			}
		})
		if call, ok := base.(*ssa.Call); ok {
			callee := call.Call.StaticCallee()
			if callee == nil {
				return nil, "object comes from a dynamic call"
			}
			inner, w := c06CtorElems(sums, callee, f, depth+1)
			if inner != nil {
				add(Subst(inner, callArgTerms(tm, &call.Call)))
			} else if len(stores) == 0 {
				return nil, w
			}
		} else if _, ok := base.(*ssa.Alloc); !ok {
			return nil, "returned object is neither an allocation nor a constructor call"
		}
		var srcObjs []ssa.Value // X of every `copy(make, X.F')` source
		var nils []c06SliceLeaf
		for _, st := range stores {
			var leaves []c06SliceLeaf
			if !c06SliceLeaves(st.Val, st.Block(), nil, map[ssa.Value]bool{}, &leaves) {
				return nil, "the stored slice is loop-carried"
			}
			for _, lf := range leaves {
				if c, isC := lf.v.(*ssa.Const); isC && c.Value == nil {
					nils = append(nils, lf)
					continue
				}
				mk, isMk := lf.v.(*ssa.MakeSlice)
				if !isMk {
					return nil, "an alternative of the stored slice is " + tm.Of(lf.v).String() + ", not a fresh make or nil"
				}
				filled := false
				var visit func(v ssa.Value, d int)
				visit = func(v ssa.Value, d int) {
					if d > 3 || v.Referrers() == nil {
						return
					}
					for _, ref := range *v.Referrers() {
						switch x := ref.(type) {
						case *ssa.Slice:
							// only a re-slice that starts at element 0 keeps element i at index i
							if k, isK := x.Low.(*ssa.Const); x.X == v && (x.Low == nil || (isK && k.Value != nil && k.Int64() == 0)) {
								visit(x, d+1)
							}
						case *ssa.IndexAddr:
							if x.X != v {
								continue
							}
							for _, rr := range *x.Referrers() {
								if s2, isSt := rr.(*ssa.Store); isSt && s2.Addr == x {
									add(tm.Of(s2.Val))
									if s2.Block() == lf.at || s2.Block().Dominates(lf.at) {
										filled = true
									}
								}
							}
						case ssa.CallInstruction:
							c := x.Common()
							if b, isB := c.Value.(*ssa.Builtin); isB && b.Name() == "copy" && len(c.Args) == 2 && c.Args[0] == v {
								add(&Term{Op: "elem", Args: []*Term{tm.Of(c.Args[1]), {Op: "unknown"}}})
								// the copy is complete: the fresh slice is as long as the copied one
								whole := false
								if lc, isL := mk.Len.(*ssa.Call); isL && len(lc.Call.Args) == 1 {
									if lb, isLB := lc.Call.Value.(*ssa.Builtin); isLB && lb.Name() == "len" && c06SameValue(fn, lc.Call.Args[0], c.Args[1], 0) {
										whole = true
									}
								}
								if whole && (x.Block() == lf.at || x.Block().Dominates(lf.at)) {
									filled = true
								}
								if u, isU := stripPtr(c.Args[1]).(*ssa.UnOp); isU && u.Op == token.MUL {
									if fa, isFA := u.X.(*ssa.FieldAddr); isFA {
										srcObjs = append(srcObjs, fa.X)
									}
								}
							}
						}
					}
				}
				visit(mk, 0)
				if !filled {
					return nil, "a fresh slice reaches the field on a path that does not fill it"
				}
			}
		}
		for _, nl := range nils {
			gs := Guards(nl.at)
			if nl.edge != nil {
				gs = append(append([]Guard{}, gs...), *nl.edge)
			}
			ok := false
			for _, g := range gs {
				if GuardNilness(g, func(v ssa.Value) bool {
					for _, o := range srcObjs {
						if c06SameValue(fn, v, o, 0) {
							return true
						}
					}
					return false
				}) == 1 {
					ok = true
				}
			}
			if !ok {
				return nil, "the nil alternative is not confined to a nil source object"
			}
		}
	}
	switch len(alts) {
	case 0:
		return nil, "no element writes"
	case 1:
		return alts[0], ""
	}
	return &Term{Op: "phi", Args: alts}, ""
}

// c06ThroughCells (fifth round): the value v denotes, read through write-once local cells. A local that a function
// literal captures (e.g. the `traits` parameter of a helper whose body - including a local closure that reads
// `traits` - was inlined into the flat view) lives in an Alloc; every read of it is a load of that cell. When the
// cell is stored to exactly once, that store dominates the load, and neither the enclosing function nor any literal
// that captures the cell does anything with it but load it (c04CellValue proves exactly this), the load yields the
// stored value, so the load and the stored value are the same run-time value. Anything else is returned unchanged
// (after stripping value-preserving conversions), i.e. the identity comparison of the caller stays as strict as before.
func c06ThroughCells(v ssa.Value) ssa.Value {
	for i := 0; i < 8 && v != nil; i++ {
		v = stripPtr(v)
		inner, ok := c04CellValue(v)
		if !ok {
			return v
		}
		v = inner
	}
	if v == nil {
		return nil
	}
	return stripPtr(v)
}

// ---- seventh round: a genome that is assembled in place instead of by a constructor call ----

// c06GenomeLit is a genome that fn allocates itself and initialises field by field: `&Genome{Id: …, Traits: …}`,
// i.e. the body of the genome constructor written out where the pinned tree calls it. vals holds the value stored
// into each field; a field without entry keeps its zero value.
type c06GenomeLit struct {
	alloc  *ssa.Alloc
	vals   map[*types.Var]ssa.Value
	stores []*ssa.Store
}

// c06GenomeLits lists the genomes that fn allocates. A literal is `valid` (returned in lits) only when its stores
// are the object's whole history inside fn, so that the stored values ARE the fields of the genome the caller gets:
//
//   - every use of the allocation takes the address of one of its fields or hands the object to the caller (a
//     Return, directly or through phis / conversions that are only returned): the object is not passed to a call,
//     not stored anywhere, not captured - nobody else can write it before it leaves fn;
//   - a field address is used for stores to that field and loads only (the address does not escape either);
//   - every field is stored at most once, and every store stands in the block of the allocation (straight-line
//     initialisation: all stores have happened on every path on which the object is returned).
//
// Every other allocation of a Genome is returned in `other`; a rule that needs to know what a function returns
// must not ignore those (fail closed).
func c06GenomeLits(p *Prog, fn *ssa.Function) (lits []c06GenomeLit, other []*ssa.Alloc) {
	if fn == nil {
		return nil, nil
	}
	gfields := p.Fields(PkgG, "Genome")
	Instrs(fn, func(_ *ssa.BasicBlock, _ int, in ssa.Instruction) {
		al, ok := in.(*ssa.Alloc)
		if !ok || fieldOf(al.Type(), 0) != gfields[0] {
			return
		}
		lit := c06GenomeLit{alloc: al, vals: map[*types.Var]ssa.Value{}}
		valid := al.Referrers() != nil
		if valid {
			for _, ref := range *al.Referrers() {
				switch x := ref.(type) {
				case *ssa.FieldAddr:
					f := fieldOf(al.Type(), x.Field)
					if x.X != ssa.Value(al) || x.Referrers() == nil {
						valid = false
						break
					}
					for _, rr := range *x.Referrers() {
						switch y := rr.(type) {
						case *ssa.Store:
							if y.Addr != ssa.Value(x) || y.Val == ssa.Value(x) || y.Block() != al.Block() {
								valid = false
							} else if _, twice := lit.vals[f]; twice {
								valid = false
							} else {
								lit.vals[f] = y.Val
								lit.stores = append(lit.stores, y)
							}
						case *ssa.UnOp:
							if y.Op != token.MUL {
								valid = false
							}
						case *ssa.DebugRef:
						default:
							valid = false
						}
					}
				case *ssa.DebugRef:
				default:
					if !c06OnlyReturned(ref, 0) {
						valid = false
					}
				}
			}
		}
		if valid {
			lits = append(lits, lit)
		} else {
			other = append(other, al)
		}
	})
	return lits, other
}

// c06OnlyReturned: instruction `use` (a user of an object) does nothing with the object but return it: it is a
// Return, or a phi / type conversion all of whose users are.
func c06OnlyReturned(use ssa.Instruction, depth int) bool {
	switch x := use.(type) {
	case *ssa.Return, *ssa.DebugRef:
		return true
	case *ssa.Phi:
		return depth < 6 && c06UsersOnlyReturn(x, depth)
	case *ssa.ChangeType:
		return depth < 6 && c06UsersOnlyReturn(x, depth)
	}
	return false
}

func c06UsersOnlyReturn(v ssa.Value, depth int) bool {
	if v.Referrers() == nil {
		return false
	}
	for _, ref := range *v.Referrers() {
		if !c06OnlyReturned(ref, depth+1) {
			return false
		}
	}
	return true
}

// c06ReturnedOutside: the non-nil values that fn can return as result `res` and that are not among `known`
// (compared after stripping value-preserving conversions), each with the Return that yields it. Alternatives of a phi
// are narrowed by the branch outcomes that dominate the Return.
func c06ReturnedOutside(fn *ssa.Function, res int, known map[ssa.Value]bool) (out []ssa.Value, at []*ssa.Return) {
	for _, b := range fn.Blocks {
		if len(b.Instrs) == 0 {
			continue
		}
		ret, ok := b.Instrs[len(b.Instrs)-1].(*ssa.Return)
		if !ok || len(ret.Results) <= res {
			continue
		}
		for _, alt := range NarrowAt(ret.Results[res], b) {
			alt = stripPtr(alt)
			if k, isK := alt.(*ssa.Const); isK && k.Value == nil {
				continue
			}
			if !known[alt] {
				out = append(out, alt)
				at = append(at, ret)
			}
		}
	}
	return out, at
}

func containsAlloc(as []*ssa.Alloc, a *ssa.Alloc) bool {
	for _, x := range as {
		if x == a {
			return true
		}
	}
	return false
}
