package nc

import (
	"fmt"
	"go/ast"
	"go/constant"
	"math"
	"sort"
	"strings"

	"golang.org/x/tools/go/ssa"
)

func init() { register("C18", C18) }

type actSpec struct {
	lo, hi float64
	mono   bool
}

// documented range and monotonicity, keyed by the public constant
var actTable = map[string]actSpec{
	"SigmoidPlainActivation":                  {0, 1, true},
	"SigmoidReducedActivation":                {0, 1, true},
	"SigmoidBipolarActivation":                {-1, 1, true},
	"SigmoidSteepenedActivation":              {0, 1, true},
	"SigmoidApproximationActivation":          {0, 1, true},
	"SigmoidSteepenedApproximationActivation": {0, 1, true},
	"SigmoidInverseAbsoluteActivation":        {0, 1, true},
	"SigmoidLeftShiftedActivation":            {0, 1, true},
	"SigmoidLeftShiftedSteepenedActivation":   {0, 1, true},
	"SigmoidRightShiftedSteepenedActivation":  {0, 1, true},
	"TanhActivation":                          {-1, 1, true},
	"GaussianBipolarActivation":               {-1, 1, false},
	"GaussianActivation":                      {0, 1, false},
	"LinearActivation":                        {-1e300, 1e300, true},
	"LinearAbsActivation":                     {0, 1e300, false},
	"LinearClippedActivation":                 {-1, 1, true},
	"NullActivation":                          {0, 0, false},
	"SignActivation":                          {-1, 1, false},
	"SineActivation":                          {-1, 1, false},
	"StepActivation":                          {0, 1, true},
}

// documented closed forms, by domain piece [lo,hi) (sources: the doc comments of neat/math/activations.go and
// the NEAT/SharpNEAT definitions they name). Formulas are Go expressions over x.
type actPiece struct {
	lo, hi  float64
	formula string
}

var inf = math.Inf(1)

var actDefs = map[string][]actPiece{
	"SigmoidPlainActivation":                  {{-inf, inf, "1/(1+math.Exp(-x))"}},
	"SigmoidReducedActivation":                {{-inf, inf, "1/(1+math.Exp(-0.5*x))"}},
	"SigmoidSteepenedActivation":              {{-inf, inf, "1/(1+math.Exp(-4.924273*x))"}},
	"SigmoidBipolarActivation":                {{-inf, inf, "2/(1+math.Exp(-4.924273*x))-1"}},
	"SigmoidApproximationActivation":          {{-inf, -4, "0"}, {-4, 0, "(x+4)*(x+4)/32"}, {0, 4, "1-(x-4)*(x-4)/32"}, {4, inf, "1"}},
	"SigmoidSteepenedApproximationActivation": {{-inf, -1, "0"}, {-1, 0, "(x+1)*(x+1)/2"}, {0, 1, "1-(x-1)*(x-1)/2"}, {1, inf, "1"}},
	"SigmoidInverseAbsoluteActivation":        {{-inf, inf, "0.5+0.5*x/(1+math.Abs(x))"}},
	"SigmoidLeftShiftedActivation":            {{-inf, inf, "1/(1+math.Exp(-x-2.4621365))"}},
	"SigmoidLeftShiftedSteepenedActivation":   {{-inf, inf, "1/(1+math.Exp(-(4.924273*x+2.4621365)))"}},
	"SigmoidRightShiftedSteepenedActivation":  {{-inf, inf, "1/(1+math.Exp(-(4.924273*x-2.4621365)))"}},
	"TanhActivation":                          {{-inf, inf, "math.Tanh(0.9*x)"}},
	"GaussianBipolarActivation":               {{-inf, inf, "2*math.Exp(-(2.5*x)*(2.5*x))-1"}},
	"GaussianActivation":                      {{-inf, inf, "math.Exp(-x*x)"}},
	"LinearActivation":                        {{-inf, inf, "x"}},
	"LinearAbsActivation":                     {{-inf, inf, "math.Abs(x)"}},
	"LinearClippedActivation":                 {{-inf, -1, "-1"}, {-1, 1, "x"}, {1, inf, "1"}},
	"NullActivation":                          {{-inf, inf, "0"}},
	"SignActivation":                          {{-inf, 0, "-1"}, {0, inf, "1"}},
	"SineActivation":                          {{-inf, inf, "math.Sin(2*x)"}},
	"StepActivation":                          {{-inf, 0, "0"}, {0, inf, "1"}},
}

var moduleConsts = map[string]string{"MultiplyModuleActivation": "multiply", "MaxModuleActivation": "max", "MinModuleActivation": "min"}

type registration struct {
	constName string
	constVal  string
	fn        *ssa.Function
	name      string
	module    bool
	pos       string
	bind      aenv        // constants captured from a closure factory (scalar activations only)
	capt      *c18Capture // what the captured variables of a module activator made by a factory hold
	why       string      // why fn could not be resolved
}

// C18 — activation functions.
func C18(p *Prog, r *Run) {
	r.Explanation = "Decided: (1) registry: every NodeActivationType constant is registered exactly once, scalar types with Register, module types with RegisterModule, names pairwise distinct, Register/RegisterModule fill the function map and both name maps consistently, and the miss path of all four lookups returns a non-nil error; (2) for the closure registered under each scalar constant, by abstract interpretation (interval x monotonicity x may-NaN, input domain [-1e300,1e300] split at the constants the closure tests): the result lies in the documented range, is finite and never NaN, and is monotonically non-decreasing for the sigmoid family, tanh, linear, clipped-linear and step, including left/right values at every breakpoint; a construct outside the transfer-function table makes the obligation undecided (fails); (3) module folds: multiply starts from 1 and multiplies every input, max/min fold every input with math.Max/Min starting from an identity of the whole domain (±Inf, ±MaxFloat64 or the first element). (4) closed form: every piece of every scalar closure has the algebraic normal form of its documented definition; (5) network.ActivateNode and ActivateModule touch the node(s) with the looked-up value only under err == nil of that lookup and hand the error on. The interpreter follows if/else chains, tagless switches, early returns and (re-)assigned locals of the closure flow-sensitively; a closure produced by a one-line factory with constant arguments is interpreted with the captured constants. A registered activation may be a function literal or a declared top-level function; calls of pure straight-line float helpers of the package are unfolded, the `L: for { ...; break L }` blocks of helpers inlined by the normalisation are followed, idioms (square, soft-sign) are recognised by value through locals (equal normal forms), and input pieces carry open/closed bounds so that a branch excluded by an earlier comparison contributes no piece. The lookups' error result is judged per way it is produced (direct returns and values merged into a single return); the outcome of the map lookup is known where it is tested directly or where a value merged under it is tested against nil (an error that is nil exactly on the edges where the key was found). A registration is a Register/RegisterModule call with constant arguments, or one element of a local table: an array or slice literal of structs that is written only by the literal (constant indices, outside loops) and otherwise only read inside the function, iterated completely (counter from 0 in steps of 1 up to the table's length, no other exit, not nested, on every path to the return) by a loop whose body makes the call exactly once per iteration with fields of the element at the counter, read directly or through a once-assigned local copy; such a loop counts as one registration per element with the values the literal stores. A scalar activation whose body is definitions of fresh locals followed by `return h(args)` with h a branching float helper of the package is interpreted as h's body with each parameter bound to its (pure) argument expression. A module activator may run its fold in ONE library function whose result it stores into the returned slice: the start value and the inputs are then the arguments the activator passes, and an operation called through a function-valued parameter is the operation of the function passed (math.Max / math.Min, or a function whose body is one return of x*y / math.Max(x, y) / math.Min(x, y) of its two parameters); every return of that function must yield the accumulator."
	factory := p.Func(PkgM, "NewNodeActivatorsFactory")
	regF := p.Func(PkgM, "NodeActivatorsFactory.Register")
	regM := p.Func(PkgM, "NodeActivatorsFactory.RegisterModule")
	r.Fn(FuncName(factory), FuncName(regF), FuncName(regM))
	consts := p.ConstsOfType(PkgM, "NodeActivationType")
	byVal := map[string]string{}
	for _, c := range consts {
		byVal[c.Val().ExactString()] = c.Name()
	}
	var regs []registration
	// one registration per call performed: a call with constant arguments is one; a call made in a complete loop over
	// a local table of literals is one per element of the table (robust_c18.go tableCall)
	tables := newC18Tables(factory)
	mk := func(tv, fv, nv ssa.Value, module bool, pos string) registration {
		reg := registration{module: module, pos: pos}
		if k, ok := tv.(*ssa.Const); ok && k.Value != nil {
			reg.constVal = k.Value.ExactString()
			reg.constName = byVal[reg.constVal]
		}
		// function value: load of a package-level variable holding a closure (robust_c18.go)
		reg.fn, reg.bind, reg.capt, reg.why = resolveActivation(p, fv, module)
		if k, ok := nv.(*ssa.Const); ok && k.Value != nil && k.Value.Kind() == constant.String {
			reg.name = constant.StringVal(k.Value)
		}
		return reg
	}
	collect := func(target *ssa.Function, module bool) {
		for _, c := range CallsTo(factory, target) {
			r.CallSites++
			args := c.Common().Args
			if _, direct := args[1].(*ssa.Const); !direct {
				rows, at, why := tables.tableCall(factory, c, args[1:4])
				if why != "" {
					regs = append(regs, registration{module: module, pos: p.Pos(c.Pos()), why: why})
					continue
				}
				for j, row := range rows {
					pos := p.Pos(c.Pos())
					if at[j].IsValid() {
						pos = p.Pos(at[j])
					}
					regs = append(regs, mk(row[0], row[1], row[2], module, pos))
				}
				continue
			}
			regs = append(regs, mk(args[1], args[2], args[3], module, p.Pos(c.Pos())))
		}
	}
	collect(regF, false)
	collect(regM, true)

	r.Rule("C18.1", "registry: constants, registrations, names and the two kinds of map are in bijection; lookups report unknown types and names as errors", func() {
		seenC, seenN := map[string]int{}, map[string]int{}
		for _, g := range regs {
			if g.constName == "" || g.fn == nil || g.name == "" {
				why := ""
				if g.why != "" {
					why = ": " + g.why
				}
				r.Undecided("registration", g.pos, "a registration whose type, function or name is not a constant/global closure"+why)
				continue
			}
			seenC[g.constName]++
			seenN[g.name]++
			_, isMod := moduleConsts[g.constName]
			r.Check(isMod == g.module, "kind:"+g.constName, g.pos, "registered in the right map", fmt.Sprintf("%s is registered as module=%v but its kind is module=%v: ActivateByType/ActivateModuleByType would not find it", g.constName, g.module, isMod))
		}
		for _, c := range consts {
			r.Check(seenC[c.Name()] == 1, "registered:"+c.Name(), p.Pos(c.Pos()), "registered exactly once", fmt.Sprintf("activation type %s is registered %d times", c.Name(), seenC[c.Name()]))
		}
		var dup []string
		for n, k := range seenN {
			if k > 1 {
				dup = append(dup, n)
			}
		}
		sort.Strings(dup)
		r.Check(len(dup) == 0, "names.distinct", p.Pos(factory.Pos()), fmt.Sprintf("%d distinct names", len(seenN)), "activation names registered more than once: "+strings.Join(dup, ", ")+" (the later registration silently steals the name)")
		r.Floor("activation constants", len(consts), 23)
		r.Floor("registrations", len(regs), 23)
		// Register / RegisterModule bodies
		for _, rf := range []struct {
			fn *ssa.Function
			m  string
		}{{regF, "activators"}, {regM, "moduleActivators"}} {
			tm := NewTermer(rf.fn)
			got := map[string]string{}
			Instrs(rf.fn, func(_ *ssa.BasicBlock, _ int, in ssa.Instruction) {
				if mu, ok := in.(*ssa.MapUpdate); ok {
					got[tm.Of(mu.Map).String()] = tm.Of(mu.Key).String() + "->" + tm.Of(mu.Value).String()
				}
			})
			ok := got["recv."+rf.m] == "p1->p2" && got["recv.forward"] == "p1->p3" && got["recv.inverse"] == "p3->p1"
			r.Check(ok, rf.fn.Name()+".maps", p.Pos(rf.fn.Pos()), "stores type->function, type->name and name->type", fmt.Sprintf("%s does not fill its three maps consistently: %v", rf.fn.Name(), got))
		}
		// miss paths
		for _, name := range []string{"ActivateByType", "ActivateModuleByType", "ActivationTypeFromName", "ActivationNameFromType"} {
			fn := p.Func(PkgM, "NodeActivatorsFactory."+name)
			r.Fn(FuncName(fn))
			tm := NewTermer(fn)
			miss, hit := 0, 0
			// every way the error result is produced (robust_c18.go c18ResultLeaves): a value returned directly, or
			// a value merged into the returned one (`var err error; if !ok { err = ... }; return v, err`), with the
			// branch outcomes known where it is chosen
			errIdx := fn.Signature.Results().Len() - 1
			loops := Loops(fn)
			for _, lf := range c18ResultLeaves(fn, errIdx) {
				ret := lf.Ret
				found := false
				isMiss := false
				// the outcomes of the lookup known at this leaf: tested directly, or implied by a test of a merged value
				// against nil (`v, err := <lookup or error>; if err != nil {...}`: robust_c18.go c18ImpliedGuards)
				known := append([]Guard{}, lf.Guards...)
				for _, g := range lf.Guards {
					known = append(known, c18ImpliedGuards(g, loops)...)
				}
				seenHas := map[ssa.Value]map[bool]bool{}
				infeasible := false
				for _, g := range known {
					if gt := tm.Of(g.Cond); gt.Op == "call" && gt.Name == "has" {
						found = true
						if !g.True {
							isMiss = true
						}
						if seenHas[g.Cond] == nil {
							seenHas[g.Cond] = map[bool]bool{}
						}
						seenHas[g.Cond][g.True] = true
						if seenHas[g.Cond][!g.True] {
							infeasible = true
						}
					}
				}
				if infeasible {
					continue // the same lookup is known to have found and not found the key: this value never reaches this return
				}
				et := tm.Of(lf.Val)
				if found && isMiss {
					miss++
					r.Check(et.Op != "nil", name+".miss", p.Pos(ret.Pos()), "an unknown key yields an error", name+" returns a nil error for an unknown type/name")
				} else if found {
					hit++
					r.Check(et.Op == "nil", name+".hit", p.Pos(ret.Pos()), "a known key yields no error", name+" returns an error for a registered key")
				} else {
					r.Bad(name+".unguarded", p.Pos(ret.Pos()), name+" has a return that does not depend on the map lookup")
				}
			}
			if miss == 0 || hit == 0 {
				r.Bad(name+".paths", p.Pos(fn.Pos()), fmt.Sprintf("%s has %d miss and %d hit returns", name, miss, hit))
			}
		}
	})

	r.Rule("C18.2", "range, finiteness and monotonicity of every scalar activation on [-1e300,1e300] by abstract interpretation of the registered closure", func() {
		n := 0
		for _, g := range regs {
			if g.module || g.constName == "" || g.fn == nil {
				continue
			}
			spec, ok := actTable[g.constName]
			if !ok {
				r.Undecided("range:"+g.constName, g.pos, "no documented range for this activation type in the checker's table")
				continue
			}
			info, decls, ftype, body, at, whyS := scalarSyntax(p, g.fn)
			if whyS != "" {
				r.Undecided("range:"+g.constName, g.pos, whyS)
				continue
			}
			n++
			r.Fn(g.constName + "=" + g.fn.Name())
			pos := p.Pos(at)
			ubody, ubind := c18ScalarBody(info, decls, ftype, body, g.bind) // a body that only forwards to a branching helper is that helper's body
			res, ai, bad := analyseScalar(info, decls, ftype, ubody, ubind)
			if bad != "" {
				r.Undecided("range:"+g.constName, pos, "the abstract interpreter cannot decide this closure: "+bad)
				continue
			}
			okRange, why := true, ""
			for _, x := range res {
				v := x.val
				switch {
				case v.bad != "":
					okRange, why = false, "undecided: "+v.bad
				case v.nan || math.IsNaN(v.lo) || math.IsNaN(v.hi):
					okRange, why = false, fmt.Sprintf("may be NaN for inputs in [%g,%g]", x.piece.lo, x.piece.hi)
				case math.IsInf(v.lo, 0) || math.IsInf(v.hi, 0):
					okRange, why = false, fmt.Sprintf("may be infinite for inputs in [%g,%g]", x.piece.lo, x.piece.hi)
				case v.lo < spec.lo-1e-12 || v.hi > spec.hi+1e-12:
					okRange, why = false, fmt.Sprintf("for inputs in [%g,%g] the result lies in [%g,%g], outside the documented range [%g,%g]", x.piece.lo, x.piece.hi, v.lo, v.hi, spec.lo, spec.hi)
				}
			}
			undec := strings.HasPrefix(why, "undecided")
			if undec {
				r.Undecided("range:"+g.constName, pos, why)
			} else {
				r.Check(okRange, "range:"+g.constName, pos, fmt.Sprintf("%d piece(s), all results finite and inside [%g,%g]", len(res), spec.lo, spec.hi), g.constName+": "+why)
			}
			// continuity at the breakpoints (every closed form except the step and sign functions is continuous)
			if !undec && g.constName != "StepActivation" && g.constName != "SignActivation" {
				okC, whyC := true, ""
				for i := 0; i+1 < len(res); i++ {
					x, y := res[i], res[i+1]
					c := x.piece.hi
					if y.piece.lo != c {
						continue
					}
					l := ai.eval(x.expr, apiece{lo: c, hi: c}, x.env)
					rr := ai.eval(y.expr, apiece{lo: c, hi: c}, y.env)
					if l.bad == "" && rr.bad == "" && (math.Abs(l.lo-rr.lo) > 1e-9 || math.Abs(l.hi-rr.hi) > 1e-9) {
						okC, whyC = false, fmt.Sprintf("at the breakpoint %g the left piece gives %g and the right piece %g", c, l.lo, rr.lo)
					}
				}
				r.Check(okC, "continuous:"+g.constName, pos, "the pieces agree at every breakpoint", g.constName+" jumps: "+whyC+" (its closed form is continuous)")
			}
			if spec.mono && !undec {
				okM, whyM := true, ""
				for i, x := range res {
					if x.val.mono != monoInc && x.val.mono != monoConst {
						okM, whyM = false, fmt.Sprintf("on [%g,%g] the function %s is %s", x.piece.lo, x.piece.hi, exprStr(x.expr), monoName(x.val.mono))
					}
					if i+1 < len(res) {
						y := res[i+1]
						c := x.piece.hi
						if y.piece.lo != c && !(y.piece.lo == 0 && c == 0) {
							if y.piece.lo > c {
								okM, whyM = false, fmt.Sprintf("the pieces do not cover (%g,%g)", c, y.piece.lo)
							}
							continue
						}
						l := ai.eval(x.expr, apiece{lo: c, hi: c}, x.env)
						rr := ai.eval(y.expr, apiece{lo: y.piece.lo, hi: y.piece.lo}, y.env)
						if l.bad != "" || rr.bad != "" || l.hi > rr.lo+1e-12 {
							okM, whyM = false, fmt.Sprintf("at the breakpoint %g the function drops from %g (left piece) to %g (right piece)", c, l.hi, rr.lo)
						}
					}
				}
				r.Check(okM, "monotone:"+g.constName, pos, "non-decreasing on every piece and across every breakpoint", g.constName+" is not monotonically non-decreasing: "+whyM)
			}
		}
		r.Floor("scalar activation closures interpreted", n, 20)
	})

	r.Rule("C18.4", "closed form: on every piece of its input domain each scalar activation has the algebraic normal form (quotient of polynomials over x and exp/tanh/sin/abs applications) of its documented definition", func() {
		n := 0
		for _, g := range regs {
			if g.module || g.constName == "" || g.fn == nil {
				continue
			}
			def, ok := actDefs[g.constName]
			if !ok {
				r.Undecided("definition:"+g.constName, g.pos, "no documented closed form for this activation type in the checker's table")
				continue
			}
			info, decls, ftype, body, at, whyS := scalarSyntax(p, g.fn)
			if whyS != "" {
				r.Undecided("definition:"+g.constName, g.pos, whyS)
				continue
			}
			pos := p.Pos(at)
			ubody, ubind := c18ScalarBody(info, decls, ftype, body, g.bind)
			res, ai, bad := analyseScalar(info, decls, ftype, ubody, ubind)
			if bad != "" {
				r.Undecided("definition:"+g.constName, pos, "the closure's pieces cannot be enumerated: "+bad)
				continue
			}
			n++
			okD, why := true, ""
			covered := make([]bool, len(def))
			for _, x := range res {
				if x.piece.lo > x.piece.hi || (x.piece.lo == 0 && x.piece.hi == 0 && !math.Signbit(x.piece.lo) && math.Signbit(x.piece.hi)) {
					continue // empty piece (left over from the interpreter's split at +0/-0)
				}
				if x.piece.lo == x.piece.hi {
					continue // a single input value (the interpreter's split at +0/-0): measure zero, not compared
				}
				rep := (x.piece.lo + x.piece.hi) / 2
				switch {
				case x.piece.lo <= -1e299 && x.piece.hi >= 1e299:
					rep = 0.5
				case x.piece.lo <= -1e299:
					rep = x.piece.hi - 1
				case x.piece.hi >= 1e299:
					rep = x.piece.lo + 1
				}
				got, err := (&nfBuilder{info: info, input: ai.input, env: x.env, decls: decls}).build(x.expr)
				if err != nil {
					okD, why = false, fmt.Sprintf("the result %s on [%g,%g] has no normal form: %v", exprStr(x.expr), x.piece.lo, x.piece.hi, err)
					break
				}
				found := false
				for i, d := range def {
					if rep < d.lo || rep >= d.hi {
						continue
					}
					found = true
					covered[i] = true
					want, err := nfOfReference(d.formula)
					if err != nil {
						okD, why = false, "reference formula "+d.formula+": "+err.Error()
						break
					}
					if !nfEqual(got, want) {
						okD, why = false, fmt.Sprintf("on [%g,%g] the function is %s, normal form %s; its definition there is %s, normal form %s", x.piece.lo, x.piece.hi, exprStr(x.expr), got, d.formula, want)
					}
				}
				if !found {
					okD, why = false, fmt.Sprintf("the piece [%g,%g] lies outside the documented domain pieces", x.piece.lo, x.piece.hi)
				}
			}
			for i, c := range covered {
				if !c && okD {
					okD, why = false, fmt.Sprintf("no piece of the closure lies in [%g,%g) where the definition is %s", def[i].lo, def[i].hi, def[i].formula)
				}
			}
			r.Check(okD, "definition:"+g.constName, pos, fmt.Sprintf("%d piece(s) equal to the documented closed form", len(res)), g.constName+" deviates from its closed form: "+why)
		}
		r.Floor("scalar activation closures compared with their definition", n, 20)
	})

	r.Rule("C18.3", "module folds: multiply from 1 over every input; max/min with math.Max/math.Min over every input from an identity of the domain", func() {
		n := 0
		for _, g := range regs {
			if !g.module || g.fn == nil {
				continue
			}
			kind := moduleConsts[g.constName]
			n++
			fn := g.fn
			// the accumulate loop: in the activator itself or in the one function it hands its inputs to
			// (robust_c18.go c18FoldOf); start value, operation and operands are those of the activator either way
			fd, whyF := c18FoldOf(fn, g.capt)
			if fd == nil {
				r.Undecided("fold:"+kind, p.Pos(fn.Pos()), whyF)
				continue
			}
			if fd.acc == nil {
				r.Bad("fold:"+kind, p.Pos(fn.Pos()), "no floating-point accumulator is carried around the loop")
				continue
			}
			if fd.host != fn {
				r.Fn(FuncName(fd.host))
			}
			init, initIsInput := fd.initTerm()
			pos := p.Pos(fn.Pos())
			switch kind {
			case "multiply":
				okU, upd := fd.updates("*")
				r.Check(init != nil && init.String() == "1" && okU, "fold:multiply", pos, "product of all inputs starting from 1", fmt.Sprintf("multiply module: initial value %v, update %v; expected 1 and acc*input", init, upd))
			case "max", "min":
				want := "math.Max"
				if kind == "min" {
					want = "math.Min"
				}
				okU, upd := fd.updates(want)
				r.Check(okU, "fold:"+kind+".update", pos, "acc = "+want+"(acc, input) for every input", fmt.Sprintf("%s module: update is %v, expected %s(acc, input)", kind, upd, want))
				okI, whyI := false, fmt.Sprintf("initial value %v", init)
				if init != nil {
					switch {
					case init.Op == "const":
						var f float64
						if c, ok := init.V.(*ssa.Const); ok && c.Value != nil {
							f, _ = constant.Float64Val(c.Value)
						}
						if kind == "max" {
							okI = f <= -1e300
						} else {
							okI = f >= 1e300
						}
						whyI = fmt.Sprintf("the fold starts from %g, which is not an identity for inputs of magnitude up to 1e300: %s(%g, x) != x for |x| beyond it", f, want, f)
					case init.Op == "call" && init.Name == "math.Inf" && len(init.Args) == 1:
						s := init.Args[0].String()
						okI = (kind == "max" && strings.HasPrefix(s, "-")) || (kind == "min" && !strings.HasPrefix(s, "-"))
						whyI = "the fold starts from the infinity of the wrong sign"
					case initIsInput:
						okI = true
					}
				}
				r.Check(okI, "fold:"+kind+".init", pos, "starts from an identity of "+want+" on the whole domain", kind+" module: "+whyI)
			}
			// the loop ranges over the inputs and the result is the accumulator
			r.Check(fd.allInputs(), "fold:"+kind+".all-inputs", pos, "iterates over every input", "the fold does not iterate over all inputs")
			r.Check(fd.result(), "fold:"+kind+".result", pos, "returns the accumulated value", "the module does not return its accumulator")
		}
		r.Floor("module activations", n, 3)
	})

	r.Rule("C18.5", "error instead of a value at the node level: network.ActivateNode / ActivateModule use the result of the factory lookup only after its error was tested to be nil, and never replace that error by nil", func() {
		c18ErrorOnly(p, r, p.Func(PkgN, "ActivateNode"), p.Func(PkgM, "NodeActivatorsFactory.ActivateByType"))
		c18ErrorOnly(p, r, p.Func(PkgN, "ActivateModule"), p.Func(PkgM, "NodeActivatorsFactory.ActivateModuleByType"))
	})
}

func exprStr(e ast.Expr) string {
	s := fmt.Sprint(typesExprString(e))
	if len(s) > 80 {
		s = s[:80] + "…"
	}
	return s
}
