package nc

import (
	"fmt"
	"go/constant"
	"go/token"
	"go/types"
	"sort"
	"strings"

	"golang.org/x/tools/go/ssa"
)

// Term is the origin of an SSA value expressed over the function's
// parameters, constants, field loads, element loads and calls.
type Term struct {
	Op   string // param recv const nil field elem lookup call phi bin un conv new make global fn extract free len next loop slice iface assert closure unknown
	Name string
	Args []*Term
	V    ssa.Value
	Obj  types.Object // field var, callee, global
	Idx  int          // param index / extract index
}

func (t *Term) String() string {
	if t == nil {
		return "?"
	}
	switch t.Op {
	case "param":
		return fmt.Sprintf("p%d", t.Idx)
	case "recv":
		return "recv"
	case "const":
		return t.Name
	case "nil":
		return "nil"
	case "field":
		return t.Args[0].String() + "." + t.Name
	case "elem":
		if len(t.Args) > 1 && t.Args[1].Op == "const" {
			return t.Args[0].String() + "[" + t.Args[1].Name + "]"
		}
		return t.Args[0].String() + "[*]"
	case "lookup":
		return t.Args[0].String() + "[" + t.Args[1].String() + "]"
	case "call":
		var a []string
		for _, x := range t.Args {
			a = append(a, x.String())
		}
		return t.Name + "(" + strings.Join(a, ",") + ")"
	case "phi":
		var a []string
		for _, x := range t.Args {
			a = append(a, x.String())
		}
		sort.Strings(a)
		a = uniq(a)
		if len(a) == 1 {
			return a[0]
		}
		return "φ{" + strings.Join(a, "|") + "}"
	case "bin":
		return "(" + t.Args[0].String() + t.Name + t.Args[1].String() + ")"
	case "un":
		return t.Name + t.Args[0].String()
	case "conv":
		return t.Name + "(" + t.Args[0].String() + ")"
	case "new":
		return "&" + t.Name + "{}"
	case "make":
		var a []string
		for _, x := range t.Args {
			a = append(a, x.String())
		}
		return "make(" + t.Name + strings.Join(prepend("", a), ",") + ")"
	case "global":
		return t.Name
	case "fn", "closure":
		return "func:" + t.Name
	case "extract":
		return t.Args[0].String() + "#" + fmt.Sprint(t.Idx)
	case "free":
		return "free:" + t.Name
	case "len":
		return "len(" + t.Args[0].String() + ")"
	case "next":
		return "range(" + t.Args[0].String() + ")#" + fmt.Sprint(t.Idx)
	case "slice":
		return t.Args[0].String() + "[:]"
	case "iface":
		return t.Args[0].String()
	case "assert":
		return t.Args[0].String() + ".(" + t.Name + ")"
	case "loop":
		return "loop"
	}
	return "?" + t.Op
}

func prepend(s string, a []string) []string {
	if len(a) == 0 {
		return nil
	}
	return append([]string{s}, a...)
}

func uniq(a []string) []string {
	out := a[:0]
	for i, s := range a {
		if i == 0 || s != a[i-1] {
			out = append(out, s)
		}
	}
	return out
}

// Walk visits t and all sub-terms.
func (t *Term) Walk(f func(*Term) bool) {
	if t == nil || !f(t) {
		return
	}
	for _, a := range t.Args {
		a.Walk(f)
	}
}

// Has reports whether some sub-term satisfies pred.
func (t *Term) Has(pred func(*Term) bool) bool {
	found := false
	t.Walk(func(x *Term) bool {
		if found {
			return false
		}
		if pred(x) {
			found = true
			return false
		}
		return true
	})
	return found
}

// Alternatives flattens nested phis into the list of possible origins.
func (t *Term) Alternatives() []*Term {
	if t == nil {
		return nil
	}
	if t.Op == "phi" {
		var out []*Term
		for _, a := range t.Args {
			out = append(out, a.Alternatives()...)
		}
		return out
	}
	if t.Op == "iface" {
		return t.Args[0].Alternatives()
	}
	return []*Term{t}
}

// Termer computes origin terms for the values of one function.
type Termer struct {
	Fn    *ssa.Function
	memo  map[ssa.Value]*Term
	stack map[ssa.Value]bool
	// Summaries, when non-nil, lets the caller substitute calls.
	MaxDepth int
	// At, when set, is the block at which the terms are used: phis are narrowed to the alternatives that are
	// feasible under the branch outcomes dominating At (correlated-phi narrowing, narrow.go).
	At *ssa.BasicBlock
	gs []Guard
	// c07cur: per gene list (keyed by the list's term), how the list's cursor variable relates to the index it
	// reads (robust_c07.go, c07CursorInfo); nil entries mean "the cursor is the index".
	c07cur map[string]*c07Cur
}

// NewTermerAt returns a Termer whose terms describe values as seen from block `at`.
func NewTermerAt(fn *ssa.Function, at *ssa.BasicBlock) *Termer {
	tm := NewTermer(fn)
	tm.At = at
	tm.gs = Guards(at)
	return tm
}

func NewTermer(fn *ssa.Function) *Termer {
	return &Termer{Fn: fn, memo: map[ssa.Value]*Term{}, stack: map[ssa.Value]bool{}, MaxDepth: 14}
}

func constTerm(c *ssa.Const) *Term {
	if c.Value == nil {
		// nil of pointer/slice/map/interface, or zero struct
		switch c.Type().Underlying().(type) {
		case *types.Pointer, *types.Slice, *types.Map, *types.Interface, *types.Signature, *types.Chan:
			return &Term{Op: "nil", V: c}
		}
		return &Term{Op: "const", Name: "zero", V: c}
	}
	s := c.Value.ExactString()
	if c.Value.Kind() == constant.Float {
		f, _ := constant.Float64Val(c.Value)
		s = fmt.Sprintf("%g", f)
	}
	if c.Value.Kind() == constant.String {
		s = c.Value.ExactString()
	}
	return &Term{Op: "const", Name: s, V: c}
}

func calleeName(c *ssa.CallCommon) (string, types.Object) {
	if c.IsInvoke() {
		return "iface." + c.Method.Name(), c.Method
	}
	switch f := c.Value.(type) {
	case *ssa.Function:
		name := f.Name()
		if f.Signature.Recv() != nil {
			rt := f.Signature.Recv().Type()
			if p, ok := rt.(*types.Pointer); ok {
				rt = p.Elem()
			}
			if n, ok := rt.(*types.Named); ok {
				name = n.Obj().Name() + "." + name
			}
		}
		if f.Pkg != nil && !strings.HasPrefix(f.Pkg.Pkg.Path(), Mod) {
			name = f.Pkg.Pkg.Name() + "." + name
		} else if f.Pkg == nil && f.Object() != nil && f.Object().Pkg() != nil && !strings.HasPrefix(f.Object().Pkg().Path(), Mod) {
			name = f.Object().Pkg().Name() + "." + name
		}
		return name, f.Object()
	case *ssa.Builtin:
		return f.Name(), nil
	case *ssa.MakeClosure:
		return "closure:" + f.Fn.Name(), nil
	}
	return "dyn", nil
}

// Of returns the origin term of v.
func (tm *Termer) Of(v ssa.Value) *Term { return tm.of(v, 0) }

func (tm *Termer) of(v ssa.Value, depth int) *Term {
	if v == nil {
		return &Term{Op: "unknown"}
	}
	if t, ok := tm.memo[v]; ok {
		return t
	}
	if tm.stack[v] || depth > tm.MaxDepth {
		return &Term{Op: "loop", V: v}
	}
	tm.stack[v] = true
	t := tm.compute(v, depth)
	delete(tm.stack, v)
	if t.V == nil {
		t.V = v
	}
	// do not memoise terms that were cut by the cycle guard
	if !t.Has(func(x *Term) bool { return x.Op == "loop" }) {
		tm.memo[v] = t
	}
	return t
}

func (tm *Termer) compute(v ssa.Value, d int) *Term {
	switch x := v.(type) {
	case *ssa.Parameter:
		for i, p := range tm.Fn.Params {
			if p == x {
				if i == 0 && tm.Fn.Signature.Recv() != nil {
					return &Term{Op: "recv", Name: x.Name(), Idx: 0}
				}
				return &Term{Op: "param", Name: x.Name(), Idx: i}
			}
		}
		// parameter of an enclosing function? (not possible in SSA: those are FreeVars)
		return &Term{Op: "param", Name: x.Name(), Idx: -1}
	case *ssa.FreeVar:
		return &Term{Op: "free", Name: x.Name()}
	case *ssa.Const:
		return constTerm(x)
	case *ssa.Global:
		return &Term{Op: "global", Name: x.Pkg.Pkg.Name() + "." + x.Name(), Obj: x.Object()}
	case *ssa.Function:
		return &Term{Op: "fn", Name: x.Name(), Obj: x.Object()}
	case *ssa.MakeClosure:
		return &Term{Op: "closure", Name: x.Fn.Name()}
	case *ssa.Alloc:
		// a local copy `t := xs[i]` whose address is taken: show what it holds
		var only ssa.Value
		nst := 0
		if x.Referrers() != nil {
			for _, ref := range *x.Referrers() {
				if st, ok := ref.(*ssa.Store); ok && st.Addr == x {
					nst++
					only = st.Val
				}
			}
		}
		if nst == 1 {
			if _, isStruct := deref(x.Type()).Underlying().(*types.Struct); isStruct {
				if _, isAlloc := only.(*ssa.Alloc); !isAlloc {
					return &Term{Op: "un", Name: "&", Args: []*Term{tm.of(only, d+1)}}
				}
			}
		}
		return &Term{Op: "new", Name: typeShort(deref(x.Type()))}
	case *ssa.MakeSlice:
		return &Term{Op: "make", Name: typeShort(x.Type()), Args: []*Term{tm.of(x.Len, d+1)}}
	case *ssa.MakeMap:
		return &Term{Op: "make", Name: typeShort(x.Type())}
	case *ssa.MakeChan:
		return &Term{Op: "make", Name: typeShort(x.Type())}
	case *ssa.MakeInterface:
		return &Term{Op: "iface", Args: []*Term{tm.of(x.X, d+1)}}
	case *ssa.ChangeInterface:
		return &Term{Op: "iface", Args: []*Term{tm.of(x.X, d+1)}}
	case *ssa.ChangeType:
		return tm.of(x.X, d+1)
	case *ssa.Convert:
		return &Term{Op: "conv", Name: typeShort(x.Type()), Args: []*Term{tm.of(x.X, d+1)}}
	case *ssa.TypeAssert:
		return &Term{Op: "assert", Name: typeShort(x.AssertedType), Args: []*Term{tm.of(x.X, d+1)}}
	case *ssa.Phi:
		t := &Term{Op: "phi"}
		var feas []bool
		if tm.At != nil {
			feas = FeasibleEdges(x, tm.gs)
			n, last := 0, -1
			for i, f := range feas {
				if f {
					n++
					last = i
				}
			}
			if n == 1 {
				return tm.of(x.Edges[last], d+1)
			}
			if n == 0 {
				feas = nil
			}
		}
		for i, e := range x.Edges {
			if feas != nil && !feas[i] {
				continue
			}
			// nil-refinement: on an edge that is only taken when e == nil the edge carries nil
			if i < len(x.Block().Preds) && edgeImpliesNil(x.Block().Preds[i], x.Block(), e) {
				t.Args = append(t.Args, &Term{Op: "nil", V: e})
				continue
			}
			t.Args = append(t.Args, tm.of(e, d+1))
		}
		return t
	case *ssa.BinOp:
		return &Term{Op: "bin", Name: x.Op.String(), Args: []*Term{tm.of(x.X, d+1), tm.of(x.Y, d+1)}}
	case *ssa.UnOp:
		if x.Op == token.MUL {
			return tm.load(x.X, d)
		}
		if x.Op == token.ARROW {
			return &Term{Op: "un", Name: "<-", Args: []*Term{tm.of(x.X, d+1)}}
		}
		return &Term{Op: "un", Name: x.Op.String(), Args: []*Term{tm.of(x.X, d+1)}}
	case *ssa.FieldAddr:
		// address of a field: rendered like the field path itself (used for store targets)
		fld := fieldOf(x.X.Type(), x.Field)
		return &Term{Op: "field", Name: fld.Name(), Obj: fld, Args: []*Term{tm.of(x.X, d+1)}}
	case *ssa.Field:
		fld := fieldOf(x.X.Type(), x.Field)
		return &Term{Op: "field", Name: fld.Name(), Obj: fld, Args: []*Term{tm.of(x.X, d+1)}}
	case *ssa.IndexAddr:
		return &Term{Op: "elem", Args: []*Term{tm.of(x.X, d+1), tm.of(x.Index, d+1)}}
	case *ssa.Index:
		return &Term{Op: "elem", Args: []*Term{tm.of(x.X, d+1), tm.of(x.Index, d+1)}}
	case *ssa.Lookup:
		return &Term{Op: "lookup", Args: []*Term{tm.of(x.X, d+1), tm.of(x.Index, d+1)}}
	case *ssa.Slice:
		return &Term{Op: "slice", Args: []*Term{tm.of(x.X, d+1)}}
	case *ssa.Extract:
		if nx, ok := x.Tuple.(*ssa.Next); ok {
			if rg, ok := nx.Iter.(*ssa.Range); ok {
				return &Term{Op: "next", Idx: x.Index, Args: []*Term{tm.of(rg.X, d+1)}}
			}
		}
		if lk, ok := x.Tuple.(*ssa.Lookup); ok && lk.CommaOk {
			if x.Index == 0 {
				return &Term{Op: "lookup", Args: []*Term{tm.of(lk.X, d+1), tm.of(lk.Index, d+1)}}
			}
			return &Term{Op: "call", Name: "has", Args: []*Term{tm.of(lk.X, d+1), tm.of(lk.Index, d+1)}}
		}
		if ta, ok := x.Tuple.(*ssa.TypeAssert); ok {
			if x.Index == 0 {
				return &Term{Op: "assert", Name: typeShort(ta.AssertedType), Args: []*Term{tm.of(ta.X, d+1)}}
			}
			return &Term{Op: "call", Name: "isType", Args: []*Term{tm.of(ta.X, d+1)}}
		}
		return &Term{Op: "extract", Idx: x.Index, Args: []*Term{tm.of(x.Tuple, d+1)}}
	case *ssa.Call:
		name, obj := calleeName(&x.Call)
		if name == "len" && len(x.Call.Args) == 1 {
			return &Term{Op: "len", Args: []*Term{tm.of(x.Call.Args[0], d+1)}}
		}
		t := &Term{Op: "call", Name: name, Obj: obj}
		if x.Call.IsInvoke() {
			t.Args = append(t.Args, tm.of(x.Call.Value, d+1))
		}
		for _, a := range x.Call.Args {
			t.Args = append(t.Args, tm.of(a, d+1))
		}
		return t
	case *ssa.Next, *ssa.Range:
		return &Term{Op: "unknown", Name: "iter"}
	}
	return &Term{Op: "unknown", Name: fmt.Sprintf("%T", v)}
}

// load computes the term of *addr.
func (tm *Termer) load(addr ssa.Value, d int) *Term {
	switch a := addr.(type) {
	case *ssa.FieldAddr:
		fld := fieldOf(a.X.Type(), a.Field)
		return &Term{Op: "field", Name: fld.Name(), Obj: fld, Args: []*Term{tm.of(a.X, d+1)}}
	case *ssa.IndexAddr:
		return &Term{Op: "elem", Args: []*Term{tm.of(a.X, d+1), tm.of(a.Index, d+1)}}
	case *ssa.Alloc:
		// a local variable kept in memory: union of everything stored to it
		t := &Term{Op: "phi"}
		for _, ref := range *a.Referrers() {
			if st, ok := ref.(*ssa.Store); ok && st.Addr == a {
				t.Args = append(t.Args, tm.of(st.Val, d+1))
			}
			// a closure that captured the variable may assign it as well
			if mc, ok := ref.(*ssa.MakeClosure); ok {
				if fn, ok := mc.Fn.(*ssa.Function); ok {
					for i, b := range mc.Bindings {
						if b == ssa.Value(a) && i < len(fn.FreeVars) && closureStores(fn, fn.FreeVars[i], 0) {
							t.Args = append(t.Args, &Term{Op: "unknown", Name: "assigned inside the closure " + fn.Name()})
						}
					}
				}
			}
		}
		if len(t.Args) == 0 {
			return &Term{Op: "const", Name: "zero"}
		}
		return t
	case *ssa.Global:
		return &Term{Op: "global", Name: a.Pkg.Pkg.Name() + "." + a.Name(), Obj: a.Object()}
	case *ssa.FreeVar:
		return &Term{Op: "free", Name: a.Name()}
	}
	return &Term{Op: "un", Name: "*", Args: []*Term{tm.of(addr, d+1)}}
}

// closureStores: does fn (or a closure nested in it that captures the same variable) store to free variable fv?
func closureStores(fn *ssa.Function, fv *ssa.FreeVar, depth int) bool {
	if depth > 4 {
		return true
	}
	for _, ref := range *fv.Referrers() {
		switch x := ref.(type) {
		case *ssa.Store:
			if x.Addr == ssa.Value(fv) {
				return true
			}
		case *ssa.MakeClosure:
			if inner, ok := x.Fn.(*ssa.Function); ok {
				for i, b := range x.Bindings {
					if b == ssa.Value(fv) && i < len(inner.FreeVars) && closureStores(inner, inner.FreeVars[i], depth+1) {
						return true
					}
				}
			}
		case *ssa.UnOp:
			// a load
		default:
			return true // the address goes somewhere else
		}
	}
	return false
}

func deref(t types.Type) types.Type {
	if p, ok := t.Underlying().(*types.Pointer); ok {
		return p.Elem()
	}
	return t
}

func fieldOf(t types.Type, idx int) *types.Var {
	t = deref(t)
	st, ok := t.Underlying().(*types.Struct)
	if !ok {
		return types.NewVar(token.NoPos, nil, "?", types.Typ[types.Invalid])
	}
	return st.Field(idx)
}

func typeShort(t types.Type) string {
	return types.TypeString(t, func(p *types.Package) string { return p.Name() })
}

// IsField reports whether t is a load of the given field.
func (t *Term) IsField(f *types.Var) bool { return t != nil && t.Op == "field" && t.Obj == f }

// FieldPath returns e.g. ["Link","InNode","Id"] and the base term for a chain of field loads.
func (t *Term) FieldPath() (base *Term, path []string) {
	for t != nil && t.Op == "field" {
		path = append([]string{t.Name}, path...)
		t = t.Args[0]
	}
	return t, path
}

// Root returns the innermost base of field/elem/lookup/slice chains.
func (t *Term) Root() *Term {
	for t != nil {
		switch t.Op {
		case "field", "elem", "lookup", "slice", "iface", "conv":
			t = t.Args[0]
			continue
		case "un":
			if t.Name == "*" {
				t = t.Args[0]
				continue
			}
		}
		break
	}
	return t
}

// edgeImpliesNil reports whether the CFG edge pred->blk is taken only when v
// is nil: pred ends in `if v != nil` / `if v == nil` and blk is on the nil
// side, or a dominating guard of pred already established it.
func edgeImpliesNil(pred, blk *ssa.BasicBlock, v ssa.Value) bool {
	if _, isConst := v.(*ssa.Const); isConst {
		return false
	}
	isNilTest := func(cond ssa.Value) (eq bool, ok bool) {
		b, isBin := cond.(*ssa.BinOp)
		if !isBin || (b.Op != token.EQL && b.Op != token.NEQ) {
			return false, false
		}
		var other ssa.Value
		if b.X == v {
			other = b.Y
		} else if b.Y == v {
			other = b.X
		} else {
			return false, false
		}
		c, isC := other.(*ssa.Const)
		if !isC || c.Value != nil {
			return false, false
		}
		switch c.Type().Underlying().(type) {
		case *types.Pointer, *types.Interface, *types.Slice, *types.Map, *types.Signature:
		default:
			return false, false
		}
		return b.Op == token.EQL, true
	}
	if iff, ok := pred.Instrs[len(pred.Instrs)-1].(*ssa.If); ok && pred.Succs[0] != pred.Succs[1] {
		if eq, ok := isNilTest(iff.Cond); ok {
			takenTrue := pred.Succs[0] == blk
			if eq == takenTrue {
				return true
			}
		}
	}
	for _, g := range Guards(pred) {
		if eq, ok := isNilTest(g.Cond); ok && eq == g.True {
			return true
		}
	}
	return false
}
