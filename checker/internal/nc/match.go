package nc

import (
	"fmt"
	"go/types"
	"sort"
	"strings"

	"golang.org/x/tools/go/ssa"
)

// isParamRoot: t is the receiver or parameter with SSA index idx.
func isParamIdx(t *Term, idx int) bool {
	if t == nil {
		return false
	}
	if idx == 0 && t.Op == "recv" {
		return true
	}
	return t.Op == "param" && t.Idx == idx
}

// sameElem: two element terms over the same slice and the same index value.
func sameElem(a, b *Term) bool {
	if a == nil || b == nil || a.Op != "elem" || b.Op != "elem" {
		return false
	}
	if a.Args[0].String() != b.Args[0].String() {
		return false
	}
	if len(a.Args) < 2 || len(b.Args) < 2 {
		return false
	}
	return a.Args[1].V != nil && a.Args[1].V == b.Args[1].V
}

// fieldOfTerm: t == base.<f> (string-equal base)
func isFieldOfBase(t *Term, f *types.Var, base *Term) bool {
	return t != nil && t.Op == "field" && t.Obj == f && t.Args[0].String() == base.String()
}

// isPointerLike reports whether values of type t can alias mutable state.
func isPointerLike(t types.Type) bool {
	switch t.Underlying().(type) {
	case *types.Pointer, *types.Slice, *types.Map, *types.Chan, *types.Interface, *types.Signature:
		return true
	}
	return false
}

// isFreshTerm: the value is created here (allocation, make, or call of a
// function whose constructor summary is fresh).
func (s *Summaries) isFreshTerm(t *Term) bool {
	switch t.Op {
	case "new", "make", "nil":
		return true
	case "const":
		return true
	case "slice":
		return s.isFreshTerm(t.Args[0])
	case "call":
		if t.Name == "append" && len(t.Args) > 0 {
			return s.isFreshTerm(t.Args[0])
		}
		if c, ok := t.V.(*ssa.Call); ok {
			if callee := c.Call.StaticCallee(); callee != nil {
				sm := s.Ctor(callee)
				return sm.Why == "" && sm.Fresh
			}
		}
	case "extract":
		return false
	}
	return false
}

// TransitiveFieldWrites: all (struct field) stores reachable from fn through
// repository functions, keyed "Type.field".
func (p *Prog) TransitiveFieldWrites(fn *ssa.Function) map[string][]Effect {
	out := map[string][]Effect{}
	re := p.Reachable([]*ssa.Function{fn}, nil)
	for _, f := range re.RepoFuncs() {
		for _, e := range Writes(f) {
			switch e.Kind {
			case "field":
				name := "?"
				if e.Owner != nil {
					name = e.Owner.Obj().Name()
				}
				k := name + "." + e.Field.Name()
				out[k] = append(out[k], e)
			case "elem":
				if f := ElemOwner(e); f != nil {
					k := "elem:" + f.Name()
					out[k] = append(out[k], e)
				}
			}
		}
	}
	return out
}

func sortedKeys[V any](m map[string]V) []string {
	var ks []string
	for k := range m {
		ks = append(ks, k)
	}
	sort.Strings(ks)
	return ks
}

// storesToFieldAnywhere counts the stores to a field in all repository source functions.
func (p *Prog) storesToFieldAnywhere(f *types.Var) []string {
	var out []string
	for _, fn := range p.SrcFuncs() {
		for _, st := range FieldStores(fn, f) {
			out = append(out, fmt.Sprintf("%s at %s", FuncName(fn), p.Pos(st.Pos())))
		}
	}
	return out
}

func joinTerms(ts []*Term) string {
	var a []string
	for _, t := range ts {
		a = append(a, t.String())
	}
	return strings.Join(a, " | ")
}

// callTo: t is a call whose static callee is fn.
func isCallTo(t *Term, fn *ssa.Function) bool {
	if t == nil || t.Op != "call" {
		return false
	}
	c, ok := t.V.(*ssa.Call)
	return ok && c.Call.StaticCallee() == fn
}

// elemStoresInto lists stores `X[i] = v` where X is the given slice value.
func elemStoresInto(fn *ssa.Function, slice ssa.Value) []*ssa.Store {
	var out []*ssa.Store
	Instrs(fn, func(_ *ssa.BasicBlock, _ int, in ssa.Instruction) {
		if st, ok := in.(*ssa.Store); ok {
			if ia, ok := st.Addr.(*ssa.IndexAddr); ok && ia.X == slice {
				out = append(out, st)
			}
		}
	})
	return out
}
